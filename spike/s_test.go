package spike
import ("testing"; "github.com/dapr/kit/concurrency/fifo")
func TestX(t *testing.T) { m := fifo.New(); m.Lock(); m.Unlock() }
