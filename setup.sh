#!/bin/bash
# Build the framework from files on disk only (offline) and warm the build cache.
set -e
cd "$(dirname "$0")"
export GOFLAGS=-mod=mod GOPROXY=off GOSUMDB=off GOTOOLCHAIN=local
export VERIF_ROOT="$(pwd)"
mkdir -p bin evidence replays
go build -o bin/mcgen ./mcgen
go build -o bin/check ./cmd/check
go test -count=1 ./mc
# compile every harness once (with its mcgen overlay) so that the first check
# does not pay for a cold build cache
ids=$(cat harness/*/spec.json checks/*/spec.json 2>/dev/null | grep -o '"id": *"[A-Z0-9]*"' | grep -o 'C[0-9]*' | sort -u)
for id in $ids; do
  bin/check "$id" --build-only || { echo "setup: building $id failed"; exit 1; }
done
echo setup ok
