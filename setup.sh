#!/bin/bash
# Build the framework from files on disk only (offline) and warm the build cache.
set -e
cd "$(dirname "$0")"
export GOFLAGS=-mod=mod GOPROXY=off GOSUMDB=off GOTOOLCHAIN=local
export VERIF_ROOT="$(pwd)"
mkdir -p bin evidence replays
go build -o bin/mcgen ./mcgen
go build -o bin/check ./cmd/check
go test -count=1 ./mc
# conformance of mcgen + the model runtime with the real Go runtime (DESIGN 2.7 / 8.2)
LITMUS_N=300 litmus/run.sh
# compile every harness once (with its mcgen overlay) so that the first check
# does not pay for a cold build cache
ids=$(python3 -c "import json;print(' '.join(c['property_id'] for c in json.load(open('MANIFEST.json'))['checks']))")
for id in $ids; do
  bin/check "$id" --build-only || { echo "setup: building $id failed"; exit 1; }
done
echo setup ok
