#!/bin/bash
# Build the framework from files on disk only (offline) and warm the build cache.
set -e
cd "$(dirname "$0")"
export GOFLAGS=-mod=mod GOPROXY=off GOSUMDB=off GOTOOLCHAIN=local
mkdir -p bin evidence replays
go build -o bin/mcgen ./mcgen
go build -o bin/check ./cmd/check
go vet ./mc >/dev/null
go test -count=1 ./mc
# warm the cache for every harness / check package (compile only)
for d in harness/* checks/*; do
  [ -f "$d/spec.json" ] || continue
  go test -c -vet=off -tags unit -o /dev/null "./$d" 2>/dev/null || true
done
echo setup ok
