module verif

go 1.23.1

require (
	github.com/dapr/kit v0.0.0
	golang.org/x/tools v0.21.1-0.20240508182429-e35e4ccd0d2d
)

require (
	golang.org/x/mod v0.17.0 // indirect
	golang.org/x/sync v0.7.0 // indirect
)

replace github.com/dapr/kit => /repo
