module verif

go 1.23.1

require (
	github.com/dapr/kit v0.0.0
	github.com/lestrrat-go/jwx/v2 v2.0.21
	golang.org/x/crypto v0.24.0
	golang.org/x/tools v0.21.1-0.20240508182429-e35e4ccd0d2d
)

require (
	github.com/lestrrat-go/blackmagic v1.0.2 // indirect
	github.com/lestrrat-go/httpcc v1.0.1 // indirect
	github.com/lestrrat-go/httprc v1.0.5 // indirect
	github.com/lestrrat-go/iter v1.0.2 // indirect
	github.com/lestrrat-go/option v1.0.1 // indirect
	github.com/sirupsen/logrus v1.9.3 // indirect
	github.com/tidwall/transform v0.0.0-20201103190739-32f242e2dbde // indirect
	golang.org/x/mod v0.17.0 // indirect
	golang.org/x/sync v0.7.0 // indirect
	golang.org/x/sys v0.21.0 // indirect
	k8s.io/utils v0.0.0-20230726121419-3b25d923346b // indirect
)

replace github.com/dapr/kit => /repo
