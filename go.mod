module verif

go 1.23.1

require github.com/dapr/kit v0.0.0

replace github.com/dapr/kit => /repo
