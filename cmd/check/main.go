// check is the single entry point registered in MANIFEST.json:
//
//	check <ID> --tier quick|thorough [--replay file]
//
// For properties decided by the mc explorer it regenerates the instrumented
// copy of the packages from /repo's working tree (mcgen + overlay, scratch
// directory removed on exit), builds the harness, runs scenario chunks on all
// cores, merges the results into /verif/evidence/<ID>.json and prints
// VIOLATION / KNOWN-FINDING lines. Exit 0 = held on everything explored,
// 1 = violation, 2 = the machinery itself failed.
package main

import (
	"bytes"
	"context"
	"encoding/json"
	"fmt"
	"os"
	"os/exec"
	"os/signal"
	"path/filepath"
	"runtime"
	"sort"
	"strings"
	"sync"
	"syscall"
	"time"

	"verif/evid"
	"verif/hx"
)

// spec is loaded from <harness dir>/spec.json.
type spec struct {
	ID    string  `json:"id"`
	Level string  `json:"level"`
	Parts []*part `json:"parts"`
}

type part struct {
	Name            string   `json:"name"`
	Kind            string   `json:"kind"`     // "mc" or "enum"
	Pkgs            []string `json:"pkgs"`     // kit packages to instrument with mcgen
	GenArgs         []string `json:"gen_args"` // extra mcgen flags ({dir} = harness directory)
	Harness         string   `json:"harness"`  // harness package directory relative to /verif
	QuickBudgetS    int      `json:"quick_budget_s"`
	ThoroughBudgetS int      `json:"thorough_budget_s"`
	Assumptions     []string `json:"assumptions"`
	Rule            string   `json:"rule"`
	// BuildFlags are extra `go test -c` flags (e.g. "-race").
	BuildFlags []string `json:"build_flags"`
	// Args are extra arguments for the part's test binary (enum parts).
	Args []string `json:"args"`
	// Supplementary parts add evidence but are not the deciding step: they do
	// not enter the summed counts nor the exhaustive flag.
	Supplementary bool   `json:"supplementary"`
	ID            string `json:"-"`
}

// PartResult is what every part contributes to the evidence file.
type PartResult struct {
	Name          string         `json:"name"`
	Coverage      map[string]any `json:"coverage"`
	Findings      []evid.Finding `json:"findings"`
	Assumptions   []string       `json:"assumptions"`
	Supplementary bool           `json:"-"`
}

const kit = "github.com/dapr/kit/"

func loadSpec(root, id string) *spec {
	var found *spec
	for _, pat := range []string{"harness/*/spec.json", "checks/*/spec.json"} {
		ms, _ := filepath.Glob(filepath.Join(root, pat))
		for _, m := range ms {
			b, err := os.ReadFile(m)
			if err != nil {
				continue
			}
			var sp spec
			if err := json.Unmarshal(b, &sp); err != nil {
				fatal("%s: %v", m, err)
			}
			if sp.ID != id {
				continue
			}
			rel, _ := filepath.Rel(root, filepath.Dir(m))
			for _, p := range sp.Parts {
				if p.Harness == "" {
					p.Harness = rel
				}
				p.ID = id
			}
			if found == nil {
				found = &sp
			} else {
				found.Parts = append(found.Parts, sp.Parts...)
			}
		}
	}
	return found
}

func env() []string {
	e := os.Environ()
	e = append(e, "GOFLAGS=-mod=mod", "GOPROXY=off", "GOSUMDB=off", "GOTOOLCHAIN=local",
		// packages of the module cache are otherwise read through the module index,
		// which ignores the build overlay (instrumented dependencies of kit)
		"GODEBUG=goindex=0")
	return e
}

func run(dir string, extraEnv []string, name string, args ...string) ([]byte, error) {
	cmd := exec.Command(name, args...)
	cmd.Dir = dir
	cmd.Env = append(env(), extraEnv...)
	return cmd.CombinedOutput()
}

// runFor is run with a hard time limit (the process is killed when it passes).
func runFor(limit time.Duration, dir string, extraEnv []string, name string, args ...string) ([]byte, error) {
	ctx, cancel := context.WithTimeout(context.Background(), limit)
	defer cancel()
	cmd := exec.CommandContext(ctx, name, args...)
	cmd.Dir = dir
	cmd.Env = append(env(), extraEnv...)
	var buf bytes.Buffer
	cmd.Stdout, cmd.Stderr = &buf, &buf
	err := cmd.Start()
	if err == nil {
		track(cmd.Process)
		err = cmd.Wait()
		untrack(cmd.Process)
	}
	out := buf.Bytes()
	if ctx.Err() != nil {
		err = fmt.Errorf("killed after %v: %w", limit, err)
	}
	return out, err
}

var scratchDir string

// children are the worker processes alive right now: an interrupted driver
// takes them with it (they would otherwise run on to the end of their budget).
var (
	childMu  sync.Mutex
	children = map[*os.Process]bool{}
)

func track(p *os.Process)   { childMu.Lock(); children[p] = true; childMu.Unlock() }
func untrack(p *os.Process) { childMu.Lock(); delete(children, p); childMu.Unlock() }
func killChildren() {
	childMu.Lock()
	for p := range children {
		p.Kill()
	}
	childMu.Unlock()
}

func fatal(format string, a ...any) {
	fmt.Fprintf(os.Stderr, "check: "+format+"\n", a...)
	if scratchDir != "" {
		os.RemoveAll(scratchDir)
	}
	os.Exit(2)
}

func main() {
	defer func() {
		if e := recover(); e != nil {
			if be, ok := e.(buildError); ok {
				fatal("%s", string(be))
			}
			panic(e)
		}
	}()
	if len(os.Args) < 2 {
		fatal("usage: check <ID> --tier quick|thorough [--replay file]")
	}
	id := os.Args[1]
	tier := os.Getenv("VERIF_TIER")
	if tier == "" {
		tier = "quick"
	}
	replay := ""
	buildOnly := false
	onlyPart := ""
	var passthru []string
	for i := 2; i < len(os.Args); i++ {
		switch os.Args[i] {
		case "--tier", "-tier":
			i++
			tier = os.Args[i]
		case "--replay", "-replay":
			i++
			replay = os.Args[i]
		case "--build-only":
			buildOnly = true
		case "--part":
			// development aid: run one part only (the evidence written is then partial;
			// no registered command uses it)
			i++
			onlyPart = os.Args[i]
		default:
			passthru = append(passthru, os.Args[i])
		}
	}
	root := evid.Root()
	s := loadSpec(root, id)
	if s == nil {
		fatal("unknown property %q (no spec.json declares it)", id)
	}
	if onlyPart != "" {
		kept := s.Parts[:0]
		for _, p := range s.Parts {
			if p.Name == onlyPart {
				kept = append(kept, p)
			}
		}
		if len(kept) == 0 {
			fatal("property %s has no part %q", id, onlyPart)
		}
		s.Parts = kept
	}
	scratch, err := os.MkdirTemp("", "verif-"+id+"-")
	if err != nil {
		fatal("%v", err)
	}
	scratchDir = scratch
	defer os.RemoveAll(scratch)
	// an interrupted run (terminal closed, output pipe closed by `| head`, a
	// timeout's SIGTERM) must not leave its scratch directory behind
	sigc := make(chan os.Signal, 1)
	signal.Notify(sigc, syscall.SIGINT, syscall.SIGTERM, syscall.SIGHUP, syscall.SIGPIPE)
	go func() {
		<-sigc
		killChildren()
		os.RemoveAll(scratch)
		os.Exit(3)
	}()
	start := time.Now()
	if buildOnly {
		// compile every part once so that the build cache is warm
		for i, p := range s.Parts {
			sub := filepath.Join(scratch, fmt.Sprintf("b%d", i))
			os.MkdirAll(sub, 0o755)
			buildHarness(p, root, sub)
			os.RemoveAll(sub)
		}
		os.RemoveAll(scratch)
		os.Exit(0)
	}
	if replay != "" {
		code := 2
		name := replayPart(replay)
		for _, p := range s.Parts {
			if len(s.Parts) > 1 && name != "" && p.Name != name {
				continue
			}
			if p.Kind == "mc" {
				code = replayMC(p, root, scratch, tier, replay)
			} else {
				code = replayEnum(p, root, scratch, tier, replay)
			}
			break
		}
		os.RemoveAll(scratch)
		os.Exit(code)
	}
	var parts []*PartResult
	var unbuilt []string
	for i, p := range s.Parts {
		sub := filepath.Join(scratch, fmt.Sprintf("p%d", i))
		os.MkdirAll(sub, 0o755)
		var pr *PartResult
		func() {
			defer func() {
				if e := recover(); e != nil {
					be, ok := e.(buildError)
					if !ok {
						panic(e)
					}
					fmt.Fprintf(os.Stderr, "check: part %s/%s could not be built against this tree:\n%s\n", id, p.Name, string(be))
					unbuilt = append(unbuilt, p.Name)
					pr = nil
				}
			}()
			if p.Kind == "mc" {
				pr = runMC(p, root, sub, tier, passthru)
			} else {
				pr = runEnum(p, root, sub, tier, passthru)
			}
		}()
		if pr == nil {
			os.RemoveAll(sub)
			continue
		}
		pr.Name = p.Name
		pr.Supplementary = p.Supplementary
		parts = append(parts, pr)
		os.RemoveAll(sub)
	}
	code := finish(s, tier, parts, time.Since(start))
	if len(unbuilt) > 0 && code == 0 {
		fmt.Fprintf(os.Stderr, "check: part(s) %v could not be built against this tree: the property is NOT decided (machinery failure, exit 2)\n", unbuilt)
		code = 2
	}
	os.RemoveAll(scratch)
	os.Exit(code)
}

func replayPart(path string) string {
	b, err := os.ReadFile(path)
	if err != nil {
		fatal("%v", err)
	}
	var x struct {
		Part string `json:"part"`
	}
	json.Unmarshal(b, &x)
	return x.Part
}

func num(v any) (float64, bool) {
	switch x := v.(type) {
	case float64:
		return x, true
	case int:
		return float64(x), true
	case int64:
		return float64(x), true
	}
	return 0, false
}

// finish merges the parts into the evidence file and reports findings.
func finish(s *spec, tier string, parts []*PartResult, wall time.Duration) int {
	cov := map[string]any{}
	sumKeys := []string{"states", "transitions", "traces_validated_against_impl", "evaluations", "distinct_nontrivial"}
	sums := map[string]float64{}
	present := map[string]bool{}
	exhaustive := true
	var samples []any
	var rules []string
	var assumptions []string
	var findings []evid.Finding
	perPart := map[string]any{}
	for _, p := range parts {
		if p.Supplementary {
			findings = append(findings, p.Findings...)
			if p.Coverage != nil {
				p.Coverage["exhaustive"] = false // a sampling pass: finishing its rounds decides nothing
			}
			perPart[p.Name+" (supplementary)"] = p.Coverage
			continue
		}
		for _, k := range sumKeys {
			if v, ok := num(p.Coverage[k]); ok {
				sums[k] += v
				present[k] = true
			}
		}
		if e, ok := p.Coverage["exhaustive"].(bool); !ok || !e {
			exhaustive = false
		}
		if ss, ok := p.Coverage["samples"].([]any); ok {
			for _, x := range ss {
				if len(samples) < 12 {
					samples = append(samples, x)
				}
			}
		}
		if r, ok := p.Coverage["rule"].(string); ok {
			if len(parts) > 1 {
				r = "[" + p.Name + "] " + r
			}
			rules = append(rules, r)
		}
		for _, a := range p.Assumptions {
			dup := false
			for _, b := range assumptions {
				dup = dup || a == b
			}
			if !dup {
				assumptions = append(assumptions, a)
			}
		}
		findings = append(findings, p.Findings...)
		perPart[p.Name] = p.Coverage
	}
	for k := range present {
		cov[k] = int64(sums[k])
	}
	nmain := 0
	for _, p := range parts {
		if !p.Supplementary {
			nmain++
		}
	}
	if len(parts) == 1 {
		for k, v := range parts[0].Coverage {
			cov[k] = v
		}
	} else {
		cov["parts"] = perPart
	}
	if s.Level == "model_checking" {
		// the level's own keys must all be present; an enumeration part counts
		// each evaluated case as one explored state / validated trace
		if !present["states"] {
			cov["states"] = int64(sums["evaluations"])
		} else if present["evaluations"] {
			cov["states"] = int64(sums["states"])
		}
		if !present["transitions"] {
			cov["transitions"] = int64(sums["evaluations"])
		}
		if !present["traces_validated_against_impl"] {
			cov["traces_validated_against_impl"] = int64(sums["evaluations"])
		}
	}
	if len(samples) == 0 {
		samples = []any{"(no samples reported)"}
	}
	cov["samples"] = samples
	cov["rule"] = strings.Join(rules, " || ")
	cov["exhaustive"] = exhaustive
	sort.SliceStable(findings, func(i, j int) bool { return findings[i].Replay < findings[j].Replay })
	exit, unknown := evid.Report(s.ID, findings)
	cov["known_findings_reobserved"] = len(findings) - unknown
	ev := &evid.Evidence{PropertyID: s.ID, Tier: tier, Seed: evid.Seed(), Level: s.Level, Coverage: cov, Assumptions: assumptions, WallS: wall.Seconds(), Violations: unknown}
	if err := evid.Write(ev); err != nil {
		fatal("%v", err)
	}
	fmt.Printf("check %s tier=%s parts=%d exhaustive_within_bounds=%v violations=%d wall=%.1fs\n", s.ID, tier, len(parts), exhaustive, unknown, wall.Seconds())
	return exit
}

// repoDir is the tree the checks verify: /repo, or $VERIF_REPO (a scratch
// worktree carrying a candidate change) — in that case every file that differs
// from /repo is mapped through the build overlay, so /repo itself stays
// untouched while a change is being evaluated.
// buildError is raised when a part cannot be built against the tree under
// test (e.g. an in-package accessor no longer compiles after a refactoring of
// private state). The other parts still run; the check then exits 2 unless
// some part found a violation.
type buildError string

func repoDir() string {
	if r := os.Getenv("VERIF_REPO"); r != "" {
		return filepath.Clean(r)
	}
	return "/repo"
}

func altRepoOverlay(alt string) map[string]string {
	ov := map[string]string{}
	filepath.Walk(alt, func(path string, info os.FileInfo, err error) error {
		if err != nil {
			return nil
		}
		if info.IsDir() {
			if info.Name() == ".git" {
				return filepath.SkipDir
			}
			return nil
		}
		if !strings.HasSuffix(path, ".go") && !strings.HasSuffix(path, "go.mod") {
			return nil
		}
		rel, _ := filepath.Rel(alt, path)
		orig := filepath.Join("/repo", rel)
		a, _ := os.ReadFile(path)
		b, err2 := os.ReadFile(orig)
		if err2 != nil || string(a) != string(b) {
			ov[orig] = path
		}
		return nil
	})
	return ov
}

func buildHarness(s *part, root, scratch string) string {
	bin := filepath.Join(scratch, "harness.test")
	args := []string{"test", "-c", "-vet=off", "-tags", "unit", "-o", bin}
	args = append(args, s.BuildFlags...)
	overlay := map[string]string{}
	repo := repoDir()
	if repo != "/repo" {
		overlay = altRepoOverlay(repo)
	}
	if len(s.Pkgs) > 0 {
		gen := filepath.Join(root, "bin", "mcgen")
		if _, err := os.Stat(gen); err != nil {
			if out, err := run(root, nil, "go", "build", "-o", gen, "./mcgen"); err != nil {
				fatal("build mcgen: %v\n%s", err, out)
			}
		}
		gargs := []string{"-out", filepath.Join(scratch, "gen"), "-repo", repo}
		for _, a := range s.GenArgs {
			gargs = append(gargs, strings.ReplaceAll(a, "{dir}", filepath.Join(root, s.Harness)))
		}
		for _, p := range s.Pkgs {
			if strings.Contains(strings.SplitN(p, "/", 2)[0], ".") {
				gargs = append(gargs, p) // a dependency of kit, by its full import path
			} else {
				gargs = append(gargs, kit+p)
			}
		}
		if out, err := run(root, nil, gen, gargs...); err != nil {
			panic(buildError(fmt.Sprintf("mcgen failed (the instrumented copy could not be produced from the working tree):\n%s", out)))
		}
		b, err := os.ReadFile(filepath.Join(scratch, "gen", "overlay.json"))
		if err != nil {
			fatal("%v", err)
		}
		var g struct{ Replace map[string]string }
		if err := json.Unmarshal(b, &g); err != nil {
			fatal("%v", err)
		}
		for k, v := range g.Replace {
			if repo != "/repo" && strings.HasPrefix(k, repo+"/") {
				k = "/repo/" + strings.TrimPrefix(k, repo+"/")
			}
			overlay[k] = v
		}
	}
	if len(overlay) > 0 {
		ob, _ := json.Marshal(map[string]any{"Replace": overlay})
		of := filepath.Join(scratch, "overlay.json")
		os.WriteFile(of, ob, 0o644)
		args = append(args, "-overlay", of)
	}
	args = append(args, "./"+s.Harness)
	if out, err := run(root, nil, "go", args...); err != nil {
		panic(buildError(fmt.Sprintf("harness build failed:\n%s", out)))
	}
	return bin
}

func replayMC(s *part, root, scratch, tier, replay string) int {
	bin := buildHarness(s, root, scratch)
	cmd := exec.Command(bin, "-test.run", "^TestMC$", "-tier", tierOfReplay(replay, tier), "-replay", replay)
	cmd.SysProcAttr = &syscall.SysProcAttr{Pdeathsig: syscall.SIGKILL}
	cmd.Stdout, cmd.Stderr = os.Stdout, os.Stderr
	cmd.Env = env()
	if err := cmd.Run(); err != nil {
		return 1
	}
	return 0
}

func runMC(s *part, root, scratch, tier string, passthru []string) *PartResult {
	start := time.Now()
	bin := buildHarness(s, root, scratch)
	out, err := run(root, nil, bin, "-test.run", "^TestMC$", "-tier", tier, "-list")
	if err != nil {
		// the harness refused this tree (e.g. a scaling constant it rewrites is
		// gone): this part cannot decide anything, the other parts still run
		panic(buildError(fmt.Sprintf("the harness cannot be set up against this tree (listing scenarios: %v):\n%s", err, tail(out))))
	}
	total := 0
	for _, l := range strings.Split(string(out), "\n") {
		if strings.HasPrefix(l, "SCENARIOS ") {
			fmt.Sscanf(l, "SCENARIOS %d", &total)
		}
	}
	if total == 0 {
		fatal("harness lists no scenarios:\n%s", out)
	}
	budget := time.Duration(s.QuickBudgetS) * time.Second
	if tier == "thorough" {
		budget = time.Duration(s.ThoroughBudgetS) * time.Second
	}
	if budget == 0 {
		budget = 100 * time.Second
		if tier == "thorough" {
			budget = 20 * time.Minute
		}
	}
	deadline := start.Add(budget)
	workers := runtime.NumCPU()
	// soft per-scenario budget for optional deeper levels (iterative deepening)
	soft := time.Duration(float64(budget) * 0.7 * float64(workers) / float64(total))
	if soft > budget/3 {
		soft = budget / 3 // few scenarios: optional levels must still end before the part's deadline
	}
	results, notStarted := runJobs(bin, root, scratch, tier, nil, total, workers, deadline, soft, passthru)
	// Beyond the quick set: with budget left, the quick tier goes on with the
	// scenarios reserved for the thorough tier (at their required bound only, in
	// their listed order). They never enter the exhaustive flag; a violation
	// found there is a violation.
	var bonus []hx.ShardResult
	bonusTotal := 0
	if tier == "quick" && notStarted == 0 && time.Until(deadline) > 20*time.Second {
		out, err := run(root, nil, bin, "-test.run", "^TestMC$", "-tier", tier, "-bonus", "-list")
		if err == nil {
			for _, l := range strings.Split(string(out), "\n") {
				if strings.HasPrefix(l, "SCENARIOS ") {
					fmt.Sscanf(l, "SCENARIOS %d", &bonusTotal)
				}
			}
		}
		if bonusTotal > 0 {
			bd := deadline
			extra := budget / 2
			if extra > time.Minute {
				extra = time.Minute
			}
			if half := time.Now().Add(extra); half.Before(bd) {
				bd = half
			}
			bonus, _ = runJobs(bin, root, scratch, tier, []string{"-bonus"}, bonusTotal, workers, bd, 0, passthru)
		}
	}
	return mergeMC(s, root, tier, results, total, notStarted, time.Since(start), bonus, bonusTotal)
}

// findingKey refines a scenario class by the kind of failure: a panic inside
// the code under test, or an oracle message that names its own sub-key as
// "[key=...] ...".
func findingKey(class, msg string) string {
	if strings.HasPrefix(msg, "[key=") {
		if i := strings.Index(msg, "]"); i > 0 {
			return class + "/" + msg[5:i]
		}
	}
	if strings.HasPrefix(msg, "panic in thread ") {
		if i := strings.Index(msg, ": "); i > 0 {
			m := msg[i+2:]
			if j := strings.Index(m, "\n"); j > 0 {
				m = m[:j]
			}
			return class + "/panic:" + strings.ReplaceAll(m, " ", "_")
		}
	}
	return class
}

func tierOfReplay(path, def string) string {
	b, err := os.ReadFile(path)
	if err != nil {
		return def
	}
	var rf hx.ReplayFile
	if json.Unmarshal(b, &rf) == nil && rf.Tier != "" {
		return rf.Tier
	}
	return def
}

func tail(b []byte) string {
	s := string(b)
	if len(s) > 4000 {
		s = s[len(s)-4000:]
	}
	return s
}

// runJobs spreads the scenario index range [0,total) over worker processes.
func runJobs(bin, root, scratch, tier string, extra []string, total, workers int, deadline time.Time, soft time.Duration, passthru []string) ([]hx.ShardResult, int) {
	chunk := total / (workers * 6)
	if chunk < 1 {
		chunk = 1
	}
	type job struct{ lo, hi int }
	jobs := make(chan job, total)
	for lo := 0; lo < total; lo += chunk {
		hi := lo + chunk
		if hi > total {
			hi = total
		}
		jobs <- job{lo, hi}
	}
	close(jobs)
	var mu sync.Mutex
	var results []hx.ShardResult
	var machineryErr []string
	notStarted := 0
	var wg sync.WaitGroup
	for w := 0; w < workers; w++ {
		wg.Add(1)
		go func(w int) {
			defer wg.Done()
			for j := range jobs {
				left := time.Until(deadline)
				if left <= 0 {
					mu.Lock()
					notStarted += j.hi - j.lo
					mu.Unlock()
					continue
				}
				of := filepath.Join(scratch, fmt.Sprintf("r%d-%d-%d.json", len(extra), j.lo, j.hi))
				args := append([]string{"-test.run", "^TestMC$", "-test.timeout", "0", "-tier", tier, "-range", fmt.Sprintf("%d:%d", j.lo, j.hi), "-out", of, "-deadline", left.String(), "-soft", soft.String()}, append(append([]string{}, extra...), passthru...)...)
				// (a worker keeps to its deadline by itself; one still running five
				// minutes after it is stuck in a real blocking call and is killed)
				o, err := runFor(left+5*time.Minute, root, []string{"GOMAXPROCS=2"}, bin, args...)
				var sr hx.ShardResult
				b, rerr := os.ReadFile(of)
				if rerr == nil {
					rerr = json.Unmarshal(b, &sr)
				}
				mu.Lock()
				if rerr != nil {
					machineryErr = append(machineryErr, fmt.Sprintf("chunk %d:%d: %v %v\n%s", j.lo, j.hi, err, rerr, tail(o)))
				} else {
					results = append(results, sr)
				}
				mu.Unlock()
				os.Remove(of)
			}
		}(w)
	}
	wg.Wait()
	if len(machineryErr) > 0 {
		sort.Strings(machineryErr)
		fatal("harness process failed:\n%s", strings.Join(machineryErr, "\n"))
	}
	return results, notStarted
}

func mergeMC(s *part, root, tier string, results []hx.ShardResult, total, notStarted int, wall time.Duration, bonus []hx.ShardResult, bonusTotal int) *PartResult {
	var execs, trans, decisions int64
	perLevel := []int64{}
	outcomes := 0
	maxDepth, maxSteps := 0, 0
	ran, complete := 0, 0
	minBound := -2
	minRequired := -1
	boundHist := map[string]int{}
	known := evid.Known(s.ID)
	perKey := map[string]int{}
	firstReplay := map[string]string{}
	var capped []string
	var samples []any
	var findings []evid.Finding
	report := func(r hx.ScenarioResult, rtier string) {
		st := r.Stats
		for vi, v := range st.Violations {
			key := findingKey(r.Class, v.Msg)
			perKey[key]++
			if _, isKnown := known[key]; isKnown && perKey[key] > 3 {
				// a listed finding: three replay artefacts are enough
				findings = append(findings, evid.Finding{Key: key, Msg: "(further case of a listed finding) scenario " + r.Name, Replay: firstReplay[key]})
				continue
			}
			rf := hx.ReplayFile{Property: s.ID, Part: s.Name, Scenario: r.Name, Class: r.Class, Choices: v.Choices, Msg: v.Msg, Detail: v.Detail, Logs: v.Logs, Tier: rtier}
			rname := r.Name
			if vi > 0 {
				rname = fmt.Sprintf("v%d_%s", vi+1, r.Name)
			}
			path := evid.SaveReplay(s.ID, rname, rf)
			msg := fmt.Sprintf("scenario %q, schedule cost %d, deterministic on 5 replays: %v\n%s", r.Name, v.Cost, v.Stable, v.Msg)
			if !v.Stable {
				fatal("nondeterministic violation (machinery fault, not reported as a violation):\n%s", msg)
			}
			if firstReplay[key] == "" {
				firstReplay[key] = path
			}
			findings = append(findings, evid.Finding{Key: key, Msg: msg, Replay: path})
		}
	}
	skipped := notStarted
	for _, sr := range results {
		skipped += sr.Skipped
		for _, r := range sr.Scenarios {
			ran++
			st := r.Stats
			execs += st.Execs
			trans += st.Transitions
			decisions += st.Decisions
			outcomes += st.Outcomes
			for i, n := range st.ExecsPerLevel {
				for len(perLevel) <= i {
					perLevel = append(perLevel, 0)
				}
				perLevel[i] += n
			}
			if st.MaxDepth > maxDepth {
				maxDepth = st.MaxDepth
			}
			if st.MaxSteps > maxSteps {
				maxSteps = st.MaxSteps
			}
			if minRequired < 0 || r.Min < minRequired {
				minRequired = r.Min
			}
			if st.Exhaustive {
				complete++
			} else {
				capped = append(capped, fmt.Sprintf("%s (%s; bound completed %d of %d)", r.Name, st.CapHit, st.BoundCompleted, r.Bound))
			}
			if len(st.Violations) == 0 && (minBound == -2 || st.BoundCompleted < minBound) {
				minBound = st.BoundCompleted
			}
			mode := "preemption-bound"
			if r.Delay {
				mode = "delay-bound"
			}
			boundHist[fmt.Sprintf("%s completed=%d", mode, st.BoundCompleted)]++
			if len(samples) < 5 && st.Execs > 1 {
				samples = append(samples, map[string]any{
					"scenario": r.Name, "bound": r.Bound, "executions": st.Execs, "executions_per_cost_level": st.ExecsPerLevel,
					"scheduling_points": st.Transitions, "max_decisions_in_one_execution": st.MaxDepth,
					"distinct_outcomes": st.Outcomes, "sample_outcomes": st.SampleOutcomes, "exhaustive_within_bound": st.Exhaustive,
				})
			}
			report(r, tier)
		}
	}
	bonusRan, bonusComplete := 0, 0
	var bonusExecs, bonusTrans int64
	for _, sr := range bonus {
		for _, r := range sr.Scenarios {
			bonusRan++
			bonusExecs += r.Stats.Execs
			bonusTrans += r.Stats.Transitions
			if r.Stats.Exhaustive {
				bonusComplete++
			}
			report(r, "thorough")
		}
	}
	sort.Strings(capped)
	if len(capped) > 12 {
		capped = append(capped[:12], fmt.Sprintf("... and %d more", len(capped)-12))
	}
	exhaustive := skipped == 0 && complete == ran
	if len(samples) == 0 {
		samples = append(samples, "no scenario ran more than one execution")
	}
	states := execs
	if states < 1 {
		states = 1
	}
	if trans < 1 {
		trans = 1
	}
	cov := map[string]any{
		"states":                                  states,
		"transitions":                             trans,
		"traces_validated_against_impl":           execs,
		"samples":                                 samples,
		"evaluations":                             execs,
		"distinct_nontrivial":                     execs,
		"rule":                                    "every schedule (thread interleaving, select tie-break, timer firing and clock placement) of every scenario program within the deviation bound, enumerated by prefix replay on the instrumented real code; 'states' counts distinct complete schedules (stateless search stores no states), 'transitions' counts scheduling points executed; each schedule is distinct by construction and non-trivial in that it differs from every other in at least one decision. " + s.Rule,
		"scenarios_total":                         total,
		"scenarios_run":                           ran,
		"scenarios_completed_to_bound":            complete,
		"scenarios_not_run_deadline":              skipped,
		"executions_per_cost_level":               perLevel,
		"decision_points":                         decisions,
		"max_decisions_in_one_execution":          maxDepth,
		"max_scheduling_points_in_one_execution":  maxSteps,
		"distinct_outcomes_summed_over_scenarios": outcomes,
		"lowest_bound_completed":                  minBound,
		"lowest_bound_required_for_exhaustive":    minRequired,
		"scenarios_by_bound_completed":            boundHist,
		"capped_scenarios":                        capped,
		"exhaustive":                              exhaustive,
		"wall_s":                                  wall.Seconds(),
	}
	if bonusTotal > 0 {
		cov["beyond_the_quick_set"] = map[string]any{
			"what":                         "with budget left, the quick tier went on with scenarios reserved for the thorough tier (required bound only, listed order); not part of the exhaustive flag or of the counts above",
			"thorough_only_scenarios":      bonusTotal,
			"scenarios_run":                bonusRan,
			"scenarios_completed_to_bound": bonusComplete,
			"executions":                   bonusExecs,
			"scheduling_points":            bonusTrans,
		}
		fmt.Printf("part %s/%s tier=%s beyond the quick set: %d of %d thorough-only scenarios (%d executions)\n", s.ID, s.Name, tier, bonusRan, bonusTotal, bonusExecs)
	}
	fmt.Printf("part %s/%s tier=%s scenarios=%d/%d executions=%d scheduling_points=%d exhaustive_within_bounds=%v wall=%.1fs\n", s.ID, s.Name, tier, ran, total, execs, trans, exhaustive, wall.Seconds())
	return &PartResult{Coverage: cov, Findings: findings, Assumptions: s.Assumptions}
}

// runEnum runs an Engine-2 part: a Go test binary (TestCheck) that enumerates
// its space and writes a PartResult JSON to -out.
func runEnum(s *part, root, scratch, tier string, passthru []string) *PartResult {
	bin := buildHarness(s, root, scratch)
	of := filepath.Join(scratch, "part.json")
	budget := time.Duration(s.QuickBudgetS) * time.Second
	if tier == "thorough" {
		budget = time.Duration(s.ThoroughBudgetS) * time.Second
	}
	args := []string{"-test.run", "^TestCheck$", "-test.timeout", "0", "-tier", tier, "-out", of}
	if budget > 0 {
		args = append(args, "-budget", budget.String())
	}
	args = append(args, s.Args...)
	args = append(args, passthru...)
	cmd := exec.Command(bin, args...)
	cmd.SysProcAttr = &syscall.SysProcAttr{Pdeathsig: syscall.SIGKILL} // no orphaned explorers if the driver dies
	cmd.Dir = filepath.Join(root, s.Harness)
	cmd.Env = append(env(), "VERIF_SCRATCH="+scratch, "VERIF_ROOT="+root)
	var errBuf strings.Builder
	cmd.Stdout, cmd.Stderr = os.Stdout, &teeW{&errBuf}
	// Every part keeps to its budget by itself (internal deadline, exit 0 with
	// exhaustive=false). A part that is still running long after it — three times
	// the budget, at least five minutes more — is stuck inside the code under
	// test: it is killed and that is reported as a finding, not waited for.
	hard := 3 * budget
	if hard < budget+5*time.Minute {
		hard = budget + 5*time.Minute
	}
	err := cmd.Start()
	stuck := false
	if err == nil {
		track(cmd.Process)
		defer untrack(cmd.Process)
		done := make(chan error, 1)
		go func() { done <- cmd.Wait() }()
		select {
		case err = <-done:
		case <-time.After(hard):
			stuck = true
			cmd.Process.Kill()
			err = <-done
		}
	}
	b, rerr := os.ReadFile(of)
	var pr PartResult
	if rerr == nil {
		rerr = json.Unmarshal(b, &pr)
	}
	if stuck {
		msg := fmt.Sprintf("part %s/%s was still running %v after its start (budget %v) and was killed: the code under test did not return from a call", s.ID, s.Name, hard, budget)
		pr = PartResult{Coverage: map[string]any{"evaluations": 1, "distinct_nontrivial": 2, "rule": "the part did not terminate", "samples": []any{"killed"}, "exhaustive": false}}
		rp := evid.SaveReplay(s.ID, s.Name+"-did-not-terminate", map[string]any{"property": s.ID, "part": s.Name, "key": "part-did-not-terminate", "report": msg})
		pr.Findings = append(pr.Findings, evid.Finding{Key: "part-did-not-terminate", Msg: msg, Replay: rp})
		rerr = nil
	}
	if rerr != nil && s.Supplementary && (strings.Contains(errBuf.String(), "WARNING: DATA RACE") || (strings.Contains(errBuf.String(), "\npanic:") || strings.HasPrefix(errBuf.String(), "panic:")) || strings.Contains(errBuf.String(), "fatal error:")) {
		// a free-running pass that died: the crash itself is the observation
		pr = PartResult{Coverage: map[string]any{"evaluations": 1, "distinct_nontrivial": 2, "rule": "the free-running pass crashed", "samples": []any{"crash"}, "exhaustive": false}}
		msg := errBuf.String()
		for _, mark := range []string{"WARNING: DATA RACE", "\npanic:", "panic:", "fatal error:"} {
			if i := strings.Index(msg, mark); i >= 0 {
				msg = msg[i:]
				break
			}
		}
		if len(msg) > 3000 {
			msg = msg[:3000]
		}
		if !strings.Contains(msg, "WARNING: DATA RACE") {
			rp := evid.SaveReplay(s.ID, s.Name+"-crash", map[string]any{"property": s.ID, "part": s.Name, "key": "crash-in-parallel-run", "report": msg})
			pr.Findings = append(pr.Findings, evid.Finding{Key: "crash-in-parallel-run", Msg: msg, Replay: rp})
		}
		rerr = nil
	}
	if rerr != nil {
		fatal("part %s/%s produced no result (%v; process: %v)", s.ID, s.Name, rerr, err)
	}
	if strings.Contains(errBuf.String(), "WARNING: DATA RACE") {
		// a -race build reported a race on the real runtime
		msg := errBuf.String()
		if i := strings.Index(msg, "WARNING: DATA RACE"); i >= 0 {
			msg = msg[i:]
		}
		if len(msg) > 3000 {
			msg = msg[:3000]
		}
		rp := evid.SaveReplay(s.ID, s.Name+"-data-race", map[string]any{"property": s.ID, "part": s.Name, "key": "data-race", "report": msg})
		pr.Findings = append(pr.Findings, evid.Finding{Key: "data-race", Msg: msg, Replay: rp})
	}
	pr.Assumptions = append(pr.Assumptions, s.Assumptions...)
	return &pr
}

func replayEnum(s *part, root, scratch, tier, replay string) int {
	bin := buildHarness(s, root, scratch)
	abs, _ := filepath.Abs(replay)
	cmd := exec.Command(bin, "-test.run", "^TestCheck$", "-test.timeout", "0", "-tier", tier, "-replay", abs)
	cmd.Dir = filepath.Join(root, s.Harness)
	cmd.Env = append(env(), "VERIF_SCRATCH="+scratch, "VERIF_ROOT="+root)
	cmd.Stdout, cmd.Stderr = os.Stdout, os.Stderr
	if err := cmd.Run(); err != nil {
		return 1
	}
	return 0
}

type teeW struct{ sb *strings.Builder }

func (t *teeW) Write(p []byte) (int, error) {
	t.sb.Write(p)
	return os.Stderr.Write(p)
}
