package c13

import (
	"fmt"
	"sort"
	"strings"

	"github.com/dapr/kit/concurrency/fifo"

	"verif/hx"
	"verif/mc"
)

// ---------------------------------------------------------------------------
// fifo.Mutex: n threads, thread i runs counts[i] sections Lock; cs; Unlock.
// ---------------------------------------------------------------------------

func mkFifoMutex(counts []int) *mc.Exec {
	var (
		m      *fifo.Mutex
		lockID int
		occ    int
		grants []lockCall
	)
	body := func() {
		m = fifo.New()
		lockID = fifo.McLockID(m)
		for i, n := range counts {
			n := n
			mc.GoNamed(fmt.Sprintf("t%d", i), func() {
				for k := 0; k < n; k++ {
					m.Lock()
					grants = append(grants, lockCall{mc.ThreadID(), k})
					occ++
					if occ > 1 {
						mc.Fail("mutual exclusion: two holders of one fifo.Mutex\n%d holders", occ)
					}
					mc.Yield()
					occ--
					m.Unlock()
				}
			})
		}
	}
	check := func(e *mc.End) error {
		if u := unfinished(e); len(u) > 0 {
			return fmt.Errorf("deadlock: correctly paired callers never returned\nunfinished=%v", u)
		}
		arr := lockArrivals(e.Trace, func(obj int) bool { return obj == lockID })
		if err := checkFIFO(arr, grants); err != nil {
			return err
		}
		nb := 0
		for _, a := range arr {
			if a.blocked {
				nb++
			}
		}
		mc.Outcome(fmt.Sprintf("grants=%v blocked=%d", grants, nb))
		return nil
	}
	return &mc.Exec{Body: body, Check: check}
}

func fifoMutexScenarios() []hx.Scenario {
	var out []hx.Scenario
	add := func(counts []int, thorough bool) {
		c := append([]int(nil), counts...)
		tot := 0
		for _, x := range c {
			tot += x
		}
		b := 2
		if tot <= 4 && len(c) <= 3 {
			b = 3
		}
		out = append(out, hx.Scenario{
			Name: "fmutex " + strings.Trim(strings.ReplaceAll(fmt.Sprint(c), " ", "|"), "[]"), Class: "fifo.Mutex/paired-lock-unlock",
			ThoroughOnly: thorough,
			Opts:         mc.Options{Delay: false, MinBound: b, Bound: b, Trace: true, MaxSteps: 2000},
			Mk:           func() *mc.Exec { return mkFifoMutex(c) },
		})
	}
	for n := 2; n <= 4; n++ {
		multisets(3, n, func(idx []int) {
			counts := make([]int, n)
			tot := 0
			for i, x := range idx {
				counts[i] = x + 1
				tot += x + 1
			}
			if tot > 7 {
				return
			}
			add(counts, tot > 5)
		})
	}
	return out
}

// ---------------------------------------------------------------------------
// fifo.Map: operations "La"/"Lb" = Lock(k); cs; Unlock(k), and the terminal
// "Ha"/"Hb" = Lock(k) and stall inside the critical section forever (used for
// "different keys never block each other").
// ---------------------------------------------------------------------------

func mkFifoMap(threads [][]string) *mc.Exec {
	var (
		m        fifo.Map[string]
		itemIDs  = map[int]bool{} // trace ids of per-key mutexes, recorded by their holders
		neverID  int
		scriptOf = map[int][]string{}
		occ      = map[string]int{}
		interest = map[string]int{} // callers between Lock-call and Unlock-return, per key
		grants   []lockCall
		stalled  = map[string]bool{} // key held forever by an H operation
		cur      = map[int]string{}  // thread -> key of the section it is in ("" = none)
		curGot   = map[int]bool{}
		names    = map[int]string{}
	)
	leak := func(when string) {
		keys := fifo.McMapKeys(m)
		sort.Strings(keys)
		for _, k := range keys {
			if interest[k] == 0 {
				mc.Fail("leaked per-key state: an entry is still in the map although nobody holds or waits on its key\nkey %q, %s (entries=%v)", k, when, keys)
			}
		}
	}
	body := func() {
		m = fifo.NewMap[string]()
		never := mc.NewChan[struct{}]()
		neverID = never.ID()
		for i, script := range threads {
			script := script
			mc.GoNamed(fmt.Sprintf("t%d", i), func() {
				id := mc.ThreadID()
				names[id] = mc.ThreadName()
				scriptOf[id] = script
				for k, op := range script {
					key := op[1:]
					interest[key]++
					cur[id], curGot[id] = key, false
					m.Lock(key)
					curGot[id] = true
					if lid, ok := fifo.McMapItemLockID(m, key); ok {
						itemIDs[lid] = true
					}
					grants = append(grants, lockCall{id, k})
					occ[key]++
					if occ[key] > 1 {
						mc.Fail("mutual exclusion: two holders of one key\n%d holders of key %q", occ[key], key)
					}
					if op[0] == 'H' {
						stalled[key] = true
						never.Recv()
					}
					mc.Yield()
					occ[key]--
					m.Unlock(key)
					interest[key]--
					cur[id] = ""
					leak("after Unlock(" + key + ") returned")
				}
			})
		}
	}
	check := func(e *mc.End) error {
		// no deadlock / different keys never block each other: whoever has not
		// finished must be the staller or be waiting for the stalled key
		for _, t := range e.Threads {
			if t.Finished || !strings.HasPrefix(t.Name, "t") {
				continue
			}
			k := cur[t.ID]
			if k != "" && stalled[k] {
				continue // holds k forever (H) or legitimately waits for it
			}
			return fmt.Errorf("deadlock: a caller never returned although no holder of its key is stalled\n%s in its operation on key %q (blocked on %s); stalled keys=%v parked=%v", t.Name, k, t.WaitOn, stalled, e.Parked())
		}
		leak("at final quiescence")
		arr := lockArrivals(e.Trace, func(obj int) bool { return itemIDs[obj] })
		if err := checkFIFO(arr, grants); err != nil {
			return err
		}
		// arrival order at the map: the map-wide lock is whatever lock in the
		// trace is not a per-key mutex (1-slot channel or sync.Mutex alike)
		acqs := internalAcqs(e.Trace, func(obj int) bool { return itemIDs[obj] || obj == neverID })
		if err := checkMapEntryOrder(acqs, scriptOf, names); err != nil {
			return err
		}
		nb := 0
		for _, a := range arr {
			if a.blocked {
				nb++
			}
		}
		var gs []string
		for _, g := range grants {
			gs = append(gs, fmt.Sprintf("%s.%d", names[g.thread], g.nth))
		}
		mc.Outcome(fmt.Sprintf("grants=%v blocked=%d left=%d", gs, nb, fifo.McMapLen(m)))
		return nil
	}
	return &mc.Exec{Body: body, Check: check}
}

func fifoMapScenarios() []hx.Scenario {
	var out []hx.Scenario
	seen := map[string]bool{}
	add := func(name string, thorough bool) {
		if seen[name] {
			return
		}
		seen[name] = true
		th := parseScen(name)
		class := "fifo.Map/paired-lock-unlock"
		if strings.Contains(name, "H") {
			class = "fifo.Map/stalled-holder-other-keys-progress"
		}
		b := 2
		if totalOps(th) <= 3 {
			b = 3
		}
		out = append(out, hx.Scenario{
			Name: "fmap " + name, Class: class, ThoroughOnly: thorough,
			Opts: mc.Options{Delay: false, MinBound: b, Bound: b, Trace: true, MaxSteps: 4000},
			Mk:   func() *mc.Exec { return mkFifoMap(th) },
		})
	}
	// scripts: 1..3 sections over {La, Lb}, optionally ending in a stall
	var scripts [][]string
	for _, s := range seqs([]string{"La", "Lb"}, 3) {
		scripts = append(scripts, s)
	}
	for _, s := range seqs([]string{"La", "Lb"}, 2) {
		for _, h := range []string{"Ha", "Hb"} {
			scripts = append(scripts, append(append([]string(nil), s...), h))
		}
	}
	scripts = append(scripts, []string{"Ha"}, []string{"Hb"})
	oneStall := func(th [][]string) bool {
		n := 0
		for _, t := range th {
			for _, o := range t {
				if o[0] == 'H' {
					n++
				}
			}
		}
		return n <= 1
	}
	for n := 2; n <= 4; n++ {
		maxOps := map[int]int{2: 6, 3: 5, 4: 4}[n]
		for _, name := range combos(scripts, n, canonKeys, func(th [][]string) bool {
			return oneStall(th) && totalOps(th) <= maxOps
		}) {
			ops := totalOps(parseScen(name))
			add(name, ops > 4 || (n == 3 && ops > 3 && strings.Contains(name, "H")))
		}
	}
	return out
}
