// Harness for C13 (lock primitives) on the mcgen-instrumented copies of
// github.com/dapr/kit/concurrency/{fifo,cmap,lock}.
//
// Five scenario families, one per primitive (files fifo_test.go, cmap_test.go,
// lockctx_test.go, outer_test.go). Every scenario is a small closed program:
// 2-4 caller threads with fixed scripts; ALL script combinations of the small
// alphabets are generated (modulo thread permutation and key renaming, which
// are symmetries of the explorer) and every schedule within the bound is
// explored.
package c13

import (
	"crypto/sha256"
	"encoding/binary"
	"fmt"
	"sort"
	"strings"
	"testing"

	"verif/hx"
	"verif/mc"
)

// ---- script enumeration helpers ----

// seqs returns every sequence over alpha of length 1..maxLen.
func seqs(alpha []string, maxLen int) [][]string {
	var out [][]string
	var rec func(cur []string)
	rec = func(cur []string) {
		if len(cur) > 0 {
			out = append(out, append([]string(nil), cur...))
		}
		if len(cur) == maxLen {
			return
		}
		for _, a := range alpha {
			rec(append(cur, a))
		}
	}
	rec(nil)
	return out
}

// multisets calls fn with every multiset of n elements of 0..m-1 (as a
// non-decreasing index slice): threads are interchangeable.
func multisets(m, n int, fn func(idx []int)) {
	idx := make([]int, n)
	var rec func(pos, from int)
	rec = func(pos, from int) {
		if pos == n {
			fn(append([]int(nil), idx...))
			return
		}
		for i := from; i < m; i++ {
			idx[pos] = i
			rec(pos+1, i)
		}
	}
	rec(0, 0)
}

// scenName renders thread scripts canonically: scripts joined by " | ",
// operations by ";".
func scenName(threads [][]string) string {
	var ts []string
	for _, t := range threads {
		ts = append(ts, strings.Join(t, ";"))
	}
	return strings.Join(ts, " | ")
}

// canonKeys returns the canonical representative of a scenario under thread
// permutation and renaming of the two keys 'a' and 'b' (the last byte of an
// operation symbol is its key).
func canonKeys(threads [][]string) string {
	best := ""
	for _, swap := range []bool{false, true} {
		var ts []string
		for _, t := range threads {
			var ops []string
			for _, o := range t {
				if swap {
					switch o[len(o)-1] {
					case 'a':
						o = o[:len(o)-1] + "b"
					case 'b':
						o = o[:len(o)-1] + "a"
					}
				}
				ops = append(ops, o)
			}
			ts = append(ts, strings.Join(ops, ";"))
		}
		sort.Strings(ts)
		s := strings.Join(ts, " | ")
		if best == "" || s < best {
			best = s
		}
	}
	return best
}

func parseScen(s string) [][]string {
	var out [][]string
	for _, t := range strings.Split(s, " | ") {
		out = append(out, strings.Split(t, ";"))
	}
	return out
}

func totalOps(threads [][]string) int {
	n := 0
	for _, t := range threads {
		n += len(t)
	}
	return n
}

// combos enumerates every assignment of scripts to n interchangeable threads,
// canonicalised (and de-duplicated) by canon; keep filters scenarios.
func combos(scripts [][]string, n int, canon func([][]string) string, keep func([][]string) bool) []string {
	seen := map[string]bool{}
	var out []string
	multisets(len(scripts), n, func(idx []int) {
		var th [][]string
		for _, i := range idx {
			th = append(th, scripts[i])
		}
		if keep != nil && !keep(th) {
			return
		}
		c := canon(th)
		if !seen[c] {
			seen[c] = true
			out = append(out, c)
		}
	})
	sort.Strings(out)
	return out
}

func canonPlain(threads [][]string) string {
	var ts []string
	for _, t := range threads {
		ts = append(ts, strings.Join(t, ";"))
	}
	sort.Strings(ts)
	return strings.Join(ts, " | ")
}

// ---- deadlock helper ----

// unfinished lists caller threads (name prefix "t") that did not finish.
func unfinished(e *mc.End) []string {
	var out []string
	for _, t := range e.Threads {
		if !t.Finished && (strings.HasPrefix(t.Name, "t") || t.Name == "main") {
			out = append(out, t.Name+"@"+t.WaitOn)
		}
	}
	return out
}

// ---- FIFO from the execution trace ----

// lockCall identifies the n-th acquisition of a 1-slot-channel mutex by a thread.
type lockCall struct{ thread, nth int }

type arrival struct {
	call    lockCall
	ch      int
	blocked bool
}

// lockArrivals reads the execution trace: every "send" on a 1-slot channel
// used as a mutex is the instant a Lock call arrives at that mutex (the event
// is recorded when the thread attempts the operation: it either takes the
// slot at once or parks in the channel's sender queue right there), every
// "recv" is an Unlock. A call is BLOCKED iff the slot is taken at that instant
// - the "arrival confirmed by wait state" of the property. Whom a release
// wakes is not taken from here: grant order is what the harness threads record
// when their Lock returns.
func lockArrivals(tr []mc.Ev, isLock func(obj int) bool) []arrival {
	type st struct {
		held    bool
		waiting int
	}
	chans := map[int]*st{}
	nth := map[int]int{}
	var out []arrival
	for _, ev := range tr {
		if ev.Thread < 0 || !isLock(ev.Obj) {
			continue
		}
		s := chans[ev.Obj]
		if s == nil {
			s = &st{}
			chans[ev.Obj] = s
		}
		switch ev.Op {
		case "send":
			a := arrival{call: lockCall{ev.Thread, nth[ev.Thread]}, ch: ev.Obj, blocked: s.held}
			nth[ev.Thread]++
			if s.held {
				s.waiting++
			} else {
				s.held = true
			}
			out = append(out, a)
		case "recv":
			if s.waiting > 0 {
				s.waiting--
			} else {
				s.held = false
			}
		}
	}
	return out
}

// checkFIFO compares, per mutex, the order in which BLOCKED calls parked with
// the order in which they were granted.
func checkFIFO(arr []arrival, grants []lockCall) error {
	chOf := map[lockCall]int{}
	blocked := map[lockCall]bool{}
	parkOrder := map[int][]lockCall{}
	for _, a := range arr {
		chOf[a.call] = a.ch
		if a.blocked {
			blocked[a.call] = true
			parkOrder[a.ch] = append(parkOrder[a.ch], a.call)
		}
	}
	grantOrder := map[int][]lockCall{}
	for _, g := range grants {
		ch, ok := chOf[g]
		if !ok {
			return fmt.Errorf("harness: grant %v has no arrival in the trace", g)
		}
		if blocked[g] {
			grantOrder[ch] = append(grantOrder[ch], g)
		}
	}
	for ch, gs := range grantOrder {
		ps := parkOrder[ch]
		for i, g := range gs {
			if ps[i] != g {
				return fmt.Errorf("FIFO: blocked calls were not granted in the order in which they parked\nmutex #%d: parked in order %v (thread,nth), granted in order %v", ch, ps, gs)
			}
		}
	}
	return nil
}

// ---- arrival order at a lock of unknown type (fifo.Map's map-wide lock) ----

// lockAcq is one acquisition of a lock read from the trace: the index of the
// attempt, the index at which the caller had it, whether it parked.
type lockAcq struct {
	thread, obj        int
	nth                int // n-th acquisition of an internal lock by this thread
	attempt, acquired  int
	blocked, completed bool
}

// internalAcqs extracts the acquisitions of every lock in the trace that is
// not skipped, independent of the lock's type:
//   - 1-slot channel used as a mutex: "send" is the attempt (parks iff the
//     slot is taken), "recv" the release; a parked caller has the lock at its
//     next trace event (hand-over is only possible after the previous owner
//     released, so the order of those events is the grant order);
//   - sync.Mutex: "lock?" is the attempt, the "lock" event the acquisition
//     (adjacent in the trace iff the caller did not park).
func internalAcqs(tr []mc.Ev, skip func(obj int) bool) []lockAcq {
	type chst struct {
		held    bool
		waiting int
	}
	chans := map[int]*chst{}
	nth := map[int]int{}
	pendingCh := map[int]int{} // thread -> index into out of its parked channel acquisition
	pendingMu := map[int]int{} // thread -> trace index of its "lock?" attempt
	var out []lockAcq
	for i, ev := range tr {
		if ev.Thread < 0 {
			continue
		}
		if k, ok := pendingCh[ev.Thread]; ok {
			out[k].acquired, out[k].completed = i, true
			delete(pendingCh, ev.Thread)
		}
		switch ev.Op {
		case "send", "recv":
			if ev.Obj == 0 || skip(ev.Obj) {
				continue
			}
			c := chans[ev.Obj]
			if c == nil {
				c = &chst{}
				chans[ev.Obj] = c
			}
			if ev.Op == "recv" {
				if c.waiting > 0 {
					c.waiting--
				} else {
					c.held = false
				}
				continue
			}
			a := lockAcq{thread: ev.Thread, obj: ev.Obj, nth: nth[ev.Thread], attempt: i, blocked: c.held}
			nth[ev.Thread]++
			if c.held {
				c.waiting++
				out = append(out, a)
				pendingCh[ev.Thread] = len(out) - 1
			} else {
				c.held = true
				a.acquired, a.completed = i, true
				out = append(out, a)
			}
		case "lock?":
			pendingMu[ev.Thread] = i
		case "lock":
			at, ok := pendingMu[ev.Thread]
			if !ok {
				continue
			}
			delete(pendingMu, ev.Thread)
			out = append(out, lockAcq{thread: ev.Thread, obj: ev.Obj, nth: nth[ev.Thread], attempt: at, acquired: i, blocked: i != at+1, completed: true})
			nth[ev.Thread]++
		}
	}
	return out
}

// checkMapEntryOrder: "FIFO locks grant in arrival order" at the entrance of
// fifo.Map. A Map.Lock(k) call arrives when it reaches the map-wide lock; a
// call PARKED there (wait state) must enter the map before every Lock(k) call
// on the same key that arrived after it. (Key-level grant order cannot be
// demanded from map-level arrival: the unchanged code leaves the map-wide
// lock before it queues on the key, so two callers may swap in between; that
// order is checked separately from the instant they park on the key's mutex.)
// The n-th map-wide acquisition of a thread belongs to its n/2-th section:
// even = Lock, odd = Unlock.
func checkMapEntryOrder(acqs []lockAcq, scriptOf map[int][]string, names map[int]string) error {
	keyOf := func(a lockAcq) (string, bool) {
		sc := scriptOf[a.thread]
		if a.nth%2 != 0 || a.nth/2 >= len(sc) {
			return "", false
		}
		return sc[a.nth/2][1:], true
	}
	for _, p := range acqs {
		kp, ok := keyOf(p)
		if !ok || !p.blocked || !p.completed {
			continue
		}
		for _, q := range acqs {
			kq, ok := keyOf(q)
			if !ok || kq != kp || q.obj != p.obj || !q.completed {
				continue
			}
			if q.attempt > p.attempt && q.acquired < p.acquired {
				return fmt.Errorf("FIFO: a later Lock call on the same key overtook a caller parked at the entrance of the map\n%s's Lock(%q) #%d parked on the map-wide lock (trace index %d), %s's Lock(%q) #%d arrived later (index %d) and entered the map first (index %d < %d)", names[p.thread], kp, p.nth/2, p.attempt, names[q.thread], kq, q.nth/2, q.attempt, q.acquired, p.acquired)
			}
		}
	}
	return nil
}

func scenarios() []hx.Scenario {
	var out []hx.Scenario
	out = append(out, fifoMutexScenarios()...)
	out = append(out, fifoMapScenarios()...)
	out = append(out, cmapScenarios()...)
	out = append(out, lockCtxScenarios()...)
	out = append(out, outerScenarios()...)
	// The driver hands out contiguous index ranges; the expensive scenarios
	// (4 threads, preemption-bounded OuterCancel) would sit next to each other
	// and make one worker the long tail. A fixed pseudo-random permutation
	// (hash of the name) spreads them evenly; the set is unchanged.
	sort.SliceStable(out, func(i, j int) bool { return nameHash(out[i].Name) < nameHash(out[j].Name) })
	// small family, placed first
	out = append(append(outerQueueScenarios(), outerParentScenarios()...), out...)
	return out
}

func nameHash(s string) uint64 {
	d := sha256.Sum256([]byte(s))
	return binary.BigEndian.Uint64(d[:8])
}

func TestMC(t *testing.T) { hx.Run(t, scenarios()) }

// TestFIFOOracleSelf checks the trace-based FIFO oracle itself on synthetic
// traces (no model runtime involved): it must accept FIFO hand-over and reject
// a grant that overtakes an earlier parked call.
func TestFIFOOracleSelf(t *testing.T) {
	const ch = 7
	tr := []mc.Ev{
		{Thread: 1, Op: "send", Obj: ch}, // t1 takes the free slot
		{Thread: 2, Op: "send", Obj: ch}, // t2 parks
		{Thread: 3, Op: "send", Obj: ch}, // t3 parks
		{Thread: 1, Op: "recv", Obj: ch}, // t1 unlocks
		{Thread: 2, Op: "recv", Obj: ch},
		{Thread: 3, Op: "recv", Obj: ch},
		{Thread: 1, Op: "send", Obj: ch}, // free again: not blocked
	}
	arr := lockArrivals(tr, func(obj int) bool { return obj == ch })
	if len(arr) != 4 || arr[0].blocked || !arr[1].blocked || !arr[2].blocked || arr[3].blocked {
		t.Fatalf("arrivals: %+v", arr)
	}
	fifo := []lockCall{{1, 0}, {2, 0}, {3, 0}, {1, 1}}
	if err := checkFIFO(arr, fifo); err != nil {
		t.Fatalf("FIFO order rejected: %v", err)
	}
	overtaking := []lockCall{{1, 0}, {3, 0}, {2, 0}, {1, 1}}
	if err := checkFIFO(arr, overtaking); err == nil {
		t.Fatalf("overtaking grant order accepted")
	}
	// map-wide lock as a sync.Mutex: t2 parks, t3 barges in when t1 unlocks
	scripts := map[int][]string{1: {"La"}, 2: {"La"}, 3: {"La"}}
	nm := map[int]string{1: "t1", 2: "t2", 3: "t3"}
	barging := []mc.Ev{
		{Thread: 1, Op: "lock?"}, {Thread: 1, Op: "lock", Obj: 9},
		{Thread: 2, Op: "lock?"},
		{Thread: 1, Op: "unlock"}, {Thread: 1, Op: "unlock", Obj: 9},
		{Thread: 3, Op: "lock?"}, {Thread: 3, Op: "lock", Obj: 9},
		{Thread: 3, Op: "unlock"}, {Thread: 3, Op: "unlock", Obj: 9},
		{Thread: 2, Op: "lock", Obj: 9},
	}
	if err := checkMapEntryOrder(internalAcqs(barging, func(int) bool { return false }), scripts, nm); err == nil {
		t.Fatalf("barging on the map-wide lock accepted")
	}
	handover := []mc.Ev{
		{Thread: 1, Op: "send", Obj: 9},
		{Thread: 2, Op: "send", Obj: 9},
		{Thread: 1, Op: "recv", Obj: 9},
		{Thread: 3, Op: "send", Obj: 9},
		{Thread: 2, Op: "recv", Obj: 9},
		{Thread: 3, Op: "recv", Obj: 9},
	}
	if err := checkMapEntryOrder(internalAcqs(handover, func(int) bool { return false }), scripts, nm); err != nil {
		t.Fatalf("FIFO hand-over rejected: %v", err)
	}
}
