package c13

import (
	"context"
	"errors"
	"fmt"
	"os"
	"strings"
	"time"

	"github.com/dapr/kit/concurrency/lock"

	"verif/hx"
	"verif/mc"
)

// ---------------------------------------------------------------------------
// lock.OuterCancel. Run lives in its own thread. Caller operations:
//   Rp = RLock(bg); cs; release (call the returned cancel) promptly
//   Rl = RLock(bg); hold until the returned context is cancelled; release
//   Rh = RLock under a parent context that thread "pc" cancels; keeps HOLDING
//        for 3 grace periods whatever happens to its context, then releases
//   Rk = like Rh under a background context
//   Rx = like Rl, but under a parent context that thread "pc" cancels at an
//        arbitrary instant
//   W  = unlock := Lock(); cs; unlock()
//   H<k> = writer that HOLDS for k half grace periods (H1 H2 H3 H6) before unlock()
//   S<n> = sleep n units (1 unit = grace/10)
// A script may start with Z = sleep half a grace period. Shutdown: thread "sd"
// cancels Run's context at t=0 ("s0") or after half a grace period ("s5").
// ---------------------------------------------------------------------------

const (
	ocUnit  = time.Millisecond
	ocGrace = 10 * ocUnit
)

var errOuterCause = errors.New("c13: configured cancel cause")

// ocStrict (on; C13_OUTER_STRICT=0 turns it off) applies the
// timeline-mode promptness oracle also to a reader whose request sits in the
// 1-slot request channel BUFFER when its context ends. The unchanged RLock
// does not watch ctx.Done() there (see NOTES.md, proposed_fix_1.diff).
var ocStrict = os.Getenv("C13_OUTER_STRICT") != "0"

type ocReader struct {
	name            string
	op              string
	reqStep         int
	reqTime         time.Duration
	blockers        []*ocWriter // writers between grant and unlock when the reader asked
	parentDone      *ocCancel
	admitted        bool
	rctx            context.Context
	parentCancelled *bool
	waiting         bool // lazy reader parked on its context
	releasing       bool
	justified       bool
}

type ocWriter struct {
	name       string
	reqTime    time.Duration
	reqStep    int
	blockers   []*ocWriter // writers between grant and unlock when this one asked
	granted    bool
	grantStep  int
	unlocking  bool
	unlockTime time.Duration
}

// ocCancel records when the "pc" thread's cancel of a parent context returned.
type ocCancel struct {
	returned bool
	at       time.Duration
}

// ocCfg are the scenario-level knobs of an OuterCancel harness.
type ocCfg struct {
	shutdown string        // "", "s0", "s5"
	pcDelay  time.Duration // when thread "pc" cancels the parent contexts
	timeline bool          // the scenario runs with ClockLast: time moves only at quiescence
	// prompt (timeline mode only): a reader whose context has ended must be
	// back from RLock at that very instant. Only set where the reader's
	// request is the one the Run loop is handling: the unchanged code does not
	// look at a request that sits in the channel behind a writer being served
	// (or queued) until that writer has been granted.
	prompt bool
}

func holdersNow(ws []*ocWriter) []*ocWriter {
	var out []*ocWriter
	for _, w := range ws {
		if w.granted && !w.unlocking {
			out = append(out, w)
		}
	}
	return out
}

func latestUnlock(t time.Duration, blockers []*ocWriter) time.Duration {
	for _, b := range blockers {
		if b.unlocking && b.unlockTime > t {
			t = b.unlockTime
		}
	}
	return t
}

func mkOuter(threads [][]string, cfg ocCfg) *mc.Exec {
	shutdown, pcDelay := cfg.shutdown, cfg.pcDelay
	var (
		o              *lock.OuterCancel
		readers        []*ocReader
		writers        []*ocWriter
		shutdownCalled bool
		hist           []string
		notes          = map[string]bool{}
		lazyOf         = map[string]*ocReader{} // thread name -> the lazy reader it is parked in
	)
	log := func(format string, a ...any) {
		hist = append(hist, fmt.Sprintf("%d:", int(mc.ModelNow()/ocUnit))+fmt.Sprintf(format, a...))
	}
	// graceOver: the grace period some writer owes reader r is over. The
	// reference is the unchanged code's: the grace timer of a reader starts
	// when the writer's request is SERVED (the Run loop has taken the hold
	// slot for it and starts cancelling the registered readers), which is
	//   - not before the writer asked, nor before every writer that held the
	//     slot when it asked has called its unlock (time spent queueing does
	//     NOT count), and
	//   - not before r was registered, i.e. not before r asked nor before
	//     every writer that held the slot when r asked has called its unlock.
	// Only a writer that was not yet granted when r asked can cancel r.
	graceOver := func(r *ocReader) bool {
		now := mc.ModelNow()
		reg := latestUnlock(r.reqTime, r.blockers)
		for _, w := range writers {
			if w.granted && w.grantStep <= r.reqStep {
				continue
			}
			served := latestUnlock(w.reqTime, w.blockers)
			if served < reg {
				served = reg
			}
			if served+ocGrace <= now {
				return true
			}
		}
		return false
	}
	// justify: a reader context found cancelled before the reader released.
	justify := func(r *ocReader) {
		if r.justified {
			return
		}
		r.justified = true
		now := mc.ModelNow()
		cause := context.Cause(r.rctx)
		log("%s.cancelled(%v)", r.name, cause)
		if r.parentCancelled != nil && *r.parentCancelled {
			return // its parent context
		}
		if cause != errOuterCause {
			mc.Fail("reader context cancelled by the lock with a cause other than the configured one\nreader %s: cause %v; history=%v", r.name, cause, hist)
		}
		if shutdownCalled {
			return // shutdown
		}
		if graceOver(r) {
			return // a writer, not before the grace period
		}
		mc.Fail("reader context cancelled although it did not release, its parent was not cancelled, there is no shutdown and no writer's grace period (from when its request was served, the reader being registered) has passed\nreader %s (asked t=%v) at t=%v, grace %v, writers=%s; history=%v", r.name, r.reqTime, now, ocGrace, fmtWriters(writers), hist)
	}
	onAdmit := func(r *ocReader) {
		log("%s+", r.name)
		if r.rctx.Err() != nil {
			justify(r)
			return
		}
		if shutdownCalled {
			for _, w := range writers {
				if w.granted && !w.unlocking {
					notes["R-beside-W-across-shutdown"] = true
				}
			}
			return
		}
		for _, w := range writers {
			if w.granted && !w.unlocking {
				mc.Fail("reader admitted with a live context between a writer's grant and its unlock\nreader %s, writer %s; history=%v", r.name, w.name, hist)
			}
		}
	}
	onGrant := func(w *ocWriter) {
		log("%s+", w.name)
		for _, w2 := range writers {
			if w2 != w && w2.granted && !w2.unlocking {
				if shutdownCalled {
					notes["two-writers-across-shutdown"] = true
				} else {
					mc.Fail("two writers hold the lock while it is running\n%s granted while %s has not unlocked; history=%v", w.name, w2.name, hist)
				}
			}
		}
		for _, r := range readers {
			if !r.admitted || r.releasing {
				continue
			}
			if r.rctx.Err() == nil {
				if shutdownCalled {
					notes["W-beside-live-R-across-shutdown"] = true
					continue
				}
				mc.Fail("writer granted while an earlier reader has neither released nor had its context cancelled\nwriter %s, reader %s; history=%v", w.name, r.name, hist)
			}
			if cause := context.Cause(r.rctx); cause != errOuterCause && r.parentCancelled != nil && *r.parentCancelled {
				// Done only through its PARENT: the reader has not released and
				// the lock has not (effectively) cancelled it with the configured
				// cause. That does not count as released: the lock still owes it
				// the grace period (its own cancel after the grace is a no-op on
				// the already-cancelled context, so time is the only witness).
				if shutdownCalled {
					notes["W-beside-parent-cancelled-R-across-shutdown"] = true
					continue
				}
				if !graceOver(r) {
					mc.Fail("writer granted before the grace period while an earlier reader has not released and was not cancelled with the configured cause (only its parent context ended)\nwriter %s (requested t=%v) granted at t=%v, grace %v, reader %s cause %v; history=%v", w.name, w.reqTime, mc.ModelNow(), ocGrace, r.name, cause, hist)
				}
				continue
			}
			justify(r)
		}
	}
	body := func() {
		o = lock.NewOuterCancel(errOuterCause, ocGrace)
		runCtx, cancelRun := mc.CtxWithCancel(context.Background())
		mc.GoNamed("run", func() { o.Run(runCtx) })
		type pcEntry struct {
			flag   *bool
			done   *ocCancel
			cancel context.CancelFunc
		}
		var pcs []pcEntry
		for i, script := range threads {
			script := script
			tname := fmt.Sprintf("t%d", i)
			parents := make([]context.Context, len(script))
			flags := make([]*bool, len(script))
			dones := make([]*ocCancel, len(script))
			for k, op := range script {
				parents[k] = context.Background()
				if op == "Rx" || op == "Rh" {
					ctx, cancel := mc.CtxWithCancel(context.Background())
					f, d := new(bool), &ocCancel{}
					parents[k], flags[k], dones[k] = ctx, f, d
					pcs = append(pcs, pcEntry{f, d, cancel})
				}
			}
			mc.GoNamed(tname, func() {
				for k, op := range script {
					name := fmt.Sprintf("%s.%d%s", tname, k, op)
					if op[0] == 'S' {
						mc.TimeSleep(time.Duration(op[1]-'0') * ocUnit)
						continue
					}
					switch op {
					case "Z":
						mc.TimeSleep(ocGrace / 2)
					case "W", "H1", "H2", "H3", "H6":
						w := &ocWriter{name: name, reqTime: mc.ModelNow(), reqStep: mc.Step(), blockers: holdersNow(writers)}
						writers = append(writers, w)
						log("%s?", name)
						unlock := o.Lock()
						w.granted, w.grantStep = true, mc.Step()
						onGrant(w)
						if op[0] == 'H' {
							mc.TimeSleep(time.Duration(op[1]-'0') * ocGrace / 2)
						} else {
							mc.Yield()
						}
						w.unlocking, w.unlockTime = true, mc.ModelNow()
						log("%s-", name)
						unlock()
					default:
						r := &ocReader{name: name, op: op, reqStep: mc.Step(), reqTime: mc.ModelNow(), blockers: holdersNow(writers), parentCancelled: flags[k], parentDone: dones[k]}
						readers = append(readers, r)
						rctx, release, err := o.RLock(parents[k])
						if d := r.parentDone; cfg.timeline && cfg.prompt && d != nil && d.returned && !shutdownCalled {
							// timeline mode: time moves only when nothing can run, so
							// a waiter whose context has ended returns at that very
							// instant (or at the instant of its call if it ended before)
							since := d.at
							if r.reqTime > since {
								since = r.reqTime
							}
							if now := mc.ModelNow(); now > since {
								mc.Fail("a waiter whose context ended kept waiting\nreader %s asked at t=%v, its context was cancelled at t=%v, RLock returned (err=%v) only at t=%v; history=%v", name, r.reqTime, d.at, err, now, hist)
							}
						}
						if err != nil {
							log("%s!%v", name, err)
							continue // holds nothing
						}
						r.rctx, r.admitted = rctx, true
						onAdmit(r)
						if op == "Rp" {
							mc.Yield()
							if rctx.Err() != nil {
								justify(r)
							}
						} else if op == "Rh" || op == "Rk" {
							// keeps reading for 3 grace periods whatever happens
							// to its context, then releases
							mc.TimeSleep(3 * ocGrace)
							if rctx.Err() != nil {
								justify(r)
							}
						} else {
							r.waiting = true
							lazyOf[tname] = r
							mc.Twin(rctx.Done()).Recv()
							r.waiting = false
							delete(lazyOf, tname)
							justify(r)
						}
						r.releasing = true
						log("%s-", name)
						release()
					}
				}
			})
		}
		if len(pcs) > 0 {
			mc.GoNamed("pc", func() {
				if pcDelay > 0 {
					mc.TimeSleep(pcDelay)
				}
				for _, p := range pcs {
					*p.flag = true
					p.cancel()
					p.done.returned, p.done.at = true, mc.ModelNow()
				}
			})
		}
		if shutdown != "" {
			mc.GoNamed("sd", func() {
				if shutdown == "s5" {
					mc.TimeSleep(ocGrace / 2)
				}
				shutdownCalled = true
				log("shutdown")
				cancelRun()
			})
		}
	}
	check := func(e *mc.End) error {
		parkedLazy := 0
		for _, t := range e.Threads {
			if t.Finished || !strings.HasPrefix(t.Name, "t") {
				continue
			}
			// a lazy reader may wait for ever for a cancellation nobody owes it
			if r := lazyOf[t.Name]; r != nil && r.waiting && r.rctx.Err() == nil && !shutdownCalled {
				parkedLazy++
				continue
			}
			return fmt.Errorf("deadlock: a correctly paired caller never returned\n%s (blocked on %s); parked=%v; history=%v", t.Name, t.WaitOn, e.Parked(), hist)
		}
		if !shutdownCalled {
			reg, slot := lock.McOuterState(o)
			if reg != parkedLazy {
				return fmt.Errorf("readers still registered at final quiescence that do not hold the lock (an RLock that reported an error, or a release, left something held)\n%d registered, %d holding; history=%v", reg, parkedLazy, hist)
			}
			if slot != 0 {
				return fmt.Errorf("the hold slot is still taken at final quiescence although every writer unlocked\nhistory=%v", hist)
			}
		}
		var ns []string
		for n := range notes {
			ns = append(ns, n)
		}
		if shutdownCalled && !e.Finished("run") {
			ns = append(ns, "run-not-returned-after-shutdown")
		}
		mc.Outcome(strings.Join(hist, " ") + " " + strings.Join(hx.SortedStrings(ns), ","))
		return nil
	}
	return &mc.Exec{Body: body, Check: check}
}

func fmtWriters(ws []*ocWriter) string {
	var out []string
	for _, w := range ws {
		out = append(out, fmt.Sprintf("%s@req=%v,granted=%v", w.name, w.reqTime, w.granted))
	}
	return "[" + strings.Join(out, " ") + "]"
}

func outerClass(name, shutdown string) string {
	switch {
	case shutdown != "":
		return "lock.OuterCancel/with-shutdown"
	case strings.HasPrefix(name, "H6 | ") && strings.Contains(name, "| S2;Rx"):
		return "lock.OuterCancel/queued-reader-context-ends-in-buffer"
	case strings.HasPrefix(name, "H6 | ") && strings.Contains(name, "Rx"):
		return "lock.OuterCancel/queued-reader-context-ends"
	case strings.HasPrefix(name, "H"):
		return "lock.OuterCancel/reader-admitted-between-writers-grace"
	case strings.Contains(name, "Rh"):
		return "lock.OuterCancel/holding-reader-parent-cancelled"
	case strings.Contains(name, "Rx"):
		return "lock.OuterCancel/running-with-parent-cancellation"
	}
	return "lock.OuterCancel/running"
}

func outerScenarios() []hx.Scenario {
	var out []hx.Scenario
	seen := map[string]bool{}
	add := func(name, shutdown string, thorough bool, delay bool, quickBound, bound int) {
		full := "outer " + name
		if shutdown != "" {
			full += " +" + shutdown
		}
		if !delay {
			full += " (pb)"
		}
		if seen[full] {
			return
		}
		seen[full] = true
		th := parseScen(name)
		sc := hx.Scenario{
			Name: full, Class: outerClass(name, shutdown), ThoroughOnly: thorough,
			Opts: mc.Options{Delay: delay, MinBound: bound, Bound: bound, AutoClock: true, Horizon: 20 * ocGrace, MaxSteps: 6000},
			Mk:   func() *mc.Exec { return mkOuter(th, ocCfg{shutdown: shutdown}) },
		}
		if quickBound < bound {
			sc.QuickBound, sc.QuickMin = hx.Ptr(quickBound), hx.Ptr(quickBound)
		}
		out = append(out, sc)
	}
	ops := []string{"Rp", "Rl", "Rx", "W"}
	plain := seqs(ops, 2)
	var delayed [][]string
	for _, s := range plain {
		delayed = append(delayed, append([]string{"Z"}, s...))
	}
	nops := func(th [][]string) int {
		n := 0
		for _, t := range th {
			for _, o := range t {
				if o != "Z" {
					n++
				}
			}
		}
		return n
	}
	all := append(append([][]string{}, plain...), delayed...)
	for _, sd := range []string{"", "s0", "s5"} {
		// 2 callers, 1..2 operations each: quick when <= 3 operations in total (<= 2 with start delays or a shutdown)
		for _, name := range combos(all, 2, canonPlain, nil) {
			th := parseScen(name)
			hasZ := strings.Contains(name, "Z")
			add(name, sd, nops(th) > 3 || (nops(th) > 2 && (hasZ || sd != "")), true, 2, 2)
		}
		// 3 callers x 1 operation (no delay: quick; with delays: thorough)
		for _, name := range combos(all, 3, canonPlain, func(th [][]string) bool { return nops(th) == 3 }) {
			add(name, sd, strings.Contains(name, "Z"), true, 2, 2)
		}
		// 3 callers, 4 operations: thorough
		for _, name := range combos(plain, 3, canonPlain, func(th [][]string) bool { return nops(th) == 4 }) {
			add(name, sd, true, true, 2, 2)
		}
		// preemption bounding (every order of forced switches is free, so the
		// helper goroutines make it expensive) only for the smallest: 2 callers
		// x 1 operation, no shutdown; bound 1 quick, bound 2 thorough (bound 1
		// with a parent-cancelling thread)
		if sd == "" {
			for _, name := range combos(seqs(ops, 1), 2, canonPlain, nil) {
				if strings.Contains(name, "Rx") {
					add(name, sd, true, false, 1, 1)
				} else {
					add(name, sd, false, false, 1, 2)
				}
			}
		}
	}
	return out
}

// outerParentScenarios: a reader that keeps HOLDING the read lock while its
// parent context is cancelled (Rh: holds for 3 grace periods whatever happens
// to its context), optionally beside a plain reader (Rl lazy, Rk holding for 3
// grace periods under a background context), and a writer arriving at 0,
// grace/2 or grace. The parent is cancelled at t=0 (racing with everything),
// at grace/2 or at 1.5 grace: before the writer arrives, while it waits, after
// the grace. Timeline mode (time moves only at quiescence) and race mode.
func outerParentScenarios() []hx.Scenario {
	var out []hx.Scenario
	for _, second := range []string{"", "Rl", "Rk"} {
		for _, wr := range []string{"W", "Z;W", "Z;Z;W"} {
			for _, pc := range []int{0, 5, 15} {
				for _, tl := range []bool{true, false} {
					name := "Rh"
					if second != "" {
						name += " | " + second
					}
					name += " | " + wr
					th := parseScen(name)
					pcDelay := time.Duration(pc) * ocUnit
					full := fmt.Sprintf("outerpc %s pc@%d", name, pc)
					if tl {
						full += " tl"
					}
					sc := hx.Scenario{
						Name: full, Class: outerClass(name, ""),
						Opts: mc.Options{Delay: true, MinBound: 2, Bound: 2, AutoClock: true, ClockLast: tl, Horizon: 20 * ocGrace, MaxSteps: 6000},
						Mk:   func() *mc.Exec { return mkOuter(th, ocCfg{pcDelay: pcDelay, timeline: tl}) },
					}
					if second != "" && !tl {
						// 3 callers in race mode: ~2*10^4 schedules at bound 2
						sc.QuickBound, sc.QuickMin = hx.Ptr(1), hx.Ptr(1)
					}
					out = append(out, sc)
				}
			}
		}
	}
	return out
}

// outerQueueScenarios: two small three-party families with a writer that
// HOLDS for a long time.
//
// "outerq" (grace reference): W1 holds for k x grace/2 (k = 1 2 3 6), reader R
// (Rl lazy / Rk holding on) asks at t=1 or 2 while W1 holds, writer W2 asks at
// t=2 or 1 (after / before R). After W1 unlocks R is admitted and W2 served:
// R must keep its full grace period from then on (time W2 spent queueing does
// not count).
//
// "outerw" (queued reader's context ends): W1 holds for 3 grace periods, reader
// Rx asks at t=1 under a parent context that "pc" cancels at t=1 (racing with
// the call) or t=6 (half a grace later), optionally with a second reader or
// writer queued behind it at t=2. In timeline mode RLock must return at the
// instant of the cancellation; always: it holds nothing, nobody deadlocks.
func outerQueueScenarios() []hx.Scenario {
	var out []hx.Scenario
	add := func(prefix, name string, cfg ocCfg) {
		th := parseScen(name)
		full := prefix + " " + name
		if cfg.pcDelay > 0 {
			full += fmt.Sprintf(" pc@%d", int(cfg.pcDelay/ocUnit))
		}
		if cfg.timeline {
			full += " tl"
		}
		out = append(out, hx.Scenario{
			Name: full, Class: outerClass(name, ""),
			Opts: mc.Options{Delay: true, MinBound: 2, Bound: 2, AutoClock: true, ClockLast: cfg.timeline, Horizon: 20 * ocGrace, MaxSteps: 6000},
			Mk:   func() *mc.Exec { return mkOuter(th, cfg) },
		})
	}
	for _, tl := range []bool{true, false} {
		for _, h := range []string{"H1", "H2", "H3", "H6"} {
			for _, r := range []string{"Rl", "Rk"} {
				add("outerq", h+" | S1;"+r+" | S2;W", ocCfg{timeline: tl})
				add("outerq", h+" | S2;"+r+" | S1;W", ocCfg{timeline: tl})
			}
		}
		for _, pc := range []time.Duration{1 * ocUnit, 6 * ocUnit} {
			for _, third := range []string{"", " | S2;Rp", " | S2;W"} {
				add("outerw", "H6 | S1;Rx"+third, ocCfg{pcDelay: pc, timeline: tl, prompt: tl})
			}
		}
		// a full pipeline behind the holding writer: request 1 (t=1) is being
		// handled by the Run loop (blocked on the slot), request 2 (t=2) sits
		// in the 1-slot channel buffer, request 3 (t=3) blocks on the channel
		// send; the context of the LAST (or of the one in the buffer) ends at t=4
		for _, a := range []string{"Rp", "W"} {
			for _, b := range []string{"Rp", "W"} {
				add("outerw", "H6 | S1;"+a+" | S2;"+b+" | S3;Rx", ocCfg{pcDelay: 4 * ocUnit, timeline: tl, prompt: tl})
				add("outerw", "H6 | S1;"+a+" | S2;Rx | S3;"+b, ocCfg{pcDelay: 4 * ocUnit, timeline: tl, prompt: tl && ocStrict})
			}
			add("outerw", "H6 | S1;"+a+" | S2;Rx", ocCfg{pcDelay: 4 * ocUnit, timeline: tl, prompt: tl && ocStrict})
		}
	}
	return out
}
