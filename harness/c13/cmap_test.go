package c13

import (
	"fmt"
	"os"
	"strings"

	"github.com/dapr/kit/concurrency/cmap"

	"verif/hx"
	"verif/mc"
)

// ---------------------------------------------------------------------------
// cmap.Mutex: every operation is a correctly paired section on key a|b:
//   Wk  = Lock(k);  cs; Unlock(k)
//   Dk  = Lock(k);  cs; DeleteUnlock(k)
//   Rk  = RLock(k); cs; RUnlock(k)
//   Ek  = RLock(k); cs; DeleteRUnlock(k)
// The occupancy monitor is updated between acquire-return and release-call.
// ---------------------------------------------------------------------------

// cmapFocusMutex is a documentation aid, off in every registered run.
var cmapFocusMutex = os.Getenv("C13_CMAP_FOCUS") == "mutex"

func mkCmap(threads [][]string) *mc.Exec {
	var (
		m       cmap.Mutex[string]
		writers = map[string]int{}
		readers = map[string]int{}
		hist    []string
	)
	body := func() {
		m = cmap.NewMutex[string]()
		for i, script := range threads {
			script := script
			mc.GoNamed(fmt.Sprintf("t%d", i), func() {
				me := mc.ThreadName()
				for _, op := range script {
					kind, key := op[0], op[1:]
					write := kind == 'W' || kind == 'D'
					if write {
						m.Lock(key)
						hist = append(hist, me+"+"+op)
						if writers[key] > 0 || readers[key] > 0 {
							mc.Fail("mutual exclusion: two holders of one key that must exclude each other\n%s returned from Lock(%q) while the key has %d exclusive holder(s) and %d reader(s) inside their critical sections; history=%v", me, key, writers[key], readers[key], hist)
						}
						writers[key]++
					} else {
						m.RLock(key)
						hist = append(hist, me+"+"+op)
						if writers[key] > 0 {
							mc.Fail("mutual exclusion: two holders of one key that must exclude each other\n%s returned from RLock(%q) while the key has %d exclusive holder(s) inside the critical section; history=%v", me, key, writers[key], hist)
						}
						readers[key]++
					}
					mc.Yield()
					hist = append(hist, me+"-"+op)
					func() {
						// a release that reaches a mutex the caller does not hold
						// makes the runtime panic ("Unlock of unlocked RWMutex");
						// report it as a finding of the scenario's class
						defer func() {
							if p := recover(); p != nil {
								if cmapFocusMutex {
									hist = append(hist, fmt.Sprintf("%s:panic(%v)", me, p))
									return
								}
								mc.Fail("release panicked: it reached a mutex the caller does not hold\n%s releasing %s: %v; history=%v", me, op, p, hist)
							}
						}()
						switch kind {
						case 'W':
							writers[key]--
							m.Unlock(key)
						case 'D':
							writers[key]--
							m.DeleteUnlock(key)
						case 'R':
							readers[key]--
							m.RUnlock(key)
						case 'E':
							readers[key]--
							m.DeleteRUnlock(key)
						}
					}()
				}
			})
		}
	}
	check := func(e *mc.End) error {
		if u := unfinished(e); len(u) > 0 && !cmapFocusMutex {
			return fmt.Errorf("deadlock: correctly paired callers never returned\nunfinished=%v; history=%v", u, hist)
		}
		mc.Outcome(strings.Join(hist, " "))
		return nil
	}
	return &mc.Exec{Body: body, Check: check}
}

// cmapClass is the finding key of a scenario. A delete variant on key k is
// CONTENDED iff some other thread has any operation on k: only then can the
// delete be executed while another goroutine holds, waits on or has looked up
// the same key. Everything else must stay clean.
func cmapClass(threads [][]string) string {
	type use struct{ w, r bool }
	others := func(i int, key string) use {
		var u use
		for j, t := range threads {
			if j == i {
				continue
			}
			for _, o := range t {
				if o[1:] == key {
					if o[0] == 'W' || o[0] == 'D' {
						u.w = true
					} else {
						u.r = true
					}
				}
			}
		}
		return u
	}
	hasDelete := false
	var du, dru2, druw bool
	for i, t := range threads {
		for _, o := range t {
			if o[0] != 'D' && o[0] != 'E' {
				continue
			}
			hasDelete = true
			u := others(i, o[1:])
			if !u.w && !u.r {
				continue
			}
			switch {
			case o[0] == 'D':
				du = true
			case u.r:
				dru2 = true
			default:
				druw = true
			}
		}
	}
	switch {
	case du:
		return "cmap.Mutex/DeleteUnlock-with-contender"
	case dru2:
		return "cmap.Mutex/DeleteRUnlock-with-second-reader"
	case druw:
		return "cmap.Mutex/DeleteRUnlock-with-writer-contender"
	case hasDelete:
		return "cmap.Mutex/delete-without-contender"
	}
	return "cmap.Mutex/no-delete"
}

func cmapScenarios() []hx.Scenario {
	var out []hx.Scenario
	seen := map[string]bool{}
	add := func(name string, thorough bool, bound int) {
		if seen[name] {
			return
		}
		seen[name] = true
		th := parseScen(name)
		sc := hx.Scenario{
			Name: "cmap " + name, Class: cmapClass(th), ThoroughOnly: thorough,
			Opts: mc.Options{Delay: false, MinBound: bound, Bound: bound, MaxSteps: 4000},
			Mk:   func() *mc.Exec { return mkCmap(th) },
		}
		if len(th) >= 4 {
			// 4 threads: bound 1 in the quick tier (bound 2 costs 2*10^5..10^6
			// schedules each); thorough: bound 2 with one key, bound 1 with two
			sc.QuickBound, sc.QuickMin = hx.Ptr(1), hx.Ptr(1)
			if strings.Contains(name, "b") {
				sc.Opts.Bound, sc.Opts.MinBound = 1, 1
			}
		}
		out = append(out, sc)
	}
	var alpha2, alpha1 []string
	for _, k := range []string{"a", "b"} {
		for _, o := range []string{"W", "D", "R", "E"} {
			alpha2 = append(alpha2, o+k)
			if k == "a" {
				alpha1 = append(alpha1, o+k)
			}
		}
	}
	// 2 threads x 1..2 sections, 2 keys: all combinations (bound 3 when <= 2 sections)
	for _, name := range combos(seqs(alpha2, 2), 2, canonKeys, nil) {
		b := 2
		if totalOps(parseScen(name)) <= 2 {
			b = 3
		}
		add(name, false, b)
	}
	// 3 threads x 1 section, 2 keys
	for _, name := range combos(seqs(alpha2, 1), 3, canonKeys, nil) {
		add(name, false, 2)
	}
	// 3 threads, 4 sections in total, 1 or 2 keys: thorough
	four := func(th [][]string) bool { return totalOps(th) <= 4 }
	for _, name := range combos(seqs(alpha2, 2), 3, canonKeys, four) {
		add(name, true, 2)
	}
	// 4 threads x 1 section: 1 key quick, 2 keys thorough
	for _, name := range combos(seqs(alpha1, 1), 4, canonKeys, nil) {
		add(name, false, 2)
	}
	for _, name := range combos(seqs(alpha2, 1), 4, canonKeys, nil) {
		add(name, true, 2)
	}
	// 2 threads x up to 3 sections, 1 key (thorough)
	for _, name := range combos(seqs(alpha1, 3), 2, canonKeys, nil) {
		add(name, true, 2)
	}
	return out
}
