package c13

import (
	"context"
	"fmt"
	"strings"

	"github.com/dapr/kit/concurrency/lock"

	"verif/hx"
	"verif/mc"
)

// ---------------------------------------------------------------------------
// lock.Context: operations <W|R><n|p|c>:
//   W = Lock(ctx); cs; Unlock      R = RLock(ctx); cs; RUnlock
//   n = context never cancelled
//   p = context cancelled by the caller before the call
//   c = context cancelled by a separate thread "x" at an arbitrary instant
//       (before the call, while waiting, when both arms are ready, after the
//       acquisition - wherever the explorer puts it)
// An acquisition that returns an error skips the section.
// ---------------------------------------------------------------------------

func mkLockCtx(threads [][]string) *mc.Exec {
	var (
		l                *lock.Context
		writers, readers int
		hist             []string
	)
	body := func() {
		l = lock.NewContext()
		var racing []context.CancelFunc
		type opctx struct {
			ctx    context.Context
			cancel context.CancelFunc
		}
		ctxs := make([][]opctx, len(threads))
		for i, script := range threads {
			for _, op := range script {
				ctx, cancel := mc.CtxWithCancel(context.Background())
				ctxs[i] = append(ctxs[i], opctx{ctx, cancel})
				if op[1] == 'c' {
					racing = append(racing, cancel)
				}
			}
		}
		for i, script := range threads {
			i, script := i, script
			mc.GoNamed(fmt.Sprintf("t%d", i), func() {
				me := mc.ThreadName()
				for k, op := range script {
					oc := ctxs[i][k]
					if op[1] == 'p' {
						oc.cancel()
					}
					var err error
					if op[0] == 'W' {
						err = l.Lock(oc.ctx)
					} else {
						err = l.RLock(oc.ctx)
					}
					if err != nil {
						hist = append(hist, me+"!"+op)
						if oc.ctx.Err() == nil {
							mc.Fail("acquisition returned an error although its context has not ended\n%s: %s returned %v", me, op, err)
						}
						continue // holds nothing: no release
					}
					hist = append(hist, me+"+"+op)
					if op[0] == 'W' {
						if writers > 0 || readers > 0 {
							mc.Fail("mutual exclusion: write lock acquired while a writer or reader is inside\n%s: %d writer(s) and %d reader(s) inside; history=%v", me, writers, readers, hist)
						}
						writers++
					} else {
						if writers > 0 {
							mc.Fail("mutual exclusion: read lock acquired while a writer is inside\n%s; history=%v", me, hist)
						}
						readers++
					}
					mc.Yield()
					hist = append(hist, me+"-"+op)
					if op[0] == 'W' {
						writers--
						l.Unlock()
					} else {
						readers--
						l.RUnlock()
					}
				}
			})
		}
		if len(racing) > 0 {
			mc.GoNamed("x", func() {
				for _, c := range racing {
					c()
				}
			})
		}
	}
	check := func(e *mc.End) error {
		// every caller returns: a waiter whose context ended stops waiting, and
		// everybody else is eventually granted because failed acquisitions
		// hold nothing and successful ones are released
		if u := unfinished(e); len(u) > 0 {
			return fmt.Errorf("deadlock: callers never returned (a cancelled waiter must return; a failed acquisition must hold nothing)\nunfinished=%v; history=%v", u, hist)
		}
		if tok, r, w := lock.McContextState(l); tok != 0 || r != 0 || w {
			return fmt.Errorf("lock not free after every holder released: an acquisition that reported an error, or a release, left something held\ntokens=%d readers=%d writer=%v; history=%v", tok, r, w, hist)
		}
		mc.Outcome(strings.Join(hist, " "))
		return nil
	}
	return &mc.Exec{Body: body, Check: check}
}

func lockCtxScenarios() []hx.Scenario {
	var out []hx.Scenario
	seen := map[string]bool{}
	add := func(name string, thorough bool, bound int) {
		if seen[name] {
			return
		}
		seen[name] = true
		th := parseScen(name)
		class := "lock.Context/no-cancellation"
		if strings.ContainsAny(strings.ReplaceAll(name, "n", ""), "pc") {
			class = "lock.Context/with-cancellation"
		}
		out = append(out, hx.Scenario{
			Name: "lctx " + name, Class: class, ThoroughOnly: thorough,
			Opts: mc.Options{Delay: false, MinBound: bound, Bound: bound, MaxSteps: 4000},
			Mk:   func() *mc.Exec { return mkLockCtx(th) },
		})
	}
	var alpha []string
	for _, o := range []string{"W", "R"} {
		for _, c := range []string{"n", "p", "c"} {
			alpha = append(alpha, o+c)
		}
	}
	// quick tier: everything with <= 3 sections; 4 sections only without a
	// racing canceller; 3 threads with at most one racing canceller
	racing := func(name string) int { return strings.Count(name, "c") }
	for _, name := range combos(seqs(alpha, 2), 2, canonPlain, nil) {
		b := 2
		n := totalOps(parseScen(name))
		if n <= 2 {
			b = 3
		}
		add(name, n > 3 && racing(name) > 0, b)
	}
	for _, name := range combos(seqs(alpha, 1), 3, canonPlain, nil) {
		add(name, racing(name) > 1, 2)
	}
	for _, name := range combos(seqs(alpha, 2), 3, canonPlain, func(th [][]string) bool { return totalOps(th) <= 4 }) {
		add(name, true, 2)
	}
	// 4 callers x 1 section (thorough): bound 2 without a racing canceller,
	// bound 1 with one (5 threads: 3..8*10^5 schedules each at bound 2)
	for _, name := range combos(seqs(alpha, 1), 4, canonPlain, nil) {
		b := 2
		if racing(name) > 0 {
			b = 1
		}
		add(name, true, b)
	}
	return out
}
