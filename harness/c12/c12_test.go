// Harness for C12 (RunnerManager / RunnerCloserManager), explored on the
// mcgen-instrumented copy of github.com/dapr/kit/concurrency (built with the
// repository's own `unit` tag, which provides WithFatalShutdown).
//
// One scenario = a manager with a tuple of runners and closers of given
// behaviours, a grace period, and harness threads that cancel the parent
// context, call Close (before / during / after Run, once or twice), AddCloser
// during the run, Add after the run started, or Run a second time. Every
// schedule within the bound is executed and the oracle (the statement of C12,
// evaluated on an event log) is applied to each complete execution.
package c12

import (
	"context"
	"errors"
	"fmt"
	"io"
	"regexp"
	"sort"
	"strings"
	"testing"
	"time"

	"github.com/dapr/kit/concurrency"
	"github.com/dapr/kit/logger"

	"verif/hx"
	"verif/mc"
)

// ---- a logger that does nothing (logger is not instrumented) ----

type nopLogger struct{}

func (nopLogger) EnableJSONOutput(bool)                     {}
func (nopLogger) SetAppID(string)                           {}
func (nopLogger) SetOutputLevel(logger.LogLevel)            {}
func (nopLogger) SetOutput(io.Writer)                       {}
func (nopLogger) IsOutputLevelEnabled(logger.LogLevel) bool { return false }
func (nopLogger) WithLogType(string) logger.Logger          { return nopLogger{} }
func (nopLogger) WithFields(map[string]any) logger.Logger   { return nopLogger{} }
func (nopLogger) Info(...interface{})                       {}
func (nopLogger) Infof(string, ...interface{})              {}
func (nopLogger) Debug(...interface{})                      {}
func (nopLogger) Debugf(string, ...interface{})             {}
func (nopLogger) Warn(...interface{})                       {}
func (nopLogger) Warnf(string, ...interface{})              {}
func (nopLogger) Error(...interface{})                      {}
func (nopLogger) Errorf(string, ...interface{})             {}
func (nopLogger) Fatal(...interface{})                      {}
func (nopLogger) Fatalf(string, ...interface{})             {}

const (
	graceGenerous = 10 * time.Second
	graceShort    = time.Second
)

// scen is one closed harness program.
type scen struct {
	closerMgr bool   // RunnerCloserManager (else plain RunnerManager)
	supply    byte   // how the runners reach the manager: 0 all through the constructor, 'a' all through Add before Run, 's' the first through the constructor, the rest through Add
	runners   string // per runner, at once: 'n' return nil, 'e' an error, 'c' context.Canceled, 'w' a wrapped Canceled; wait for ctx then return: 'N' nil, 'E' an error, 'C' context.Canceled, 'W' a wrapped Canceled
	closers   string // per closer registered before Run: 'n' nil, 'e' a plain error, 'c' context.Canceled, 'w' a wrapped Canceled, 'd' context.DeadlineExceeded, 't' takes 1ms of model time (then nil), 'p' parks until a harness thread releases it (then nil), 'f' returns only after the fatal function ran
	grace     byte   // '-' unset (nil), 'g' generous (10s), 's' short (1s), 'x' 1s, exceeded by an 'f' closer, '0' zero, 'm' -1ns, '1' 1ns
	timeline  bool   // timeline mode: model time moves only when nothing else can run
	close     byte   // '-' none, 'b' Close before Run, '1' one concurrent Close, '2' two concurrent, 'a' Close after Run returned
	addCloser byte   // '-' none; a thread calls AddCloser during the run with a closer returning 'n' nil / 'e' an error
	addFrom   byte   // who starts that thread: 'm' the main thread before it calls Run, 'r' runner 0 when it starts
	lateAdd   bool   // a thread calls Add once the run has started
	parent    bool   // a thread cancels the parent context
	parentEnd byte   // how else the parent context ends: 'u' a thread cancels it with a cause (WithCancelCause(custom error)), 'd' its deadline (5ms of model time) expires
	run2      bool   // a thread calls Run concurrently with the main thread's Run
	pb        bool   // explored with preemption bounding (only part of the name)
}

func (s scen) name() string {
	k := "RunnerManager"
	if s.closerMgr {
		k = "RunnerCloserManager"
	}
	n := fmt.Sprintf("%s runners=%q", k, s.runners)
	switch s.supply {
	case 'a':
		n += " supplied-by-Add"
	case 's':
		n += " supplied-by-constructor+Add"
	case '2', '3':
		n += fmt.Sprintf(" supplied-by-%c-concurrent-Adds", s.supply)
	}
	if s.closerMgr {
		n += fmt.Sprintf(" closers=%q grace=%c close=%c", s.closers, s.grace, s.close)
		if s.addCloser != '-' {
			n += fmt.Sprintf(" AddCloser(%c)", s.addCloser)
			if s.addFrom == 'r' {
				n += "@runner0"
			}
		}
	}
	if s.lateAdd {
		n += " lateAdd"
	}
	if s.parent {
		n += " parentCancel"
	}
	switch s.parentEnd {
	case 'u':
		n += " parentCancelCause"
	case 'd':
		n += " parentDeadline"
	}
	if s.run2 {
		n += " Run||Run"
	}
	if s.pb {
		n += " (preemption-bounded)"
	}
	if s.timeline {
		n += " (timeline)"
	}
	return n
}

// manager is what both kinds share.
type manager interface {
	Run(ctx context.Context) error
	Add(runner ...concurrency.Runner) error
}

type runnerRec struct {
	idx      int
	kind     byte
	e        error // the error this runner returns, if its kind returns one
	starts   int
	start    int // event numbers (a total order of the harness events)
	sawDone  int
	ret      int
	retStep  int
	retAt    time.Duration
	returned bool
	err      error
}

type closerRec struct {
	name        string
	kind        byte
	e           error
	accepted    bool // AddCloser returned nil for it
	acceptedAt  int
	acceptStep  int
	invocations int
	start       int
	startStep   int
	ret         int
	retAt       time.Duration
	returned    bool
}

type callRec struct {
	name     string
	retAt    time.Duration
	start    int
	step     int
	ret      int
	retStep  int
	returned bool
	err      error
}

// deadlineParent is a parent context that ends by a deadline, with the real
// runtime's semantics for derived contexts: a context derived from it (also by
// un-instrumented or instrumented code through context.WithCancel*) reports
// Err() == context.DeadlineExceeded once it has expired. (A child of
// mc.CtxWithDeadline reports context.Canceled with cause DeadlineExceeded,
// because the shim builds it on WithCancelCause.) Its Done channel is the one
// of an mc context, so the model twin, and the twins of derived contexts, are
// the shim's; the real derived contexts are cancelled through the std
// afterFuncer hook (Value hides the inner cancelCtx, so std does not attach the
// child to it directly).
type deadlineParent struct {
	inner   context.Context
	expired bool
	fns     map[int]func()
	next    int
}

func (d *deadlineParent) Deadline() (time.Time, bool) { return time.Time{}, false }
func (d *deadlineParent) Done() <-chan struct{}       { return d.inner.Done() }
func (d *deadlineParent) Value(any) any               { return nil }
func (d *deadlineParent) Err() error {
	if d.expired {
		return context.DeadlineExceeded
	}
	return d.inner.Err()
}

// AfterFunc is the hook context.WithCancel* uses for parents it does not know.
func (d *deadlineParent) AfterFunc(f func()) func() bool {
	if d.expired {
		f()
		return func() bool { return false }
	}
	id := d.next
	d.next++
	d.fns[id] = f
	return func() bool {
		_, ok := d.fns[id]
		delete(d.fns, id)
		return ok
	}
}

// expire ends the context: the model twins close (one scheduling point, inside
// cancelInner), then — without another scheduling point — the real derived
// contexts are cancelled with DeadlineExceeded.
func (d *deadlineParent) expire(cancelInner func()) {
	cancelInner()
	d.expired = true
	ids := make([]int, 0, len(d.fns))
	for id := range d.fns {
		ids = append(ids, id)
	}
	sort.Ints(ids)
	for _, id := range ids {
		f := d.fns[id]
		delete(d.fns, id)
		f()
	}
}

type closerImpl func() error

func (c closerImpl) Close() error { return c() }

func leaves(err error, out *[]error) {
	if err == nil {
		return
	}
	if j, ok := err.(interface{ Unwrap() []error }); ok {
		for _, e := range j.Unwrap() {
			leaves(e, out)
		}
		return
	}
	*out = append(*out, err)
}

func mkExec(s scen) *mc.Exec {
	var (
		seq          int
		tick         = func() int { seq++; return seq }
		names        = map[error]string{}
		runners      []*runnerRec
		closers      []*closerRec
		late         = &runnerRec{idx: -1, kind: 'n'}
		runs         []*callRec
		closes       []*callRec
		addc         *callRec
		addcCloser   *closerRec
		lateAddCalls []*callRec
		parentAt     int
		fatalCount   int
		fatalSeq     int
		fatalStep    int
		fatalAt      time.Duration
		startedCh    *mc.Chan[struct{}]
		startedDone  bool
		pStarted     *mc.Chan[struct{}]
		pStartedDone bool
		release      *mc.Chan[struct{}]
		fatalCh      *mc.Chan[struct{}]
		grace        time.Duration
		harness      = map[string]bool{"main": true}
	)
	newErr := func(name string) error {
		e := errors.New(name)
		names[e] = name
		return e
	}
	body := func() {
		bg := context.Background()
		var parent context.Context
		var cancelParent func()
		switch s.parentEnd {
		case 'u':
			p, cc := mc.CtxWithCancelCause(bg)
			cause := newErr("parentCause")
			parent, cancelParent = p, func() { cc(cause) }
		case 'd':
			inner, cancelInner := mc.CtxWithCancel(bg)
			dp := &deadlineParent{inner: inner, fns: map[int]func(){}}
			parent, cancelParent = dp, func() { dp.expire(cancelInner) }
			names[context.DeadlineExceeded] = "context.DeadlineExceeded"
		default:
			parent, cancelParent = mc.CtxWithCancel(bg)
		}
		startedCh = mc.NewChan[struct{}]()
		pStarted = mc.NewChan[struct{}]()
		release = mc.NewChan[struct{}]()
		fatalCh = mc.NewChan[struct{}]()
		markStarted := func() {
			if s.lateAdd && !startedDone {
				startedDone = true
				startedCh.Close()
			}
		}
		var startAddCloser func()
		mkRunner := func(r *runnerRec) concurrency.Runner {
			return func(ctx context.Context) error {
				r.starts++
				r.start = tick()
				markStarted()
				if r.idx == 0 && s.addCloser != '-' && s.addFrom == 'r' && r.starts == 1 {
					startAddCloser()
				}
				switch r.kind {
				case 'n':
				case 'e':
					r.err = r.e
				case 'c': // at once, while the manager's context is still live
					r.err = context.Canceled
				case 'w':
					r.err = fmt.Errorf("runner %d gave up: %w", r.idx, context.Canceled)
					names[r.err] = fmt.Sprintf("wrappedCanceledAtOnce%d", r.idx)
				case 's': // works for 1ms of model time, then nil
					mc.TimeSleep(time.Millisecond)
				case 'S': // works for 10ms of model time (past the parent's deadline), then nil
					mc.TimeSleep(10 * time.Millisecond)
				default:
					mc.Twin(ctx.Done()).Recv()
					r.sawDone = tick()
					switch r.kind {
					case 'E':
						r.err = r.e
					case 'C':
						r.err = ctx.Err()
					case 'U':
						r.err = context.Cause(ctx)
					case 'W':
						r.err = fmt.Errorf("runner %d stopped: %w", r.idx, ctx.Err())
						names[r.err] = fmt.Sprintf("wrappedCanceled%d", r.idx)
					}
				}
				r.ret, r.retStep, r.retAt, r.returned = tick(), mc.Step(), mc.ModelNow(), true
				return r.err
			}
		}
		var fns []concurrency.Runner
		for i := 0; i < len(s.runners); i++ {
			r := &runnerRec{idx: i, kind: s.runners[i]}
			if r.kind == 'e' || r.kind == 'E' {
				r.e = newErr(fmt.Sprintf("errRunner%d", i))
			}
			runners = append(runners, r)
			fns = append(fns, mkRunner(r))
		}
		// the value handed to AddCloser: the four accepted types in rotation
		closerValue := func(c *closerRec, typ int) any {
			f := func() error {
				c.invocations++
				c.start, c.startStep = tick(), mc.Step()
				switch c.kind {
				case 'p':
					if !pStartedDone {
						pStartedDone = true
						pStarted.Close()
					}
					release.Recv()
				case 'f':
					fatalCh.Recv()
				case 't':
					mc.TimeSleep(time.Millisecond)
				}
				c.ret, c.returned, c.retAt = tick(), true, mc.ModelNow()
				return c.e
			}
			switch {
			case c.e == nil && typ%4 == 3:
				return func() { _ = f() }
			case typ%3 == 0:
				return closerImpl(f)
			case typ%3 == 1:
				return func(context.Context) error { return f() }
			}
			return f
		}
		ctorFns, addFns := fns, []concurrency.Runner(nil)
		switch s.supply {
		case 'a', '2', '3':
			ctorFns, addFns = nil, fns
		case 's':
			// separate backing arrays: NewRunnerManager keeps the caller's slice
			// and Add appends to it in place
			ctorFns, addFns = append([]concurrency.Runner(nil), fns[:1]...), append([]concurrency.Runner(nil), fns[1:]...)
		}
		var m manager
		var cm *concurrency.RunnerCloserManager
		if s.closerMgr {
			var gp *time.Duration
			switch s.grace {
			case 'g':
				grace = graceGenerous
				gp = &grace
			case 'x', 's':
				grace = graceShort
				gp = &grace
			case '0':
				grace = 0
				gp = &grace
			case 'm':
				grace = -time.Nanosecond
				gp = &grace
			case '1':
				grace = time.Nanosecond
				gp = &grace
			}
			cm = concurrency.NewRunnerCloserManager(nopLogger{}, gp, ctorFns...)
			if gp != nil {
				cm.WithFatalShutdown(func() {
					fatalCount++
					fatalSeq, fatalStep, fatalAt = tick(), mc.Step(), mc.ModelNow()
					if fatalCount == 1 && strings.Contains(s.closers, "f") {
						fatalCh.Close()
					}
				})
			}
			for i := 0; i < len(s.closers); i++ {
				c := &closerRec{name: fmt.Sprintf("closer%d(%c)", i, s.closers[i]), kind: s.closers[i]}
				switch c.kind {
				case 'e':
					c.e = newErr(fmt.Sprintf("errCloser%d", i))
				case 'c':
					c.e = context.Canceled
					names[c.e] = "context.Canceled"
				case 'w':
					c.e = fmt.Errorf("closer %d: %w", i, context.Canceled)
					names[c.e] = fmt.Sprintf("wrappedCanceledCloser%d", i)
				case 'd':
					c.e = context.DeadlineExceeded
					names[c.e] = "context.DeadlineExceeded"
				}
				closers = append(closers, c)
				if err := cm.AddCloser(closerValue(c, i)); err != nil {
					mc.Fail("AddCloser before Run returned %v", err)
				}
				c.accepted, c.acceptedAt, c.acceptStep = true, tick(), mc.Step()
			}
			m = cm
		} else {
			m = concurrency.NewRunnerManager(ctorFns...)
		}
		if k := int(s.supply - '0'); k == 2 || k == 3 {
			// k threads call Add at the same time (runner i goes to thread i%k);
			// Run is called once they have all returned
			var wg mc.WaitGroup
			wg.Add(k)
			for t := 0; t < k; t++ {
				var mine []concurrency.Runner
				for i := t; i < len(addFns); i += k {
					mine = append(mine, addFns[i])
				}
				mc.GoNamed(fmt.Sprintf("adder%d", t), func() {
					defer wg.Done()
					if len(mine) == 0 {
						return
					}
					if err := m.Add(mine...); err != nil {
						mc.Fail("[key=Add-before-Run-refused] concurrent Add before Run returned %v", err)
					}
				})
			}
			wg.Wait()
		} else if len(addFns) > 0 {
			// before Run (and before any Close): must be accepted
			if err := m.Add(addFns...); err != nil {
				mc.Fail("[key=Add-before-Run-refused] Add before Run returned %v", err)
			}
		}
		doRun := func(name string) {
			c := &callRec{name: name, start: tick(), step: mc.Step()}
			runs = append(runs, c)
			c.err = m.Run(parent)
			c.ret, c.retStep, c.returned, c.retAt = tick(), mc.Step(), true, mc.ModelNow()
			markStarted()
		}
		doClose := func(name string) {
			c := &callRec{name: name, start: tick(), step: mc.Step()}
			closes = append(closes, c)
			c.err = cm.Close()
			c.ret, c.retStep, c.returned, c.retAt = tick(), mc.Step(), true, mc.ModelNow()
		}
		doLateAdd := func(name string) {
			c := &callRec{name: name, start: tick(), step: mc.Step()}
			lateAddCalls = append(lateAddCalls, c)
			c.err = m.Add(mkRunner(late))
			c.ret, c.retStep, c.returned = tick(), mc.Step(), true
		}
		spawn := func(name string, fn func()) {
			harness[name] = true
			mc.GoNamed(name, fn)
		}
		if s.close == 'b' {
			doClose("Close-before-Run")
		}
		if s.parent || s.parentEnd == 'u' {
			spawn("parent", func() {
				cancelParent()
				parentAt = tick()
			})
		}
		if s.parentEnd == 'd' {
			spawn("parent", func() { // the deadline timer
				mc.TimeSleep(5 * time.Millisecond)
				cancelParent()
				parentAt = tick()
			})
		}
		if s.close == '1' || s.close == '2' {
			spawn("close1", func() { doClose("Close#1") })
		}
		if s.close == '2' {
			spawn("close2", func() { doClose("Close#2") })
		}
		if s.addCloser != '-' {
			addcCloser = &closerRec{name: fmt.Sprintf("addedCloser(%c)", s.addCloser), kind: s.addCloser}
			if s.addCloser == 'e' {
				addcCloser.e = newErr("errAddedCloser")
			}
			startAddCloser = func() {
				spawn("addcloser", func() {
					addc = &callRec{name: "AddCloser", start: tick(), step: mc.Step()}
					addc.err = cm.AddCloser(closerValue(addcCloser, 2))
					addc.ret, addc.retStep, addc.returned = tick(), mc.Step(), true
					if addc.err == nil {
						addcCloser.accepted, addcCloser.acceptedAt, addcCloser.acceptStep = true, addc.ret, addc.retStep
					}
				})
			}
			if s.addFrom != 'r' {
				startAddCloser()
			}
		}
		if s.lateAdd {
			spawn("lateadd", func() {
				startedCh.Recv() // a runner has started or Run has returned
				doLateAdd("Add-during-run")
			})
		}
		if strings.Contains(s.closers, "p") {
			spawn("release", func() {
				pStarted.Recv()
				release.Close()
			})
		}
		if s.run2 {
			spawn("run2", func() { doRun("Run(concurrent)") })
		}
		doRun("Run")
		if s.close == 'a' {
			doClose("Close-after-Run")
		}
		doRun("Run(again)")
		doLateAdd("Add-after-Run")
	}

	check := func(e *mc.End) error {
		ename := func(x error) string {
			if n, ok := names[x]; ok {
				return n
			}
			return fmt.Sprintf("%q", x.Error())
		}
		enames := func(xs []error) string {
			var o []string
			for _, x := range xs {
				o = append(o, ename(x))
			}
			sort.Strings(o)
			return "{" + strings.Join(o, ", ") + "}"
		}
		// ---- which Run call actually ran the manager ----
		var ran *callRec
		for _, r := range runs {
			if r.returned && errors.Is(r.err, concurrency.ErrManagerAlreadyStarted) {
				continue
			}
			if ran != nil {
				return fmt.Errorf("[key=ran-twice] the manager ran twice: %s (called at step %d) and %s (called at step %d) both ran", ran.name, ran.step, r.name, r.step)
			}
			ran = r
		}
		for _, r := range append(append([]*runnerRec{}, runners...), late) {
			if r.starts > 1 {
				return fmt.Errorf("[key=runner-started-twice] runner %d was started %d times", r.idx, r.starts)
			}
		}
		allClosers := append([]*closerRec{}, closers...)
		if addcCloser != nil {
			allClosers = append(allClosers, addcCloser)
		}
		lastRunnerRet, lastRunnerAt, anyReturned := 0, time.Duration(0), false
		for _, r := range runners {
			if r.returned {
				anyReturned = true
				if r.ret > lastRunnerRet {
					lastRunnerRet = r.ret
				}
				if r.retAt > lastRunnerAt {
					lastRunnerAt = r.retAt
				}
			}
		}

		// ---- fatal-shutdown action ----
		if fatalCount > 1 {
			return fmt.Errorf("[key=fatal-fired-twice] fatal-shutdown action fired %d times", fatalCount)
		}
		if fatalCount == 1 {
			if s.grace == '-' {
				return fmt.Errorf("[key=fatal-without-grace] fatal-shutdown action fired although no grace period is set")
			}
			for _, r := range runners {
				if !r.returned || r.ret > fatalSeq {
					return fmt.Errorf("[key=fatal-before-grace-elapsed] fatal-shutdown action fired at step %d before runner %d had returned (closers cannot have started)", fatalStep, r.idx)
				}
			}
			// closers start no earlier than the return of the last runner
			if fatalAt < lastRunnerAt+grace {
				return fmt.Errorf("[key=fatal-before-grace-elapsed] fatal-shutdown action fired at model time %v, before closers-start (>= %v, the return of the last runner) + grace period %v", fatalAt, lastRunnerAt, grace)
			}
			if s.timeline {
				// model time moved only while nothing could run: the action is
				// legitimate only if a closer really was still busy
				// (when expiry and completion coincide — every closer finished AT
				// or after the deadline, e.g. grace <= 0 — either outcome is accepted)
				busy := false
				lastDone := lastRunnerAt
				for _, c := range allClosers {
					if c.invocations == 1 && (!c.returned || c.ret > fatalSeq) {
						busy = true
					}
					if c.invocations == 1 && c.returned && c.retAt > lastDone {
						lastDone = c.retAt
					}
				}
				if !busy && lastDone < lastRunnerAt+grace {
					return fmt.Errorf("[key=fatal-fired-though-closers-finished-in-time] fatal-shutdown action fired at model time %v although every closer had finished before the grace period (%v) elapsed: the shutdown sat idle until the deadline\n%d user closer(s)", fatalAt, grace, len(allClosers))
				}
			}
			if ran != nil && ran.returned && ran.ret < fatalSeq {
				return fmt.Errorf("[key=fatal-after-closers-collected] fatal-shutdown action fired at step %d, after Run had collected every closer and returned (step %d)", fatalStep, ran.retStep)
			}
		}

		if ran == nil {
			// ---- the manager never ran: Close (or a concurrent Run) won ----
			if len(closes) == 0 {
				return fmt.Errorf("[key=run-refused-without-cause] every Run call returned ErrManagerAlreadyStarted although nothing else started or closed the manager")
			}
			for _, c := range closes {
				if !c.returned {
					return fmt.Errorf("[key=Close-on-never-run-manager-blocks] %s on a manager that never ran did not return; parked=%v", c.name, e.Parked())
				}
			}
			for _, r := range runners {
				if r.starts > 0 {
					return fmt.Errorf("[key=Close-before-Run-does-not-prevent-Run] runner %d was started although every Run call failed with ErrManagerAlreadyStarted", r.idx)
				}
			}
			for _, t := range e.Threads {
				if t.Name == "main" && !t.Finished {
					return fmt.Errorf("[key=deadlock] main thread blocked on %s; parked=%v", t.WaitOn, e.Parked())
				}
			}
			mc.Outcome("never-ran")
			return nil
		}

		// ---- all runners started ----
		for _, r := range runners {
			if r.starts == 0 {
				return fmt.Errorf("[key=runner-not-started] runner %d was never started although %s (step %d) ran the manager; parked=%v", r.idx, ran.name, ran.step, e.Parked())
			}
		}
		// ---- once one returned, the context of every other one is done ----
		if anyReturned {
			for _, r := range runners {
				if !r.returned {
					return fmt.Errorf("[key=other-runners-not-cancelled] runner %d is still waiting for its context at final quiescence although another runner has returned (event %d); parked=%v", r.idx, lastRunnerRet, e.Parked())
				}
			}
		}
		// ---- must Run return? ----
		closeCalled := len(closes) > 0
		triggered := len(runners) == 0 || anyReturned || parentAt > 0 || (s.closerMgr && len(runners) > 0 && closeCalled)
		if !ran.returned {
			if triggered {
				why := "a runner returned"
				switch {
				case len(runners) == 0:
					why = "there are no runners"
				case anyReturned:
				case parentAt > 0:
					why = "the parent context was cancelled"
				default:
					why = "Close was called"
				}
				if s.grace == 'x' && fatalCount == 0 {
					why += "; the closers outlast the grace period and the fatal-shutdown action never fired"
				}
				key := "Run-never-returned"
				if s.grace == 'x' && fatalCount == 0 {
					key = "fatal-not-fired"
				}
				return fmt.Errorf("[key=%s] %s (step %d) never returned although %s; parked=%v", key, ran.name, ran.step, why, e.Parked())
			}
			// legitimately blocked: nothing ever ends a runner
			for _, c := range allClosers {
				if c.invocations > 0 {
					return fmt.Errorf("[key=closer-before-last-runner-returned] %s was invoked although no runner has returned", c.name)
				}
			}
			mc.Outcome("blocked-no-trigger")
			return nil
		}
		// ---- Run returned only after every runner returned ----
		for _, r := range runners {
			if !r.returned || r.ret > ran.ret {
				return fmt.Errorf("[key=Run-returned-before-runner] %s returned at step %d before runner %d (%c) had returned", ran.name, ran.retStep, r.idx, r.kind)
			}
		}
		// ---- closers: exactly once, only after the last runner, before Run/Close return ----
		var want []error
		for _, r := range runners {
			if r.err != nil && !errors.Is(r.err, context.Canceled) {
				want = append(want, r.err)
			}
		}
		for _, c := range allClosers {
			if c.invocations > 1 {
				return fmt.Errorf("[key=closer-invoked-twice] %s was invoked %d times", c.name, c.invocations)
			}
			if c.invocations == 1 {
				for _, r := range runners {
					if r.ret > c.start {
						return fmt.Errorf("[key=closer-before-last-runner-returned] %s was invoked at step %d before runner %d (%c) had returned (step %d)", c.name, c.startStep, r.idx, r.kind, r.retStep)
					}
				}
				if !c.returned || c.ret > ran.ret {
					return fmt.Errorf("[key=Run-returned-before-closer] %s returned at step %d while %s had not finished", ran.name, ran.retStep, c.name)
				}
				if c.e != nil {
					want = append(want, c.e)
				}
			}
			if c.accepted && c.invocations == 0 {
				when, key := "before Run", "closer-never-invoked"
				if c == addcCloser {
					key = "AddCloser-after-closing-never-invoked"
					when = fmt.Sprintf("during the run, AddCloser called at step %d, returned nil at step %d; Run returned at step %d", addc.step, c.acceptStep, ran.retStep)
				}
				return fmt.Errorf("[key=%s] %s was registered (AddCloser returned nil; %s) but was never invoked", key, c.name, when)
			}
		}
		// ---- the error: exactly the non-nil, non-Canceled results ----
		same := func(got error) (bool, []error) {
			var g []error
			leaves(got, &g)
			cnt := map[error]int{}
			for _, x := range want {
				cnt[x]++
			}
			for _, x := range g {
				cnt[x]--
			}
			for _, n := range cnt {
				if n != 0 {
					return false, g
				}
			}
			return true, g
		}
		if ok, g := same(ran.err); !ok {
			return fmt.Errorf("[key=joined-errors] %s returned the join of %s, the non-nil non-Canceled results are %s", ran.name, enames(g), enames(want))
		}
		// ---- timeline mode: Run and Close return once the closers have finished,
		// not when the grace period ends ----
		if s.timeline && s.grace != '-' && fatalCount == 0 {
			// closers start at the model time the last runner returned (time only
			// moves at quiescence); one that finished strictly later than
			// start+grace outlasted the grace period
			for _, c := range allClosers {
				// (a grace period <= 0 expires when the closers start: a closer that
				// finishes at that very model time coincides with the expiry)
				if c.invocations == 1 && c.returned && c.retAt > lastRunnerAt+max(grace, 0) {
					return fmt.Errorf("[key=fatal-not-fired] a closer outlasted the grace period but the fatal-shutdown action did not fire\n%s finished at model time %v, closers started at %v, grace period %v", c.name, c.retAt, lastRunnerAt, grace)
				}
			}
		}
		if s.timeline {
			last := lastRunnerAt
			for _, c := range allClosers {
				if c.invocations == 1 && c.retAt > last {
					last = c.retAt
				}
			}
			if fatalCount == 1 && fatalAt > last {
				last = fatalAt
			}
			for _, c := range append([]*callRec{ran}, closes...) {
				if c.returned && c.retAt > last {
					return fmt.Errorf("[key=return-delayed-beyond-closers] %s returned at model time %v although the last runner/closer had finished at %v and nothing else was running", c.name, c.retAt, last)
				}
			}
		}
		// ---- every Close call: returns after all closers, same error ----
		for _, c := range closes {
			if !c.returned {
				return fmt.Errorf("[key=Close-never-returned] %s (called at step %d) never returned although Run returned at step %d; parked=%v", c.name, c.step, ran.retStep, e.Parked())
			}
			for _, cl := range allClosers {
				if cl.invocations == 1 && cl.ret > c.ret {
					return fmt.Errorf("[key=Close-returned-before-closer] %s returned at step %d while %s had not finished", c.name, c.retStep, cl.name)
				}
			}
			for _, r := range runners {
				if r.ret > c.ret {
					return fmt.Errorf("[key=Close-returned-before-runner] %s returned at step %d before runner %d had returned", c.name, c.retStep, r.idx)
				}
			}
			if ok, g := same(c.err); !ok {
				return fmt.Errorf("[key=Close-error-differs] %s returned the join of %s, Run's runner and closer errors are %s", c.name, enames(g), enames(want))
			}
		}
		// ---- at most once; additions afterwards are refused ----
		for _, r := range runs {
			if r != ran && !r.returned {
				return fmt.Errorf("[key=deadlock] %s never returned; parked=%v", r.name, e.Parked())
			}
		}
		for _, a := range lateAddCalls {
			if !a.returned {
				return fmt.Errorf("[key=deadlock] %s never returned; parked=%v", a.name, e.Parked())
			}
			if !errors.Is(a.err, concurrency.ErrManagerAlreadyStarted) {
				return fmt.Errorf("[key=late-Add-not-refused] %s (called at step %d, after the run had started) returned %v instead of ErrManagerAlreadyStarted", a.name, a.step, a.err)
			}
		}
		if late.starts > 0 {
			return fmt.Errorf("[key=late-Add-not-refused] the runner offered to Add after the run had started was started")
		}
		if addc != nil && !addc.returned {
			return fmt.Errorf("[key=deadlock] AddCloser (called at step %d) never returned; parked=%v", addc.step, e.Parked())
		}
		for _, t := range e.Threads {
			if (t.Name == "main" || t.Name == "run2" || t.Name == "close1" || t.Name == "close2" || t.Name == "parent") && !t.Finished {
				return fmt.Errorf("[key=deadlock] harness thread %s blocked on %s; parked=%v", t.Name, t.WaitOn, e.Parked())
			}
		}
		if s.grace == 'x' && strings.Contains(s.closers, "f") && fatalCount == 0 {
			return fmt.Errorf("[key=fatal-not-fired] the closers outlasted the grace period but the fatal-shutdown action did not fire")
		}
		var g []error
		leaves(ran.err, &g)
		oc := fmt.Sprintf("ran=%s err=%s fatal=%d", ran.name, enames(g), fatalCount)
		if addc != nil {
			oc += fmt.Sprintf(" addcloser=%v invoked=%d", addc.err == nil, addcCloser.invocations)
		}
		mc.Outcome(oc)
		return nil
	}
	return &mc.Exec{Body: body, Check: check}
}

// closer types: the four accepted ones, and rejected ones, sequentially.
func mkTypesExec() *mc.Exec {
	var problems []string
	body := func() {
		bad := func(f string, a ...any) { problems = append(problems, fmt.Sprintf(f, a...)) }
		runnerReturned := false
		order := []string{}
		// closer errors are reported whatever they are (no Canceled filter)
		errA, errB, errC := errors.New("errIoCloser"), error(context.Canceled), fmt.Errorf("func() error closer: %w", context.Canceled)
		errD := error(context.DeadlineExceeded)
		cm := concurrency.NewRunnerCloserManager(nopLogger{}, nil, func(context.Context) error {
			runnerReturned = true
			return nil
		})
		inv := map[string]int{}
		note := func(n string) {
			inv[n]++
			if !runnerReturned {
				bad("closer %s invoked before the runner returned", n)
			}
			order = append(order, n)
		}
		accepted := []struct {
			n string
			v any
		}{
			{"io.Closer", closerImpl(func() error { note("io.Closer"); return errA })},
			{"func(context.Context) error", func(ctx context.Context) error {
				note("func(context.Context) error")
				if ctx == nil {
					bad("func(context.Context) error closer got a nil context")
				}
				return errB
			}},
			{"func() error", func() error { note("func() error"); return errC }},
			{"func()", func() { note("func()") }},
		}
		for _, a := range accepted {
			if err := cm.AddCloser(a.v); err != nil {
				bad("AddCloser(%s) returned %v", a.n, err)
			}
		}
		rejected := []any{42, "closer", nil, struct{}{}, func(int) error { return nil }, func() int { return 0 }, func(context.Context) {}, &struct{}{}, []func(){}}
		for _, r := range rejected {
			if err := cm.AddCloser(r); err == nil {
				bad("AddCloser(%T) returned nil", r)
			}
		}
		// several at once
		if err := cm.AddCloser(func() { note("func()#2") }, func() error { note("func() error#2"); return errD }); err != nil {
			bad("AddCloser(func(), func() error) returned %v", err)
		}
		err := cm.Run(context.Background())
		var g []error
		leaves(err, &g)
		cnt := map[error]int{errA: 1, errB: 1, errC: 1, errD: 1}
		for _, x := range g {
			cnt[x]--
		}
		for _, x := range []error{errA, errB, errC, errD} { // fixed order: deterministic message
			if n := cnt[x]; n != 0 {
				bad("the error %q of a closer is missing from / extra in the joined result (%+d)", x.Error(), -n)
			}
			delete(cnt, x)
		}
		if len(cnt) > 0 {
			bad("Run returned %d error(s) no closer returned", len(cnt))
		}
		for _, n := range []string{"io.Closer", "func(context.Context) error", "func() error", "func()", "func()#2", "func() error#2"} {
			if inv[n] != 1 {
				bad("closer of type %s invoked %d times", n, inv[n])
			}
		}
		if err := cm.AddCloser(func() {}); !errors.Is(err, concurrency.ErrManagerAlreadyClosed) {
			bad("AddCloser after Run returned %v", err)
		}
	}
	check := func(e *mc.End) error {
		if !e.Finished("main") {
			return fmt.Errorf("[key=deadlock] main blocked; parked=%v", e.Parked())
		}
		if len(problems) > 0 {
			return fmt.Errorf("[key=closer-types] closer types: %s", strings.Join(problems, "; "))
		}
		mc.Outcome("types-ok")
		return nil
	}
	return &mc.Exec{Body: body, Check: check}
}

var closerKindsRe = regexp.MustCompile(`closers="[^"]*[cwdt][^"]*"`)

func hasTrigger(s scen) bool {
	return len(s.runners) == 0 || strings.ContainsAny(s.runners, "necwsS") || s.parent || s.parentEnd != 0 ||
		(s.closerMgr && (s.close == '1' || s.close == '2' || s.close == 'b'))
}

func scenarios() []hx.Scenario {
	var out []hx.Scenario
	seen := map[string]bool{}
	add := func(s scen, class string, delay bool, minBound, bound int, thoroughOnly bool) {
		if s.grace == 0 {
			s.grace = '-'
		}
		if s.close == 0 {
			s.close = '-'
		}
		if s.addCloser == 0 {
			s.addCloser = '-'
		}
		if s.grace == 'x' != strings.Contains(s.closers, "f") {
			return
		}
		if delay {
			// many goroutines: 3 deviations must complete for the smaller
			// configurations, 2 for the larger; deeper while the budget lasts
			w := len(s.runners) + len(s.closers)
			for _, b := range []bool{s.parent || s.parentEnd != 0, s.close == '1' || s.close == '2', s.close == '2', s.addCloser != '-', s.lateAdd, s.run2, strings.Contains(s.closers, "p"), s.grace != '-'} {
				if b {
					w++
				}
			}
			minBound, bound = 3, 4
			if w > 4 {
				minBound, bound = 2, 3
			}
		}
		n := s.name()
		if seen[n] {
			return
		}
		seen[n] = true
		sc := s
		out = append(out, hx.Scenario{
			Name: n, Class: class, ThoroughOnly: thoroughOnly,
			Opts: mc.Options{Delay: delay, MinBound: minBound, Bound: bound, AutoClock: true, ClockLast: s.timeline, Horizon: time.Minute, MaxSteps: 5000},
			Mk:   func() *mc.Exec { return mkExec(sc) },
		})
	}
	kinds := "necwNECW"
	tuples := func(n int, sorted bool) []string {
		var res []string
		var rec func(cur string)
		rec = func(cur string) {
			if len(cur) == n {
				res = append(res, cur)
				return
			}
			for i := 0; i < len(kinds); i++ {
				if sorted && len(cur) > 0 && strings.IndexByte(kinds, cur[len(cur)-1]) > i {
					continue
				}
				rec(cur + string(kinds[i]))
			}
		}
		rec("")
		return res
	}
	in := func(x string, set ...string) bool {
		for _, y := range set {
			if x == y {
				return true
			}
		}
		return false
	}

	// ---- RunnerManager: every tuple of <= 2 runners (multisets of 3), parent
	// cancelled or not; Run again and Add afterwards are in every scenario.
	// Few threads: preemption bounding ----
	const rm, rcm = "RunnerManager", "RunnerCloserManager"
	for r := 0; r <= 3; r++ {
		for _, t := range tuples(r, r == 3) {
			for _, par := range []bool{false, true} {
				sc := scen{runners: t, parent: par}
				if !hasTrigger(sc) && !in(t, "N", "EC", "NW") {
					continue
				}
				sortedT := true
				for i := 1; i < len(t); i++ {
					if strings.IndexByte(kinds, t[i-1]) > strings.IndexByte(kinds, t[i]) {
						sortedT = false
					}
				}
				if r == 3 {
					add(sc, rm, false, 1, 2, true)
					continue
				}
				add(sc, rm, false, 2, 2, r == 2 && !sortedT)
				if r >= 1 && r <= 2 && sortedT {
					sc.lateAdd = true
					add(sc, rm, false, 2, 2, !in(t, "n", "N", "eN", "cN"))
					sc.lateAdd, sc.run2 = false, true
					add(sc, rm, false, 2, 2, !in(t, "e", "E", "nE", "wE"))
				}
			}
		}
	}

	// ---- RunnerCloserManager: many goroutines, delay bounding ----
	closeModes := []byte{'-', 'b', '1', '2', 'a'}
	// G1 life cycle: runners x closers x grace unset/generous x Close mode x parent
	for _, t := range []string{"", "n", "e", "c", "w", "N", "E", "C", "W", "nN", "eE", "cN", "wE", "cw", "NE", "EW", "ee", "CN", "eNE", "nEW", "cEW"} {
		for _, cl := range []string{"", "n", "e", "ne", "ee", "nee"} {
			for _, g := range []byte{'-', 'g'} {
				for _, cm := range closeModes {
					for _, par := range []bool{false, true} {
						sc := scen{closerMgr: true, runners: t, closers: cl, grace: g, close: cm, parent: par}
						if !hasTrigger(sc) {
							continue
						}
						quick := in(t, "", "e", "c", "N", "eE", "wE") && in(cl, "", "e") && !(par && g == 'g')
						add(sc, rcm, true, 3, 4, !quick)
					}
				}
			}
		}
	}
	// G2 parked closers and the grace period
	for _, t := range []string{"", "n", "e", "N", "eE"} {
		for _, cl := range []string{"p", "pe", "ep", "f", "fe", "ef", "nf", "pf", "fee"} {
			for _, g := range []byte{'-', 'g', 'x'} {
				for _, cm := range []byte{'-', '1', '2', 'a'} {
					for _, par := range []bool{false, true} {
						sc := scen{closerMgr: true, runners: t, closers: cl, grace: g, close: cm, parent: par}
						if !hasTrigger(sc) || (par && t != "N") {
							continue
						}
						quick := in(t, "n", "N") && in(cl, "p", "f", "ef") && cm != '2'
						add(sc, rcm, true, 3, 4, !quick)
					}
				}
			}
		}
	}
	// G3 AddCloser during the run, by a thread started before Run or by runner 0
	for _, t := range []string{"", "n", "e", "N", "eN", "NE"} {
		for _, cl := range []string{"", "e", "p"} {
			for _, g := range []byte{'-', 'g'} {
				for _, cm := range []byte{'-', '1', 'a'} {
					for _, par := range []bool{false, true} {
						for _, ac := range []byte{'n', 'e'} {
							for _, from := range []byte{'m', 'r'} {
								sc := scen{closerMgr: true, runners: t, closers: cl, grace: g, close: cm, parent: par, addCloser: ac, addFrom: from}
								if !hasTrigger(sc) || (from == 'r' && t == "") {
									continue
								}
								quick := in(t, "n", "N") && cl == "" && ac == 'e' && cm != 'a' && !(par && g == 'g')
								add(sc, rcm, true, 3, 4, !quick)
							}
						}
					}
				}
			}
		}
	}
	// the same with preemption bounding (choices among forced candidates are
	// free) on the smallest configurations
	for _, t := range []string{"", "n", "N"} {
		for _, cm := range []byte{'-', '1'} {
			for _, par := range []bool{false, true} {
				sc := scen{closerMgr: true, runners: t, grace: '-', close: cm, parent: par, addCloser: 'e', addFrom: 'm', pb: true}
				if hasTrigger(sc) && !(cm == '1' && par) {
					add(sc, rcm, false, 1, 2, t == "N" || par)
				}
			}
		}
	}
	// G5 timeline mode (model time moves only at quiescence): with a grace
	// period configured, Run/Close return when the closers have finished and
	// the fatal action fires only if a closer is really still busy at the
	// deadline — in particular with zero or one user closer
	for _, t := range []string{"", "n", "e", "w", "N", "eE"} {
		for _, cl := range []string{"", "n", "e", "ne", "p", "f", "ef", "nf", "t", "te", "nt"} {
			for _, g := range []byte{'g', 's', 'x', '0', 'm', '1'} {
				for _, cm := range []byte{'-', '1', '2', 'a'} {
					for _, par := range []bool{false, true} {
						sc := scen{closerMgr: true, runners: t, closers: cl, grace: g, close: cm, parent: par, timeline: true}
						if !hasTrigger(sc) || (par && t != "N") {
							continue
						}
						quick := in(t, "", "n", "N") && in(cl, "", "e", "f", "t") && cm != '2'
						if strings.ContainsRune("0m1", rune(g)) {
							quick = in(t, "", "n") && in(cl, "", "e", "t", "te") && (cm == '-' || cm == '1')
						}
						add(sc, rcm, true, 3, 4, !quick)
					}
				}
			}
		}
	}
	// G8 how the parent context ends: plain cancel, cancel with a cause, deadline
	// (timeline mode; the deadline expires at 5ms, 's' runners return at 1ms, 'S'
	// at 10ms); runners that wait return nil / ctx.Err() / context.Cause(ctx).
	// The manager adds nothing of its own to the joined error.
	for _, pe := range []byte{'d', 'u', 'c'} {
		for _, t := range []string{"N", "C", "U", "NC", "NU", "CU", "sN", "SN", "sC", "SU", "eC", "EU", "S", "NCU"} {
			base := scen{runners: t, timeline: true}
			if pe == 'c' {
				base.parent = true
			} else {
				base.parentEnd = pe
			}
			add(base, rm, false, 2, 2, len(t) > 2 || (pe != 'd' && !in(t, "U", "CU")))
			for _, cl := range []string{"", "e"} {
				for _, cm := range []byte{'-', '1', 'a'} {
					sc := base
					sc.closerMgr, sc.closers, sc.grace, sc.close = true, cl, '-', cm
					quick := pe == 'd' && in(t, "N", "C", "sN", "SN") && cl == "" && (cm == '-' || (cm == '1' && t == "N"))
					add(sc, rcm, true, 3, 4, !quick)
				}
			}
		}
	}
	// G7 closer results: every closer error is reported, whatever it is (the
	// Canceled filter applies to runners only); position = closer type
	// (0 io.Closer, 1 func(context.Context) error, 2 func() error)
	for _, t := range []string{"", "n", "e", "c", "N"} {
		for _, cl := range []string{"c", "w", "d", "nc", "nw", "nd", "nnc", "nnw", "nnd", "cw", "ed", "cc", "wnd"} {
			for _, g := range []byte{'-', 'g'} {
				for _, cm := range []byte{'-', '1', '2', 'a'} {
					sc := scen{closerMgr: true, runners: t, closers: cl, grace: g, close: cm}
					if !hasTrigger(sc) {
						continue
					}
					quick := in(t, "n", "c") && len(cl) <= 3 && !in(cl, "cc", "ed") && g == '-' && (cm == '-' || cm == '1') && (t == "n" || len(cl) == 1)
					add(sc, rcm, true, 3, 4, !quick)
				}
			}
		}
	}
	// G9 runners supplied by 2-3 threads calling Add at the same time before Run:
	// every runner whose Add returned nil is started exactly once
	for _, sup := range []byte{'2', '3'} {
		for _, t := range []string{"nN", "NE", "nNE", "eNEW", "NNNN"} {
			for _, par := range []bool{false, true} {
				sc := scen{runners: t, parent: par, supply: sup}
				if !hasTrigger(sc) {
					continue
				}
				// several free-running adder threads: preemption bounding grows
				// factorially, one preemption must complete
				if sup == '3' || len(t) > 2 {
					add(sc, rm, true, 3, 4, true) // delay bounding for the larger ones
				} else {
					add(sc, rm, false, 1, 2, false)
				}
				sc.closerMgr, sc.closers, sc.grace, sc.close = true, "e", '-', '1'
				add(sc, rcm, true, 3, 4, len(t) > 2)
			}
		}
	}
	// G6 how the runners are supplied: all through Add before Run, or split
	// between the constructor and Add (the default everywhere else: constructor)
	for _, sup := range []byte{'a', 's'} {
		for _, t := range []string{"n", "N", "E", "eN", "cE", "NE", "wN", "nEW"} {
			if sup == 's' && len(t) < 2 {
				continue
			}
			for _, par := range []bool{false, true} {
				sc := scen{runners: t, parent: par, supply: sup}
				if hasTrigger(sc) {
					add(sc, rm, false, 2, 2, len(t) > 2 || !in(t, "N", "eN", "NE"))
				}
				for _, cl := range []string{"", "e"} {
					for _, g := range []byte{'-', 'g'} {
						for _, cm := range closeModes {
							sc := scen{closerMgr: true, runners: t, closers: cl, grace: g, close: cm, parent: par, supply: sup}
							if !hasTrigger(sc) {
								continue
							}
							quick := in(t, "N", "NE") && cl == "" && g == '-' && (cm == '1' || cm == '-' || cm == 'b')
							add(sc, rcm, true, 3, 4, !quick)
						}
					}
				}
			}
		}
	}
	// G4 at most once: Add during the run, concurrent Run
	for _, t := range []string{"n", "N", "eN"} {
		for _, cm := range []byte{'-', '1', 'b'} {
			for _, par := range []bool{false, true} {
				sc := scen{closerMgr: true, runners: t, closers: "e", grace: '-', close: cm, parent: par, lateAdd: true}
				if hasTrigger(sc) {
					add(sc, rcm, true, 3, 4, t == "eN")
				}
				sc.lateAdd, sc.run2 = false, true
				if hasTrigger(sc) {
					add(sc, rcm, true, 3, 4, t == "eN")
				}
			}
		}
	}
	// the boundary families (closer error kinds, grace <= 0 / 1ns) come first
	prio := func(n string) bool {
		return strings.Contains(n, "concurrent-Adds") || strings.Contains(n, "parentDeadline") || strings.Contains(n, "parentCancelCause") || strings.Contains(n, "grace=0") || strings.Contains(n, "grace=m") || strings.Contains(n, "grace=1") || closerKindsRe.MatchString(n)
	}
	sort.SliceStable(out, func(i, j int) bool { return prio(out[i].Name) && !prio(out[j].Name) })
	out = append([]hx.Scenario{{
		Name: "RunnerCloserManager closer types (sequential)", Class: "RunnerCloserManager",
		Opts: mc.Options{Delay: true, Bound: 1, AutoClock: true, MaxSteps: 5000},
		Mk:   mkTypesExec,
	}}, out...)
	return out
}

func TestMC(t *testing.T) { hx.Run(t, scenarios()) }
