// Harness for C20 (context.Pool), explored on the mcgen-instrumented copy of
// github.com/dapr/kit/context.
//
// One scenario = 0..3 initial contexts (each live, already cancelled, or
// context.Background) + a canceller thread for a chosen subset of the live
// ones + optionally an adder thread (1-2 Adds of a live / live-then-cancelled /
// already ended context), a Cancel thread and a Size thread. Every schedule
// within the preemption bound is run and the oracle below is evaluated on each.
package c20

import (
	"context"
	"fmt"
	"regexp"
	"runtime"
	"sort"
	"strings"
	"testing"
	"time"

	kitctx "github.com/dapr/kit/context"

	"verif/hx"
	"verif/mc"
)

type scen struct {
	init    string // per initial context: 'L' live, 'X' already cancelled, 'B' context.Background()
	cancels string // canceller thread: the digits are the (live) initial contexts it cancels, in this order
	adds    string // adder script: 'L' Add live ctx, never cancelled; 'K' Add live ctx then cancel it at once; 'D' Add live ctx, cancel it after the last Add; 'X' Add already ended ctx; 'B' Add Background
	cancel  bool   // a thread calls pool.Cancel()
	sizes   int    // Size calls made by the size thread
}

func (s scen) name() string {
	n := fmt.Sprintf("init=%q cancel-members=%q add=%q", s.init, s.cancels, s.adds)
	if s.cancel {
		n += " Cancel"
	}
	if s.sizes > 0 {
		n += fmt.Sprintf(" Size*%d", s.sizes)
	}
	return n
}

// cx is one context offered to the pool.
type cx struct {
	name        string
	initial     bool
	kind        byte
	liveAtOffer bool // had not ended when it was passed to NewPool / when Add was called
	end         int  // event number at which it ended (0 = never)
	endStep     int
	poolDoneEnd bool // pool context already done at the very instant this context ended
}

type addRec struct {
	c                      *cx
	start, end             int // event numbers around the Add call
	startStep, endStep     int
	doneAtStart, doneAtEnd bool // pool context done when Add was called / when it returned
	class                  byte // 'D' definitely a member, 'P' possibly, 'R' certainly not a member
	panicked               bool // Add panicked (in the context's Done) and the harness recovered
	ended                  bool // class 'R' because the pool had ended (done / Cancel returned) when Add was called
}

type sizeRec struct {
	start, end int
	step       int
	v          int
}

func mkExec(s scen) *mc.Exec {
	var (
		seq                    int // harness event counter: a total order of the recorded events
		pool                   *kitctx.Pool
		ctxs                   []*cx
		adds                   []*addRec
		sizes                  []sizeRec
		cancelStart, cancelEnd int
		cancelStartStep        int
		harnessThreads         = map[string]bool{"main": true}
		tick                   = func() int { seq++; return seq }
		poolDone               = func() bool { return pool.Err() != nil }
	)
	body := func() {
		bg := context.Background()
		var initial []context.Context
		var cancelFns []context.CancelFunc
		for i := 0; i < len(s.init); i++ {
			c := &cx{name: fmt.Sprintf("init%d(%c)", i, s.init[i]), initial: true, kind: s.init[i], liveAtOffer: s.init[i] != 'X'}
			ctxs = append(ctxs, c)
			if s.init[i] == 'B' {
				initial = append(initial, bg)
				cancelFns = append(cancelFns, nil)
				continue
			}
			ctx, cancel := mc.CtxWithCancel(bg)
			if s.init[i] == 'X' {
				cancel()
				c.end = tick()
			}
			initial = append(initial, ctx)
			cancelFns = append(cancelFns, cancel)
		}
		pool = kitctx.NewPool(initial...)
		tick()
		end := func(c *cx, cancel context.CancelFunc) {
			cancel()
			// nothing ran between the close of the context and this line
			c.end = tick()
			c.endStep = mc.Step()
			c.poolDoneEnd = poolDone()
		}
		if s.cancels != "" {
			harnessThreads["canceller"] = true
			mc.GoNamed("canceller", func() {
				for _, d := range s.cancels {
					end(ctxs[d-'0'], cancelFns[d-'0'])
				}
			})
		}
		if s.adds != "" {
			harnessThreads["adder"] = true
			mc.GoNamed("adder", func() {
				var deferred []func()
				defer func() {
					for _, f := range deferred {
						f()
					}
				}()
				for i := 0; i < len(s.adds); i++ {
					k := s.adds[i]
					c := &cx{name: fmt.Sprintf("add%d(%c)", i, k), kind: k, liveAtOffer: k != 'X' && k != 'P'}
					var ctx context.Context = bg
					var cancel context.CancelFunc
					switch k {
					case 'B':
					case 'P':
						// a half-initialised wrapper: Done() panics; it can never
						// be a member, the oracle treats it like an ended context
						ctx = brokenCtx{}
						c.end = tick()
					default:
						ctx, cancel = mc.CtxWithCancel(bg)
					}
					if k == 'X' {
						cancel()
						c.end = tick()
					}
					ctxs = append(ctxs, c)
					a := &addRec{c: c, start: tick(), startStep: mc.Step(), doneAtStart: poolDone()}
					adds = append(adds, a)
					if k == 'P' {
						a.panicked = offerRecovering(pool, ctx) // like a handler behind a recover middleware
					} else {
						pool.Add(ctx)
					}
					a.end, a.endStep, a.doneAtEnd = tick(), mc.Step(), poolDone()
					if k == 'K' {
						end(c, cancel)
					} else if k == 'D' {
						deferred = append(deferred, func() { end(c, cancel) })
					}
				}
			})
		}
		if s.cancel {
			harnessThreads["Cancel"] = true
			mc.GoNamed("Cancel", func() {
				cancelStart, cancelStartStep = tick(), mc.Step()
				pool.Cancel()
				cancelEnd = tick()
			})
		}
		if s.sizes > 0 {
			harnessThreads["Size"] = true
			mc.GoNamed("Size", func() {
				for i := 0; i < s.sizes; i++ {
					r := sizeRec{start: tick(), step: mc.Step()}
					r.v = pool.Size()
					r.end = tick()
					sizes = append(sizes, r)
				}
			})
		}
	}

	check := func(e *mc.End) error {
		// ---- every pool operation returns ----
		for _, t := range e.Threads {
			if harnessThreads[t.Name] && !t.Finished {
				return fmt.Errorf("[key=deadlock] a pool operation never returned\nharness thread %s blocked on %s; parked=%v", t.Name, t.WaitOn, e.Parked())
			}
		}
		never := 1 << 30
		endOf := func(c *cx) int {
			if c.end == 0 {
				return never
			}
			return c.end
		}
		cancelCalledBefore := func(t int) bool { return cancelStart > 0 && cancelStart < t }

		// ---- membership, decided soundly from call/return order ----
		// definite: Add RETURNED while some definite member was still live, Cancel
		// had not been called and the pool context was not done.
		byEnd := append([]*addRec(nil), adds...)
		sort.Slice(byEnd, func(i, j int) bool { return byEnd[i].end < byEnd[j].end })
		var definite []*cx
		for _, c := range ctxs {
			if c.initial && c.liveAtOffer {
				definite = append(definite, c)
			}
		}
		liveDefiniteAt := func(t int) bool {
			for _, m := range definite {
				if endOf(m) > t {
					return true
				}
			}
			return false
		}
		for _, a := range byEnd {
			a.class = 'P'
			if liveDefiniteAt(a.end) && !cancelCalledBefore(a.end) && !a.doneAtEnd {
				a.class = 'D'
				if endOf(a.c) > a.end {
					definite = append(definite, a.c) // a member from a.end on
				}
			}
		}
		// certainly not a member: when Add was CALLED the pool context was done,
		// Cancel had returned, or no context that may be a member was live.
		byStart := append([]*addRec(nil), adds...)
		sort.Slice(byStart, func(i, j int) bool { return byStart[i].start < byStart[j].start })
		for i, a := range byStart {
			if a.class == 'D' {
				continue
			}
			live := false
			for _, c := range ctxs {
				if c.initial && c.liveAtOffer && endOf(c) > a.start {
					live = true
				}
			}
			for _, b := range byStart[:i] {
				if b.class != 'R' && endOf(b.c) > a.start {
					live = true
				}
			}
			if a.doneAtStart || (cancelEnd > 0 && cancelEnd < a.start) {
				a.class, a.ended = 'R', true // offered after the pool ended
			} else if !live {
				a.class = 'R' // offered when every member had ended
			}
		}
		isDefiniteAdd := map[*cx]*addRec{}
		for _, a := range adds {
			if a.class == 'D' {
				isDefiniteAdd[a.c] = a
			}
		}

		// ---- SAFETY: the pool context is never done while a member has not
		// ended, unless Cancel was called ----
		finalDone := poolDone()
		for _, m := range definite {
			what := "passed at creation"
			if a := isDefiniteAdd[m]; a != nil {
				what = fmt.Sprintf("added (Add returned at step %d while a member was live, the pool live and Cancel not called)", a.endStep)
			}
			if m.end != 0 {
				if m.poolDoneEnd && !cancelCalledBefore(m.end) {
					return fmt.Errorf("[key=cancelled-while-member-live] SAFETY: the pool's context was done before a member ended and Cancel had not been called\nalready done at step %d, when member %s (%s) ended", m.endStep, m.name, what)
				}
			} else if finalDone && cancelStart == 0 {
				return fmt.Errorf("[key=cancelled-while-member-live] SAFETY: the pool's context is done although a member never ended and Cancel was never called\nmember %s (%s)", m.name, what)
			}
		}

		// ---- LIVENESS at final quiescence ----
		var leaked []string
		for _, t := range e.Threads {
			if !harnessThreads[t.Name] && !t.Finished {
				leaked = append(leaked, t.Name+"@"+t.WaitOn)
			}
		}
		allEnded := true // every context that is or may be a member has ended
		var stillLive, ignoredLive []string
		for _, c := range ctxs {
			if c.initial && c.liveAtOffer && c.end == 0 {
				allEnded = false
				stillLive = append(stillLive, c.name)
			}
		}
		for _, a := range adds {
			if a.c.end == 0 {
				if a.class == 'R' {
					ignoredLive = append(ignoredLive, a.c.name)
				} else {
					allEnded = false
					stillLive = append(stillLive, a.c.name)
				}
			}
		}
		if allEnded || cancelStart > 0 {
			why := "every member has ended"
			if cancelStart > 0 {
				why = "Cancel was called"
			}
			if len(ignoredLive) > 0 {
				why += fmt.Sprintf(" (the still-live %v were offered when no member was live any more / after the pool ended, so they are not members)", ignoredLive)
			}
			if !finalDone {
				key := "not-cancelled-after-members-ended"
				if len(ignoredLive) > 0 && cancelStart == 0 {
					key = "Add-after-all-members-ended-not-ignored"
				}
				return fmt.Errorf("[key=%s] LIVENESS: the pool's context is not done at final quiescence\n%s; parked=%v", key, why, e.Parked())
			}
			if len(leaked) > 0 {
				return fmt.Errorf("[key=watcher-not-ended] LIVENESS: the pool's context is done but the watcher goroutine has not exited\n%s; %v", why, leaked)
			}
		}
		if finalDone && len(leaked) > 0 {
			return fmt.Errorf("[key=watcher-not-ended] the pool's context is done but its watcher goroutine is still alive\n%v", leaked)
		}

		// ---- Size: members being tracked, 0 after Cancel; an Add in flight or
		// of undecidable membership widens the accepted interval ----
		nInit := 0
		for _, c := range ctxs {
			if c.initial && c.liveAtOffer {
				nInit++
			}
		}
		// hiR: hi plus the Adds offered when every member had ended; hiZ: plus
		// those offered after the pool ended (they only name the failure)
		bounds := func(start, end int) (lo, hi, hiR, hiZ int) {
			lo, hi, hiR, hiZ = nInit, nInit, nInit, nInit
			for _, a := range adds {
				if a.class == 'D' && a.end < start && a.c.liveAtOffer {
					lo++
				}
				if a.start >= end {
					continue
				}
				hiZ++
				if a.class != 'R' {
					hi++
				}
				if !a.ended {
					hiR++
				}
			}
			if cancelCalledBefore(end) {
				lo = 0
			}
			if cancelEnd > 0 && cancelEnd < start {
				hi, hiR, hiZ = 0, 0, hiZ-nInit
			}
			return
		}
		sizeKey := func(v, hi, hiR, hiZ int) string {
			switch {
			case v > hi && v <= hiR:
				return "Add-after-all-members-ended-not-ignored"
			case v > hi && v <= hiZ:
				return "Add-after-pool-ended-not-ignored"
			}
			return "Size-wrong"
		}
		for _, r := range sizes {
			lo, hi, hiR, hiZ := bounds(r.start, r.end)
			if r.v < lo || r.v > hi {
				return fmt.Errorf("[key=%s] SIZE: Size() does not report the members being tracked\nSize() called at step %d returned %d, the tracked members number between %d and %d (initially live %d; adds %s; Cancel called=%v returned=%v)", sizeKey(r.v, hi, hiR, hiZ), r.step, r.v, lo, hi, nInit, addSummary(adds), cancelCalledBefore(r.end), cancelEnd > 0 && cancelEnd < r.start)
			}
		}
		// controller context: immediate, unless the pool's lock was never released
		final, stuck := 0, false
		func() {
			defer func() {
				if recover() != nil {
					stuck = true
				}
			}()
			final = pool.Size()
		}()
		if stuck {
			return fmt.Errorf("[key=deadlock] the pool's lock is still held at final quiescence: Size() would never return\nparked=%v", e.Parked())
		}
		lo, hi, hiR, hiZ := bounds(never, never)
		if final < lo || final > hi {
			return fmt.Errorf("[key=%s] SIZE: Size() at final quiescence does not report the members being tracked\nSize() = %d, the tracked members number between %d and %d (initially live %d; adds %s; Cancel called=%v)", sizeKey(final, hi, hiR, hiZ), final, lo, hi, nInit, addSummary(adds), cancelStart > 0)
		}

		var sz []string
		for _, r := range sizes {
			sz = append(sz, fmt.Sprint(r.v))
		}
		mc.Outcome(fmt.Sprintf("done=%v adds=%s sizes=%s final=%d live=%v", finalDone, addSummary(adds), strings.Join(sz, ","), final, stillLive))
		_ = cancelStartStep
		return nil
	}
	return &mc.Exec{Body: body, Check: check}
}

// brokenCtx is a context wrapper whose inner context was never set: Done()
// panics with a nil dereference.
type brokenCtx struct{ context.Context }

// offerRecovering calls pool.Add and swallows a panic raised by the context
// itself, as a server's recover middleware does.
func offerRecovering(pool *kitctx.Pool, ctx context.Context) (panicked bool) {
	defer func() {
		if r := recover(); r != nil {
			if _, ok := r.(runtime.Error); !ok {
				panic(r) // not ours (model runtime)
			}
			panicked = true
		}
	}()
	pool.Add(ctx)
	return false
}

func addSummary(adds []*addRec) string {
	var out []string
	for _, a := range adds {
		x := ""
		if a.panicked {
			x = "!panicked"
		}
		out = append(out, fmt.Sprintf("%s:%c%s", a.c.name, a.class, x))
	}
	return "[" + strings.Join(out, " ") + "]"
}

func words(alpha string, min, max int) []string {
	var out []string
	var rec func(cur string)
	rec = func(cur string) {
		if len(cur) >= min {
			out = append(out, cur)
		}
		if len(cur) == max {
			return
		}
		for i := 0; i < len(alpha); i++ {
			rec(cur + string(alpha[i]))
		}
	}
	rec("")
	return out
}

// orders lists every sequence without repetition over the given digits
// (every subset, every order).
func orders(digits string) []string {
	out := []string{""}
	var rec func(cur string)
	rec = func(cur string) {
		for i := 0; i < len(digits); i++ {
			if strings.IndexByte(cur, digits[i]) >= 0 {
				continue
			}
			out = append(out, cur+string(digits[i]))
			rec(cur + string(digits[i]))
		}
	}
	rec("")
	return out
}

var panicAddRe = regexp.MustCompile(`add="[^"]*P[^"]*"`)

func scenarios() []hx.Scenario {
	var out []hx.Scenario
	add := func(s scen, bound, minBound int, thoroughOnly bool) {
		class := "Pool"
		sc := s
		out = append(out, hx.Scenario{
			Name: s.name(), Class: class, ThoroughOnly: thoroughOnly,
			// preemption bounding: choices among forced candidates are free
			Opts: mc.Options{Bound: bound, MinBound: minBound, MaxSteps: 2000},
			Mk:   func() *mc.Exec { return mkExec(sc) },
		})
	}
	inits := words("LX", 0, 3)
	inits = append(inits, "B", "BL", "LB", "XB", "BLL", "LBX")
	// adder scripts: every 1-2 Adds over live / live-then-cancelled / ended;
	// "DK" cancels the two added contexts in reverse order, "DD" in order
	addScripts := []string{"", "L", "K", "X", "B", "LL", "LK", "KL", "KK", "DK", "DD", "LX", "XL", "KX", "XK", "XX", "BK", "P", "PL", "PK", "LP", "KP", "PP"}
	for _, in := range inits {
		live := ""
		for i := range in {
			if in[i] == 'L' {
				live += fmt.Sprint(i)
			}
		}
		for _, ord := range orders(live) {
			for _, ad := range addScripts {
				for _, cn := range []bool{false, true} {
					for _, sz := range []int{0, 1, 2} {
						threads := 0 // harness threads besides main and the watcher
						for _, b := range []bool{ord != "", ad != "", cn, sz > 0} {
							if b {
								threads++
							}
						}
						if sz == 2 && threads > 2 {
							continue
						}
						sc := scen{init: in, cancels: ord, adds: ad, cancel: cn, sizes: sz}
						ops := len(ord) + 2*len(ad) + sz
						switch {
						case threads <= 2:
							// completed to 3 preemptions
							add(sc, 3, 3, ops > 4 || len(in) > 2)
						case threads == 3:
							// 2 preemptions must complete, 3 while the budget lasts;
							// 3 initial contexts x 2 Adds x 3 threads is left out (size)
							if len(in) == 3 && len(ad) == 2 {
								continue
							}
							add(sc, 3, 2, ops > 3 || len(in) > 2)
						case len(in) <= 2 && len(ad) <= 1:
							// all four thread kinds: 1 preemption must complete
							add(sc, 2, 1, true)
						}
					}
				}
			}
		}
	}
	// scenarios with a context whose Done() panics first (the driver spends
	// spare quick budget on thorough-only scenarios in list order), then those
	// in which Cancel races an adder
	rank := func(n string) int {
		switch {
		case panicAddRe.MatchString(n):
			return 0
		case strings.Contains(n, " Cancel") && !strings.Contains(n, `add=""`):
			return 1
		}
		return 2
	}
	sort.SliceStable(out, func(i, j int) bool { return rank(out[i].Name) < rank(out[j].Name) })
	return out
}

// ---- members that are deadline contexts on the model clock (timeline mode) ----

type dlScen struct {
	init []int // per initial context: deadline in ms of model time, 0 = plain live context that never ends
	adds []int // contexts added at model time 0 by the adder thread: deadline in ms, 0 = never ends
}

func (d dlScen) name() string { return fmt.Sprintf("deadline-members init=%v add=%v", d.init, d.adds) }

func mkDeadlineExec(d dlScen) *mc.Exec {
	var (
		pool     *kitctx.Pool
		doneAt   = time.Duration(-1)
		addedAt  []time.Duration
		addsDone bool
	)
	mk := func(ms int) context.Context {
		if ms == 0 {
			ctx, _ := mc.CtxWithCancel(context.Background())
			return ctx
		}
		ctx, _ := mc.CtxWithTimeout(context.Background(), time.Duration(ms)*time.Millisecond)
		return ctx
	}
	body := func() {
		var initial []context.Context
		for _, ms := range d.init {
			initial = append(initial, mk(ms))
		}
		pool = kitctx.NewPool(initial...)
		mc.GoNamed("observer", func() {
			mc.Twin(pool.Done()).Recv()
			doneAt = mc.ModelNow()
		})
		mc.GoNamed("adder", func() {
			for _, ms := range d.adds {
				pool.Add(mk(ms))
				addedAt = append(addedAt, mc.ModelNow())
			}
			addsDone = true
		})
	}
	check := func(e *mc.End) error {
		if !addsDone {
			return fmt.Errorf("[key=deadlock] a pool operation never returned\nadder blocked; parked=%v", e.Parked())
		}
		// timeline mode: every Add returned at model time 0, while the initial
		// members (all live until >= 5ms) were live: the added ones are members
		first := 1 << 30
		for _, ms := range d.init {
			if ms != 0 && ms < first {
				first = ms
			}
		}
		for _, at := range addedAt {
			if at >= time.Duration(first)*time.Millisecond {
				return nil // not decidable (cannot happen in timeline mode)
			}
		}
		never, last := false, 0
		for _, ms := range append(append([]int{}, d.init...), d.adds...) {
			if ms == 0 {
				never = true
			} else if ms > last {
				last = ms
			}
		}
		done := pool.Err() != nil
		if never {
			if done {
				return fmt.Errorf("[key=cancelled-while-member-live] SAFETY: the pool's context is done although a member never ended and Cancel was never called\npool done at model time %v; members (deadline ms, 0 = never ends): created with %v, added at time 0 %v", doneAt, d.init, d.adds)
			}
			mc.Outcome("live")
			return nil
		}
		lastAt := time.Duration(last) * time.Millisecond
		if done && doneAt >= 0 && doneAt < lastAt {
			return fmt.Errorf("[key=cancelled-while-member-live] SAFETY: the pool's context was done before a member ended and Cancel had not been called\npool done at model time %v, the last member ends at %v; created with %v, added at time 0 %v", doneAt, lastAt, d.init, d.adds)
		}
		if !done {
			return fmt.Errorf("[key=not-cancelled-after-members-ended] LIVENESS: the pool's context is not done at final quiescence\nevery member has reached its deadline (last %v, now %v); parked=%v", lastAt, e.Now, e.Parked())
		}
		for _, t := range e.Threads {
			if strings.HasPrefix(t.Name, "g") && !t.Finished {
				return fmt.Errorf("[key=watcher-not-ended] the pool's context is done but its watcher goroutine is still alive\n%v", e.Parked())
			}
		}
		mc.Outcome(fmt.Sprint("done@", doneAt))
		return nil
	}
	return &mc.Exec{Body: body, Check: check}
}

// ---- a member that is itself a live, non-empty Pool ----

type nestScen struct {
	ctor   byte     // 'n' outer = NewPool(inner); 'a' outer = NewPool(c), outer.Add(inner)
	inner  int      // contexts inner is created with (a, or a and b)
	t1, t2 []string // ops of two threads: addB (inner.Add(b)), endA, endB, endC, cancelInner, size (outer.Size())
}

func (n nestScen) name() string {
	return fmt.Sprintf("nested-pool ctor=%c inner-members=%d T1=%s T2=%s", n.ctor, n.inner, strings.Join(n.t1, ","), strings.Join(n.t2, ","))
}

func mkNestedExec(n nestScen) *mc.Exec {
	var (
		inner, outer         *kitctx.Pool
		ended                = map[string]bool{}
		hasB                 = n.inner == 2
		innerCancelled       bool
		sizes                []int
		early                string
		finished             int
		cancelA, cancelB, cC context.CancelFunc
	)
	body := func() {
		bg := context.Background()
		a, ca := mc.CtxWithCancel(bg)
		b, cb := mc.CtxWithCancel(bg)
		c, cc := mc.CtxWithCancel(bg)
		cancelA, cancelB, cC = ca, cb, cc
		if n.inner == 2 {
			inner = kitctx.NewPool(a, b)
		} else {
			inner = kitctx.NewPool(a)
		}
		if n.ctor == 'n' {
			outer = kitctx.NewPool(inner)
		} else {
			outer = kitctx.NewPool(c)
			outer.Add(inner) // c and inner are live: inner is a member
		}
		sample := func(after string) {
			// the outer pool must not be done while the nested pool is live
			if early == "" && outer.Err() != nil && inner.Err() == nil {
				early = after
			}
		}
		run := func(ops []string) {
			for _, op := range ops {
				switch op {
				case "addB":
					inner.Add(b) // a is live: b becomes a member of inner
					hasB = true
				case "endA":
					cancelA()
					ended["a"] = true
				case "endB":
					cancelB()
					ended["b"] = true
				case "endC":
					cC()
					ended["c"] = true
				case "cancelInner":
					innerCancelled = true
					inner.Cancel()
				case "size":
					sizes = append(sizes, outer.Size())
				}
				sample(op)
			}
			finished++
		}
		mc.GoNamed("t1", func() { run(n.t1) })
		mc.GoNamed("t2", func() { run(n.t2) })
	}
	check := func(e *mc.End) error {
		if finished != 2 {
			return fmt.Errorf("[key=deadlock] a pool operation never returned\nparked=%v", e.Parked())
		}
		innerDone, outerDone := inner.Err() != nil, outer.Err() != nil
		innerShould := innerCancelled || (ended["a"] && (!hasB || ended["b"]))
		if innerDone != innerShould {
			return nil // the nested pool itself is judged by the other scenarios
		}
		if early != "" || (outerDone && !innerDone) {
			return fmt.Errorf("[key=cancelled-while-member-live] SAFETY: the pool's context is done although a member never ended and Cancel was never called\nthe member is a nested pool that is still live (its own members: a ended=%v, b member=%v ended=%v); first seen after %q", ended["a"], hasB, ended["b"], early)
		}
		membersEnded := innerDone && (n.ctor == 'n' || ended["c"])
		if outerDone && !membersEnded {
			return fmt.Errorf("[key=cancelled-while-member-live] SAFETY: the pool's context is done although a member never ended and Cancel was never called\nmember c is live")
		}
		if membersEnded && !outerDone {
			return fmt.Errorf("[key=not-cancelled-after-members-ended] LIVENESS: the pool's context is not done at final quiescence\nthe nested pool has ended (cancelled=%v) and so has every other member; parked=%v", innerCancelled, e.Parked())
		}
		want := 1
		if n.ctor == 'a' {
			want = 2
		}
		for _, v := range sizes {
			if v != want {
				return fmt.Errorf("[key=Size-wrong] SIZE: Size() does not report the members being tracked\nSize() of the outer pool = %d, it has %d member(s) (a nested pool is one member)", v, want)
			}
		}
		mc.Outcome(fmt.Sprint(innerDone, outerDone, sizes))
		return nil
	}
	return &mc.Exec{Body: body, Check: check}
}

func extraScenarios() []hx.Scenario {
	var out []hx.Scenario
	for _, d := range []dlScen{
		{[]int{5, 10}, []int{0}}, {[]int{5, 10}, []int{20}}, {[]int{5, 10}, []int{7}}, {[]int{5}, []int{0}}, {[]int{5}, []int{20, 0}},
		{[]int{5, 0}, []int{20}}, {[]int{5, 10}, nil}, {[]int{10, 5}, []int{20}}, {[]int{5, 10, 15}, []int{30}}, {[]int{0, 5}, nil}, {[]int{5, 10}, []int{20, 30}},
	} {
		d := d
		out = append(out, hx.Scenario{
			Name: d.name(), Class: "Pool",
			Opts: mc.Options{Bound: 2, MinBound: 2, AutoClock: true, ClockLast: true, Horizon: time.Second, MaxSteps: 2000},
			Mk:   func() *mc.Exec { return mkDeadlineExec(d) },
		})
	}
	for _, n := range []nestScen{
		{'n', 1, []string{"addB", "endA"}, nil},
		{'n', 1, []string{"addB", "endA", "endB"}, []string{"size"}},
		{'n', 1, []string{"cancelInner"}, []string{"size"}},
		{'n', 1, []string{"addB"}, []string{"endA"}},
		{'n', 2, []string{"size", "endA", "size", "endB"}, nil},
		{'n', 2, []string{"endA"}, []string{"cancelInner"}},
		{'a', 1, []string{"addB", "endA"}, []string{"endC"}},
		{'a', 1, []string{"cancelInner"}, []string{"endC"}},
		{'a', 1, []string{"addB", "endA", "endB"}, []string{"size"}},
		{'a', 2, []string{"size", "endA"}, []string{"endC", "endB"}},
	} {
		n := n
		out = append(out, hx.Scenario{
			Name: n.name(), Class: "Pool",
			Opts: mc.Options{Bound: 2, MinBound: 2, MaxSteps: 2000},
			Mk:   func() *mc.Exec { return mkNestedExec(n) },
		})
	}
	return out
}

func TestMC(t *testing.T) { hx.Run(t, append(extraScenarios(), scenarios()...)) }
