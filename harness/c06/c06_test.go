// Harness for C06 (queue.Processor), explored on the mcgen-instrumented copy
// of github.com/dapr/kit/events/queue.
package c06

import (
	"fmt"
	"sort"
	"strings"
	"testing"
	"time"

	"github.com/dapr/kit/events/queue"

	"verif/hx"
	"verif/mc"
)

const ms = time.Millisecond

type item struct {
	key string
	due time.Time
	id  int
}

func (i *item) Key() string              { return i.key }
func (i *item) ScheduledTime() time.Time { return i.due }

// op kinds
type op struct {
	kind byte // 'E' enqueue, 'D' dequeue, 'C' close, 'W' wait
	key  string
	due  int // tenths of ms from epoch (E) / duration (W)
}

func (o op) String() string {
	switch o.kind {
	case 'E':
		return fmt.Sprintf("E(%s@%d)", o.key, o.due)
	case 'D':
		return "D(" + o.key + ")"
	case 'M':
		return fmt.Sprintf("M(%s@%d)", o.key, o.due)
	case 'W':
		return fmt.Sprintf("W(%d)", o.due)
	case 'P':
		return fmt.Sprintf("EnqueueInAnyOrder(%d)", o.due)
	case 'Q':
		return fmt.Sprintf("DequeueNoneOrAnyOf(%d)", o.due)
	case 'R':
		return fmt.Sprintf("ReplaceNoneOrAnyOf(%d)", o.due)
	}
	return "C"
}

type rec struct {
	id               int
	key              string
	due              time.Duration
	client           int
	enqStart, enqEnd int
	enqEndAt         time.Duration
	enqStartAt       time.Duration
	never            bool
	execs            int
	execStart        int
	execEnd          int
	execAt           time.Duration
}

type cancelRec struct {
	key        string
	start, end int
	endAt      time.Duration
	client     int
}

type closeRec struct{ start, end int }

type monitor struct {
	items   []*rec
	cancels []cancelRec
	closes  []closeRec
	order   []int // exec order by id
}

func tenth(d int) time.Duration { return time.Duration(d) * 100 * time.Microsecond }

// farFuture is the "never" sentinel callers use (more than 292 years ahead, so
// that durations to it saturate).
var farFuture = time.Date(9999, 12, 31, 0, 0, 0, 0, time.UTC)

func mkExec(scripts [][]op, epoch time.Time, timeline bool) *mc.Exec {
	m := &monitor{}
	var p *queue.Processor[string, *item]
	byID := map[int]*rec{}
	objs := map[string]*item{} // the object last enqueued under a key ('M' hands the same object in again)
	body := func() {
		p = queue.NewProcessor[string, *item](func(it *item) {
			r := byID[it.id]
			r.execs++
			r.execStart = mc.Step()
			r.execAt = mc.ModelNow()
			m.order = append(m.order, it.id)
			mc.Yield()
			r.execEnd = mc.Step()
		})
		var wg mc.WaitGroup
		wg.Add(len(scripts))
		for ci, sc := range scripts {
			ci, sc := ci, sc
			mc.GoNamed(fmt.Sprintf("client%d", ci), func() {
				defer wg.Done()
				dequeue := func(key string) {
					c := cancelRec{key: key, start: mc.Step(), client: ci}
					p.Dequeue(key)
					c.end = mc.Step()
					c.endAt = mc.ModelNow()
					m.cancels = append(m.cancels, c)
				}
				enqueue := func(key string, due int) {
					r := &rec{id: len(m.items), key: key, due: tenth(due), client: ci}
					m.items = append(m.items, r)
					byID[r.id] = r
					r.enqStart = mc.Step()
					r.enqStartAt = mc.ModelNow()
					p.Enqueue(&item{key: key, due: epoch.Add(r.due), id: r.id})
					r.enqEnd = mc.Step()
					r.enqEndAt = mc.ModelNow()
				}
				for _, o := range sc {
					switch o.kind {
					case 'E', 'M':
						r := &rec{id: len(m.items), key: o.key, due: tenth(o.due), client: ci}
						m.items = append(m.items, r)
						byID[r.id] = r
						r.enqStart = mc.Step()
						r.enqStartAt = mc.ModelNow()
						when := epoch.Add(r.due)
						if o.due < 0 {
							when = farFuture
							r.due = farFuture.Sub(epoch)
							r.never = true
						}
						obj := &item{key: o.key, due: when, id: r.id}
						if old := objs[o.key]; o.kind == 'M' && old != nil && old.due.Sub(epoch) > mc.ModelNow()+time.Millisecond {
							// the caller re-schedules its own object: same pointer, new time
							// (only while the object is not about to be looked at by the loop:
							// changing it then would be the caller's data race)
							old.due, old.id = when, r.id
							obj = old
						}
						objs[o.key] = obj
						p.Enqueue(obj)
						r.enqEnd = mc.Step()
						r.enqEndAt = mc.ModelNow()
					case 'D':
						dequeue(o.key)
					case 'P':
						// o.due items "k1".."kN", due 1 ms apart, enqueued in an order the
						// explorer chooses (every permutation is one branch of the search)
						left := make([]int, o.due)
						for i := range left {
							left[i] = i + 1
						}
						for len(left) > 0 {
							c := mc.Choose(len(left))
							i := left[c]
							left = append(left[:c], left[c+1:]...)
							enqueue(fmt.Sprintf("k%d", i), 10+10*i)
						}
					case 'Q':
						// none, or one of the o.due keys dequeued
						if c := mc.Choose(o.due + 1); c > 0 {
							dequeue(fmt.Sprintf("k%d", c))
						}
					case 'R':
						// none, or one of the o.due keys replaced by an item due half a
						// millisecond before any of the o.due+1 original slots
						if c := mc.Choose(o.due*(o.due+1) + 1); c > 0 {
							c--
							enqueue(fmt.Sprintf("k%d", c/(o.due+1)+1), 15+10*(c%(o.due+1)))
						}
					case 'W':
						mc.TimeSleep(tenth(o.due))
					case 'C':
						c := closeRec{start: mc.Step()}
						p.Close()
						c.end = mc.Step()
						m.closes = append(m.closes, c)
					}
				}
			})
		}
		wg.Wait()
	}
	check := func(e *mc.End) error {
		for _, t := range e.Threads {
			if strings.HasPrefix(t.Name, "client") && !t.Finished {
				return fmt.Errorf("deadlock: %s blocked on %s (parked: %v)", t.Name, t.WaitOn, e.Parked())
			}
		}
		closed := len(m.closes) > 0
		if closed {
			// after Close returned every helper thread must be gone
			for _, t := range e.Threads {
				if !t.Finished {
					return fmt.Errorf("thread %s still alive after Close returned (on %s)", t.Name, t.WaitOn)
				}
			}
		}
		// cancelling operations per item: later Enqueue with same key, or Dequeue
		type canc struct {
			start, end int
			endAt      time.Duration
		}
		cancelsOf := func(r *rec) (after []canc, concurrent bool) {
			for _, c := range m.cancels {
				if c.key != r.key {
					continue
				}
				if c.start > r.enqEnd {
					after = append(after, canc{c.start, c.end, c.endAt})
				} else if c.end > r.enqStart {
					concurrent = true
				}
			}
			for _, o := range m.items {
				if o == r || o.key != r.key {
					continue
				}
				if o.enqStart > r.enqEnd {
					after = append(after, canc{o.enqStart, o.enqEnd, o.enqEndAt})
				} else if o.enqEnd > r.enqStart {
					concurrent = true
				}
			}
			return
		}
		firstCloseStart := 1 << 60
		for _, c := range m.closes {
			if c.start < firstCloseStart {
				firstCloseStart = c.start
			}
		}
		var oc []string
		for _, r := range m.items {
			if r.execs > 1 {
				return fmt.Errorf("item %d (%s@%v) executed %d times", r.id, r.key, r.due, r.execs)
			}
			after, conc := cancelsOf(r)
			if r.execs == 1 {
				// timeline mode (the clock moves only when nothing else can run, to
				// the next armed deadline): "when the clock reaches its scheduled
				// time" is exact — the loop must have armed a timer for the head
				if timeline && !conc && len(after) == 0 {
					want := r.due
					if r.enqStartAt > want {
						want = r.enqStartAt
					}
					if r.execAt > want {
						return fmt.Errorf("[key=executed-late] item %d (%s due %v, enqueued at %v) executed only at %v although time moves only at quiescence: no timer was armed for it", r.id, r.key, r.due, r.enqStartAt, r.execAt)
					}
				}
				if r.execAt < r.due-500*time.Microsecond {
					return fmt.Errorf("item %d (%s) executed at %v, more than 0.5ms before its time %v", r.id, r.key, r.execAt, r.due)
				}
				for _, c := range after {
					// "dequeued or replaced before it became due": the cancelling
					// operation returned while the clock was still more than 0.5ms
					// short of the item's time
					// (operations that overlap or follow the start of Close are
					// documented no-ops and cancel nothing)
					if c.end < r.execStart && c.endAt < r.due-500*time.Microsecond && c.end < firstCloseStart {
						return fmt.Errorf("item %d (%s@%v) executed at step %d although it was dequeued/replaced by an operation that completed at step %d (t=%v), before it became due", r.id, r.key, r.due, r.execStart, c.end, c.endAt)
					}
				}
				for _, c := range m.closes {
					if r.execEnd > c.end {
						return fmt.Errorf("callback of item %d running or started after Close returned (exec %d..%d, Close returned at %d)", r.id, r.execStart, r.execEnd, c.end)
					}
				}
			} else if r.never {
				// a far-future item legitimately stays queued
			} else if !closed && len(after) == 0 && !conc {
				return fmt.Errorf("stranded: live item %d (%s due %v, enqueued by client%d) never executed; now=%v, armed timers=%d, parked=%v",
					r.id, r.key, r.due, r.client, e.Now, mc.ArmedTimers(), e.Parked())
			}
			oc = append(oc, fmt.Sprintf("%d:%d@%v", r.id, r.execs, r.execAt))
		}
		// order: A fully enqueued before B's enqueue began, A never cancelled, earlier due => A first
		pos := map[int]int{}
		for i, id := range m.order {
			pos[id] = i
		}
		for _, a := range m.items {
			for _, b := range m.items {
				if a == b || a.execs != 1 || b.execs != 1 || !(a.due < b.due) || !(a.enqEnd < b.enqStart) {
					continue
				}
				if pos[a.id] > pos[b.id] {
					return fmt.Errorf("order: item %d (due %v) ran after item %d (due %v) although it was queued first", a.id, a.due, b.id, b.due)
				}
			}
		}
		// order, second form: the loop hands over one item at a time, so an item a
		// that was fully enqueued before some callback c returned is in the queue
		// when the loop picks what follows c; nothing with a later time may be
		// picked in front of it
		for _, a := range m.items {
			for _, b := range m.items {
				if a == b || a.execs != 1 || b.execs != 1 || !(a.due < b.due) || pos[a.id] < pos[b.id] {
					continue
				}
				if ca, conc := cancelsOf(a); len(ca) > 0 || conc {
					continue
				}
				for _, c := range m.items {
					if c == a || c == b || c.execs != 1 {
						continue
					}
					if a.enqEnd < c.execEnd && c.execEnd < b.execStart {
						return fmt.Errorf("[key=order-after-a-callback] item %d (due %v) was in the queue before the callback of item %d returned (step %d), yet item %d (due %v) was handed over next in front of it", a.id, a.due, c.id, c.execEnd, b.id, b.due)
					}
				}
			}
		}
		sort.Strings(oc)
		mc.Outcome(strings.Join(oc, " ") + fmt.Sprint(m.order))
		return nil
	}
	return &mc.Exec{Body: body, Check: check}
}

func scriptName(scripts [][]op) string {
	var parts []string
	for _, s := range scripts {
		var o []string
		for _, x := range s {
			o = append(o, x.String())
		}
		parts = append(parts, strings.Join(o, ";"))
	}
	return strings.Join(parts, " | ")
}

func scenarios() []hx.Scenario {
	alpha := []op{
		{'E', "a", 10}, {'E', "a", 20}, {'E', "b", 10}, {'E', "b", 30}, {'E', "b", 0}, // (b@0 is already due: the run-at-once path)
		{'E', "c", -1}, // far future ("never")
		{'D', "a", 0}, {'D', "b", 0}, {'W', "", 15}, {'C', "", 0},
	}
	var seqs [][]op
	for _, a := range alpha {
		seqs = append(seqs, []op{a})
	}
	for _, a := range alpha {
		for _, b := range alpha {
			if a.kind == 'C' { // nothing meaningful after Close by the same client
				continue
			}
			seqs = append(seqs, []op{a, b})
		}
	}
	var out []hx.Scenario
	epoch := time.Date(2024, 1, 1, 0, 0, 0, 0, time.UTC)
	horizon := time.Second
	add := func(scripts [][]op, thoroughOnly bool, sem mc.TimerSem, clock []time.Duration, tag string) {
		timeline := strings.HasPrefix(tag, "tl:")
		horizon := horizon
		hasE := false
		for _, s := range scripts {
			for _, o := range s {
				if o.kind == 'E' || o.kind == 'M' || o.kind == 'P' {
					hasE = true
				}
			}
		}
		if !hasE {
			return
		}
		sc := scripts
		out = append(out, hx.Scenario{
			Name:         tag + scriptName(scripts),
			Class:        "queue.Processor",
			ThoroughOnly: thoroughOnly,
			Opts:         mc.Options{Bound: 2, TieCost: 1, AutoClock: true, ClockLast: timeline, ClockSteps: clock, Horizon: horizon, TimerSem: sem, Epoch: epoch},
			Mk:           func() *mc.Exec { return mkExec(sc, epoch, timeline) },
		})
		if strings.HasPrefix(tag, "tl:heap:") {
			// the choices of these scripts (order, target) are free: every one of
			// them is explored at bound 0, next to the default schedule
			o := &out[len(out)-1].Opts
			o.Bound, o.TieCost = 0, 0
		}
	}
	for i, s1 := range seqs {
		for j, s2 := range seqs {
			if j < i {
				continue
			}
			quick := len(s1)+len(s2) <= 3
			add([][]op{s1, s2}, !quick, mc.TimerGo123, nil, "")
			if quick {
				add([][]op{s1, s2}, len(s1)+len(s2) > 2, mc.TimerGo123, nil, "tl:")
			}
			if len(s1)+len(s2) <= 2 {
				add([][]op{s1, s2}, false, mc.TimerLegacy, nil, "legacy:")
				// scripted clock: 0.6ms steps land 0.4ms before / past the due times
				add([][]op{s1, s2}, false, mc.TimerGo123, []time.Duration{600 * time.Microsecond, 600 * time.Microsecond, 600 * time.Microsecond}, "steps:")
			}
		}
	}
	// sub-millisecond spacing: scheduled times 0.2-0.7 ms apart and within one
	// millisecond of each other, enqueued in either order, so that the loop looks
	// at a head that is between 0.5 ms and 1 ms away, and the heap has to order
	// times that agree to the millisecond
	sub := []op{{'E', "a", 10}, {'E', "a", 12}, {'E', "b", 17}, {'E', "b", 15}, {'E', "c", 24}, {'D', "a", 0}, {'W', "", 3}}
	var sub1, sub2, sub3 [][]op
	for _, a := range sub {
		sub1 = append(sub1, []op{a})
		for _, b := range sub {
			sub2 = append(sub2, []op{a, b})
			for _, c := range sub {
				sub3 = append(sub3, []op{a, b, c})
			}
		}
	}
	for _, s1 := range append(append(append([][]op{}, sub1...), sub2...), sub3...) {
		add([][]op{s1}, len(s1) > 2 && s1[0].kind != 'E', mc.TimerGo123, nil, "tl:sub:")
	}
	for _, s1 := range append(append([][]op{}, sub1...), sub2...) {
		for _, s2 := range sub1 {
			add([][]op{s1, s2}, len(s1) > 1, mc.TimerGo123, nil, "tl:sub:")
			if len(s1) == 1 {
				add([][]op{s1, s2}, false, mc.TimerGo123, nil, "sub:")
			}
		}
	}
	// the caller re-schedules an object it enqueued before: the same pointer is
	// handed in again with another time (one client, timeline mode)
	same := []op{{'E', "a", 20}, {'E', "b", 30}, {'M', "a", 40}, {'M', "a", 15}, {'M', "b", 25}, {'W', "", 5}}
	for _, a := range same {
		for _, b := range same {
			add([][]op{{a, b}}, false, mc.TimerGo123, nil, "tl:same:")
			for _, c := range same {
				add([][]op{{a, b, c}}, false, mc.TimerGo123, nil, "tl:same:")
			}
		}
	}
	// long waits: items minutes, hours and days away (a loop that caps or splits
	// its sleep must still not run anything early)
	const minute = 600000 // tenths of a millisecond
	long := []op{{'E', "a", 90 * minute}, {'E', "b", 30 * minute}, {'E', "a", 25 * 60 * minute}, {'E', "b", 61 * minute}, {'W', "", 45 * minute}, {'D', "a", 0}}
	horizon = 30 * time.Hour
	for _, a := range long {
		add([][]op{{a}}, false, mc.TimerGo123, nil, "tl:long:")
		for _, b := range long {
			add([][]op{{a, b}}, false, mc.TimerGo123, nil, "tl:long:")
			for _, c := range long {
				add([][]op{{a, b, c}}, a.kind != 'E', mc.TimerGo123, nil, "tl:long:")
			}
		}
	}
	horizon = time.Second
	// a burst of items due together, and an earlier item enqueued while the
	// burst is being handed over
	for _, late := range []op{{'E', "c", 5}, {'E', "c", 9}, {'E', "c", 10}} {
		for _, w := range []int{9, 10, 11} {
			add([][]op{{{'E', "a", 10}, {'E', "b", 10}, {'E', "d", 10}}, {{'W', "", w}, late}}, false, mc.TimerGo123, nil, "burst:")
			add([][]op{{{'E', "a", 10}, {'E', "b", 11}, {'E', "d", 12}}, {{'W', "", w}, late}}, true, mc.TimerGo123, nil, "burst:")
		}
	}
	// many items: every order of enqueueing N items due 1 ms apart, then none or
	// any one of them dequeued or replaced (earlier, later, in between) — the
	// queue has to hand them over in time order, each at its time, whatever shape
	// its internal ordering structure took on the way (one client, timeline mode;
	// W lets the loop arm its timer in between)
	for _, h := range []struct {
		sc     []op
		thOnly bool
	}{
		{[]op{{'P', "", 4}, {'Q', "", 4}, {'R', "", 4}}, false},
		{[]op{{'P', "", 5}, {'R', "", 5}}, false},
		{[]op{{'P', "", 6}}, false},
		{[]op{{'P', "", 6}, {'Q', "", 6}}, false},
		{[]op{{'P', "", 7}, {'Q', "", 7}}, false},
		{[]op{{'P', "", 4}, {'W', "", 5}, {'R', "", 4}, {'Q', "", 4}}, false},
		{[]op{{'P', "", 3}, {'W', "", 25}, {'P', "", 5}, {'Q', "", 5}}, false},
		{[]op{{'P', "", 6}, {'R', "", 6}}, true},
		{[]op{{'P', "", 8}}, true},
		{[]op{{'P', "", 7}, {'W', "", 35}, {'R', "", 7}}, true},
		{[]op{{'P', "", 5}, {'Q', "", 5}, {'R', "", 5}, {'Q', "", 5}}, true},
	} {
		add([][]op{h.sc}, h.thOnly, mc.TimerGo123, nil, "tl:heap:")
	}
	// two Close calls from different goroutines next to a client at work: every
	// Close — also the one that finds the processor already being closed —
	// returns only when no callback is running or will run
	for _, a := range seqs {
		if len(a) <= 2 {
			add([][]op{a, {{'C', "", 0}}, {{'C', "", 0}}}, len(a) > 1, mc.TimerGo123, nil, "2close:")
		}
	}
	// thorough: one client with three operations against a second with one
	var seq3 [][]op
	for _, a := range alpha {
		for _, b := range alpha {
			for _, c := range alpha {
				if a.kind == 'C' || b.kind == 'C' {
					continue
				}
				seq3 = append(seq3, []op{a, b, c})
			}
		}
	}
	for _, s1 := range seq3 {
		for _, b := range alpha {
			add([][]op{s1, {b}}, true, mc.TimerGo123, nil, "")
		}
	}
	// three clients with one operation each
	for i, a := range alpha {
		for j, b := range alpha {
			for k, c := range alpha {
				if j < i || k < j {
					continue
				}
				add([][]op{{a}, {b}, {c}}, true, mc.TimerGo123, nil, "")
			}
		}
	}
	return out
}

func TestMC(t *testing.T) { hx.Run(t, scenarios()) }
