// Subscription churn family for C10: ONE controller thread runs a script over
// {Subscribe(new prompt subscriber), cancel subscriber i, Batch(fresh value)
// and let the interval pass} with up to 3 subscribers alive at once and ends
// with one more Batch; every subscriber that is still subscribed must have
// received every value batched after its Subscribe returned, exactly once, in
// order and one interval after the call. Subscribers come and go, so the
// bookkeeping of the subscriber list (ids, removal on departure) is exercised
// with departures that have / have not completed when the next Subscribe
// arrives. Timeline mode (the clock moves only at quiescence).
package c10

import (
	"context"
	"fmt"
	"strings"
	"time"

	"github.com/dapr/kit/events/batcher"

	"verif/hx"
	"verif/mc"
)

const classChurn = "batcher/subscription-churn"

type churnStep struct {
	kind byte // 'N' subscribe a subscriber that never reads, 'S' subscribe, 'C' cancel the i-th subscriber alive, 'B' batch + interval
	i    int
}

type churn struct {
	steps []churnStep
	// wait: after a cancel the controller lets the departure complete (a model
	// sleep in timeline mode returns only when nothing else can run, i.e. the
	// departed subscriber's forwarding goroutine has finished its cleanup);
	// otherwise it goes straight on and the cleanup races with the next step.
	wait bool
}

func (c churn) name() string {
	var p []string
	for _, s := range c.steps {
		if s.kind == 'C' {
			p = append(p, fmt.Sprint("C", s.i))
		} else {
			p = append(p, string(s.kind))
		}
	}
	m := "nowait"
	if c.wait {
		m = "wait"
	}
	return fmt.Sprintf("churn %s %s", m, strings.Join(p, "."))
}

type churnSub struct {
	n         int // order of subscription
	ch        *mc.Chan[int]
	cancel    context.CancelFunc
	cancelled bool
	from      int // number of values batched before its Subscribe returned
	got       []recv
}

func mkChurn(c churn) *mc.Exec {
	var (
		subs []*churnSub
		all  []int           // values in the order of the Batch calls
		at   []time.Duration // model time of each call
	)
	body := func() {
		b := batcher.New[string, int](interval)
		alive := func() []*churnSub {
			var a []*churnSub
			for _, s := range subs {
				if !s.cancelled {
					a = append(a, s)
				}
			}
			return a
		}
		batch := func() {
			v := len(all) + 1
			all = append(all, v)
			at = append(at, mc.ModelNow())
			b.Batch([]string{"a", "b"}[v%2], v)
			mc.TimeSleep(interval + ms) // let the interval pass
		}
		for _, st := range c.steps {
			switch st.kind {
			case 'S', 'N':
				ctx, cancel := mc.CtxWithCancel(context.Background())
				s := &churnSub{n: len(subs), ch: mc.NewChan[int](), cancel: cancel}
				subs = append(subs, s)
				if st.kind == 'S' {
					mc.GoNamed(fmt.Sprintf("reader%d", s.n), func() {
						for {
							v, ok := s.ch.Recv2()
							if !ok {
								return
							}
							s.got = append(s.got, recv{val: v, at: mc.ModelNow()})
						}
					})
				}
				b.Subscribe(ctx, s.ch)
				s.from = len(all)
			case 'C':
				s := alive()[st.i]
				s.cancelled = true
				s.cancel()
				if c.wait {
					mc.TimeSleep(ms)
				}
			case 'B':
				batch()
			}
		}
		if len(alive()) > 0 {
			batch()
		}
	}
	check := func(e *mc.End) error {
		var seqs []string
		for _, s := range subs {
			var vs []string
			for _, g := range s.got {
				vs = append(vs, fmt.Sprintf("%d@%d", g.val, g.at/ms))
			}
			seqs = append(seqs, strings.Join(vs, " "))
		}
		describe := func() string {
			return fmt.Sprintf("%d values batched; received (value@ms) per subscriber (in order of subscription): [%s]; t=%v; parked=%v", len(all), strings.Join(seqs, " | "), e.Now, e.Parked())
		}
		if !e.Finished("main") {
			return fmt.Errorf("deadlock: the controller never returned; %s", describe())
		}
		for _, s := range subs {
			// at most once, only values batched after its Subscribe, in call order
			want := all[s.from:]
			k := 0
			for _, g := range s.got {
				for k < len(want) && want[k] != g.val {
					k++
				}
				if k == len(want) {
					return fmt.Errorf("subscriber %d received %d out of order, twice, or although it was batched before its Subscribe (expected a subsequence of %v); %s", s.n, g.val, want, describe())
				}
				k++
				if s.cancelled {
					continue
				}
				if due := at[g.val-1] + interval; g.at != due {
					return fmt.Errorf("subscriber %d received %d at %v, not one interval after its Batch call (%v); %s", s.n, g.val, g.at, due, describe())
				}
			}
			if !s.cancelled && len(s.got) != len(want) {
				return fmt.Errorf("lost value: subscriber %d (still subscribed, reads promptly) received %d of the values %v batched after its Subscribe returned; %s", s.n, len(s.got), want, describe())
			}
		}
		mc.Outcome(strings.Join(seqs, "|"))
		return nil
	}
	return &mc.Exec{Body: body, Check: check}
}

// churnScripts enumerates every script of <= maxLen steps with at most 3
// subscribers alive, at least one departure, at least one subscriber alive at
// the end, no two Batches in a row and not ending in a Batch (one is appended
// by the controller).
func churnScripts(maxLen int) [][]churnStep {
	var out [][]churnStep
	var rec func(cur []churnStep, n int, cancels int)
	rec = func(cur []churnStep, n int, cancels int) {
		if len(cur) > 0 && n >= 1 && cancels > 0 && cur[len(cur)-1].kind != 'B' {
			out = append(out, append([]churnStep(nil), cur...))
		}
		if len(cur) == maxLen {
			return
		}
		if n < 3 {
			rec(append(cur, churnStep{kind: 'S'}), n+1, cancels)
		}
		for i := 0; i < n; i++ {
			rec(append(cur, churnStep{kind: 'C', i: i}), n-1, cancels+1)
		}
		if n >= 1 && cur[len(cur)-1].kind != 'B' {
			rec(append(cur, churnStep{kind: 'B'}), n, cancels)
		}
	}
	rec(nil, 0, 0)
	return out
}

// stalledChurnScripts: scripts with exactly ONE subscriber that never reads
// ('N'): 1..2 values (the scaled buffer) are issued while it is subscribed, it
// is cancelled — leaving with values still buffered for it — and a prompt
// subscriber that is alive at the end checks what newcomers and survivors
// receive afterwards (a newcomer must never see a value issued before its
// Subscribe returned).
func stalledChurnScripts(maxLen int) [][]churnStep {
	var out [][]churnStep
	type st struct {
		alive        []byte
		usedN, nCanc bool
		valuesWhileN int
	}
	var rec func(cur []churnStep, s st)
	rec = func(cur []churnStep, s st) {
		prompt := false
		for _, k := range s.alive {
			prompt = prompt || k == 'S'
		}
		if len(cur) > 0 && s.nCanc && s.valuesWhileN >= 1 && prompt && cur[len(cur)-1].kind != 'B' {
			out = append(out, append([]churnStep(nil), cur...))
		}
		if len(cur) == maxLen {
			return
		}
		if len(s.alive) < 3 {
			n := s
			n.alive = append(append([]byte(nil), s.alive...), 'S')
			rec(append(cur, churnStep{kind: 'S'}), n)
			if !s.usedN {
				n := s
				n.usedN = true
				n.alive = append(append([]byte(nil), s.alive...), 'N')
				rec(append(cur, churnStep{kind: 'N'}), n)
			}
		}
		for i, k := range s.alive {
			n := s
			n.alive = append(append([]byte(nil), s.alive[:i]...), s.alive[i+1:]...)
			n.nCanc = s.nCanc || k == 'N'
			rec(append(cur, churnStep{kind: 'C', i: i}), n)
		}
		if len(s.alive) > 0 && (len(cur) == 0 || cur[len(cur)-1].kind != 'B') {
			n := s
			for _, k := range s.alive {
				if k == 'N' {
					n.valuesWhileN++
					break
				}
			}
			if n.valuesWhileN <= 2 {
				rec(append(cur, churnStep{kind: 'B'}), n)
			}
		}
	}
	rec(nil, st{})
	return out
}

func churnScenarios() []hx.Scenario {
	var out []hx.Scenario
	mk := func(sc []churnStep, wait bool, min int, thoroughOnly bool) {
		c := churn{steps: sc, wait: wait}
		out = append(out, hx.Scenario{
			Name: c.name(), Class: classChurn, ThoroughOnly: thoroughOnly,
			Opts: mc.Options{Delay: true, MinBound: min, Bound: 2, AutoClock: true, ClockLast: true, Horizon: time.Second, MaxSteps: 20000},
			Mk:   func() *mc.Exec { return mkChurn(c) },
		})
	}
	// a subscriber that leaves with values still buffered for it, then newcomers
	for _, sc := range stalledChurnScripts(6) {
		for _, wait := range []bool{true, false} {
			long := len(sc) > 5
			min := 2
			if long {
				min = 1
			}
			mk(sc, wait, min, long)
		}
	}
	for _, sc := range churnScripts(6) {
		for _, wait := range []bool{true, false} {
			long := len(sc) > 5
			min := 2
			if long {
				min = 1
			}
			mk(sc, wait, min, long)
		}
	}
	return out
}
