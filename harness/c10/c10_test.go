// Harness for C10 (events/batcher over events/queue) on the mcgen-instrumented
// copies of github.com/dapr/kit/events/batcher and .../events/queue, driven by
// the model clock.
//
// One package serves both parts of spec.json: the instrumented copy is built
// either with the per-subscriber buffer scaled from 50 to 2 (part "scaled") or
// at its true size (part "truesize"); the harness measures the capacity it was
// built with (probeCap) and generates the matching scenario family.
package c10

import (
	"context"
	"fmt"
	"math"
	"os"
	"sort"
	"strings"
	"testing"
	"time"

	"github.com/dapr/kit/events/batcher"

	"verif/hx"
	"verif/mc"
)

const (
	ms       = time.Millisecond
	interval = 10 * ms
)

// ---- scenario description ----

type call struct {
	gap   int // ms slept before the call
	key   string
	val   int
	extra time.Duration // sub-millisecond part of the gap
}

// subscriber kinds
//
//	'p' prompt reader: receives until its channel is closed, never leaves
//	's' slow reader: receives k values, stops reading, cancels its context at leaveAt
//	'x' stalled: never reads; cancels its context at leaveAt
//	'n' never reads and never cancels. Inside the property only while no
//	    delivery has to wait for it, i.e. with at most buffer-many events
//	    outstanding for it: Batch, Subscribe and Close must still return and its
//	    channel is closed after Close
//	'c' prompt reader whose context has ALREADY ended when Subscribe is called
//	    (cancelled just before the call); still a subscriber: its channel must
//	    be closed once Close has returned
//	'd' slow reader that stays: lets `delay` of model time pass before every
//	    receive, receives until its channel is closed, never cancels
//	'q' prompt reader that cancels its context at leaveAt (keeps reading until
//	    its channel is closed)
//	'r' slow reader that stays: receives k values, pauses until leaveAt, then
//	    reads promptly for ever; never cancels
type sub struct {
	kind    byte
	k       int
	lateAt  int           // >0: Subscribe is called from its own thread at that model time (ms)
	leaveAt int           // ms
	delay   time.Duration // 'd': model time slept before every receive
}

type scen struct {
	prods   [][]call
	subs    []sub
	closeAt int // ms; -1: no Close
	// further Close calls from other threads: t > 0: at t ms, whatever the
	// first one is doing (overlapping it when it is still in progress); t < 0:
	// once the first Close has returned and not before -t ms. The oracle is
	// applied at the return of EVERY Close.
	moreCloses []int
	timeline   bool   // clock moves only at quiescence; exact timing oracle
	label      string // replaces the rendering of the Batch scripts in the name
	class      string // finding key; default: by the kinds of subscribers and the mode
}

func (s scen) name() string {
	var p []string
	for _, cs := range s.prods {
		var c []string
		for _, x := range cs {
			if x.extra != 0 {
				c = append(c, fmt.Sprintf("%s%g", x.key, float64(x.gap)+float64(x.extra)/float64(ms)))
			} else {
				c = append(c, fmt.Sprintf("%s%d", x.key, x.gap))
			}
		}
		p = append(p, strings.Join(c, "."))
	}
	var u []string
	for _, x := range s.subs {
		t := string(x.kind)
		if x.kind == 's' || x.kind == 'r' {
			t += fmt.Sprint(x.k)
		}
		if x.kind == 'd' {
			t += x.delay.String()
		} else if x.kind != 'p' && x.kind != 'n' && x.kind != 'c' {
			t += fmt.Sprint("@", x.leaveAt)
		}
		if x.lateAt > 0 {
			t += fmt.Sprint("L", x.lateAt)
		}
		u = append(u, t)
	}
	c := "none"
	if s.closeAt >= 0 {
		c = fmt.Sprint("@", s.closeAt)
	}
	for _, t := range s.moreCloses {
		if t < 0 {
			c += fmt.Sprint("+after", -t)
		} else {
			c += fmt.Sprint("+", t)
		}
	}
	mode := "race"
	if s.timeline {
		mode = "tl"
	}
	if s.label != "" {
		p = []string{s.label}
	}
	return fmt.Sprintf("%s batch=%s subs=%s close=%s", mode, strings.Join(p, "|"), strings.Join(u, ","), c)
}

// ---- monitor ----

type recv struct {
	val        int
	at         time.Duration
	afterClose bool // the receive was INVOKED after Close had returned
}

type subRec struct {
	sub
	ch             *mc.Chan[int]
	subscribed     bool // Subscribe returned
	subAt          time.Duration
	subBeforeClose bool // Subscribe returned before Close was called
	cancelled      bool
	got            []recv
	sawClosed      bool
}

type callRec struct {
	call
	prod       int
	called     bool
	returned   bool
	tStart     time.Duration
	tEnd       time.Duration
	subsBefore []bool       // subscribers whose Subscribe had returned when Batch was called
	retBefore  map[int]bool // values whose Batch had returned when this one was called
	retOpen    bool         // returned before Close was called
}

func sleepUntil(t int) {
	d := time.Duration(t)*ms - mc.ModelNow()
	if d > 0 {
		mc.TimeSleep(d)
	}
}

func mkExec(s scen) *mc.Exec {
	var (
		subs        = make([]*subRec, len(s.subs))
		calls       []*callRec
		byVal       = map[int]*callRec{}
		closeCalled bool
		closeAtT    time.Duration
		closeRet    bool
		probeErr    string
	)
	for pi, cs := range s.prods {
		for _, c := range cs {
			r := &callRec{call: c, prod: pi}
			calls = append(calls, r)
			byVal[c.val] = r
		}
	}
	body := func() {
		b := batcher.New[string, int](interval)
		cancels := make([]context.CancelFunc, len(s.subs))
		ctxs := make([]context.Context, len(s.subs))
		for i, x := range s.subs {
			// unbuffered: a receive by the harness coincides with the send by the library
			subs[i] = &subRec{sub: x, ch: mc.NewChan[int]()}
			ctxs[i], cancels[i] = mc.CtxWithCancel(context.Background())
		}
		subscribe := func(i int) {
			if subs[i].kind == 'c' {
				subs[i].cancelled = true
				cancels[i]() // the context has ended before Subscribe is called
			}
			b.Subscribe(ctxs[i], subs[i].ch)
			subs[i].subscribed = true
			subs[i].subAt = mc.ModelNow()
			subs[i].subBeforeClose = !closeCalled
		}
		for i, x := range s.subs {
			if x.lateAt == 0 {
				subscribe(i)
			}
		}
		for pi, cs := range s.prods {
			pi, cs := pi, cs
			mc.GoNamed(fmt.Sprintf("prod%d", pi), func() {
				for _, c := range cs {
					if c.gap > 0 || c.extra > 0 {
						mc.TimeSleep(time.Duration(c.gap)*ms + c.extra)
					}
					r := byVal[c.val]
					r.subsBefore = make([]bool, len(subs))
					for i, sr := range subs {
						r.subsBefore[i] = sr.subscribed
					}
					r.retBefore = map[int]bool{}
					for _, o := range calls {
						if o.returned {
							r.retBefore[o.val] = true
						}
					}
					r.tStart = mc.ModelNow()
					r.called = true
					b.Batch(c.key, c.val)
					r.returned = true
					r.retOpen = !closeCalled
					r.tEnd = mc.ModelNow()
				}
			})
		}
		for i, x := range s.subs {
			if x.lateAt > 0 {
				i, x := i, x
				mc.GoNamed(fmt.Sprintf("subscribe%d", i), func() {
					sleepUntil(x.lateAt)
					subscribe(i)
				})
			}
		}
		for i, x := range s.subs {
			i, x := i, x
			sr := subs[i]
			read := func() bool {
				after := closeRet
				v, ok := sr.ch.Recv2()
				if !ok {
					sr.sawClosed = true
					return false
				}
				sr.got = append(sr.got, recv{v, mc.ModelNow(), after})
				return true
			}
			switch x.kind {
			case 'p', 'q', 'c':
				mc.GoNamed(fmt.Sprintf("reader%d", i), func() {
					for read() {
					}
				})
			case 'd':
				mc.GoNamed(fmt.Sprintf("reader%d", i), func() {
					for {
						mc.TimeSleep(x.delay)
						if !read() {
							return
						}
					}
				})
			case 'r':
				mc.GoNamed(fmt.Sprintf("reader%d", i), func() {
					for n := 0; n < x.k; n++ {
						if !read() {
							return
						}
					}
					sleepUntil(x.leaveAt)
					for read() {
					}
				})
			case 's':
				mc.GoNamed(fmt.Sprintf("reader%d", i), func() {
					for n := 0; n < x.k; n++ {
						if !read() {
							return
						}
					}
					sleepUntil(x.leaveAt)
					sr.cancelled = true
					cancels[i]()
				})
			}
		}
		if s.closeAt >= 0 {
			firstReturned := mc.NewChan[struct{}]()
			// the oracle at the return of a Close call (any of them)
			returnedFrom := func(who string) {
				closeRet = true
				for i, sr := range subs {
					if !sr.subBeforeClose {
						// Subscribe overlapping or following Close: "silently dropped"
						continue
					}
					if !sr.ch.IsClosed() && probeErr == "" {
						probeErr = fmt.Sprintf("the channel of subscriber %d is not closed when Close returns to %s", i, who)
						if v, ok, got := sr.ch.TryRecv(); got && ok {
							probeErr += fmt.Sprintf(" (a send of value %d is still in progress)", v)
						}
					}
				}
			}
			mc.GoNamed("closer", func() {
				sleepUntil(s.closeAt)
				closeCalled = true
				closeAtT = mc.ModelNow()
				b.Close()
				returnedFrom("closer")
				firstReturned.Close()
			})
			for k, t := range s.moreCloses {
				t := t
				name := fmt.Sprintf("closer%d", k+2)
				mc.GoNamed(name, func() {
					if t < 0 {
						firstReturned.Recv()
						sleepUntil(-t)
					} else {
						sleepUntil(t)
						if !closeCalled {
							closeCalled = true
							closeAtT = mc.ModelNow()
						}
					}
					b.Close()
					returnedFrom(name)
				})
			}
		}
		// subscribers that never read leave last in the default order
		for i, x := range s.subs {
			if x.kind == 'x' || x.kind == 'q' {
				i, x := i, x
				mc.GoNamed(fmt.Sprintf("leave%d", i), func() {
					sleepUntil(x.leaveAt)
					subs[i].cancelled = true
					cancels[i]()
				})
			}
		}
	}
	check := func(e *mc.End) error {
		seqs := make([]string, len(subs))
		for i, sr := range subs {
			var vs []string
			for _, g := range sr.got {
				vs = append(vs, fmt.Sprintf("%d@%d", g.val, g.at/ms))
			}
			seqs[i] = strings.Join(vs, " ")
		}
		describe := func() string {
			var cs []string
			for _, c := range calls {
				if c.called {
					cs = append(cs, fmt.Sprintf("%s=%d@%d", c.key, c.val, c.tStart/ms))
				}
			}
			short := make([]string, len(seqs))
			for i, sq := range seqs {
				short[i] = abbreviate(strings.Fields(sq))
			}
			return fmt.Sprintf("Batch calls: %s; received (value@ms) per subscriber: [%s]; t=%v; parked=%v", abbreviate(cs), strings.Join(short, " | "), e.Now, e.Parked())
		}
		// (1) a departed subscriber never blocks later Batch calls, Subscribe or
		// Close: every such thread has returned (all subscribers that do not
		// read have cancelled by now)
		for _, t := range e.Threads {
			must := t.Name == "main" || strings.HasPrefix(t.Name, "closer") || strings.HasPrefix(t.Name, "prod") ||
				strings.HasPrefix(t.Name, "subscribe") || strings.HasPrefix(t.Name, "leave")
			if must && !t.Finished {
				return fmt.Errorf("deadlock: %s never returned (blocked on %s); %s", t.Name, t.WaitOn, describe())
			}
		}
		// (2) after Close returned nothing more is sent and every subscriber
		// channel has been closed
		if probeErr != "" {
			return fmt.Errorf("after Close: %s; %s", probeErr, describe())
		}
		for i, sr := range subs {
			for _, g := range sr.got {
				if g.afterClose {
					return fmt.Errorf("after Close: subscriber %d received value %d by a receive started after Close had returned; %s", i, g.val, describe())
				}
			}
			if closeRet && !sr.ch.IsClosed() {
				if v, ok, got := sr.ch.TryRecv(); got && ok {
					return fmt.Errorf("after Close: a library goroutine is still parked sending value %d to subscriber %d although Close returned; %s", v, i, describe())
				}
			}
		}
		// (3) at most once; only values passed to Batch; never earlier than one
		// interval after the call
		seen := make([]map[int]bool, len(subs))
		for i, sr := range subs {
			seen[i] = map[int]bool{}
			for _, g := range sr.got {
				c := byVal[g.val]
				if c == nil || !c.called {
					return fmt.Errorf("subscriber %d received %d which was never passed to Batch; %s", i, g.val, describe())
				}
				if seen[i][g.val] {
					return fmt.Errorf("subscriber %d received value %d twice; %s", i, g.val, describe())
				}
				seen[i][g.val] = true
				if g.at < c.tStart+interval {
					return fmt.Errorf("early: subscriber %d received %d at %v, less than one interval after its Batch call at %v; %s", i, g.val, g.at, c.tStart, describe())
				}
			}
		}
		// (4) earlier values for the key inside the interval are suppressed: a
		// later call for the same key (called after this one returned) that
		// returned while this one's interval was still running replaces it
		for _, c := range calls {
			if !c.returned {
				continue
			}
			for _, d := range calls {
				if d == c || d.key != c.key || !d.retOpen || !d.retBefore[c.val] {
					continue // (a Batch overlapping or following Close is a documented no-op)
				}
				if d.tEnd < c.tStart+interval {
					for i := range subs {
						if seen[i][c.val] {
							return fmt.Errorf("not suppressed: subscriber %d received %d (key %s, Batch at %v) although Batch(%s,%d) replaced it at %v, inside its interval; %s", i, c.val, c.key, c.tStart, d.key, d.val, d.tEnd, describe())
						}
					}
				}
			}
		}
		// (5) all subscribers see the same sequence: the union of the
		// per-subscriber successor relations is acyclic
		succ := map[int]map[int]string{}
		for i, sr := range subs {
			for j := 1; j < len(sr.got); j++ {
				a, b := sr.got[j-1].val, sr.got[j].val
				if succ[a] == nil {
					succ[a] = map[int]string{}
				}
				if _, ok := succ[a][b]; !ok {
					succ[a][b] = fmt.Sprintf("subscriber %d", i)
				}
			}
		}
		if cyc := findCycle(succ); cyc != "" {
			return fmt.Errorf("subscribers disagree on the sequence: %s; %s", cyc, describe())
		}
		// (6) while open, the most recent value of every key reaches every
		// subscriber that stays subscribed, exactly once. Claimed in histories
		// without Close, for readers that never leave, at final quiescence
		// (the clock has been drained to the last armed timer).
		if s.closeAt < 0 {
			byKey := map[string][]*callRec{}
			for _, c := range calls {
				if c.called {
					byKey[c.key] = append(byKey[c.key], c)
				}
			}
			var keys []string
			for k := range byKey {
				keys = append(keys, k)
			}
			sort.Strings(keys) // deterministic report
			for i, sr := range subs {
				if sr.kind != 'p' && sr.kind != 'r' && sr.kind != 'd' {
					continue // only subscribers that never cancel
				}
				for _, key := range keys {
					cs := byKey[key]
					// the calls no other call for the key followed in real time
					var last []*callRec
					for _, c := range cs {
						maximal := true
						for _, d := range cs {
							if d != c && d.retBefore[c.val] {
								maximal = false
							}
						}
						if maximal {
							last = append(last, c)
						}
					}
					all, any := true, false
					var vals []int
					for _, c := range last {
						vals = append(vals, c.val)
						if !c.subsBefore[i] {
							all = false
						}
						if seen[i][c.val] {
							any = true
						}
					}
					if all && !any {
						return fmt.Errorf("lost value: subscriber %d (subscribed before the call, never left, batcher open) never received the most recent value of key %s (one of %v); %s", i, key, vals, describe())
					}
				}
			}
		}
		// (7) timeline mode with prompt readers only: the exact timeline
		if s.timeline {
			if err := checkTimeline(s, calls, subs, seen, closeCalled, closeAtT); err != nil {
				return fmt.Errorf("%v; %s", err, describe())
			}
		}
		mc.Outcome(strings.Join(seqs, "|") + fmt.Sprint(" close=", closeRet))
		return nil
	}
	return &mc.Exec{Body: body, Check: check}
}

// abbreviate renders a long list by its ends.
func abbreviate(xs []string) string {
	if len(xs) <= 10 {
		return strings.Join(xs, " ")
	}
	return fmt.Sprintf("%s ... %s (%d in all)", strings.Join(xs[:4], " "), strings.Join(xs[len(xs)-3:], " "), len(xs))
}

// checkTimeline compares what prompt subscribers received with the reference
// timeline written from the statement: a Batch call at t is delivered at
// t+interval unless a later call for the same key came before t+interval.
// Only used when every subscriber reads promptly (a reader that has stopped
// reading and not yet left exerts back-pressure the statement does not rule
// out) and the clock moved only at quiescence.
func checkTimeline(s scen, calls []*callRec, subs []*subRec, seen []map[int]bool, closeCalled bool, closeAt time.Duration) error {
	for _, x := range s.subs {
		if x.kind != 'p' {
			return nil
		}
	}
	const (
		must = iota
		optional
		never
	)
	status := map[int]int{}
	for _, c := range calls {
		if !c.called {
			continue
		}
		st := must
		for _, d := range calls {
			if d == c || d.key != c.key || !d.called {
				continue
			}
			laterCall := d.tStart > c.tStart || (d.tStart == c.tStart && d.retBefore[c.val])
			concurrent := d.tStart == c.tStart && !d.retBefore[c.val] && !c.retBefore[d.val]
			switch {
			case concurrent:
				// two calls for the key at the same instant from different
				// threads: either is the most recent one
				if st == must {
					st = optional
				}
			case laterCall && d.tStart < c.tStart+interval:
				st = never
			case laterCall && d.tStart == c.tStart+interval:
				// the call coincides with the expiry: both orders are legal
				if st == must {
					st = optional
				}
			}
		}
		status[c.val] = st
	}
	for i, sr := range subs {
		for _, g := range sr.got {
			c := calls[0]
			for _, d := range calls {
				if d.val == g.val {
					c = d
				}
			}
			if g.at != c.tStart+interval {
				return fmt.Errorf("timeline: subscriber %d received %d at %v, not one interval after its Batch call at %v", i, g.val, g.at, c.tStart)
			}
			if status[g.val] == never {
				return fmt.Errorf("timeline: subscriber %d received %d although a later Batch for key %s came inside its interval", i, g.val, c.key)
			}
		}
		for _, c := range calls {
			if !c.called || status[c.val] != must || seen[i][c.val] {
				continue
			}
			due := c.tStart + interval
			if !sr.subscribed || sr.subAt >= due {
				continue // subscribed at or after the delivery instant
			}
			if closeCalled && closeAt <= due {
				continue // Close at or before the delivery instant
			}
			return fmt.Errorf("timeline: subscriber %d (subscribed at %v) never received %d (key %s, Batch at %v, due %v)", i, sr.subAt, c.val, c.key, c.tStart, due)
		}
	}
	return nil
}

// findCycle returns a description of a cycle in the relation, or "".
func findCycle(succ map[int]map[int]string) string {
	var nodes []int
	for a := range succ {
		nodes = append(nodes, a)
	}
	sort.Ints(nodes)
	state := map[int]int{}
	var stack []int
	var res string
	var dfs func(a int) bool
	dfs = func(a int) bool {
		state[a] = 1
		stack = append(stack, a)
		var next []int
		for b := range succ[a] {
			next = append(next, b)
		}
		sort.Ints(next)
		for _, b := range next {
			if state[b] == 1 {
				k := len(stack) - 1
				for stack[k] != b {
					k--
				}
				var parts []string
				cyc := append(append([]int(nil), stack[k:]...), b)
				for j := 0; j+1 < len(cyc); j++ {
					parts = append(parts, fmt.Sprintf("%d before %d (%s)", cyc[j], cyc[j+1], succ[cyc[j]][cyc[j+1]]))
				}
				res = strings.Join(parts, ", ")
				return true
			}
			if state[b] == 0 && dfs(b) {
				return true
			}
		}
		stack = stack[:len(stack)-1]
		state[a] = 2
		return false
	}
	for _, a := range nodes {
		if state[a] == 0 && dfs(a) {
			return res
		}
	}
	return ""
}

// probeCap measures the per-subscriber buffer of the instrumented copy: with
// a subscriber that never reads, capacity+1 deliveries complete (one value is
// held by the forwarder) and the next one parks in execute; every delivery that
// completed is counted through a second, prompt subscriber registered after
// the stalled one.
func probeCap() int {
	n := 0
	mc.Replay(mc.Options{Delay: true, AutoClock: true, ClockLast: true, Horizon: time.Second}, nil, func() *mc.Exec {
		n = 0
		return &mc.Exec{Body: func() {
			b := batcher.New[int, int](interval)
			ctx, _ := mc.CtxWithCancel(context.Background())
			ch := mc.NewChan[int]()
			b.Subscribe(ctx, mc.NewChan[int]())
			b.Subscribe(ctx, ch)
			for i := 0; i < 56; i++ {
				b.Batch(i, i)
			}
			for {
				ch.Recv()
				n++
			}
		}}
	})
	return n - 1
}

// ---- scenario families ----

const (
	classTimeline = "batcher/debounce-timeline"
	classRace     = "batcher/prompt-subscribers-race"
	classLeave    = "batcher/execute-wedges-on-departed-subscriber"
	classDuring   = "batcher/departure-during-delivery"
	classStall    = "batcher/close-with-stalled-subscriber"
	classMulti    = "batcher/overlapping-close"
	classSlow     = "batcher/slow-staying-reader"
	classPreCanc  = "batcher/subscribe-with-ended-context"
	classReorder  = "batcher/same-sequence-with-backed-up-stayer"
	classFine     = "batcher/debounce-timeline-sub-millisecond"
)

func classOf(s scen) string {
	if s.class != "" {
		return s.class
	}
	for _, x := range s.subs {
		if x.kind != 'p' {
			return classLeave
		}
	}
	if s.timeline {
		return classTimeline
	}
	return classRace
}

func opts(s scen, min, max int) mc.Options {
	h := time.Second
	for _, x := range s.subs {
		if x.kind == 'd' {
			h = 48 * time.Hour // slow readers: up to an hour before each receive
		}
	}
	return mc.Options{Delay: true, MinBound: min, Bound: max, AutoClock: true, ClockLast: s.timeline, Horizon: h, MaxSteps: 30000}
}

// slowDelays: the time a slow but well-behaved reader lets pass before each
// receive; nothing in the statement depends on it.
var slowDelays = []time.Duration{time.Millisecond, 100 * time.Millisecond, time.Second, 2 * time.Second, 2*time.Second + 1, 5 * time.Second, time.Minute, time.Hour}

// scripts enumerates every script of 1..maxLen Batch calls over keys {a,b}
// with gaps from the alphabet (first gap 0, first key a: the keys are
// symmetric); values are numbered from base.
func scripts(maxLen int, gaps []int, base int) [][]call {
	var out [][]call
	var rec func(cur []call)
	rec = func(cur []call) {
		if len(cur) > 0 {
			c := append([]call(nil), cur...)
			for i := range c {
				c[i].val = base + i
			}
			out = append(out, c)
		}
		if len(cur) == maxLen {
			return
		}
		for _, k := range []string{"a", "b"} {
			for _, g := range gaps {
				if len(cur) == 0 && (k != "a" || g != 0) {
					continue
				}
				rec(append(cur, call{gap: g, key: k}))
			}
		}
	}
	rec(nil)
	return out
}

func parse(base int, spec string) []call {
	// "a0 b0 a11": key + gap
	var out []call
	for i, f := range strings.Fields(spec) {
		var g float64
		fmt.Sscanf(f[1:], "%g", &g)
		whole := int(g)
		out = append(out, call{gap: whole, extra: time.Duration(math.Round((g-float64(whole))*1000)) * time.Microsecond, key: f[:1], val: base + i})
	}
	return out
}

func scaledScenarios() []hx.Scenario {
	var out []hx.Scenario
	seen := map[string]bool{}
	add := func(s scen, min, max int, thoroughOnly bool) {
		sc := s
		n := s.name()
		if seen[n] {
			return
		}
		seen[n] = true
		out = append(out, hx.Scenario{
			Name: n, Class: classOf(s), ThoroughOnly: thoroughOnly,
			Opts: opts(s, min, max),
			Mk:   func() *mc.Exec { return mkExec(sc) },
		})
	}
	p := sub{kind: 'p'}
	pLate := sub{kind: 'p', lateAt: 13}
	// (A) timeline mode, prompt readers: every script of <= 4 Batch calls of one
	// producer on the gap grid {0, 4, 11} ms (interval 10 ms: inside the
	// interval / past it; no call coincides with an expiry)
	for _, sc := range scripts(4, []int{0, 4, 11}, 1) {
		n := len(sc)
		for _, ss := range [][]sub{{p}, {p, p}, {p, pLate}} {
			for _, c := range []int{-1, 17, 27} {
				if c == 27 && n < 3 {
					continue
				}
				if n == 4 && (len(ss) == 2 && ss[1].lateAt == 0 || c == 17) {
					continue // 216 scripts of 4 calls: one or two subscribers (the second late), Close absent or at 27 ms
				}
				quick := n <= 2 || (n == 3 && len(ss) == 1 && c != 27)
				min := 2
				if n == 4 {
					min = 1
				}
				add(scen{prods: [][]call{sc}, subs: ss, closeAt: c, timeline: true}, min, min+3, !quick)
			}
		}
	}
	// (B) two producers, timeline and race mode, prompt readers
	two := [][2]string{
		{"a0", "a0"}, {"a0", "b0"}, {"a0", "a4"}, {"a0", "a11"}, {"a0 a4", "a0"}, {"a0 b0", "a4"}, {"a0 a11", "a4"},
		{"a0 a4", "a4 a4"}, {"a0 b4", "b0 a4"}, {"a0 a11", "b0 b11"}, {"a0 b0 a11", "b4"}, {"a0 a4 a4", "a11"},
	}
	for _, t := range two {
		a, b := parse(1, t[0]), parse(11, t[1])
		n := len(a) + len(b)
		for _, tl := range []bool{true, false} {
			for _, ss := range [][]sub{{p}, {p, p}, {p, pLate}} {
				for _, c := range []int{-1, 17} {
					quick := n <= 2 && len(ss) == 1
					add(scen{prods: [][]call{a, b}, subs: ss, closeAt: c, timeline: tl}, 2, 5, !quick)
				}
			}
		}
	}
	// (C) race mode, one producer, prompt readers
	for _, sc := range scripts(3, []int{0, 4, 11}, 1) {
		n := len(sc)
		for _, ss := range [][]sub{{p}, {p, p}, {p, pLate}} {
			for _, c := range []int{-1, 17} {
				quick := n <= 2 && len(ss) == 1
				min := 2
				if n == 1 && len(ss) == 1 {
					min = 3
				}
				add(scen{prods: [][]call{sc}, subs: ss, closeAt: c}, min, min+3, !quick)
			}
		}
	}
	// (D) departing subscribers: slow and stalled readers with up to 4
	// deliveries outstanding against a buffer of 2, leaving at 25 ms (after
	// the deliveries of 10 and 21 ms) or at 15 ms (between them); Close absent,
	// at 17 ms, or at 30 ms (after the departure)
	depart := []string{"a0 b0 a11 b0", "a0 b0 a11", "a0 a11 a11 a11", "a0 b4 a11 b0", "a0 b0 b11", "a0 b0", "a0 a11"}
	for di, d := range depart {
		sc := parse(1, d)
		for _, leave := range []int{25, 15} {
			x := sub{kind: 'x', leaveAt: leave}
			s1 := sub{kind: 's', k: 1, leaveAt: leave}
			for si, ss := range [][]sub{{x}, {x, p}, {p, x}, {s1, p}, {p, s1}, {s1}, {x, pLate}, {x, s1}, {x, x, p}, {p, x, s1}, {s1, p, p}} {
				for _, c := range []int{-1, 30, 17} {
					for _, tl := range []bool{false, true} {
						if tl && (leave == 15 || len(ss) == 3) {
							continue // timeline mode only adds the default placement of the clock
						}
						quick := !tl && ((di == 0 && leave == 25 && si <= 4 && c != 17) || (di == 1 && leave == 25 && si <= 1 && c == -1) || (di >= 5 && si <= 3 && c != 17))
						add(scen{prods: [][]call{sc}, subs: ss, closeAt: c, timeline: tl}, 2, 5, !quick)
					}
				}
			}
		}
	}
	// two producers against a departing subscriber
	for _, t := range [][2]string{{"a0 a11", "b0 b11"}, {"a0 a11", "b0"}} {
		a, b := parse(1, t[0]), parse(11, t[1])
		x := sub{kind: 'x', leaveAt: 25}
		for _, ss := range [][]sub{{x}, {x, p}, {p, x}} {
			for _, c := range []int{-1, 30} {
				add(scen{prods: [][]call{a, b}, subs: ss, closeAt: c}, 2, 5, true)
			}
		}
	}
	// (E) a subscriber leaves while a delivery is in progress: FOUR subscribers
	// [A prompt, B slow / stalled with a full buffer, C prompt, D prompt]; the
	// 4th delivery (21 ms) parks on B; A, earlier in the list, cancels at 23 ms
	// and its cleanup edits the list under the parked delivery; B resumes
	// reading / leaves at 25 ms. C and D stay: each value exactly once, same
	// sequence.
	for _, bsub := range []sub{{kind: 'x', leaveAt: 25}, {kind: 'r', k: 1, leaveAt: 25}, {kind: 's', k: 1, leaveAt: 25}} {
		q := sub{kind: 'q', leaveAt: 23}
		for _, ss := range [][]sub{{q, bsub, p, p}, {p, bsub, q, p}} {
			for _, c := range []int{-1, 30} {
				for _, tl := range []bool{false, true} {
					first := ss[0].kind == 'q' && c == -1 && !tl && bsub.kind != 's'
					sc := scen{prods: [][]call{parse(1, "a0 b0 a11 b0")}, subs: ss, closeAt: c, timeline: tl, class: classDuring}
					before := len(out)
					add(sc, 2, 3, !first)
					if first && len(out) > before {
						out[len(out)-1].QuickMin = hx.Ptr(1)
					}
				}
			}
		}
	}
	// (F) Close with a subscriber that neither reads nor cancels and at most
	// buffer-many (2) events delivered to it (deliveries at 10 / 14 ms); Close
	// at 5 ms (before any delivery), 12 ms (between / after the first) or 17 ms
	// (after all): Batch, Subscribe and Close return, its channel is closed
	for di, d := range []string{"a0", "a0 b0", "a0 b4"} {
		n := sub{kind: 'n'}
		for si, ss := range [][]sub{{n}, {n, p}, {p, n}, {n, pLate}, {n, n}, {n, {kind: 'x', leaveAt: 25}}} {
			for _, c := range []int{5, 12, 17} {
				for _, tl := range []bool{false, true} {
					quick := !tl && si <= 1 && (di == 1 || c == 17)
					add(scen{prods: [][]call{parse(1, d)}, subs: ss, closeAt: c, timeline: tl, class: classStall}, 2, 4, !quick)
				}
			}
		}
	}
	// (K) timeline mode at sub-millisecond granularity: two keys batched 0.6-1.9
	// ms apart (the queue only runs an item "right away" when it is less than
	// 0.5 ms from due, so every gap here is served by a timer), optionally the
	// second key batched again inside what is left of its interval. Oracle: the
	// exact timeline (delivered exactly one interval after the call, never
	// early; a value replaced inside its interval never arrives).
	for _, g := range []string{"0.6", "1", "1.5", "1.9"} {
		for bi, batch := range []string{"a0 b" + g, "a0 b" + g + " b9", "a0 b" + g + " b4", "a0 a" + g + " b" + g, "a0 b" + g + " a" + g} {
			for si, ss := range [][]sub{{p}, {p, p}} {
				add(scen{prods: [][]call{parse(1, batch)}, subs: ss, closeAt: -1, timeline: true, class: classFine}, 2, 3, si > 0 || bi > 1)
			}
		}
	}
	// (I) Subscribe with a context that has already ended: the subscriber's
	// channel is closed once Close has returned (the unchanged code registers
	// it, its forwarder leaves at once and closes the channel), deliveries to
	// the others are unaffected
	for _, batch := range []string{"a0", "a0 b0"} {
		pc := sub{kind: 'c'}
		pcLate := sub{kind: 'c', lateAt: 13}
		for si, ss := range [][]sub{{pc}, {pc, p}, {p, pc}, {p, pcLate}, {pc, pc}} {
			for _, c := range []int{17, 5} {
				for _, tl := range []bool{false, true} {
					add(scen{prods: [][]call{parse(1, batch)}, subs: ss, closeAt: c, timeline: tl, class: classPreCanc}, 2, 3, tl || si > 2 || (c == 5 && si > 0))
				}
			}
		}
	}
	// (J) a staying reader that falls more than the buffer behind and then
	// catches up (r0@40 / r1@40: reads 0 / 1 values, pauses until 40 ms, then
	// reads promptly for ever) next to a prompt one, SIX deliveries (10, 10, 21,
	// 21, 32, 32 ms; buffer 2): from the 4th on execute has to wait for the slow
	// one. Both stay: every value exactly once, both see the same sequence.
	for _, bsub := range []sub{{kind: 'r', k: 0, leaveAt: 40}, {kind: 'r', k: 1, leaveAt: 40}} {
		for si, ss := range [][]sub{{bsub, p}, {p, bsub}} {
			for _, tl := range []bool{false, true} {
				quick := !tl && si == 0 && bsub.k == 0
				before := len(out)
				add(scen{prods: [][]call{parse(1, "a0 b0 a11 b0 a11 b0")}, subs: ss, closeAt: -1, timeline: tl, class: classReorder}, 2, 3, !quick)
				if quick && len(out) > before {
					out[len(out)-1].QuickMin = hx.Ptr(1)
				}
			}
		}
	}
	// (H) a staying, well-behaved but SLOW reader: model time passes before each
	// of its receives (timeline mode), 1-3 deliveries (buffer 2 + the one in the
	// forwarder's hand: execute never has to wait for the reader), alone or next
	// to a prompt reader, no Close: the most recent value of every key reaches
	// it exactly once, same sequence, whatever the delay
	for bi, batch := range []string{"a0", "a0 b0", "a0 b0 a11"} {
		for _, d := range slowDelays {
			sl := sub{kind: 'd', delay: d}
			for si, ss := range [][]sub{{sl}, {sl, p}, {p, sl}} {
				add(scen{prods: [][]call{parse(1, batch)}, subs: ss, closeAt: -1, timeline: true, class: classSlow}, 2, 3, si == 2 || (si == 1 && bi == 2))
			}
		}
	}
	// (G) two and three Close calls from different threads. The first Close
	// has something to wait for: with "a0 b0 a11 b0" and a stalled / slow
	// subscriber leaving at 25 ms the 4th delivery (21 ms) is parked on its full
	// buffer, so Close at 23 ms sits in queue.Close until 25 ms and a second
	// Close at 24 ms overlaps it; with prompt readers / a reader that never
	// reads the calls are issued at the same instant (17 ms, every
	// interleaving) or one after the other. At the return of EVERY Close all
	// subscriber channels are closed and nothing is sent afterwards.
	for _, m := range []struct {
		batch  string
		subs   []sub
		first  int
		more   [][]int
		nquick int
	}{
		{"a0 b0 a11 b0", []sub{{kind: 'x', leaveAt: 25}, p}, 23, [][]int{{24}, {23}, {24, 24}, {-30}, {24, -30}}, 2},
		{"a0 b0 a11 b0", []sub{p, {kind: 'x', leaveAt: 25}}, 23, [][]int{{24}, {24, 24}}, 0},
		{"a0 b0 a11 b0", []sub{{kind: 's', k: 1, leaveAt: 25}, p}, 23, [][]int{{24}, {23}}, 1},
		{"a0 b0", []sub{{kind: 'n'}}, 17, [][]int{{17}, {17, 17}, {-20}}, 1},
		{"a0 b0", []sub{{kind: 'n'}, p}, 17, [][]int{{17}, {-20}}, 1},
		{"a0 b4", []sub{p}, 12, [][]int{{12}, {12, 12}, {14}, {-20}}, 2},
		{"a0 b0", []sub{p, p}, 10, [][]int{{10}, {10, 10}}, 1},
	} {
		for k, more := range m.more {
			for _, tl := range []bool{false, true} {
				quick := !tl && k < m.nquick
				add(scen{prods: [][]call{parse(1, m.batch)}, subs: m.subs, closeAt: m.first, moreCloses: more, timeline: tl, class: classMulti}, 2, 3, !quick)
			}
		}
	}
	// shards are handed out in list order and a part that runs out of budget
	// skips the tail: the departing-subscriber families go first
	rank := func(c string) int {
		switch c {
		case classMulti, classSlow, classPreCanc, classReorder, classFine:
			return -1
		case classDuring, classStall:
			return 0
		case classLeave:
			return 1
		}
		return 2
	}
	sort.SliceStable(out, func(a, b int) bool { return rank(out[a].Class) < rank(out[b].Class) })
	return out
}

// trueSizeScenarios: more than the real buffer outstanding for a stalled or
// slow subscriber (capacity+2 distinct keys batched at once fall due together).
func trueSizeScenarios(capacity int) []hx.Scenario {
	var out []hx.Scenario
	p := sub{kind: 'p'}
	for _, extra := range []int{2, 3} {
		var sc []call
		for i := 0; i < capacity+extra; i++ {
			sc = append(sc, call{key: fmt.Sprintf("k%02d", i), val: i + 1})
		}
		x := sub{kind: 'x', leaveAt: 25}
		s1 := sub{kind: 's', k: 1, leaveAt: 25}
		for _, ss := range [][]sub{{x}, {x, p}, {p, x}, {s1, p}} {
			for _, c := range []int{-1, 30} {
				s := scen{prods: [][]call{sc}, subs: ss, closeAt: c, label: fmt.Sprintf("k00..k%02d", len(sc)-1)}
				scn := s
				out = append(out, hx.Scenario{
					Name:  fmt.Sprintf("cap%d %s", capacity, s.name()),
					Class: classOf(s), ThoroughOnly: extra != 2,
					// long executions (~1000 decisions): the explorer keeps every
					// child of the next level in memory, so only the mandatory
					// bound is explored
					Opts: opts(s, 1, 1),
					Mk:   func() *mc.Exec { return mkExec(scn) },
				})
			}
		}
	}
	// a staying reader that falls more than the real buffer behind (55 keys fall
	// due together, it reads from 40 ms on) next to a prompt one: same sequence
	var burst []call
	for i := 0; i < capacity+5; i++ {
		burst = append(burst, call{key: fmt.Sprintf("k%02d", i), val: i + 1})
	}
	for si, ss := range [][]sub{{{kind: 'r', k: 0, leaveAt: 40}, p}, {p, {kind: 'r', k: 0, leaveAt: 40}}} {
		s := scen{prods: [][]call{burst}, subs: ss, closeAt: -1, label: fmt.Sprintf("k00..k%02d", len(burst)-1), class: classReorder}
		scn := s
		out = append(out, hx.Scenario{
			Name:  fmt.Sprintf("cap%d %s", capacity, s.name()),
			Class: classOf(s), ThoroughOnly: si > 0,
			Opts: opts(s, 1, 1),
			Mk:   func() *mc.Exec { return mkExec(scn) },
		})
	}
	// a subscriber that neither reads nor cancels with exactly the real buffer
	// (50) outstanding: Batch and Close return, its channel is closed
	var full []call
	for i := 0; i < capacity; i++ {
		full = append(full, call{key: fmt.Sprintf("k%02d", i), val: i + 1})
	}
	for si, ss := range [][]sub{{{kind: 'n'}}, {{kind: 'n'}, p}} {
		s := scen{prods: [][]call{full}, subs: ss, closeAt: 30, label: fmt.Sprintf("k00..k%02d", capacity-1), class: classStall}
		scn := s
		out = append(out, hx.Scenario{
			Name:  fmt.Sprintf("cap%d %s", capacity, s.name()),
			Class: classOf(s), ThoroughOnly: si > 0,
			Opts: opts(s, 1, 1),
			Mk:   func() *mc.Exec { return mkExec(scn) },
		})
	}
	return out
}

func scenarios(t *testing.T) []hx.Scenario {
	// The part is declared by the generated copy (part_<name>.go.txt, added
	// through the overlay); the measured capacity is only reported: a tree in
	// which the buffering behaves differently (another size, deliveries that
	// never wait) is explored with the declared family rather than refused.
	c := probeCap()
	switch batcher.McPart {
	case "scaled":
		if c != 2 {
			fmt.Fprintf(os.Stderr, "note: part scaled: measured per-subscriber capacity %d, expected 2\n", c)
		}
		// the cheap churn family first: a part that runs out of budget skips the tail
		return append(churnScenarios(), scaledScenarios()...)
	case "truesize":
		if c != 50 {
			fmt.Fprintf(os.Stderr, "note: part truesize: measured per-subscriber capacity %d, expected 50\n", c)
		}
		return trueSizeScenarios(50)
	}
	t.Fatalf("unknown part %q", batcher.McPart)
	return nil
}

func TestMC(t *testing.T) { hx.Run(t, scenarios(t)) }
