package c10

import (
	"fmt"
	"testing"

	"verif/mc"
)

func TestDebug(t *testing.T) {
	for _, s := range scenarios(t) {
		if s.Name != "race batch=a0.b0.a11.b0 subs=x@25,p close=none" {
			continue
		}
		for _, b := range []int{0, 1} {
			o := s.Opts
			o.MinBound, o.Bound = b, b
			st := mc.Explore(o, s.Mk)
			fmt.Println(b, st.Execs, st.ExecsPerLevel, len(st.Violations), st.SampleOutcomes)
			if len(st.Violations) > 0 {
				fmt.Println(st.Violations[0].Cost, st.Violations[0].Choices)
			}
		}
	}
}
