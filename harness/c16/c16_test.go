// Harness for the concurrent side of C16 (streams.TeeReadCloser), explored on
// the mcgen-instrumented copy of github.com/dapr/kit/streams.
//
// TeeReadCloser carries a mutex: Read, Stop and Close may be called from
// different goroutines (a consumer's deferred Close next to a watcher that
// closes or swaps the stream). "Closed exactly once" and "the writer gets
// exactly the bytes read" are claims over every interleaving of those calls.
package c16

import (
	"bytes"
	"fmt"
	"io"
	"sort"
	"strings"
	"testing"

	"github.com/dapr/kit/streams"

	"verif/hx"
	"verif/mc"
)

type source struct {
	data    []byte
	pos     int
	closes  int
	handed  [][]byte // segments handed out, in order
	closing int      // Close calls in progress
	overlap bool     // a second Close began while one was in progress
}

func (s *source) Read(p []byte) (int, error) {
	mc.Yield()
	if s.pos >= len(s.data) {
		return 0, io.EOF
	}
	n := copy(p, s.data[s.pos:])
	s.handed = append(s.handed, append([]byte(nil), s.data[s.pos:s.pos+n]...))
	s.pos += n
	mc.Yield()
	return n, nil
}

func (s *source) Close() error {
	if s.closing > 0 {
		s.overlap = true
	}
	s.closing++
	s.closes++
	mc.Yield() // closing a stream takes time
	s.closing--
	return nil
}

type sink struct {
	buf    bytes.Buffer
	closes int
}

func (w *sink) Write(p []byte) (int, error) {
	mc.Yield()
	w.buf.Write(p)
	return len(p), nil
}

func (w *sink) Close() error {
	w.closes++
	mc.Yield()
	return nil
}

type op byte // 'r' Read(2), 'R' Read(8), 'S' Stop, 'C' Close

type readRes struct {
	step int
	data []byte
	err  error
}

func mkExec(scripts []string) *mc.Exec {
	src := &source{data: []byte("abcde")}
	snk := &sink{}
	var reads []readRes
	closeReturned := 0
	body := func() {
		t := streams.NewTeeReadCloser(src, snk)
		var wg mc.WaitGroup
		wg.Add(len(scripts))
		for i, sc := range scripts {
			sc := sc
			mc.GoNamed(fmt.Sprintf("client%d", i), func() {
				defer wg.Done()
				for _, o := range sc {
					switch o {
					case 'r', 'R':
						n := 2
						if o == 'R' {
							n = 8
						}
						p := make([]byte, n)
						k, err := t.Read(p)
						reads = append(reads, readRes{mc.Step(), append([]byte(nil), p[:k]...), err})
					case 'S':
						t.Stop()
					case 'C':
						t.Close()
						closeReturned++
					}
				}
			})
		}
		wg.Wait()
	}
	check := func(e *mc.End) error {
		for _, th := range e.Threads {
			if strings.HasPrefix(th.Name, "client") && !th.Finished {
				return fmt.Errorf("[key=deadlock] %s blocked on %s (parked: %v)", th.Name, th.WaitOn, e.Parked())
			}
		}
		if src.closes > 1 {
			return fmt.Errorf("[key=source-closed-more-than-once] the source was closed %d times (overlapping: %v)", src.closes, src.overlap)
		}
		if closeReturned > 0 && src.closes != 1 {
			return fmt.Errorf("[key=source-not-closed] %d Close call(s) returned but the source was closed %d times", closeReturned, src.closes)
		}
		if snk.closes > 1 {
			return fmt.Errorf("[key=writer-closed-more-than-once] the writer was closed %d times", snk.closes)
		}
		// the writer got exactly what the source handed out, in that order
		var handed []byte
		for _, h := range src.handed {
			handed = append(handed, h...)
		}
		if !bytes.Equal(handed, snk.buf.Bytes()) {
			return fmt.Errorf("[key=writer-bytes] the source handed out %q but the writer received %q", handed, snk.buf.Bytes())
		}
		if !bytes.Equal(handed, src.data[:len(handed)]) {
			return fmt.Errorf("[key=harness] source handed out %q", handed)
		}
		// every segment the source handed out reached exactly one consumer (which
		// of two overlapping Reads returns first is not fixed)
		var gotSegs, handedSegs []string
		for _, r := range reads {
			if len(r.data) > 0 {
				gotSegs = append(gotSegs, string(r.data))
			}
		}
		for _, h := range src.handed {
			handedSegs = append(handedSegs, string(h))
		}
		sort.Strings(gotSegs)
		sort.Strings(handedSegs)
		if strings.Join(gotSegs, ",") != strings.Join(handedSegs, ",") {
			return fmt.Errorf("[key=consumer-bytes] consumers received the segments %q but the source handed out %q", gotSegs, handedSegs)
		}
		mc.Outcome(fmt.Sprintf("src=%d snk=%d handed=%q reads=%d", src.closes, snk.closes, handed, len(reads)))
		return nil
	}
	return &mc.Exec{Body: body, Check: check}
}

func scenarios() []hx.Scenario {
	var out []hx.Scenario
	alpha := []string{"r", "R", "S", "C", "rr", "rC", "RC", "rS", "SC", "CC", "Cr", "Sr", "RR"}
	add := func(scripts []string, thoroughOnly bool) {
		sc := scripts
		out = append(out, hx.Scenario{
			Name:         "tee " + strings.Join(scripts, " | "),
			Class:        "TeeReadCloser/concurrent",
			ThoroughOnly: thoroughOnly,
			Opts:         mc.Options{MinBound: 2, Bound: 3, TieCost: 1, MaxSteps: 4000},
			Mk:           func() *mc.Exec { return mkExec(sc) },
		})
	}
	for i, a := range alpha {
		for j, b := range alpha {
			if j < i {
				continue
			}
			if !strings.ContainsAny(a+b, "CS") {
				continue // only readers: nothing to close
			}
			add([]string{a, b}, false)
		}
	}
	one := []string{"r", "R", "S", "C"}
	for i, a := range one {
		for j, b := range one {
			for k, c := range one {
				if j < i || k < j || !strings.ContainsAny(a+b+c, "C") {
					continue
				}
				add([]string{a, b, c}, false)
			}
		}
	}
	for _, a := range alpha {
		if len(a) == 2 {
			add([]string{a, "C", "C"}, true)
			add([]string{a, "C", "S"}, true)
			add([]string{a, "r", "C"}, true)
		}
	}
	return out
}

func TestMC(t *testing.T) { hx.Run(t, scenarios()) }
