// Subscription churn family for C11: ONE controller thread runs a script over
// {Subscribe(new prompt subscriber), cancel subscriber i, Broadcast(fresh
// value)} with up to 3 subscribers alive at once and ends with one more
// Broadcast; every subscriber that is still subscribed must have received
// every value broadcast after its Subscribe returned, exactly once and in
// order. Subscribers come and go, so the bookkeeping of the subscriber list
// (ids, removal on departure) is exercised with departures that have / have
// not completed when the next Subscribe arrives.
package c11

import (
	"context"
	"fmt"
	"strings"
	"time"

	"github.com/dapr/kit/events/broadcaster"

	"verif/hx"
	"verif/mc"
)

const classChurn = "broadcaster/subscription-churn"

type churnStep struct {
	kind byte // 'M'/'T' ONE Subscribe call with two/three channels, 'R' re-subscribe the channels of the group that left last under a fresh context, 'N' subscribe a subscriber that never reads, 'S' subscribe, 'C' cancel the i-th subscriber alive, 'B' broadcast
	i    int
}

type churn struct {
	steps []churnStep
	// wait: after a cancel the controller lets the departure complete (a model
	// sleep in timeline mode returns only when nothing else can run, i.e. the
	// departed subscriber's forwarding goroutine has finished its cleanup);
	// otherwise it goes straight on and the cleanup races with the next steps.
	wait bool
}

func (c churn) name() string {
	var p []string
	for _, s := range c.steps {
		if s.kind == 'C' {
			p = append(p, fmt.Sprint("C", s.i))
		} else {
			p = append(p, string(s.kind))
		}
	}
	m := "nowait"
	if c.wait {
		m = "wait"
	}
	return fmt.Sprintf("churn %s %s", m, strings.Join(p, "."))
}

type churnSub struct {
	n         int // order of subscription
	ch        *mc.Chan[int]
	cancel    context.CancelFunc
	cancelled bool
	from      int // number of values broadcast before its (first) Subscribe returned
	got       []int
	nsubs     int // how many times this channel has been subscribed
	lastFrom  int // number of values broadcast before its latest Subscribe returned
}

// churnGroup is one Subscribe call: one context, one or several channels.
type churnGroup struct {
	subs      []*churnSub
	cancel    context.CancelFunc
	cancelled bool
}

func mkChurn(c churn) *mc.Exec {
	var (
		subs []*churnSub
		all  []int // values in the order of the Broadcast calls
	)
	body := func() {
		b := broadcaster.New[int]()
		var groups []*churnGroup
		var lastLeft *churnGroup
		alive := func() []*churnGroup {
			var a []*churnGroup
			for _, g := range groups {
				if !g.cancelled {
					a = append(a, g)
				}
			}
			return a
		}
		bcast := func() {
			v := len(all) + 1
			all = append(all, v)
			b.Broadcast(v)
		}
		subscribe := func(chs []*churnSub) {
			ctx, cancel := mc.CtxWithCancel(context.Background())
			g := &churnGroup{subs: chs, cancel: cancel}
			groups = append(groups, g)
			var cs []*mc.Chan[int]
			for _, s := range chs {
				cs = append(cs, s.ch)
			}
			b.Subscribe(ctx, cs...)
			for _, s := range chs {
				s.cancelled = false
				s.nsubs++
				s.lastFrom = len(all)
				if s.nsubs == 1 {
					s.from = len(all)
				}
			}
		}
		for _, st := range c.steps {
			switch st.kind {
			case 'S', 'N', 'M', 'T':
				n := map[byte]int{'S': 1, 'N': 1, 'M': 2, 'T': 3}[st.kind]
				var chs []*churnSub
				for k := 0; k < n; k++ {
					s := &churnSub{n: len(subs), ch: mc.NewChan[int]()}
					subs = append(subs, s)
					chs = append(chs, s)
					if st.kind != 'N' {
						mc.GoNamed(fmt.Sprintf("reader%d", s.n), func() {
							for {
								s.got = append(s.got, s.ch.Recv())
							}
						})
					}
				}
				subscribe(chs)
			case 'R':
				g := lastLeft
				lastLeft = nil
				subscribe(g.subs)
			case 'C':
				g := alive()[st.i]
				g.cancelled = true
				for _, s := range g.subs {
					s.cancelled = true
				}
				lastLeft = g
				g.cancel()
				if c.wait {
					mc.TimeSleep(time.Millisecond)
				}
			case 'B':
				bcast()
			}
		}
		if len(alive()) > 0 {
			bcast()
		}
	}
	check := func(e *mc.End) error {
		var seqs []string
		for _, s := range subs {
			seqs = append(seqs, strings.Trim(strings.Join(strings.Fields(fmt.Sprint(s.got)), "."), "[]"))
		}
		describe := func() string {
			return fmt.Sprintf("%d values broadcast; received per subscriber (in order of subscription): [%s]; parked=%v", len(all), strings.Join(seqs, " | "), e.Parked())
		}
		if !e.Finished("main") {
			return fmt.Errorf("deadlock: the controller never returned; %s", describe())
		}
		for _, s := range subs {
			if s.nsubs > 1 && !c.wait {
				// the channel was subscribed again while the forwarder of its
				// ended subscription may still have been alive: each of the two
				// subscriptions delivers a value at most once
				cnt := map[int]int{}
				for _, v := range s.got {
					cnt[v]++
					if v <= s.from || cnt[v] > s.nsubs {
						return fmt.Errorf("subscriber %d (subscribed %d times) received %d %d times / although it was broadcast before its Subscribe; %s", s.n, s.nsubs, v, cnt[v], describe())
					}
				}
				if !s.cancelled {
					for _, v := range all[s.lastFrom:] {
						if cnt[v] == 0 {
							return fmt.Errorf("lost value: subscriber %d (re-subscribed under a fresh context, reads promptly) never received %d, broadcast after its re-Subscribe returned; %s", s.n, v, describe())
						}
					}
				}
				continue
			}
			// at most once, only values broadcast after its Subscribe, in call order
			want := all[s.from:]
			k := 0
			for _, v := range s.got {
				for k < len(want) && want[k] != v {
					k++
				}
				if k == len(want) {
					return fmt.Errorf("subscriber %d received %d out of order, twice, or although it was broadcast before its Subscribe (expected a subsequence of %v); %s", s.n, v, want, describe())
				}
				k++
			}
			if !s.cancelled {
				have := map[int]bool{}
				for _, v := range s.got {
					have[v] = true
				}
				for _, v := range all[s.lastFrom:] {
					if !have[v] {
						return fmt.Errorf("lost value: subscriber %d (still subscribed, reads promptly) received %v, not every value of %v broadcast after its (latest) Subscribe returned; %s", s.n, s.got, all[s.lastFrom:], describe())
					}
				}
			}
		}
		mc.Outcome(strings.Join(seqs, "|"))
		return nil
	}
	return &mc.Exec{Body: body, Check: check}
}

// churnScripts enumerates every script of <= maxLen steps with at most 3
// subscribers alive, at least one departure, at least one subscriber alive at
// the end, no two Broadcasts in a row and not ending in a Broadcast (one is
// appended by the controller).
func churnScripts(maxLen int) [][]churnStep {
	var out [][]churnStep
	var rec func(cur []churnStep, n int, cancels int)
	rec = func(cur []churnStep, n int, cancels int) {
		if len(cur) > 0 && n >= 1 && cancels > 0 && cur[len(cur)-1].kind != 'B' {
			out = append(out, append([]churnStep(nil), cur...))
		}
		if len(cur) == maxLen {
			return
		}
		if n < 3 {
			rec(append(cur, churnStep{kind: 'S'}), n+1, cancels)
		}
		for i := 0; i < n; i++ {
			rec(append(cur, churnStep{kind: 'C', i: i}), n-1, cancels+1)
		}
		if n >= 1 && cur[len(cur)-1].kind != 'B' {
			rec(append(cur, churnStep{kind: 'B'}), n, cancels)
		}
	}
	rec(nil, 0, 0)
	return out
}

// stalledChurnScripts: scripts with exactly ONE subscriber that never reads
// ('N'): 1..2 values (the scaled buffer) are issued while it is subscribed, it
// is cancelled — leaving with values still buffered for it — and a prompt
// subscriber that is alive at the end checks what newcomers and survivors
// receive afterwards (a newcomer must never see a value issued before its
// Subscribe returned).
func stalledChurnScripts(maxLen int) [][]churnStep {
	var out [][]churnStep
	type st struct {
		alive        []byte
		usedN, nCanc bool
		valuesWhileN int
	}
	var rec func(cur []churnStep, s st)
	rec = func(cur []churnStep, s st) {
		prompt := false
		for _, k := range s.alive {
			prompt = prompt || k == 'S'
		}
		if len(cur) > 0 && s.nCanc && s.valuesWhileN >= 1 && prompt && cur[len(cur)-1].kind != 'B' {
			out = append(out, append([]churnStep(nil), cur...))
		}
		if len(cur) == maxLen {
			return
		}
		if len(s.alive) < 3 {
			n := s
			n.alive = append(append([]byte(nil), s.alive...), 'S')
			rec(append(cur, churnStep{kind: 'S'}), n)
			if !s.usedN {
				n := s
				n.usedN = true
				n.alive = append(append([]byte(nil), s.alive...), 'N')
				rec(append(cur, churnStep{kind: 'N'}), n)
			}
		}
		for i, k := range s.alive {
			n := s
			n.alive = append(append([]byte(nil), s.alive[:i]...), s.alive[i+1:]...)
			n.nCanc = s.nCanc || k == 'N'
			rec(append(cur, churnStep{kind: 'C', i: i}), n)
		}
		if len(s.alive) > 0 && (len(cur) == 0 || cur[len(cur)-1].kind != 'B') {
			n := s
			for _, k := range s.alive {
				if k == 'N' {
					n.valuesWhileN++
					break
				}
			}
			if n.valuesWhileN <= 2 {
				rec(append(cur, churnStep{kind: 'B'}), n)
			}
		}
	}
	rec(nil, st{})
	return out
}

// shapeScripts: scripts with ONE multi-channel Subscribe ('M' two, 'T' three
// channels under one context; every channel is judged as a subscriber of its
// own; 'C i' cancels the i-th Subscribe CALL alive) and / or ONE re-subscription
// ('R': the channels of the call cancelled last are subscribed again under a
// fresh context), at most 4 channels alive, at least one departure, a channel
// alive at the end, no trailing Broadcast.
func shapeScripts(maxLen int) [][]churnStep {
	var out [][]churnStep
	var rec func(cur []churnStep, groups []int, usedM, usedR bool, lastC int)
	rec = func(cur []churnStep, groups []int, usedM, usedR bool, lastC int) {
		chans, cancels := 0, 0
		for _, g := range groups {
			chans += g
		}
		for _, st := range cur {
			if st.kind == 'C' {
				cancels++
			}
		}
		if len(cur) > 0 && (usedM || usedR) && chans >= 1 && cancels > 0 && cur[len(cur)-1].kind != 'B' {
			out = append(out, append([]churnStep(nil), cur...))
		}
		if len(cur) == maxLen {
			return
		}
		with := func(g int) []int { return append(append([]int(nil), groups...), g) }
		if chans < 3 {
			rec(append(cur, churnStep{kind: 'S'}), with(1), usedM, usedR, lastC)
		}
		if !usedM {
			if chans <= 2 {
				rec(append(cur, churnStep{kind: 'M'}), with(2), true, usedR, lastC)
			}
			if chans <= 1 {
				rec(append(cur, churnStep{kind: 'T'}), with(3), true, usedR, lastC)
			}
		}
		for i, g := range groups {
			rest := append(append([]int(nil), groups[:i]...), groups[i+1:]...)
			rec(append(cur, churnStep{kind: 'C', i: i}), rest, usedM, usedR, g)
		}
		if lastC > 0 && !usedR && chans+lastC <= 4 {
			rec(append(cur, churnStep{kind: 'R'}), with(lastC), usedM, true, 0)
		}
		if len(groups) > 0 && cur[len(cur)-1].kind != 'B' {
			rec(append(cur, churnStep{kind: 'B'}), groups, usedM, usedR, lastC)
		}
	}
	rec(nil, nil, false, false, 0)
	return out
}

func churnScenarios() []hx.Scenario {
	var out []hx.Scenario
	mk := func(sc []churnStep, wait bool, thoroughOnly bool) {
		c := churn{steps: sc, wait: wait}
		min := 2
		for _, st := range sc {
			if len(sc) > 4 && (st.kind == 'M' || st.kind == 'T' || st.kind == 'R') {
				min = 1 // the 5-step multi-channel / re-subscribe scripts: 4 channels, 9+ threads
			}
		}
		out = append(out, hx.Scenario{
			Name: c.name(), Class: classChurn, ThoroughOnly: thoroughOnly,
			Opts: mc.Options{Delay: true, MinBound: min, Bound: 3, AutoClock: wait, ClockLast: wait, Horizon: time.Second, MaxSteps: 6000},
			Mk:   func() *mc.Exec { return mkChurn(c) },
		})
	}
	// multi-channel Subscribe calls and re-subscription of a channel that left
	for _, sc := range shapeScripts(5) {
		for _, wait := range []bool{true, false} {
			mk(sc, wait, len(sc) > 4)
			if len(sc) == 4 {
				out[len(out)-1].QuickMin = hx.Ptr(1) // quick tier: bound 1 mandatory, 2+ as the budget allows
			}
		}
	}
	// a subscriber that leaves with values still buffered for it, then newcomers
	for _, sc := range stalledChurnScripts(6) {
		for _, wait := range []bool{true, false} {
			mk(sc, wait, len(sc) > 5)
		}
	}
	for _, sc := range churnScripts(6) {
		for _, wait := range []bool{true, false} {
			mk(sc, wait, len(sc) > 5)
		}
	}
	return out
}
