// Harness for C11 (events/broadcaster) on the mcgen-instrumented copy of
// github.com/dapr/kit/events/broadcaster.
//
// One package serves both parts of spec.json: the instrumented copy is built
// either with the per-subscriber buffer scaled to 2 (part "scaled") or at its
// true size 10 (part "truesize"); the harness measures the capacity it was
// built with (probeCap) and generates the matching scenario family.
package c11

import (
	"context"
	"fmt"
	"os"
	"sort"
	"strings"
	"testing"
	"time"

	"github.com/dapr/kit/events/broadcaster"

	"verif/hx"
	"verif/mc"
)

// ---- scenario description ----

// subscriber kinds
//
//	'p' prompt reader: receives for ever, never leaves
//	's' slow reader: receives k values, stops reading, then cancels its context
//	'x' stalled: never reads; cancels its context at some later moment
//	'n' never reads and never cancels. Inside the property only while no
//	    Broadcast has to wait for it, i.e. with at most buffer-many values
//	    outstanding for it: Broadcast, Subscribe and Close must still return
//	    (nothing is claimed about the reader itself)
//	'd' slow reader that stays: lets `delay` of model time pass before every
//	    receive, receives for ever, never leaves (timeline mode)
//	'q' prompt reader that cancels its context at some later moment (own
//	    thread, like 'x'; it keeps reading)
type sub struct {
	kind  byte
	k     int           // values read by a slow reader
	late  bool          // Subscribe is called from its own thread, racing with the broadcasts
	delay time.Duration // 'd': model time slept before every receive
}

type scen struct {
	bcs  [][]int // values per broadcasting thread (all distinct)
	subs []sub
	// closeAt: -1 no Close; otherwise the Close thread is released as soon as
	// closeAt Broadcast calls have been issued (0: free from the start); in
	// strict scenarios: as soon as closeAt Broadcast calls have returned.
	closeAt int
	// strict: also claim exactly-once in histories WITH Close, for every value
	// whose Broadcast call returned before Close was called (see NOTES.md,
	// "reading of 'while the broadcaster is open'"); own finding key.
	strict bool
	class  string // finding key; default: by the kinds of subscribers and Close
	// extra Close calls from further threads: 'o' overlapping (released as soon
	// as the first Close has been CALLED), 'a' after (released when the first
	// Close has RETURNED). The oracle is applied at the return of EVERY Close.
	// In these scenarios prompt readers are re-armed whenever a Close returns
	// (see read), so that a send after that instant is seen as such.
	moreCloses string
}

func (s scen) nvals() int {
	n := 0
	for _, b := range s.bcs {
		n += len(b)
	}
	return n
}

func (s scen) name() string {
	var b []string
	for _, vs := range s.bcs {
		b = append(b, fmt.Sprint(len(vs)))
	}
	var u []string
	for _, x := range s.subs {
		t := string(x.kind)
		if x.kind == 's' {
			t += fmt.Sprint(x.k)
		}
		if x.kind == 'd' {
			t += x.delay.String()
		}
		if x.late {
			t += "L"
		}
		u = append(u, t)
	}
	c := "none"
	if s.closeAt >= 0 {
		c = fmt.Sprint("@", s.closeAt)
	}
	if s.strict {
		c = fmt.Sprint("after", s.closeAt, "returned")
	}
	if s.moreCloses != "" {
		c += "+" + s.moreCloses
	}
	pre := ""
	if s.strict {
		pre = "strict "
	}
	return fmt.Sprintf("%sbc=%s subs=%s close=%s", pre, strings.Join(b, "+"), strings.Join(u, ","), c)
}

// ---- monitor ----

type recv struct {
	val        int
	afterClose bool // the receive was INVOKED after Close had returned
}

type subRec struct {
	sub
	ch         *mc.Chan[int]
	subscribed bool // Subscribe returned
	cancelled  bool // cancel was called
	got        []recv
	poke       *mc.Chan[struct{}] // multi-Close scenarios: a Close has returned
}

type bcRec struct {
	val        int
	thread     int
	called     bool
	returned   bool
	retOpen    bool   // returned before Close was called
	subsBefore []bool // subscribers whose Subscribe had returned when Broadcast was called
	retBefore  []int  // values whose Broadcast had returned when this one was called
	afterClose bool   // called after Close had returned
}

func mkExec(s scen) *mc.Exec {
	var (
		subs        = make([]*subRec, len(s.subs))
		bcs         []*bcRec
		byVal       = map[int]*bcRec{}
		issued      int
		returned    int
		closeCalled bool
		closeRet    bool
		probeErr    string
	)
	for _, vs := range s.bcs {
		for _, v := range vs {
			r := &bcRec{val: v}
			bcs = append(bcs, r)
			byVal[v] = r
		}
	}
	body := func() {
		b := broadcaster.New[int]()
		gate := mc.NewChan[struct{}]() // closed when closeAt Broadcast calls have been issued
		gateOpen := false
		openGate := func() {
			n := issued
			if s.strict {
				n = returned
			}
			if s.closeAt >= 0 && !gateOpen && n >= s.closeAt {
				gateOpen = true
				gate.Close()
			}
		}
		cancels := make([]context.CancelFunc, len(s.subs))
		ctxs := make([]context.Context, len(s.subs))
		for i, x := range s.subs {
			// unbuffered: a receive by the harness coincides with the send by the library
			subs[i] = &subRec{sub: x, ch: mc.NewChan[int]()}
			if s.moreCloses != "" {
				subs[i].poke = mc.NewChan[struct{}](1 + len(s.moreCloses))
			}
			ctxs[i], cancels[i] = mc.CtxWithCancel(context.Background())
		}
		// early subscribers: Subscribe returns before any Broadcast is called
		for i, x := range s.subs {
			if !x.late {
				b.Subscribe(ctxs[i], subs[i].ch)
				subs[i].subscribed = true
			}
		}
		openGate()
		for ti, vs := range s.bcs {
			ti, vs := ti, vs
			mc.GoNamed(fmt.Sprintf("bc%d", ti), func() {
				for _, v := range vs {
					r := byVal[v]
					r.thread = ti
					r.subsBefore = make([]bool, len(subs))
					for i, sr := range subs {
						r.subsBefore[i] = sr.subscribed
					}
					for _, o := range bcs {
						if o.returned {
							r.retBefore = append(r.retBefore, o.val)
						}
					}
					r.afterClose = closeRet
					r.called = true
					issued++
					openGate()
					b.Broadcast(v)
					r.returned = true
					r.retOpen = !closeCalled
					returned++
					openGate()
				}
			})
		}
		for i, x := range s.subs {
			if x.late {
				i := i
				mc.GoNamed(fmt.Sprintf("subscribe%d", i), func() {
					b.Subscribe(ctxs[i], subs[i].ch)
					subs[i].subscribed = true
				})
			}
		}
		for i, x := range s.subs {
			i, x := i, x
			sr := subs[i]
			read := func() {
				for {
					after := closeRet
					if sr.poke == nil {
						sr.got = append(sr.got, recv{sr.ch.Recv(), after})
						return
					}
					// a receive that was waiting when a Close returned is
					// abandoned and started again, so that "started after Close
					// had returned" is exact for whatever the library sends later
					rc, pc := sr.ch.RecvCase(), sr.poke.RecvCase()
					if mc.Select(false, rc, pc) == 0 {
						sr.got = append(sr.got, recv{rc.V, after})
						return
					}
				}
			}
			switch x.kind {
			case 'p', 'q':
				mc.GoNamed(fmt.Sprintf("reader%d", i), func() {
					for {
						read()
					}
				})
			case 'd':
				mc.GoNamed(fmt.Sprintf("reader%d", i), func() {
					for {
						mc.TimeSleep(x.delay)
						read()
					}
				})
			case 's':
				mc.GoNamed(fmt.Sprintf("reader%d", i), func() {
					for n := 0; n < x.k; n++ {
						read()
					}
					sr.cancelled = true
					cancels[i]()
				})
			}
		}
		if s.closeAt >= 0 {
			firstCalled := mc.NewChan[struct{}]()
			firstReturned := mc.NewChan[struct{}]()
			// the oracle at the return of a Close call (any of them)
			returnedFrom := func(who string) {
				closeRet = true
				// a library goroutine parked in a send on a subscriber channel
				// now would deliver to any reader arriving after Close returned
				for i, sr := range subs {
					if v, ok, got := sr.ch.TryRecv(); got && ok && probeErr == "" {
						probeErr = fmt.Sprintf("a send of value %d to subscriber %d was still in progress when Close returned to %s", v, i, who)
					}
				}
				for _, sr := range subs {
					if sr.poke != nil {
						sr.poke.Send(struct{}{})
					}
				}
			}
			mc.GoNamed("closer", func() {
				gate.Recv()
				closeCalled = true
				firstCalled.Close()
				b.Close()
				returnedFrom("closer")
				firstReturned.Close()
			})
			for k, m := range s.moreCloses {
				k, m := k, m
				name := fmt.Sprintf("closer%d", k+2)
				mc.GoNamed(name, func() {
					if m == 'a' {
						firstReturned.Recv()
					} else {
						firstCalled.Recv()
					}
					b.Close()
					returnedFrom(name)
				})
			}
		}
		// stalled subscribers leave last in the default order: by then a
		// Broadcast may be parked on their full buffer
		for i, x := range s.subs {
			if x.kind == 'x' || x.kind == 'q' {
				i := i
				mc.GoNamed(fmt.Sprintf("leave%d", i), func() {
					subs[i].cancelled = true
					cancels[i]()
				})
			}
		}
	}
	check := func(e *mc.End) error {
		seqs := make([]string, len(subs))
		for i, sr := range subs {
			var vs []string
			for _, g := range sr.got {
				vs = append(vs, fmt.Sprint(g.val))
			}
			seqs[i] = strings.Join(vs, ".")
		}
		describe := func() string {
			return fmt.Sprintf("received per subscriber: [%s]; parked=%v", strings.Join(seqs, " | "), e.Parked())
		}
		// (1) Broadcast, Subscribe and Close always return (every stalled
		// subscriber of the scenario has left by now, see the leave threads)
		for _, t := range e.Threads {
			must := t.Name == "main" || strings.HasPrefix(t.Name, "closer") || strings.HasPrefix(t.Name, "bc") ||
				strings.HasPrefix(t.Name, "subscribe") || strings.HasPrefix(t.Name, "leave")
			if must && !t.Finished {
				return fmt.Errorf("deadlock: %s never returned (blocked on %s); %s", t.Name, t.WaitOn, describe())
			}
		}
		// (2) nothing is delivered after Close returned
		if probeErr != "" {
			return fmt.Errorf("delivery after Close: %s; %s", probeErr, describe())
		}
		for i, sr := range subs {
			for _, g := range sr.got {
				if g.afterClose {
					return fmt.Errorf("delivery after Close: subscriber %d received value %d by a receive started after Close had returned; %s", i, g.val, describe())
				}
			}
			if closeRet {
				if v, ok, got := sr.ch.TryRecv(); got && ok {
					return fmt.Errorf("delivery after Close: a library goroutine is still parked sending value %d to subscriber %d although Close returned; %s", v, i, describe())
				}
			}
		}
		// (3) at most once, and only values that were passed to Broadcast
		for i, sr := range subs {
			seen := map[int]bool{}
			for _, g := range sr.got {
				r := byVal[g.val]
				if r == nil || !r.called {
					return fmt.Errorf("subscriber %d received %d which was never passed to Broadcast; %s", i, g.val, describe())
				}
				if seen[g.val] {
					return fmt.Errorf("subscriber %d received value %d twice; %s", i, g.val, describe())
				}
				seen[g.val] = true
			}
			// (4) exactly once for a subscriber that subscribed before the call
			// and stays subscribed while the broadcaster is open: only claimed
			// in histories where the broadcaster stays open and the subscriber
			// never leaves
			if s.closeAt < 0 && !closeCalled && (sr.kind == 'p' || sr.kind == 'd') {
				for _, r := range bcs {
					if r.called && r.subsBefore[i] && !seen[r.val] {
						return fmt.Errorf("lost value: subscriber %d (subscribed before the call, never left, broadcaster open) never received %d; %s", i, r.val, describe())
					}
				}
			}
			// (4') strict family: Close "blocks until all events have been sent
			// to the subscribers": a value whose Broadcast returned before Close
			// was called reaches every subscriber that was there and never left
			if s.strict && sr.kind == 'p' {
				for _, r := range bcs {
					if r.retOpen && r.subsBefore[i] && !seen[r.val] {
						return fmt.Errorf("lost at Close: subscriber %d (subscribed before the call, never left) never received %d although Broadcast(%d) had returned before Close was called; %s", i, r.val, r.val, describe())
					}
				}
			}
		}
		// (5) one common order extending the order of the Broadcast calls: the
		// union of every subscriber's successor relation and of "returned
		// before called" must be acyclic
		succ := map[int]map[int]string{}
		edge := func(a, b int, why string) {
			if succ[a] == nil {
				succ[a] = map[int]string{}
			}
			if _, ok := succ[a][b]; !ok {
				succ[a][b] = why
			}
		}
		for _, r := range bcs {
			for _, a := range r.retBefore {
				edge(a, r.val, "call order")
			}
		}
		for i, sr := range subs {
			for j := 1; j < len(sr.got); j++ {
				edge(sr.got[j-1].val, sr.got[j].val, fmt.Sprintf("subscriber %d", i))
			}
		}
		if cyc := findCycle(succ); cyc != "" {
			return fmt.Errorf("no common order: %s; %s", cyc, describe())
		}
		fin := []string{}
		for _, t := range e.Threads {
			if !t.Finished && !strings.HasPrefix(t.Name, "reader") {
				fin = append(fin, t.Name)
			}
		}
		mc.Outcome(strings.Join(seqs, "|") + fmt.Sprint(" close=", closeRet, " alive=", len(fin)))
		return nil
	}
	return &mc.Exec{Body: body, Check: check}
}

// findCycle returns a description of a cycle in the relation, or "".
func findCycle(succ map[int]map[int]string) string {
	var nodes []int
	for a := range succ {
		nodes = append(nodes, a)
	}
	sort.Ints(nodes)
	state := map[int]int{}
	var stack []int
	var res string
	var dfs func(a int) bool
	dfs = func(a int) bool {
		state[a] = 1
		stack = append(stack, a)
		var next []int
		for b := range succ[a] {
			next = append(next, b)
		}
		sort.Ints(next)
		for _, b := range next {
			if state[b] == 1 {
				// cycle: from b ... a -> b
				k := len(stack) - 1
				for stack[k] != b {
					k--
				}
				var parts []string
				cyc := append(append([]int(nil), stack[k:]...), b)
				for j := 0; j+1 < len(cyc); j++ {
					parts = append(parts, fmt.Sprintf("%d before %d (%s)", cyc[j], cyc[j+1], succ[cyc[j]][cyc[j+1]]))
				}
				res = strings.Join(parts, ", ")
				return true
			}
			if state[b] == 0 && dfs(b) {
				return true
			}
		}
		stack = stack[:len(stack)-1]
		state[a] = 2
		return false
	}
	for _, a := range nodes {
		if state[a] == 0 && dfs(a) {
			return res
		}
	}
	return ""
}

// probeCap measures the per-subscriber buffer of the instrumented copy: with
// a subscriber that never reads, capacity+1 Broadcast calls return (one value
// is held by the forwarder) and the next one parks.
func probeCap() int {
	n := 0
	mc.Replay(mc.Options{Delay: true}, nil, func() *mc.Exec {
		n = 0
		return &mc.Exec{Body: func() {
			b := broadcaster.New[int]()
			ctx, _ := mc.CtxWithCancel(context.Background())
			b.Subscribe(ctx, mc.NewChan[int]())
			for i := 0; i < 64; i++ {
				b.Broadcast(i)
				n++
			}
		}}
	})
	return n - 1
}

// ---- scenario families ----

const (
	classOrder  = "broadcaster/delivery-and-common-order"
	classLeave  = "broadcaster/departing-subscriber"
	classClose  = "broadcaster/close"
	classLeaveC = "broadcaster/departing-subscriber-and-close"
	classStrict = "broadcaster/close-drops-accepted-values"
	classDuring = "broadcaster/departure-during-delivery"
	classStall  = "broadcaster/close-with-stalled-subscriber"
	classMulti  = "broadcaster/overlapping-close"
	classSlow   = "broadcaster/slow-staying-reader"
	classBehind = "broadcaster/common-order-with-backed-up-stayer"
)

func classOf(s scen) string {
	if s.strict {
		return classStrict
	}
	if s.class != "" {
		return s.class
	}
	leaving := false
	for _, x := range s.subs {
		if x.kind != 'p' {
			leaving = true
		}
	}
	switch {
	case leaving && s.closeAt >= 0:
		return classLeaveC
	case leaving:
		return classLeave
	case s.closeAt >= 0:
		return classClose
	}
	return classOrder
}

func values(shape []int) [][]int {
	var out [][]int
	v := 1
	for _, n := range shape {
		var vs []int
		for j := 0; j < n; j++ {
			vs = append(vs, v)
			v++
		}
		out = append(out, vs)
	}
	return out
}

// subSets enumerates every sequence of 1..2 subscriber kinds and every
// combination of 3 (as a sequence in the order stalled, slow, prompt and in the
// reverse order: the position in the subscriber list decides who is served
// first by Broadcast); optionally the last subscriber subscribes late.
func subSets() [][]sub {
	kinds := []sub{{kind: 'x'}, {kind: 's', k: 1}, {kind: 'p'}}
	var out [][]sub
	seen := map[string]bool{}
	emit := func(cur []sub) {
		for _, late := range []bool{false, true} {
			l := append([]sub(nil), cur...)
			l[len(l)-1].late = late
			k := fmt.Sprint(l)
			if !seen[k] {
				seen[k] = true
				out = append(out, l)
			}
		}
	}
	var rec func(cur []sub, from int)
	rec = func(cur []sub, from int) {
		if len(cur) > 0 && len(cur) < 3 {
			emit(cur)
		}
		if len(cur) == 3 {
			emit(cur)
			emit([]sub{cur[2], cur[1], cur[0]})
			return
		}
		for i, k := range kinds {
			if len(cur) == 2 && i < from {
				continue // 3 subscribers: combinations only
			}
			if len(cur) == 2 && kindIndex(kinds, cur[0]) > kindIndex(kinds, cur[1]) {
				continue
			}
			rec(append(cur, k), i)
		}
	}
	rec(nil, 0)
	return out
}

func kindIndex(kinds []sub, x sub) int {
	for i, k := range kinds {
		if k.kind == x.kind {
			return i
		}
	}
	return -1
}

func scaledScenarios() []hx.Scenario {
	var out []hx.Scenario
	var prio []int
	names := map[string]bool{}
	add := func(s scen, delay bool, min, max int, thoroughOnly bool) {
		sc := s
		n := s.name()
		if !delay {
			n = "pb " + n
		}
		if names[n] {
			return
		}
		names[n] = true
		out = append(out, hx.Scenario{
			Name: n, Class: classOf(s), ThoroughOnly: thoroughOnly,
			Opts: mc.Options{Delay: delay, MinBound: min, Bound: max, MaxSteps: 6000, AutoClock: hasDelay(s), ClockLast: hasDelay(s), Horizon: 48 * time.Hour},
			Mk:   func() *mc.Exec { return mkExec(sc) },
		})
		// shards are handed out in list order and a part that runs out of
		// budget skips the tail: strict family first, then by size, the
		// preemption-bounded extras last
		pr := s.nvals() + 2*len(s.subs)
		if !s.strict {
			pr += 100
		}
		if !delay {
			pr += 1000
		}
		prio = append(prio, pr)
	}
	shapes := [][]int{{1}, {2}, {3}, {1, 1}, {2, 1}, {2, 2}, {3, 1}, {3, 2}, {3, 3}}
	for _, shape := range shapes {
		nv := 0
		for _, x := range shape {
			nv += x
		}
		for _, ss := range subSets() {
			closes := []int{-1, 0, (nv + 1) / 2, nv}
			if nv == 1 {
				closes = []int{-1, 0, 1}
			}
			if len(ss) == 3 {
				// three subscribers dominate the cost: Close absent or after
				// half of the calls, and not every shape
				if len(shape) == 2 && shape[0] == 3 && shape[1] < 3 {
					continue
				}
				closes = []int{-1, (nv + 1) / 2}
			}
			for _, c := range closes {
				s := scen{bcs: values(shape), subs: ss, closeAt: c}
				small := nv <= 2 && len(ss) == 1
				// with a buffer of 2 a Broadcast parks on a stalled subscriber
				// from the 4th value on: keep some of those in the quick tier
				blocking := nv == 4 && len(ss) <= 2 && hasLeaver(ss) && !ss[len(ss)-1].late && (c == -1 || c == nv)
				quick := (len(ss) == 1 && nv <= 3) || (len(ss) == 2 && nv <= 2 && !ss[1].late) || blocking
				min := 2
				if small {
					min = 3
				}
				add(s, true, min, min+3, !quick)
				// preemption bounding (choices among forced candidates are
				// free: factorial in the number of threads) for the very smallest
				if len(ss) == 1 && !ss[0].late {
					switch {
					case nv == 1 && c < 0:
						add(s, false, 2, 2, false)
					case nv == 1, len(shape) == 1 && nv == 2, nv == 2 && c < 0:
						add(s, false, 1, 1, false)
					}
				}
			}
		}
	}
	// a staying, well-behaved but SLOW reader: model time passes before each of
	// its receives (timeline mode: the clock moves only at quiescence), 1-3
	// values (buffer 2 + the one in the forwarder's hand: Broadcast never has
	// to wait for the reader), alone or next to a prompt reader, no Close:
	// exactly once and one common order, whatever the delay
	for _, nv := range []int{1, 2, 3} {
		for _, d := range slowDelays {
			sl := sub{kind: 'd', delay: d}
			for si, ss := range [][]sub{{sl}, {sl, {kind: 'p'}}, {{kind: 'p'}, sl}} {
				before := len(out)
				add(scen{bcs: values([]int{nv}), subs: ss, closeAt: -1, class: classSlow}, true, 2, 3, si == 2 || (si == 1 && nv == 3))
				if len(out) > before {
					prio[len(prio)-1] = 0
				}
			}
		}
	}
	// a staying reader that falls more than the buffer behind: SIX values from
	// one thread against a reader that takes one value per millisecond (buffer 2
	// + the forwarder's hand: from the 4th value on Broadcast has to wait for
	// it), alone or next to a prompt reader: exactly once, one common order
	// extending the order of the calls
	for si, ss := range [][]sub{{{kind: 'd', delay: time.Millisecond}}, {{kind: 'd', delay: time.Millisecond}, {kind: 'p'}}, {{kind: 'p'}, {kind: 'd', delay: time.Millisecond}}, {{kind: 'd', delay: time.Hour}}} {
		before := len(out)
		add(scen{bcs: values([]int{6}), subs: ss, closeAt: -1, class: classBehind}, true, 2, 3, si > 1)
		if len(out) > before {
			prio[len(prio)-1] = 0
			if si <= 1 {
				out[len(out)-1].QuickMin = hx.Ptr(1)
			}
		}
	}
	// two and three Close calls from different threads, overlapping the first
	// one ('o') or following it ('a'), where the first Close has something to
	// wait for: a Broadcast parked on a stalled reader that leaves later (4
	// values), values buffered for / held for a reader that does not read (n,
	// <= 2 values), forwarders still draining to prompt readers. The oracle
	// holds at the return of EVERY Close: nothing is sent afterwards.
	for _, m := range []struct {
		shape []int
		subs  []sub
		quick bool
	}{
		{[]int{4}, []sub{{kind: 'x'}, {kind: 'p'}}, true},
		{[]int{4}, []sub{{kind: 'p'}, {kind: 'x'}}, false},
		{[]int{2, 2}, []sub{{kind: 'x'}, {kind: 'p'}}, false},
		{[]int{4}, []sub{{kind: 's', k: 1}, {kind: 'p'}}, false},
		{[]int{2}, []sub{{kind: 'n'}}, true},
		{[]int{2}, []sub{{kind: 'n'}, {kind: 'p'}}, true},
		{[]int{1}, []sub{{kind: 'p'}}, true},
		{[]int{2}, []sub{{kind: 'p'}, {kind: 'p'}}, false},
		{[]int{1, 1}, []sub{{kind: 'p'}, {kind: 'x'}}, false},
	} {
		nv := 0
		for _, x := range m.shape {
			nv += x
		}
		for _, more := range []string{"o", "a", "oo", "oa"} {
			for _, c := range []int{0, nv} {
				quick := m.quick && (more == "o" || (more == "a" && c == nv && nv <= 2) || (more == "oo" && c == nv && nv == 4))
				before := len(out)
				add(scen{bcs: values(m.shape), subs: m.subs, closeAt: c, moreCloses: more, class: classMulti}, true, 2, 3, !quick)
				if len(out) > before {
					prio[len(prio)-1] = 0
					if nv == 4 {
						out[len(out)-1].QuickMin = hx.Ptr(1)
					}
				}
			}
		}
	}
	// Close with a subscriber that neither reads nor cancels, at most
	// buffer-many (2) values broadcast to it, Close released after 0..nv calls
	// were issued: Broadcast, Subscribe and Close must return
	for _, shape := range [][]int{{1}, {2}, {1, 1}} {
		nv := 0
		for _, x := range shape {
			nv += x
		}
		n := sub{kind: 'n'}
		for si, ss := range [][]sub{{n}, {n, {kind: 'p'}}, {{kind: 'p'}, n}, {n, {kind: 'p', late: true}}, {n, n}, {n, {kind: 'x'}}} {
			for c := 0; c <= nv; c++ {
				quick := si <= 1 || (si == 2 && nv == 2)
				before := len(out)
				add(scen{bcs: values(shape), subs: ss, closeAt: c, class: classStall}, true, 2, 4, !quick)
				if len(out) > before {
					prio[len(prio)-1] = 2
				}
			}
		}
	}
	// a subscriber leaves while a Broadcast is in progress: FOUR subscribers
	// [A prompt, B stalled / slow with a full buffer, C prompt, D prompt]; the
	// 4th value parks the Broadcast on B; A, earlier in the list, cancels (its
	// leave thread runs before B's in the default order) and its cleanup edits
	// the list under the parked Broadcast; then B leaves. C and D stay: every
	// value exactly once, one common order.
	for _, bsub := range []sub{{kind: 'x'}, {kind: 's', k: 1}} {
		q := sub{kind: 'q'}
		p := sub{kind: 'p'}
		for _, ss := range [][]sub{{q, bsub, p, p}, {p, bsub, q, p}} {
			for _, shape := range [][]int{{4}, {2, 2}} {
				for _, c := range []int{-1, 4} {
					first := ss[0].kind == 'q' && c == -1 && len(shape) == 1
					before := len(out)
					add(scen{bcs: values(shape), subs: ss, closeAt: c, class: classDuring}, true, 2, 3, !first)
					if first && len(out) > before {
						out[len(out)-1].QuickMin = hx.Ptr(1)
						prio[len(prio)-1] = 1
					}
				}
			}
		}
	}
	// strict reading of Close (own finding key): prompt readers only
	// (the statement's "stays subscribed while the broadcaster is open" read
	// literally, and Close's doc comment "blocks until all events have been
	// sent to the subscribers"): Close is released only once 1 / all Broadcast
	// calls have RETURNED, every subscriber reads for ever and never cancels
	for _, shape := range [][]int{{1}, {2}, {3}, {1, 1}, {2, 1}} {
		nv := 0
		for _, x := range shape {
			nv += x
		}
		for _, ss := range [][]sub{{{kind: 'p'}}, {{kind: 'p'}, {kind: 'p'}}, {{kind: 'p'}, {kind: 'p', late: true}}} {
			for _, c := range []int{1, nv} {
				add(scen{bcs: values(shape), subs: ss, closeAt: c, strict: true}, true, 2, 5, nv > 2 || len(ss) > 1)
			}
		}
	}
	// slow readers that take two values before they stop
	for _, shape := range [][]int{{3}, {3, 2}, {3, 3}} {
		nv := 0
		for _, x := range shape {
			nv += x
		}
		for _, ss := range [][]sub{{{kind: 's', k: 2}}, {{kind: 's', k: 2}, {kind: 'p'}}, {{kind: 'p'}, {kind: 's', k: 2}}, {{kind: 's', k: 2}, {kind: 'x'}}} {
			for _, c := range []int{-1, nv} {
				add(scen{bcs: values(shape), subs: ss, closeAt: c}, true, 2, 5, true)
			}
		}
	}
	idx := make([]int, len(out))
	for i := range idx {
		idx[i] = i
	}
	sort.SliceStable(idx, func(a, b int) bool { return prio[idx[a]] < prio[idx[b]] })
	sorted := make([]hx.Scenario, len(out))
	for i, j := range idx {
		sorted[i] = out[j]
	}
	return sorted
}

// slowDelays: the time a slow but well-behaved reader lets pass before each
// receive; nothing in the statement depends on it.
var slowDelays = []time.Duration{time.Millisecond, 100 * time.Millisecond, time.Second, 2 * time.Second, 2*time.Second + 1, 5 * time.Second, time.Minute, time.Hour}

func hasDelay(s scen) bool {
	for _, x := range s.subs {
		if x.kind == 'd' {
			return true
		}
	}
	return false
}

func hasLeaver(ss []sub) bool {
	for _, x := range ss {
		if x.kind != 'p' {
			return true
		}
	}
	return false
}

// trueSizeScenarios: stalled / slow readers with more than the real buffer (10)
// outstanding, at a lower bound.
func trueSizeScenarios(capacity int) []hx.Scenario {
	var out []hx.Scenario
	for _, nv := range []int{capacity + 2, capacity + 3} {
		for _, ss := range [][]sub{
			{{kind: 'x'}}, {{kind: 'x'}, {kind: 'p'}}, {{kind: 'p'}, {kind: 'x'}}, {{kind: 's', k: 1}, {kind: 'p'}},
			{{kind: 'x'}, {kind: 'p', late: true}}, {{kind: 'x'}, {kind: 'x'}},
		} {
			for _, c := range []int{-1, 0, nv} {
				for _, shape := range [][]int{{nv}, {nv - 2, 2}} {
					s := scen{bcs: values(shape), subs: ss, closeAt: c}
					sc := s
					out = append(out, hx.Scenario{
						Name: fmt.Sprintf("cap%d %s", capacity, s.name()), Class: classOf(s),
						ThoroughOnly: nv != capacity+2 || len(shape) > 1,
						Opts:         mc.Options{Delay: true, MinBound: 1, Bound: 3, MaxSteps: 20000},
						Mk:           func() *mc.Exec { return mkExec(sc) },
					})
				}
			}
		}
	}
	// a staying reader more than the real buffer behind and a burst of further
	// values (14): exactly once, one common order
	for si, ss := range [][]sub{{{kind: 'd', delay: time.Millisecond}}, {{kind: 'd', delay: time.Millisecond}, {kind: 'p'}}} {
		s := scen{bcs: values([]int{capacity + 4}), subs: ss, closeAt: -1, class: classBehind}
		sc := s
		out = append(out, hx.Scenario{
			Name: fmt.Sprintf("cap%d %s", capacity, s.name()), Class: classOf(s),
			ThoroughOnly: si > 0,
			Opts:         mc.Options{Delay: true, MinBound: 1, Bound: 2, MaxSteps: 20000, AutoClock: true, ClockLast: true, Horizon: 48 * time.Hour},
			Mk:           func() *mc.Exec { return mkExec(sc) },
		})
	}
	// a slow staying reader with the real buffer (10) + 1 outstanding
	for _, d := range []time.Duration{2*time.Second + 1, time.Hour} {
		for _, ss := range [][]sub{{{kind: 'd', delay: d}}, {{kind: 'd', delay: d}, {kind: 'p'}}} {
			s := scen{bcs: values([]int{capacity + 1}), subs: ss, closeAt: -1, class: classSlow}
			sc := s
			out = append(out, hx.Scenario{
				Name: fmt.Sprintf("cap%d %s", capacity, s.name()), Class: classOf(s),
				ThoroughOnly: len(ss) > 1,
				Opts:         mc.Options{Delay: true, MinBound: 1, Bound: 2, MaxSteps: 20000, AutoClock: true, ClockLast: true, Horizon: 48 * time.Hour},
				Mk:           func() *mc.Exec { return mkExec(sc) },
			})
		}
	}
	// a subscriber that neither reads nor cancels with exactly the real buffer
	// (10) outstanding: Broadcast and Close return
	for _, ss := range [][]sub{{{kind: 'n'}}, {{kind: 'n'}, {kind: 'p'}}} {
		for _, c := range []int{0, capacity / 2, capacity} {
			s := scen{bcs: values([]int{capacity}), subs: ss, closeAt: c, class: classStall}
			sc := s
			out = append(out, hx.Scenario{
				Name: fmt.Sprintf("cap%d %s", capacity, s.name()), Class: classOf(s),
				ThoroughOnly: len(ss) > 1 && c != capacity,
				Opts:         mc.Options{Delay: true, MinBound: 1, Bound: 3, MaxSteps: 20000},
				Mk:           func() *mc.Exec { return mkExec(sc) },
			})
		}
	}
	return out
}

func scenarios(t *testing.T) []hx.Scenario {
	// The part is declared by the generated copy (part_<name>.go.txt, added
	// through the overlay); the measured capacity is only reported: a tree in
	// which the buffering behaves differently (another size, deliveries that
	// never wait) is explored with the declared family rather than refused.
	c := probeCap()
	switch broadcaster.McPart {
	case "scaled":
		if c != 2 {
			fmt.Fprintf(os.Stderr, "note: part scaled: measured per-subscriber capacity %d, expected 2\n", c)
		}
		// the cheap churn family first: a part that runs out of budget skips the tail
		return append(churnScenarios(), scaledScenarios()...)
	case "truesize":
		if c != 10 {
			fmt.Fprintf(os.Stderr, "note: part truesize: measured per-subscriber capacity %d, expected 10\n", c)
		}
		return trueSizeScenarios(10)
	}
	t.Fatalf("unknown part %q", broadcaster.McPart)
	return nil
}

func TestMC(t *testing.T) { hx.Run(t, scenarios(t)) }
