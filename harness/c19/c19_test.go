// Harness for C19 (SPIFFE readiness, renewal law, publication) on the
// mcgen-instrumented copy of github.com/dapr/kit/crypto/spiffe.
package c19

import (
	"bytes"
	"context"
	"crypto/ecdsa"
	"crypto/elliptic"
	"crypto/rand"
	"crypto/x509"
	"crypto/x509/pkix"
	"encoding/pem"
	"errors"
	"fmt"
	"math/big"
	"net/url"
	"os"
	"path/filepath"
	"strings"
	"testing"
	"time"

	"github.com/spiffe/go-spiffe/v2/bundle/x509bundle"
	"github.com/spiffe/go-spiffe/v2/spiffeid"
	"github.com/spiffe/go-spiffe/v2/svid/x509svid"

	"github.com/dapr/kit/crypto/spiffe"
	"github.com/dapr/kit/logger"

	"verif/hx"
	"verif/mc"
	"verif/ref/quietlog"
)

var epoch = time.Date(2024, 1, 1, 0, 0, 0, 0, time.UTC)

// ---- test PKI (built once; data only) ----

var (
	caKey, _      = ecdsa.GenerateKey(elliptic.P256(), rand.Reader)
	caCert, caPEM = mkCA()
	serial        int64
)

func mkCA() (*x509.Certificate, []byte) {
	tmpl := &x509.Certificate{
		SerialNumber: big.NewInt(1), Subject: pkix.Name{CommonName: "verif-ca"},
		NotBefore: epoch.Add(-time.Hour), NotAfter: epoch.Add(20 * 365 * 24 * time.Hour),
		IsCA: true, BasicConstraintsValid: true, KeyUsage: x509.KeyUsageCertSign,
	}
	der, err := x509.CreateCertificate(rand.Reader, tmpl, tmpl, &caKey.PublicKey, caKey)
	if err != nil {
		panic(err)
	}
	c, _ := x509.ParseCertificate(der)
	return c, pem.EncodeToMemory(&pem.Block{Type: "CERTIFICATE", Bytes: der})
}

func issue(pub any, nb, na time.Time) *x509.Certificate {
	serial++
	u, _ := url.Parse("spiffe://example.org/ns/app")
	tmpl := &x509.Certificate{
		SerialNumber: big.NewInt(1000 + serial), Subject: pkix.Name{CommonName: "leaf"},
		NotBefore: nb, NotAfter: na, URIs: []*url.URL{u},
		KeyUsage: x509.KeyUsageDigitalSignature,
	}
	der, err := x509.CreateCertificate(rand.Reader, tmpl, caCert, pub, caKey)
	if err != nil {
		panic(err)
	}
	c, _ := x509.ParseCertificate(der)
	return c
}

// issueNoID signs a certificate that is not an SVID (no URI SAN): the issuer
// answered, but the answer does not pass validation.
func issueNoID(pub any, nb, na time.Time) *x509.Certificate {
	serial++
	tmpl := &x509.Certificate{
		SerialNumber: big.NewInt(1000 + serial), Subject: pkix.Name{CommonName: "not-an-svid"},
		NotBefore: nb, NotAfter: na, KeyUsage: x509.KeyUsageDigitalSignature,
	}
	der, err := x509.CreateCertificate(rand.Reader, tmpl, caCert, pub, caKey)
	if err != nil {
		panic(err)
	}
	c, _ := x509.ParseCertificate(der)
	return c
}

var (
	fixedKey, _ = ecdsa.GenerateKey(elliptic.P256(), rand.Reader)
	noIDLeaf    = issueNoID(&fixedKey.PublicKey, epoch, epoch.Add(1000*time.Hour))
	fixedLeaf   = issue(&fixedKey.PublicKey, epoch, epoch.Add(1000*time.Hour))
)

// ---- fakes ----

func newLog() logger.Logger { return quietlog.New() }

// anchors is a trust-anchor source whose bundle changes with every reading
// (a trailing comment carries the generation), so that "the current trust
// anchors" at the time of a fetch are distinguishable from earlier ones.
type anchors struct {
	gen  *int
	last *[]byte
	// failNext, when set, makes the next reading fail (and is cleared by it);
	// failAlways makes every reading fail
	failNext   *bool
	failAlways bool
}

func (anchors) GetX509BundleForTrustDomain(spiffeid.TrustDomain) (*x509bundle.Bundle, error) {
	return nil, errors.New("unused")
}
func (a anchors) CurrentTrustAnchors(context.Context) ([]byte, error) {
	if a.failAlways {
		return nil, errors.New("trust anchors unavailable")
	}
	if a.failNext != nil && *a.failNext {
		*a.failNext = false
		return nil, errors.New("trust anchors unavailable")
	}
	if a.gen == nil {
		return caPEM, nil
	}
	*a.gen++
	b := append(append([]byte{}, caPEM...), []byte(fmt.Sprintf("# trust bundle generation %d\n", *a.gen))...)
	*a.last = b
	return b, nil
}
func (anchors) Watch(context.Context, chan<- []byte) {}
func (anchors) Run(context.Context) error            { return nil }

// ---- part 1: readiness ----

type readyScen struct {
	issuer    byte // 'o' ok, 'f' fail, 'p' park until released then ok, 'q' park then fail, 'c' wait for the request's context (Run's is cancelled by another thread) and return its error
	getters   int
	ready     bool
	ctxCancel bool // Ready's context gets cancelled by another thread
	// pub: 0 = no WriteIdentityToFile; 'y' = publication works; 'a' = the trust
	// anchors cannot be read; 'w' = the directory cannot be written (its parent
	// is a regular file). With 'a'/'w' the initial fetch fails although the
	// issuer answered.
	pub byte
}

func (s readyScen) name() string {
	n := fmt.Sprintf("ready issuer=%c getters=%d ready=%v cancelReady=%v", s.issuer, s.getters, s.ready, s.ctxCancel)
	if s.pub != 0 {
		n += fmt.Sprintf(" publication=%c", s.pub)
	}
	return n
}

func mkReady(s readyScen) *mc.Exec {
	type res struct {
		done bool
		svid *x509svid.SVID
		err  error
	}
	var (
		runRet   bool
		runErr   error
		readyRes res
		gets     = make([]res, s.getters)
		fetched  bool
		fetchOK  bool
		dir      string
	)
	body := func() {
		release := mc.NewChan[struct{}]()
		var target *string
		ta := anchors{}
		if s.pub != 0 {
			d, err := os.MkdirTemp(os.Getenv("VERIF_SCRATCH"), "c19r-")
			if err != nil {
				mc.Fail("mkdtemp: %v", err)
			}
			dir = d
			t := filepath.Join(d, "identity")
			if s.pub == 'w' {
				if err := os.WriteFile(filepath.Join(d, "file"), []byte("x"), 0o600); err != nil {
					mc.Fail("%v", err)
				}
				t = filepath.Join(d, "file", "identity")
			}
			target = &t
			ta.failAlways = s.pub == 'a'
		}
		sp := spiffe.New(spiffe.Options{
			Log: newLog(), WriteIdentityToFile: target, TrustAnchors: ta,
			RequestSVIDFn: func(ctx context.Context, csr []byte) ([]*x509.Certificate, error) {
				defer func() { fetched = true }()
				switch s.issuer {
				case 'p', 'q':
					release.Recv()
				case 'c':
					mc.Twin(ctx.Done()).Recv()
					return nil, ctx.Err()
				}
				if s.issuer == 'f' || s.issuer == 'q' {
					return nil, errors.New("issuer down")
				}
				if s.issuer == 'v' {
					return []*x509.Certificate{noIDLeaf}, nil
				}
				if s.issuer == 'e' {
					return []*x509.Certificate{}, nil
				}
				fetchOK = s.pub != 'a' && s.pub != 'w'
				return []*x509.Certificate{fixedLeaf}, nil
			},
		})
		ctx, cancel := mc.CtxWithCancel(context.Background())
		mc.GoNamed("run", func() {
			runErr = sp.Run(ctx)
			runRet = true
		})
		if s.issuer == 'c' {
			mc.GoNamed("runcancel", func() { cancel() })
		}
		if s.ready {
			rctx, rcancel := mc.CtxWithCancel(context.Background())
			mc.GoNamed("ready", func() {
				readyRes.err = sp.Ready(rctx)
				readyRes.done = true
			})
			if s.ctxCancel {
				mc.GoNamed("readycancel", func() { rcancel() })
			}
		}
		src := sp.SVIDSource()
		for i := 0; i < s.getters; i++ {
			i := i
			mc.GoNamed(fmt.Sprintf("getter%d", i), func() {
				gets[i].svid, gets[i].err = src.GetX509SVID()
				gets[i].done = true
			})
		}
		if s.issuer == 'p' || s.issuer == 'q' {
			mc.GoNamed("releaser", func() { release.Close() })
		}
	}
	check := func(e *mc.End) error {
		if dir != "" {
			defer os.RemoveAll(dir)
		}
		if !fetched {
			return fmt.Errorf("deadlock before the initial fetch finished: parked=%v", e.Parked())
		}
		// once the initial fetch finished, everybody returns
		if s.ready && !readyRes.done {
			return fmt.Errorf("Ready never returned after the initial fetch finished; parked=%v", e.Parked())
		}
		for i, g := range gets {
			if !g.done {
				return fmt.Errorf("GetX509SVID (getter%d) never returned after the initial fetch finished; parked=%v", i, e.Parked())
			}
			if fetchOK {
				if g.err != nil || g.svid == nil || len(g.svid.Certificates) == 0 || g.svid.Certificates[0] != fixedLeaf {
					return fmt.Errorf("getter%d: initial fetch succeeded but GetX509SVID returned (%v, %v)", i, g.svid, g.err)
				}
			} else if g.err == nil {
				return fmt.Errorf("getter%d: initial fetch failed but GetX509SVID returned an SVID", i)
			}
		}
		if !fetchOK {
			if !runRet || runErr == nil {
				return fmt.Errorf("initial fetch failed but Run did not return an error (returned=%v err=%v)", runRet, runErr)
			}
		}
		if s.ready && readyRes.err != nil && !s.ctxCancel {
			return fmt.Errorf("Ready returned %v", readyRes.err)
		}
		mc.Outcome(fmt.Sprintf("ok=%v readyErr=%v", fetchOK, readyRes.err))
		return nil
	}
	return &mc.Exec{Body: body, Check: check}
}

// ---- part 2: renewal law (timeline mode) ----

type window struct {
	nbOff, naOff time.Duration // relative to the instant of issue
}

type renewScen struct {
	first    window
	outcomes string        // per renewal request after the initial one: 'o' ok / 'f' the issuer fails / 'v' the issuer answers with a certificate that is not an SVID / 'e' with an empty chain / 'a' (publishing only) the trust anchors cannot be read during that fetch
	next     window        // validity of renewed certificates
	steps    time.Duration // 0 = event driven (auto clock); else fixed clock step
	nsteps   int
	publish  bool
}

func (s renewScen) name() string {
	return fmt.Sprintf("renew first=[%v,%v] next=[%v,%v] outcomes=%q step=%v publish=%v", s.first.nbOff, s.first.naOff, s.next.nbOff, s.next.naOff, s.outcomes, s.steps, s.publish)
}

type fetchRec struct {
	at       time.Duration
	ok       bool
	cert     *x509.Certificate
	pub      *ecdsa.PublicKey
	servedAt *x509.Certificate // SVID served when this request was made
	files    string            // publication check result ("" = fine / not checked)
}

func mkRenew(s renewScen) *mc.Exec {
	var (
		log    []fetchRec
		sp     *spiffe.SPIFFE
		src    x509svid.Source
		dir    string
		runRet bool
		// trust anchors: generation counter, last bundle handed out, and the
		// generation at the moment of the last successful certificate request
		anchorGen        int
		anchorLast       []byte
		anchorGenAtFetch int
		anchorFailNext   bool
	)
	body := func() {
		opts := spiffe.Options{Log: newLog(), TrustAnchors: anchors{gen: &anchorGen, last: &anchorLast, failNext: &anchorFailNext}}
		if s.publish {
			d, err := os.MkdirTemp(os.Getenv("VERIF_SCRATCH"), "c19-")
			if err != nil {
				mc.Fail("mkdtemp: %v", err)
			}
			dir = d
			target := filepath.Join(d, "identity")
			opts.WriteIdentityToFile = &target
		}
		n := 0
		opts.RequestSVIDFn = func(ctx context.Context, csrDER []byte) ([]*x509.Certificate, error) {
			now := mc.ModelNow()
			rec := fetchRec{at: now}
			csr, err := x509.ParseCertificateRequest(csrDER)
			if err != nil {
				mc.Fail("bad CSR: %v", err)
			}
			rec.pub, _ = csr.PublicKey.(*ecdsa.PublicKey)
			if n > 0 {
				if sv, err := src.GetX509SVID(); err == nil && sv != nil && len(sv.Certificates) > 0 {
					rec.servedAt = sv.Certificates[0]
				}
			}
			idx := n
			n++
			if idx > 0 && s.publish && rec.servedAt != nil {
				// what is published while the loop asks for a renewal (or retries):
				// the file set of the last successful fetch, whatever failed since
				rec.files = checkPublished(dir, rec.servedAt, anchorLast)
			}
			w := s.next
			ok := true
			kind := byte('o')
			if idx == 0 {
				w = s.first
			} else if idx-1 < len(s.outcomes) {
				kind = s.outcomes[idx-1]
				ok = kind == 'o'
			} else {
				// after the scripted outcomes: a long-lived certificate ends the scenario
				w = window{0, 10000 * time.Hour}
			}
			if !ok {
				log = append(log, rec)
				t := epoch.Add(now)
				switch kind {
				case 'v':
					return []*x509.Certificate{issueNoID(csr.PublicKey, t.Add(w.nbOff), t.Add(w.naOff))}, nil
				case 'e':
					return []*x509.Certificate{}, nil
				case 'a':
					if s.publish {
						anchorFailNext = true
						return []*x509.Certificate{issue(csr.PublicKey, t.Add(w.nbOff), t.Add(w.naOff))}, nil
					}
				}
				return nil, errors.New("issuer down")
			}
			t := epoch.Add(now)
			rec.ok = true
			rec.cert = issue(csr.PublicKey, t.Add(w.nbOff), t.Add(w.naOff))
			log = append(log, rec)
			anchorGenAtFetch = anchorGen
			return []*x509.Certificate{rec.cert}, nil
		}
		sp = spiffe.New(opts)
		src = sp.SVIDSource()
		ctx, cancel := mc.CtxWithCancel(context.Background())
		_ = cancel
		mc.GoNamed("run", func() {
			sp.Run(ctx)
			runRet = true
		})
	}
	check := func(e *mc.End) error {
		if dir != "" {
			defer os.RemoveAll(dir)
		}
		if len(log) == 0 || !log[0].ok {
			return fmt.Errorf("initial fetch missing")
		}
		if runRet {
			return fmt.Errorf("Run returned although its context is live")
		}
		// CSR keys pairwise distinct
		for i := range log {
			for j := i + 1; j < len(log); j++ {
				if log[i].pub != nil && log[j].pub != nil && log[i].pub.Equal(log[j].pub) {
					return fmt.Errorf("fetch %d and %d used the same private key", i, j)
				}
			}
		}
		var cur *x509.Certificate
		var curAt time.Duration
		var lastFail time.Duration = -1
		var oc []string
		for i, r := range log {
			oc = append(oc, fmt.Sprintf("%v:%v", r.at, r.ok))
			if r.files != "" {
				return fmt.Errorf("[key=published-files-disturbed-by-a-failed-renewal] at request %d (%v) the published identity is not the one of the last successful fetch, which is the one served: %s", i, r.at, strings.ReplaceAll(r.files, dir, "<dir>"))
			}
			if i > 0 {
				if r.servedAt != cur {
					return fmt.Errorf("request %d at %v: served SVID is not the last successfully fetched one", i, r.at)
				}
				renew := cur.NotBefore.Add(cur.NotAfter.Sub(cur.NotBefore) / 2).Sub(epoch)
				if lastFail >= 0 {
					want := lastFail + 10*time.Second
					if s.steps > 0 {
						// fixed clock steps: the first visited instant >= want
						want = ceilTo(want, s.steps)
					}
					if r.at != want {
						return fmt.Errorf("request %d: retry after the failure at %v came at %v, want %v (10s later)", i, lastFail, r.at, want)
					}
				} else {
					due := renew
					if curAt > due {
						due = curAt
					}
					limit := due + time.Minute
					if s.steps > 0 {
						limit = ceilTo(limit, s.steps)
					}
					if r.at > limit {
						return fmt.Errorf("request %d came at %v: later than one minute after half-life %v of the current certificate (fetched at %v)", i, r.at, renew, curAt)
					}
				}
			}
			if r.ok {
				cur, curAt, lastFail = r.cert, r.at, -1
			} else {
				lastFail = r.at
			}
		}
		// the scenario must have run to the long-lived certificate (nothing left unserved)
		if len(log) < len(s.outcomes)+2 {
			renew := cur.NotBefore.Add(cur.NotAfter.Sub(cur.NotBefore) / 2).Sub(epoch)
			if e.Now >= renew+time.Minute || lastFail >= 0 && e.Now >= lastFail+10*time.Second {
				return fmt.Errorf("renewal missing: %d requests %v, clock at %v, current half-life %v, last failure %v, parked=%v", len(log), oc, e.Now, renew, lastFail, e.Parked())
			}
		}
		// the served SVID at the end is the last good one
		if sv, err := src.GetX509SVID(); err != nil || sv.Certificates[0] != cur {
			return fmt.Errorf("final served SVID is not the last successfully fetched one (err=%v)", err)
		}
		if s.publish {
			if anchorGen <= anchorGenAtFetch {
				return fmt.Errorf("publication: the trust anchors were not read after the last successful fetch (generation %d at the request, %d now): ca.pem cannot be the current ones", anchorGenAtFetch, anchorGen)
			}
			if msg := checkPublished(dir, cur, anchorLast); msg != "" {
				// (the scratch path is random: keep the message replayable)
				return errors.New(strings.ReplaceAll(msg, dir, "<dir>"))
			}
		}
		mc.Outcome(strings.Join(oc, " "))
		return nil
	}
	return &mc.Exec{Body: body, Check: check}
}

// mkRenewConcurrent: Run renews a 2-minute certificate at its half-life while a
// consumer thread calls GetX509SVID around that instant.
func mkRenewConcurrent(sleeps []time.Duration, outcomes string) *mc.Exec {
	var (
		issued  []*x509.Certificate
		gotDone int
		errs    []string
		src     x509svid.Source
	)
	body := func() {
		n := 0
		sp := spiffe.New(spiffe.Options{Log: newLog(), RequestSVIDFn: func(ctx context.Context, csrDER []byte) ([]*x509.Certificate, error) {
			idx := n
			n++
			if idx > 0 && idx-1 < len(outcomes) && outcomes[idx-1] == 'f' {
				return nil, errors.New("issuer down")
			}
			csr, err := x509.ParseCertificateRequest(csrDER)
			if err != nil {
				mc.Fail("bad CSR: %v", err)
			}
			t := epoch.Add(mc.ModelNow())
			life := 2 * time.Minute
			if idx > len(outcomes) {
				life = 1000 * time.Hour
			}
			c := issue(csr.PublicKey, t, t.Add(life))
			issued = append(issued, c)
			return []*x509.Certificate{c}, nil
		}})
		src = sp.SVIDSource()
		ctx, _ := mc.CtxWithCancel(context.Background())
		mc.GoNamed("run", func() { sp.Run(ctx) })
		mc.GoNamed("consumer", func() {
			for _, d := range sleeps {
				if d > 0 {
					mc.TimeSleep(d)
				}
				before := len(issued)
				sv, err := src.GetX509SVID()
				if err != nil {
					errs = append(errs, fmt.Sprintf("GetX509SVID returned %v after the initial fetch", err))
				} else {
					ok := false
					for i, c := range issued {
						// the most recent fetch the issuer had answered when the call began may
						// not have been installed yet (the swap follows the issuer's answer), so
						// the one before it is still acceptable; anything older is not
						if sv.Certificates[0] == c && i >= before-2 {
							ok = true
						}
					}
					if !ok && before > 0 {
						errs = append(errs, "GetX509SVID served an SVID older than the most recently fetched one")
					}
				}
				gotDone++
			}
		})
	}
	check := func(e *mc.End) error {
		if len(errs) > 0 {
			return errors.New(errs[0])
		}
		if gotDone != len(sleeps) {
			if e.ArmedBeyondHorizon > 0 && !strings.Contains(strings.Join(e.Parked(), " "), "consumer@rwmutex") {
				mc.Outcome("cut off at horizon")
				return nil
			}
			return fmt.Errorf("deadlock: a consumer's GetX509SVID never returned during a renewal; parked=%v", e.Parked())
		}
		mc.Outcome(fmt.Sprint(len(issued)))
		return nil
	}
	return &mc.Exec{Body: body, Check: check}
}

func ceilTo(d, step time.Duration) time.Duration {
	if d%step == 0 {
		return d
	}
	return (d/step + 1) * step
}

func checkPublished(dir string, cur *x509.Certificate, ca []byte) string {
	target := filepath.Join(dir, "identity")
	ents, err := os.ReadDir(target)
	if err != nil {
		return fmt.Sprintf("publication: %v", err)
	}
	var names []string
	for _, e := range ents {
		names = append(names, e.Name())
	}
	if strings.Join(names, ",") != "ca.pem,cert.pem,key.pem" {
		return fmt.Sprintf("publication: file set %v", names)
	}
	// one Dir writes every version: only the current version directory remains
	// beside the link (the leftover clause of the directory writer, seen through
	// the way spiffe uses it)
	if base, err := os.ReadDir(dir); err == nil {
		var extra []string
		versions := 0
		for _, e := range base {
			switch {
			case e.Name() == "identity":
			case strings.HasSuffix(e.Name(), "-identity"):
				versions++
			default:
				extra = append(extra, e.Name())
			}
		}
		if versions != 1 || len(extra) > 0 {
			return fmt.Sprintf("publication: %d version directories and %d other entries %v remain beside the link after the last fetch (only the current version directory should)", versions, len(extra), extra)
		}
	}
	kb, _ := os.ReadFile(filepath.Join(target, "key.pem"))
	cb, _ := os.ReadFile(filepath.Join(target, "cert.pem"))
	ab, _ := os.ReadFile(filepath.Join(target, "ca.pem"))
	if !bytes.Equal(ab, ca) {
		return "publication: ca.pem is not the current trust anchors"
	}
	blk, _ := pem.Decode(cb)
	if blk == nil || !bytes.Equal(blk.Bytes, cur.Raw) {
		return "publication: cert.pem is not the certificate of the last successful fetch"
	}
	kblk, _ := pem.Decode(kb)
	if kblk == nil {
		return "publication: key.pem unreadable"
	}
	var pub any
	if k, err := x509.ParsePKCS8PrivateKey(kblk.Bytes); err == nil {
		pub = k.(*ecdsa.PrivateKey).Public()
	} else if k, err := x509.ParseECPrivateKey(kblk.Bytes); err == nil {
		pub = k.Public()
	} else {
		return "publication: key.pem does not parse"
	}
	if !cur.PublicKey.(*ecdsa.PublicKey).Equal(pub) {
		return "publication: key.pem does not match cert.pem (files of different fetches)"
	}
	return ""
}

func scenarios() []hx.Scenario {
	var out []hx.Scenario
	for _, iss := range []byte{'o', 'f', 'p', 'q', 'c'} {
		for g := 0; g <= 2; g++ {
			for _, rd := range []bool{false, true} {
				for _, cc := range []bool{false, true} {
					if cc && !rd || g == 0 && !rd {
						continue
					}
					s := readyScen{issuer: iss, getters: g, ready: rd, ctxCancel: cc}
					sc := hx.Scenario{
						Name: s.name(), Class: "spiffe/readiness",
						Opts: mc.Options{MinBound: 2, Bound: 3, TieCost: 1, MaxSteps: 3000, Horizon: time.Hour, AutoClock: false},
						Mk:   func() *mc.Exec { return mkReady(s) },
					}
					if g == 2 && rd {
						// five threads: two preemptions everywhere is thorough-tier work
						sc.QuickMin, sc.QuickBound = hx.Ptr(1), hx.Ptr(2)
						sc.Shards = 8
						if cc {
							sc.Shards = 24 // the heaviest: a cancelled Ready beside two getters
						}
					}
					out = append(out, sc)
				}
			}
		}
	}
	wins := []window{
		{0, 20 * time.Second}, {0, 2 * time.Minute}, {0, time.Hour}, {0, 365 * 24 * time.Hour},
		{-time.Hour, 10 * time.Minute},  // already past half-life
		{time.Minute, 11 * time.Minute}, // not yet valid
		{-30 * time.Second, 90 * time.Second},
	}
	var outs []string
	for n := 0; n <= 4; n++ {
		var rec func(p string)
		rec = func(p string) {
			if len(p) == n {
				outs = append(outs, p)
				return
			}
			rec(p + "o")
			rec(p + "f")
		}
		rec("")
	}
	for wi, w := range wins {
		for _, nx := range []window{{0, 2 * time.Minute}, {0, 40 * time.Second}} {
			for _, o := range outs {
				long := w.naOff > 24*time.Hour
				if long && len(o) > 1 {
					continue
				}
				if len(o) == 4 && o != "fofo" && o != "foff" && o != "ofof" {
					continue // length 4: a failure episode, a recovery, and a later failure episode
				}
				s := renewScen{first: w, next: nx, outcomes: o}
				// the clock stops at the horizon: far enough for every scripted
				// renewal (each at most one validity window + retries) to be due
				horizon := w.naOff + time.Duration(len(o)+1)*(nx.naOff+time.Minute) + 10*time.Minute
				if w.nbOff > 0 {
					horizon += w.nbOff
				}
				steps := 20000
				minB := 1
				if long {
					steps = 4000000
					minB = 0
				}
				out = append(out, hx.Scenario{
					Name: s.name(), Class: "spiffe/renewal", ThoroughOnly: long || len(o) > 2 && !(wi == 1 || wi == 4) && len(o) < 4 || len(o) == 4 && wi != 1,
					Opts: mc.Options{Delay: true, MinBound: minB, Bound: minB, AutoClock: true, ClockLast: true, Horizon: horizon, MaxSteps: steps, Epoch: epoch},
					Mk:   func() *mc.Exec { return mkRenew(s) },
				})
				if wi < 3 && !long && len(o) <= 1 {
					for _, st := range []time.Duration{time.Second, 30 * time.Second} {
						s2 := s
						s2.steps = st
						n := int((w.naOff + 5*time.Minute) / st)
						if n > 700 {
							continue
						}
						cs := make([]time.Duration, n)
						for i := range cs {
							cs[i] = st
						}
						out = append(out, hx.Scenario{
							Name: s2.name(), Class: "spiffe/renewal",
							Opts: mc.Options{Delay: true, MinBound: 0, Bound: 0, ClockSteps: cs, ClockLast: true, Horizon: horizon, MaxSteps: 20000, Epoch: epoch},
							Mk:   func() *mc.Exec { return mkRenew(s2) },
						})
					}
				}
			}
		}
	}
	// the initial fetch fails after the issuer answered: the answer is not an
	// SVID or empty, or (publishing) the trust anchors cannot be read or the
	// directory cannot be written; and publication that works
	for _, v := range []readyScen{
		{issuer: 'v', getters: 1, ready: true}, {issuer: 'e', getters: 1, ready: true},
		{issuer: 'o', getters: 1, ready: true, pub: 'a'}, {issuer: 'o', getters: 1, ready: true, pub: 'w'}, {issuer: 'o', getters: 1, ready: true, pub: 'y'},
		{issuer: 'p', getters: 2, ready: false, pub: 'a'}, {issuer: 'p', getters: 1, ready: true, pub: 'w'}, {issuer: 'v', getters: 2, ready: true},
	} {
		s := v
		out = append(out, hx.Scenario{
			Name: s.name(), Class: "spiffe/readiness",
			Opts: mc.Options{MinBound: 2, Bound: 3, TieCost: 1, MaxSteps: 3000, Horizon: time.Hour, AutoClock: false},
			Mk:   func() *mc.Exec { return mkReady(s) },
		})
	}
	// consumers calling GetX509SVID while renewals happen (race mode): they must
	// always return, with the SVID served before or after the renewal
	for _, sleeps := range [][]time.Duration{{59 * time.Second, time.Second}, {60 * time.Second}, {60 * time.Second, 0, 0}, {30 * time.Second, 30 * time.Second, 10 * time.Second}} {
		for _, o := range []string{"o", "fo"} {
			sl, oc := sleeps, o
			out = append(out, hx.Scenario{
				Name: fmt.Sprintf("renew-concurrent getter sleeps=%v outcomes=%q", sl, oc), Class: "spiffe/renewal-with-consumers",
				Opts: mc.Options{Bound: 2, TieCost: 1, AutoClock: true, Horizon: 4 * time.Minute, MaxSteps: 20000, Epoch: epoch},
				Mk:   func() *mc.Exec { return mkRenewConcurrent(sl, oc) },
			})
		}
	}
	// publication
	for _, o := range []string{"", "o", "fo", "oo", "v", "vo", "ov", "a", "ao", "fa", "e", "vae", "oavo"} {
		s := renewScen{first: window{0, 2 * time.Minute}, next: window{0, 2 * time.Minute}, outcomes: o, publish: true}
		out = append(out, hx.Scenario{
			Name: s.name(), Class: "spiffe/publication",
			Opts: mc.Options{Delay: true, MinBound: 0, Bound: 0, AutoClock: true, ClockLast: true, Horizon: 30 * time.Minute, MaxSteps: 20000, Epoch: epoch},
			Mk:   func() *mc.Exec { return mkRenew(s) },
		})
	}
	return out
}

func TestMC(t *testing.T) { hx.Run(t, scenarios()) }
