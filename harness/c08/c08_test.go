// Harness for C08 (independent operations do not interfere through
// package-level shared state) on the mcgen-instrumented copies of
// schemes/enc/v1 (buffer pool, pipe), logger (registry) and byteslicepool.
package c08

import (
	"bytes"
	"errors"
	"fmt"
	"io"
	"os"
	"os/exec"
	"regexp"
	"strconv"
	"strings"
	"sync"
	"testing"
	"time"
	_ "time/tzdata"
	"unsafe"

	"github.com/dapr/kit/byteslicepool"
	"github.com/dapr/kit/cron"
	"github.com/dapr/kit/logger"
	encv1 "github.com/dapr/kit/schemes/enc/v1"

	"verif/hx"
	"verif/mc"
)

// a toy key-wrapping: XOR with a per-key pad (the scheme treats wrapping as opaque)
func pad(name string) byte {
	var b byte = 0x5a
	for i := 0; i < len(name); i++ {
		b = b*31 + name[i]
	}
	return b
}

func wrapFn(yield bool) encv1.WrapKeyFn {
	return func(plaintextKey []byte, algorithm, keyName string, nonce []byte) (wrappedKey []byte, tag []byte, err error) {
		if yield {
			mc.Yield()
		}
		out := make([]byte, len(plaintextKey))
		for i, c := range plaintextKey {
			out[i] = c ^ pad(keyName)
		}
		return out, nil, nil
	}
}

func unwrapFn(yield bool) encv1.UnwrapKeyFn {
	return func(wrappedKey []byte, algorithm, keyName string, nonce, tag []byte) (plaintextKey []byte, err error) {
		if yield {
			mc.Yield()
		}
		out := make([]byte, len(wrappedKey))
		for i, c := range wrappedKey {
			out[i] = c ^ pad(keyName)
		}
		return out, nil
	}
}

// failAfter returns its bytes and then a sticky non-EOF error.
type failAfter struct {
	data []byte
	off  int
}

func (f *failAfter) Read(p []byte) (int, error) {
	if f.off >= len(f.data) {
		return 0, errors.New("boom: source failed")
	}
	n := copy(p, f.data[f.off:])
	f.off += n
	return n, nil
}

type pipeSpec struct {
	kind   string // "ED" encrypt then decrypt; "D" decrypt a prepared document; "EF" encrypt from a source that fails
	msg    []byte
	key    string
	cipher encv1.Cipher
	yield  bool
}

func (p pipeSpec) String() string {
	return fmt.Sprintf("%s(%d,%s,%s,y=%v)", p.kind, len(p.msg), p.key, p.cipher, p.yield)
}

func encrypt(p pipeSpec) ([]byte, error) {
	c := p.cipher
	r, err := encv1.Encrypt(bytes.NewReader(p.msg), encv1.EncryptOptions{
		WrapKeyFn: wrapFn(p.yield), KeyName: p.key, Algorithm: encv1.KeyAlgorithmAES256KW, Cipher: &c,
	})
	if err != nil {
		return nil, fmt.Errorf("encrypt: %w", err)
	}
	doc, err := io.ReadAll(r)
	if err != nil {
		return nil, fmt.Errorf("encrypt stream: %w", err)
	}
	return doc, nil
}

func decrypt(doc []byte, p pipeSpec) ([]byte, error) {
	r, err := encv1.Decrypt(bytes.NewReader(doc), encv1.DecryptOptions{UnwrapKeyFn: unwrapFn(p.yield)})
	if err != nil {
		return nil, fmt.Errorf("decrypt: %w", err)
	}
	out, err := io.ReadAll(r)
	if err != nil {
		return nil, fmt.Errorf("decrypt stream: %w", err)
	}
	return out, nil
}

// runPipe returns "ok" or a description of what went wrong.
func runPipe(p pipeSpec, prepared []byte) string {
	if p.kind == "EF" {
		c := p.cipher
		r, err := encv1.Encrypt(&failAfter{data: p.msg}, encv1.EncryptOptions{
			WrapKeyFn: wrapFn(p.yield), KeyName: p.key, Algorithm: encv1.KeyAlgorithmAES256KW, Cipher: &c,
		})
		if err != nil {
			return "encrypt: " + err.Error()
		}
		_, err = io.ReadAll(r)
		if err == nil {
			return "encrypt stream: source failure swallowed"
		}
		return "ok" // the stream reported the source's failure, as it does alone
	}
	doc := prepared
	if p.kind == "ED" {
		var err error
		doc, err = encrypt(p)
		if err != nil {
			return err.Error()
		}
	}
	out, err := decrypt(doc, p)
	if err != nil {
		return err.Error()
	}
	if !bytes.Equal(out, p.msg) {
		// (no content in the message: ciphertexts are randomised, and a failure
		// must replay to the identical message)
		return fmt.Sprintf("wrong plaintext: got %d bytes that are not this pipeline's message", len(out))
	}
	return "ok"
}

// prepared documents: built once inside a single sequential model execution
var prepared = map[string][]byte{}

func prepare(ps []pipeSpec) {
	mc.Explore(mc.Options{Bound: 0, Delay: true}, func() *mc.Exec {
		return &mc.Exec{Body: func() {
			for _, p := range ps {
				if _, ok := prepared[p.String()]; ok {
					continue
				}
				doc, err := encrypt(p)
				if err != nil {
					panic(err)
				}
				prepared[p.String()] = doc
			}
		}}
	})
}

func mkEnc(ps ...pipeSpec) *mc.Exec {
	res := make([]string, len(ps))
	body := func() {
		for i, p := range ps {
			i, p := i, p
			mc.GoNamed(fmt.Sprintf("pipe%d", i), func() {
				res[i] = runPipe(p, prepared[p.String()])
			})
		}
	}
	check := func(e *mc.End) error {
		for i := range ps {
			n := fmt.Sprintf("pipe%d", i)
			if !e.Finished(n) {
				return fmt.Errorf("deadlock: %s did not finish; parked=%v", n, e.Parked())
			}
			if res[i] != "ok" {
				return fmt.Errorf("pipeline %d (%v), which succeeds when run alone, failed next to an independent pipeline: %s", i, ps[i], res[i])
			}
		}
		if !e.AllFinished() {
			return fmt.Errorf("leaked goroutine: %v", e.Parked())
		}
		mc.Outcome(fmt.Sprint(res))
		return nil
	}
	return &mc.Exec{Body: body, Check: check}
}

// ---- logger registry ----

func mkLogger(names [][]string) *mc.Exec {
	got := make([][]logger.Logger, len(names))
	body := func() {
		logger.McResetRegistry()
		for i, ns := range names {
			i, ns := i, ns
			mc.GoNamed(fmt.Sprintf("t%d", i), func() {
				for _, n := range ns {
					got[i] = append(got[i], logger.NewLogger(n))
				}
			})
		}
	}
	check := func(e *mc.End) error {
		if !e.AllFinished() {
			return fmt.Errorf("deadlock: %v", e.Parked())
		}
		byName := map[string]logger.Logger{}
		for i, ns := range names {
			for j, n := range ns {
				l := got[i][j]
				if l == nil {
					return fmt.Errorf("NewLogger(%q) returned nil", n)
				}
				if o, ok := byName[n]; ok && o != l {
					return fmt.Errorf("two look-ups of logger %q returned different instances", n)
				}
				byName[n] = l
			}
		}
		for a, la := range byName {
			for b, lb := range byName {
				if a != b && la == lb {
					return fmt.Errorf("loggers %q and %q share one instance", a, b)
				}
			}
		}
		return nil
	}
	return &mc.Exec{Body: body, Check: check}
}

// ---- loggers: an independent logger is not held up by another logger's output ----

// stalledWriter is a log destination that makes no progress (a full pipe, a
// hung sink): Write parks until the gate is closed, which never happens here.
type stalledWriter struct{ gate *mc.Chan[struct{}] }

func (w stalledWriter) Write(p []byte) (int, error) { w.gate.Recv(); return len(p), nil }

// mkLoggerProgress: logger "a" is in the middle of a line to a stalled
// destination; someone applies the process-wide options (optionally); an
// unrelated caller creates and uses loggers of its own. The unrelated caller
// must finish, with the lines it would get alone, while "a" stays stalled.
func mkLoggerProgress(apply bool, others []string) *mc.Exec {
	var bufs []*bytes.Buffer
	body := func() {
		logger.McResetRegistry()
		gate := mc.NewChan[struct{}]()
		la := logger.NewLogger("a")
		la.SetOutput(stalledWriter{gate})
		mc.GoNamed("stalled", func() { la.Info("a line that is never written out") })
		if apply {
			mc.GoNamed("apply", func() {
				o := logger.DefaultOptions()
				_ = logger.ApplyOptionsToLoggers(&o)
			})
		}
		mc.GoNamed("other", func() {
			for _, n := range others {
				var b bytes.Buffer
				bufs = append(bufs, &b)
				l := logger.NewLogger(n)
				l.SetOutput(&b)
				l.Info("hello from " + n)
			}
		})
	}
	check := func(e *mc.End) error {
		if !e.Finished("other") {
			return fmt.Errorf("[key=held-up-by-another-loggers-output] the caller working on loggers %v never finished while logger \"a\" is stalled on its own destination; parked=%v", others, e.Parked())
		}
		for i, n := range others {
			if got := bufs[i].String(); !strings.Contains(got, "hello from "+n) || strings.Count(got, "\n") != 1 {
				return fmt.Errorf("logger %q wrote %q, alone it writes one line with its message", n, got)
			}
		}
		return nil
	}
	return &mc.Exec{Body: body, Check: check}
}

// ---- loggers: what a logger writes has the shape it has alone ----

// lockedBuf is a log destination of one thread of a scenario.
type lockedBuf struct{ b bytes.Buffer }

func (w *lockedBuf) Write(p []byte) (int, error) { return w.b.Write(p) }

var timeField = regexp.MustCompile(`time="[^"]*"`)

// shapeOf reduces a log line to what does not depend on the moment: the time
// is blanked; the instance (host name) and version values are process constants.
func shapeOf(line string) string { return timeField.ReplaceAllString(line, `time=T`) }

// mkLoggerShape: several threads obtain loggers (same and different names) and
// log one line each to their own destination; every line must have exactly the
// shape the same call sequence produces alone (in a process of its own).
func mkLoggerShape(names []string) *mc.Exec {
	bufs := make([]*lockedBuf, len(names))
	body := func() {
		logger.McResetRegistry()
		for i, n := range names {
			i, n := i, n
			bufs[i] = &lockedBuf{}
			mc.GoNamed(fmt.Sprintf("t%d", i), func() {
				l := logger.NewLogger(n)
				l.SetOutput(bufs[i])
				l.Info("hello from thread ", i)
			})
		}
	}
	check := func(e *mc.End) error {
		if !e.AllFinished() {
			return fmt.Errorf("deadlock: %v", e.Parked())
		}
		// loggers of one name are one instance: its lines go to the destination
		// set last; judge every line wherever it landed
		var lines []string
		for _, b := range bufs {
			for _, l := range strings.Split(strings.TrimSpace(b.b.String()), "\n") {
				if l != "" {
					lines = append(lines, l)
				}
			}
		}
		if len(lines) != len(names) {
			return fmt.Errorf("[key=logger-line-shape] %d threads logged one line each, %d lines were written: %q", len(names), len(lines), lines)
		}
		for _, l := range lines {
			var i int
			k := strings.Index(l, "hello from thread ")
			if k < 0 {
				return fmt.Errorf("[key=logger-line-shape] unreadable line %q", l)
			}
			if _, err := fmt.Sscanf(l[k+len("hello from thread "):], "%d", &i); err != nil || i >= len(names) {
				return fmt.Errorf("[key=logger-line-shape] unreadable line %q", l)
			}
			name := names[i]
			want := loggerAlone(name, i)
			if shapeOf(l) != want {
				return fmt.Errorf("[key=logger-line-shape] logger %q wrote %q next to other callers; alone the same call writes %q", name, shapeOf(l), want)
			}
		}
		return nil
	}
	return &mc.Exec{Body: body, Check: check}
}

var (
	loggerAloneMu    sync.Mutex
	loggerAloneCache = map[string]string{}
)

// loggerAlone is the line NewLogger(name).Info("hello from thread ", i) writes
// in a process in which nothing else has touched the logger package.
func loggerAlone(name string, i int) string {
	key := fmt.Sprintf("%s/%d", name, i)
	loggerAloneMu.Lock()
	defer loggerAloneMu.Unlock()
	if v, ok := loggerAloneCache[key]; ok {
		return v
	}
	cmd := exec.Command(os.Args[0], "-test.run=^TestLoggerAlone$")
	cmd.Env = append(os.Environ(), "C08_LOGGER_ALONE="+key)
	out, err := cmd.CombinedOutput()
	for _, l := range strings.Split(string(out), "\n") {
		if r, ok := strings.CutPrefix(l, "ALONE:"); ok {
			loggerAloneCache[key] = r
			return r
		}
	}
	panic(fmt.Sprintf("logger %s alone: no result (%v)\n%s", key, err, out))
}

// TestLoggerAlone is the child side of loggerAlone.
func TestLoggerAlone(t *testing.T) {
	v := os.Getenv("C08_LOGGER_ALONE")
	if v == "" {
		t.Skip("helper of loggerAlone")
	}
	k := strings.LastIndex(v, "/")
	i, _ := strconv.Atoi(v[k+1:])
	var b bytes.Buffer
	l := logger.NewLogger(v[:k])
	l.SetOutput(&b)
	l.Info("hello from thread ", i)
	fmt.Println("ALONE:" + shapeOf(strings.TrimSpace(b.String())))
}

// mkLoggerFormat: one logger writes to a terminal first, then an independent
// logger writes to a plain destination: its line must be what it is alone.
func mkLoggerFormat(tty *os.File) *mc.Exec {
	var got string
	body := func() {
		logger.McResetRegistry()
		a := logger.NewLogger("on-a-terminal")
		a.SetOutput(tty)
		a.Info("first line of the process, to a terminal")
		var b bytes.Buffer
		l := logger.NewLogger("plain")
		l.SetOutput(&b)
		l.Info("hello from thread ", 0)
		got = shapeOf(strings.TrimSpace(b.String()))
	}
	check := func(e *mc.End) error {
		if want := loggerAlone("plain", 0); got != want {
			return fmt.Errorf("[key=logger-line-shape] after another logger wrote to a terminal, logger \"plain\" writes %q; alone it writes %q", got, want)
		}
		return nil
	}
	return &mc.Exec{Body: body, Check: check}
}

// ---- cron's printf loggers: what one logger logged does not shape another's lines ----

type linesPrintf struct{ lines []string }

func (p *linesPrintf) Printf(format string, args ...interface{}) {
	p.lines = append(p.lines, fmt.Sprintf(format, args...))
}

// cronLoggerCalls are the calls of the observed logger; what an EARLIER, other
// logger logged (call shapes 0..3 below) must not change them.
func cronLoggerLines(first int) string {
	other := cron.VerbosePrintfLogger(&linesPrintf{})
	switch first {
	case 1:
		other.Info("msg", "dangling-value")
	case 2:
		other.Info("msg", "k", 1, "k2", 2)
		other.Error(errors.New("e"), "msg", "dangling-value")
	case 3:
		other.Info("msg")
		other.Error(errors.New("e"), "msg")
	}
	dst := &linesPrintf{}
	lg := cron.VerbosePrintfLogger(dst)
	lg.Info("start")
	lg.Info("run", "job", 7)
	lg.Info("odd", "dangling-value")
	lg.Error(errors.New("boom"), "failed")
	lg.Error(errors.New("boom"), "failed", "job", 7, "attempt", 2)
	return strings.Join(dst.lines, " | ")
}

var cronLoggerAloneOnce sync.Once
var cronLoggerAloneLines string

func mkCronLoggers(first int) *mc.Exec {
	var got string
	body := func() { got = cronLoggerLines(first) }
	check := func(e *mc.End) error {
		cronLoggerAloneOnce.Do(func() {
			cmd := exec.Command(os.Args[0], "-test.run=^TestCronLoggerAlone$")
			cmd.Env = append(os.Environ(), "C08_CRONLOGGER_ALONE=1")
			out, _ := cmd.CombinedOutput()
			for _, l := range strings.Split(string(out), "\n") {
				if r, ok := strings.CutPrefix(l, "ALONE:"); ok {
					cronLoggerAloneLines = r
				}
			}
		})
		if cronLoggerAloneLines == "" {
			return fmt.Errorf("machinery: no result from the child process")
		}
		if got != cronLoggerAloneLines {
			return fmt.Errorf("[key=cron-logger-lines] after another cron logger logged (shape %d), an independent logger writes %q; alone it writes %q", first, got, cronLoggerAloneLines)
		}
		return nil
	}
	return &mc.Exec{Body: body, Check: check}
}

// TestCronLoggerAlone is the child side: the observed logger's lines in a fresh process.
func TestCronLoggerAlone(t *testing.T) {
	if os.Getenv("C08_CRONLOGGER_ALONE") == "" {
		t.Skip("helper")
	}
	fmt.Println("ALONE:" + cronLoggerLines(0))
}

// ---- byte slice pools ----

func base(b []byte) uintptr {
	if cap(b) == 0 {
		return 0
	}
	return uintptr(unsafe.Pointer(unsafe.SliceData(b)))
}

func mkPools(rounds int) *mc.Exec {
	var errs []string
	body := func() {
		pools := []*byteslicepool.ByteSlicePool{byteslicepool.NewByteSlicePool(8), byteslicepool.NewByteSlicePool(8)}
		owner := map[uintptr]int{} // backing array -> pool that handed it out / got it back
		held := map[uintptr]int{}  // currently held by thread
		for i := 0; i < 2; i++ {
			i := i
			mc.GoNamed(fmt.Sprintf("user%d", i), func() {
				for r := 0; r < rounds; r++ {
					b := pools[i].Get(8)
					p := base(b)
					if o, ok := owner[p]; ok && o != i {
						errs = append(errs, fmt.Sprintf("pool %d handed out a backing array that belongs to pool %d", i, o))
					}
					if h, ok := held[p]; ok {
						errs = append(errs, fmt.Sprintf("pool %d handed out a backing array still held by user %d", i, h))
					}
					owner[p], held[p] = i, i
					if len(b) != 0 {
						errs = append(errs, "Get returned a non-empty slice")
					}
					// a recycled slice grown within its capacity must not show a
					// previous user's bytes
					grown := pools[i].Resize(b, 6)
					for _, c := range grown[:6] {
						if c != 0 {
							errs = append(errs, fmt.Sprintf("pool %d handed out a slice that still carries a previous user's bytes (%#x) within its capacity", i, c))
							break
						}
					}
					// growing beyond the capacity gives the caller a new array; the old one
					// is still the caller's (like the operand of append): nobody else may be
					// handed it while the caller has not put it back
					if r == 0 {
						view := grown[:cap(grown)]
						copy(view, "MINE!!!!")
						big := pools[i].Resize(grown, 64)
						pb := base(big)
						if pb != p {
							owner[pb], held[pb] = i, i
						}
						other := pools[i].Get(8)
						if po := base(other); po == p || po == pb {
							errs = append(errs, fmt.Sprintf("pool %d handed out a backing array its caller still holds (the operand of a growing Resize, or its result)", i))
						} else {
							other = append(other, "theirs"...)
							if string(view) != "MINE!!!!" {
								errs = append(errs, fmt.Sprintf("a slice user %d still holds shows another holder's bytes %q after a growing Resize", i, view))
							}
							pools[i].Put(other)
						}
						if pb != p {
							delete(held, pb)
							pools[i].Put(big)
						}
						clear(view) // (what the caller wrote beyond the length it will put back)
						b = grown[:0]
					}
					b = append(b, byte(0xA0+i), byte(r))
					mc.Yield()
					if b[0] != byte(0xA0+i) || b[1] != byte(r) {
						errs = append(errs, fmt.Sprintf("user %d's bytes were overwritten while it held the slice", i))
					}
					delete(held, p)
					pools[i].Put(b)
				}
			})
		}
	}
	check := func(e *mc.End) error {
		if !e.AllFinished() {
			return fmt.Errorf("deadlock: %v", e.Parked())
		}
		if len(errs) > 0 {
			return errors.New(errs[0])
		}
		return nil
	}
	return &mc.Exec{Body: body, Check: check}
}

// ---- cron parsers (default parser and callers' own) ----

type cronJob struct {
	spec    string
	seconds bool
	five    bool // a caller's own five-field parser that starts at seconds: Second|Minute|Hour|Dom|Month
}

func (j cronJob) String() string {
	k := "standard"
	if j.five {
		k = "sec-min-hour-dom-month"
	} else if j.seconds {
		k = "six-field"
	}
	return fmt.Sprintf("%q(%s)", j.spec, k)
}

func cronNext(j cronJob) (string, error) {
	var (
		sc  cron.Schedule
		err error
	)
	if j.five {
		sc, err = cron.NewParser(cron.Second | cron.Minute | cron.Hour | cron.Dom | cron.Month).Parse(j.spec)
	} else if j.seconds {
		sc, err = cron.NewParser(cron.Second | cron.Minute | cron.Hour | cron.Dom | cron.Month | cron.Dow | cron.Descriptor).Parse(j.spec)
	} else {
		sc, err = cron.ParseStandard(j.spec)
	}
	if err != nil {
		return "", err
	}
	mc.Yield() // the other parser runs while this schedule is in use
	t := time.Date(2024, 3, 9, 12, 0, 0, 0, time.UTC)
	out := ""
	for i := 0; i < 3; i++ {
		t = sc.Next(t)
		out += t.UTC().Format(time.RFC3339) + " "
	}
	return out, nil
}

var cronSolo = map[cronJob]string{}

// the same spec text under differently configured parsers is part of the set:
// what one parser made of a text must not reach another parser
var cronJobs = []cronJob{
	{"TZ=Asia/Tokyo @daily", false, false}, {"TZ=America/New_York @daily", false, false}, {"CRON_TZ=Europe/London @hourly", true, false},
	{"TZ=Asia/Tokyo 30 4 * * *", false, false}, {"@weekly", false, false}, {"TZ=Pacific/Auckland @weekly", true, false}, {"@every 90m", false, false},
	{"30 4 1 1 *", false, false}, {"30 4 1 1 *", false, true}, {"30 4 1 1 * *", true, false}, {"30 4 1 1 * *", false, false}, {"TZ=Asia/Tokyo 30 4 * * *", false, true},
	// a spec one parser must refuse stays refused whoever asked before (unknown zone, bad field)
	{"TZ=Nowhere/Land 30 4 * * *", false, false}, {"CRON_TZ=Nowhere/Land @daily", true, false}, {"61 4 * * *", false, false},
}

// cronAlone is the result of job i ALONE: in a process of its own, so that
// package-level state left behind by any other parse cannot be part of it
// (the harness process itself parses many specs one after another).
func cronAlone(i int) string {
	cmd := exec.Command(os.Args[0], "-test.run=^TestCronAlone$")
	cmd.Env = append(os.Environ(), fmt.Sprintf("C08_CRON_ALONE=%d", i))
	out, err := cmd.CombinedOutput()
	for _, l := range strings.Split(string(out), "\n") {
		if r, ok := strings.CutPrefix(l, "ALONE:"); ok {
			return r
		}
	}
	panic(fmt.Sprintf("cron job %d alone: no result (%v)\n%s", i, err, out))
}

func cronResult(j cronJob) (out string) {
	defer func() {
		if p := recover(); p != nil {
			out = fmt.Sprintf("panic: %v", p)
		}
	}()
	r, err := cronNext(j)
	if err != nil {
		return "error: " + err.Error()
	}
	return r
}

// TestCronAlone is the child side of cronAlone.
func TestCronAlone(t *testing.T) {
	v := os.Getenv("C08_CRON_ALONE")
	if v == "" {
		t.Skip("helper of cronAlone")
	}
	i, _ := strconv.Atoi(v)
	fmt.Println("ALONE:" + cronResult(cronJobs[i]))
}

func mkCron(jobs []cronJob) *mc.Exec {
	res := make([]string, len(jobs))
	body := func() {
		for i, j := range jobs {
			i, j := i, j
			mc.GoNamed(fmt.Sprintf("parser%d", i), func() {
				res[i] = cronResult(j)
			})
		}
	}
	check := func(e *mc.End) error {
		if !e.AllFinished() {
			return fmt.Errorf("deadlock: %v", e.Parked())
		}
		for i, j := range jobs {
			if res[i] != cronSolo[j] {
				return fmt.Errorf("parsing %q next to an independent parse gave activations %q, alone it gives %q", j.spec, res[i], cronSolo[j])
			}
		}
		return nil
	}
	return &mc.Exec{Body: body, Check: check}
}

func scenarios() []hx.Scenario {
	m1 := []byte("first message: hello")
	m2 := []byte("second, different message of another length .......")
	big := bytes.Repeat([]byte("0123456789abcdef"), 4200) // > one 64 KiB segment
	specs := []pipeSpec{
		{"ED", m1, "key-one", encv1.CipherAESGCM, false},
		{"ED", m2, "key-two", encv1.CipherChaCha20Poly1305, true},
		{"D", m1, "key-one", encv1.CipherAESGCM, true},
		{"D", m2, "key-two", encv1.CipherChaCha20Poly1305, false},
		{"D", big, "key-big", encv1.CipherAESGCM, false},
	}
	var dspecs []pipeSpec
	for _, s := range specs {
		if s.kind == "D" {
			dspecs = append(dspecs, s)
		}
	}
	prepare(dspecs)
	var out []hx.Scenario
	for i, a := range specs {
		for j, b := range specs {
			if j < i {
				continue
			}
			a, b := a, b
			heavy := a.kind == "ED" && b.kind == "ED" || len(a.msg) > 1000 || len(b.msg) > 1000
			out = append(out, hx.Scenario{
				Name: fmt.Sprintf("enc %v || %v", a, b), Class: "enc/v1-shared-buffer-pool", ThoroughOnly: heavy && i != j, Shards: 8,
				Opts: mc.Options{Delay: true, MinBound: 2, Bound: 3, MaxSteps: 20000},
				Mk:   func() *mc.Exec { return mkEnc(a, b) },
			})
		}
	}
	// a stream that fails on its source (every error path must leave the shared
	// pool intact) next to two healthy pipelines
	ef := pipeSpec{"EF", m1[:7], "key-f", encv1.CipherAESGCM, false}
	for _, pair := range [][2]pipeSpec{{specs[2], specs[3]}, {specs[0], specs[3]}, {specs[3], specs[3]}} {
		pair := pair
		out = append(out, hx.Scenario{
			Name: fmt.Sprintf("enc %v || %v || %v", ef, pair[0], pair[1]), Class: "enc/v1-shared-buffer-pool", Shards: 8,
			Opts: mc.Options{Delay: true, MinBound: 2, Bound: 3, MaxSteps: 20000},
			Mk:   func() *mc.Exec { return mkEnc(ef, pair[0], pair[1]) },
		})
	}
	for first := 1; first <= 3; first++ {
		first := first
		out = append(out, hx.Scenario{
			Name: fmt.Sprintf("cron-loggers after shape %d", first), Class: "cron-parsers",
			Opts: mc.Options{Bound: 0, Delay: true},
			Mk:   func() *mc.Exec { return mkCronLoggers(first) },
		})
	}
	for _, names := range [][]string{{"x", "x"}, {"x", "y"}, {"x", "x", "y"}} {
		names := names
		out = append(out, hx.Scenario{
			Name: fmt.Sprintf("logger-shape %v", names), Class: "logger-registry",
			Opts: mc.Options{Delay: true, MinBound: 2, Bound: 3, MaxSteps: 20000},
			Mk:   func() *mc.Exec { return mkLoggerShape(names) },
		})
	}
	if tty, err := os.OpenFile("/dev/ptmx", os.O_RDWR, 0); err == nil {
		out = append(out, hx.Scenario{
			Name: "logger-format terminal first", Class: "logger-registry",
			Opts: mc.Options{Bound: 0, Delay: true},
			Mk:   func() *mc.Exec { return mkLoggerFormat(tty) },
		})
	}
	for _, others := range [][]string{{"b"}, {"b", "c"}, {"a2", "b"}} {
		for _, apply := range []bool{true, false} {
			others, apply := others, apply
			out = append(out, hx.Scenario{
				Name: fmt.Sprintf("logger-progress apply=%v others=%v", apply, others), Class: "logger-registry",
				Opts: mc.Options{Delay: true, MinBound: 2, Bound: 3, MaxSteps: 20000},
				Mk:   func() *mc.Exec { return mkLoggerProgress(apply, others) },
			})
		}
	}
	for _, names := range [][][]string{
		{{"a"}, {"a"}}, {{"a"}, {"b"}}, {{"a", "b"}, {"b", "a"}}, {{"a"}, {"a"}, {"b"}}, {{"a", "a"}, {"a"}},
	} {
		names := names
		out = append(out, hx.Scenario{
			Name: fmt.Sprintf("logger %v", names), Class: "logger-registry",
			Opts: mc.Options{Bound: 3, TieCost: 1},
			Mk:   func() *mc.Exec { return mkLogger(names) },
		})
	}
	cjobs := cronJobs
	for i, j := range cjobs {
		cronSolo[j] = cronAlone(i)
	}
	for i, a := range cjobs {
		for k, b := range cjobs {
			if k < i {
				continue
			}
			pair := []cronJob{a, b}
			out = append(out, hx.Scenario{
				Name: fmt.Sprintf("cron %s || %s", a, b), Class: "cron-parsers",
				Opts: mc.Options{Bound: 2, TieCost: 1},
				Mk:   func() *mc.Exec { return mkCron(pair) },
			})
		}
	}
	for _, r := range []int{1, 2, 3} {
		r := r
		out = append(out, hx.Scenario{
			Name: fmt.Sprintf("pools rounds=%d", r), Class: "byteslicepool",
			Opts: mc.Options{Bound: 3, TieCost: 1},
			Mk:   func() *mc.Exec { return mkPools(r) },
		})
	}
	return out
}

func TestMC(t *testing.T) { hx.Run(t, scenarios()) }
