// Harness for the concurrent part of C14: cmap.Map, cmap.Atomic and
// slice.Slice are linearizable. Every interleaving of small thread scripts is
// executed on the mcgen-instrumented code; each execution's call/return
// history is checked with porcupine against a plain map / cells / slice.
package c14

import (
	"fmt"
	"sort"
	"strings"
	"testing"

	"github.com/anishathalye/porcupine"

	"github.com/dapr/kit/concurrency/cmap"
	"github.com/dapr/kit/concurrency/slice"

	"verif/hx"
	"verif/mc"
)

// ---------- generic plumbing ----------

type opIn struct {
	Name string
	K    string
	V    int
}

func (o opIn) String() string {
	switch {
	case o.K != "" && o.V != 0:
		return fmt.Sprintf("%s(%s,%d)", o.Name, o.K, o.V)
	case o.K != "":
		return fmt.Sprintf("%s(%s)", o.Name, o.K)
	case o.V != 0:
		return fmt.Sprintf("%s(%d)", o.Name, o.V)
	}
	return o.Name
}

type history struct {
	tick int64
	ops  []porcupine.Operation
}

func (h *history) call(client int, in opIn, f func() string) {
	h.tick++
	c := h.tick
	out := f()
	h.tick++
	h.ops = append(h.ops, porcupine.Operation{ClientId: client, Input: in, Call: c, Output: out, Return: h.tick})
}

func (h *history) key() string {
	var b strings.Builder
	for _, o := range h.ops {
		fmt.Fprintf(&b, "%d:%v:%d:%d:%v|", o.ClientId, o.Input, o.Call, o.Return, o.Output)
	}
	return b.String()
}

// verdict cache per scenario: identical histories are decided once
type cache struct {
	m       map[string]bool
	checked int
}

func (c *cache) linearizable(model porcupine.Model, h *history) bool {
	k := h.key()
	if v, ok := c.m[k]; ok {
		return v
	}
	c.checked++
	v := porcupine.CheckOperations(model, h.ops)
	c.m[k] = v
	return v
}

func describe(h *history) string {
	var s []string
	for _, o := range h.ops {
		s = append(s, fmt.Sprintf("c%d %v [%d,%d] -> %v", o.ClientId, o.Input, o.Call, o.Return, o.Output))
	}
	return strings.Join(s, "; ")
}

// ---------- cmap.Map ----------

type mapState map[string]int

func (m mapState) clone() mapState {
	n := mapState{}
	for k, v := range m {
		n[k] = v
	}
	return n
}

func (m mapState) String() string {
	var ks []string
	for k, v := range m {
		ks = append(ks, fmt.Sprintf("%s=%d", k, v))
	}
	sort.Strings(ks)
	return strings.Join(ks, ",")
}

var mapModel = porcupine.Model{
	Init: func() interface{} { return mapState{} },
	Step: func(state, input, output interface{}) (bool, interface{}) {
		st := state.(mapState)
		in := input.(opIn)
		out := output.(string)
		switch in.Name {
		case "Store":
			n := st.clone()
			n[in.K] = in.V
			return true, n
		case "Load":
			v, ok := st[in.K]
			return out == fmt.Sprint(v, ok), st
		case "Delete":
			n := st.clone()
			delete(n, in.K)
			return true, n
		case "LoadAndDelete":
			v, ok := st[in.K]
			n := st.clone()
			delete(n, in.K)
			return out == fmt.Sprint(v, ok), n
		case "Len":
			return out == fmt.Sprint(len(st)), st
		case "Keys":
			var ks []string
			for k := range st {
				ks = append(ks, k)
			}
			sort.Strings(ks)
			return out == strings.Join(ks, ","), st
		case "Range":
			return out == st.String(), st
		case "RangeStop":
			return true, st
		case "Clear":
			return true, mapState{}
		}
		return false, st
	},
	Equal: func(a, b interface{}) bool { return a.(mapState).String() == b.(mapState).String() },
}

func doMapOp(m cmap.Map[string, int], in opIn) string {
	switch in.Name {
	case "Store":
		m.Store(in.K, in.V)
	case "Load":
		v, ok := m.Load(in.K)
		return fmt.Sprint(v, ok)
	case "Delete":
		m.Delete(in.K)
	case "LoadAndDelete":
		v, ok := m.LoadAndDelete(in.K)
		return fmt.Sprint(v, ok)
	case "Len":
		return fmt.Sprint(m.Len())
	case "Keys":
		ks := m.Keys()
		sort.Strings(ks)
		return strings.Join(ks, ",")
	case "Range":
		st := mapState{}
		m.Range(func(k string, v int) bool { st[k] = v; return true })
		return st.String()
	case "RangeStop":
		// a caller that stops the walk at the first element
		m.Range(func(string, int) bool { return false })
	case "Clear":
		m.Clear()
	}
	return ""
}

// ---------- cmap.Atomic ----------

type atomicState struct {
	m     map[string]int // key -> cell token
	cells map[int]int64  // cell token -> value
}

func (a atomicState) clone() atomicState {
	n := atomicState{map[string]int{}, map[int]int64{}}
	for k, v := range a.m {
		n.m[k] = v
	}
	for k, v := range a.cells {
		n.cells[k] = v
	}
	return n
}

func (a atomicState) String() string {
	var ks []string
	for k, v := range a.m {
		ks = append(ks, fmt.Sprintf("%s>%d", k, v))
	}
	sort.Strings(ks)
	var cs []string
	for k, v := range a.cells {
		cs = append(cs, fmt.Sprintf("%d=%d", k, v))
	}
	sort.Strings(cs)
	return strings.Join(ks, ",") + "/" + strings.Join(cs, ",")
}

// outputs carry the identity token of the cell involved ("t<N>")
var atomicModel = porcupine.Model{
	Init: func() interface{} { return atomicState{map[string]int{}, map[int]int64{}} },
	Step: func(state, input, output interface{}) (bool, interface{}) {
		st := state.(atomicState)
		in := input.(opIn)
		out := output.(string)
		switch in.Name {
		case "GetOrCreate": // out = token
			var tok int
			fmt.Sscanf(out, "t%d", &tok)
			if cur, ok := st.m[in.K]; ok {
				return cur == tok, st
			}
			if _, used := st.cells[tok]; used {
				return false, st // a cell known under another key / a deleted cell resurrected
			}
			n := st.clone()
			n.m[in.K] = tok
			n.cells[tok] = int64(in.V)
			return true, n
		case "Get": // out = "t<N>" or "none"
			cur, ok := st.m[in.K]
			if !ok {
				return out == "none", st
			}
			return out == fmt.Sprintf("t%d", cur), st
		case "Delete":
			n := st.clone()
			delete(n.m, in.K)
			return true, n
		case "Clear":
			n := st.clone()
			n.m = map[string]int{}
			return true, n
		case "ForEach": // out = sorted "k>tok=val" list
			var ks []string
			for k, t := range st.m {
				ks = append(ks, fmt.Sprintf("%s>t%d", k, t))
			}
			sort.Strings(ks)
			return out == strings.Join(ks, ","), st
		case "CellAdd": // in.K = token, in.V = delta; out = new value
			var tok int
			fmt.Sscanf(in.K, "t%d", &tok)
			n := st.clone()
			n.cells[tok] += int64(in.V)
			return out == fmt.Sprint(n.cells[tok]), n
		case "CellLoad":
			var tok int
			fmt.Sscanf(in.K, "t%d", &tok)
			return out == fmt.Sprint(st.cells[tok]), st
		case "CellStore":
			var tok int
			fmt.Sscanf(in.K, "t%d", &tok)
			n := st.clone()
			n.cells[tok] = int64(in.V)
			return true, n
		}
		return false, st
	},
	Equal: func(a, b interface{}) bool { return a.(atomicState).String() == b.(atomicState).String() },
}

// ---------- slice.Slice ----------

var sliceModel = porcupine.Model{
	Init: func() interface{} { return "" },
	Step: func(state, input, output interface{}) (bool, interface{}) {
		st := state.(string)
		in := input.(opIn)
		out := output.(string)
		n := 0
		if st != "" {
			for _, tok := range strings.Split(st, ",") {
				c := 1
				if i := strings.IndexByte(tok, 'x'); i > 0 {
					fmt.Sscanf(tok[i+1:], "%d", &c)
				}
				n += c
			}
		}
		switch in.Name {
		case "Append":
			ns := st
			if ns != "" {
				ns += ","
			}
			ns += fmt.Sprint(in.V)
			return out == fmt.Sprint(n+1), ns
		case "Append2":
			ns := st
			if ns != "" {
				ns += ","
			}
			ns += fmt.Sprintf("%d,%d", in.V, in.V+1)
			return out == fmt.Sprint(n+2), ns
		case "AppendBig":
			ns := st
			if ns != "" {
				ns += ","
			}
			ns += fmt.Sprintf("%dx%d", in.V, bigAppend)
			return out == fmt.Sprint(n+bigAppend), ns
		case "Len":
			return out == fmt.Sprint(n), st
		case "Slice":
			return out == st, st
		}
		return false, st
	},
	Equal: func(a, b interface{}) bool { return a.(string) == b.(string) },
}

// ---------- scenario construction ----------

type script [][]opIn // per thread

func (s script) String() string {
	var t []string
	for _, th := range s {
		var o []string
		for _, x := range th {
			o = append(o, x.String())
		}
		t = append(t, strings.Join(o, ";"))
	}
	return strings.Join(t, " | ")
}

func mkMap(s script, c *cache) *mc.Exec {
	h := &history{}
	body := func() {
		m := cmap.NewMap[string, int]()
		for i, th := range s {
			i, th := i, th
			mc.GoNamed(fmt.Sprintf("t%d", i), func() {
				for _, in := range th {
					in := in
					h.call(i, in, func() string { return doMapOp(m, in) })
				}
			})
		}
	}
	return &mc.Exec{Body: body, Check: func(e *mc.End) error {
		if !e.AllFinished() {
			return fmt.Errorf("deadlock: %v", e.Parked())
		}
		if !c.linearizable(mapModel, h) {
			return fmt.Errorf("cmap.Map history is not linearizable: %s", describe(h))
		}
		mc.Outcome(outputsOf(h))
		return nil
	}}
}

func outputsOf(h *history) string {
	o := make([]string, len(h.ops))
	for _, op := range h.ops {
		o = append(o, fmt.Sprintf("%d%v=%v", op.ClientId, op.Input, op.Output))
	}
	sort.Strings(o)
	return strings.Join(o, " ")
}

func mkAtomic(s script, c *cache) *mc.Exec {
	h := &history{}
	body := func() {
		a := cmap.NewAtomic[string, int64]()
		tokens := map[*cmap.AtomicValue[int64]]int{}
		tok := func(p *cmap.AtomicValue[int64]) string {
			if p == nil {
				return "none"
			}
			if _, ok := tokens[p]; !ok {
				tokens[p] = len(tokens) + 1
			}
			return fmt.Sprintf("t%d", tokens[p])
		}
		for i, th := range s {
			i, th := i, th
			mc.GoNamed(fmt.Sprintf("t%d", i), func() {
				var handle *cmap.AtomicValue[int64]
				for _, in := range th {
					in := in
					switch in.Name {
					case "GetOrCreate":
						h.call(i, in, func() string { handle = a.GetOrCreate(in.K, int64(in.V)); return tok(handle) })
					case "Get":
						h.call(i, in, func() string {
							p, ok := a.Get(in.K)
							if !ok {
								return "none"
							}
							handle = p
							return tok(p)
						})
					case "Delete":
						h.call(i, in, func() string { a.Delete(in.K); return "" })
					case "Clear":
						h.call(i, in, func() string { a.Clear(); return "" })
					case "ForEach":
						h.call(i, in, func() string {
							var ks []string
							a.ForEach(func(k string, v *cmap.AtomicValue[int64]) { ks = append(ks, k+">"+tok(v)) })
							sort.Strings(ks)
							return strings.Join(ks, ",")
						})
					case "CellAdd", "CellLoad", "CellStore":
						if handle == nil {
							continue
						}
						hd := handle
						cin := opIn{Name: in.Name, K: tok(hd), V: in.V}
						h.call(i, cin, func() string {
							switch in.Name {
							case "CellAdd":
								return fmt.Sprint(hd.Add(int64(in.V)))
							case "CellLoad":
								return fmt.Sprint(hd.Load())
							}
							hd.Store(int64(in.V))
							return ""
						})
					}
				}
			})
		}
	}
	return &mc.Exec{Body: body, Check: func(e *mc.End) error {
		if !e.AllFinished() {
			return fmt.Errorf("deadlock: %v", e.Parked())
		}
		if !c.linearizable(atomicModel, h) {
			return fmt.Errorf("cmap.Atomic history is not linearizable: %s", describe(h))
		}
		mc.Outcome(outputsOf(h))
		return nil
	}}
}

func mkSlice(s script, c *cache) *mc.Exec {
	h := &history{}
	body := func() {
		sl := slice.New[int]()
		for i, th := range s {
			i, th := i, th
			mc.GoNamed(fmt.Sprintf("t%d", i), func() {
				for _, in := range th {
					in := in
					h.call(i, in, func() string {
						switch in.Name {
						case "Append":
							return fmt.Sprint(sl.Append(in.V))
						case "Append2":
							return fmt.Sprint(sl.Append(in.V, in.V+1))
						case "AppendBig":
							// one call with thousands of items is still one operation
							items := make([]int, bigAppend)
							for k := range items {
								items[k] = in.V
							}
							return fmt.Sprint(sl.Append(items...))
						case "Len":
							return fmt.Sprint(sl.Len())
						}
						var o []string
						vals := sl.Slice()
						for k := 0; k < len(vals); {
							j := k
							for j < len(vals) && vals[j] == vals[k] {
								j++
							}
							if j-k >= 100 { // a run (of one big Append): "value x count"
								o = append(o, fmt.Sprintf("%dx%d", vals[k], j-k))
							} else {
								for q := k; q < j; q++ {
									o = append(o, fmt.Sprint(vals[q]))
								}
							}
							k = j
						}
						return strings.Join(o, ",")
					})
				}
			})
		}
	}
	return &mc.Exec{Body: body, Check: func(e *mc.End) error {
		if !e.AllFinished() {
			return fmt.Errorf("deadlock: %v", e.Parked())
		}
		if !c.linearizable(sliceModel, h) {
			return fmt.Errorf("slice.Slice history is not linearizable: %s", describe(h))
		}
		mc.Outcome(outputsOf(h))
		return nil
	}}
}

// tuples enumerates every assignment of scripts (length per thread given) from
// the alphabet, values made distinct per position, threads unordered.
func tuples(alpha []opIn, shape []int) []script {
	total := 0
	for _, n := range shape {
		total += n
	}
	var out []script
	idx := make([]int, total)
	var rec func(p int)
	rec = func(p int) {
		if p == total {
			// canonical: thread scripts (as index vectors) non-decreasing for equal lengths
			off := 0
			var prev []int
			prevLen := -1
			for _, n := range shape {
				cur := idx[off : off+n]
				if n == prevLen && less(cur, prev) {
					return
				}
				prev, prevLen = cur, n
				off += n
			}
			s := script{}
			off = 0
			v := 0
			for _, n := range shape {
				var th []opIn
				for j := 0; j < n; j++ {
					o := alpha[idx[off+j]]
					if o.V != 0 {
						v++
						o.V = v*10 + o.V%10
					}
					th = append(th, o)
				}
				s = append(s, th)
				off += n
			}
			out = append(out, s)
			return
		}
		for i := range alpha {
			idx[p] = i
			rec(p + 1)
		}
	}
	rec(0)
	return out
}

func less(a, b []int) bool {
	for i := range a {
		if a[i] != b[i] {
			return a[i] < b[i]
		}
	}
	return false
}

// mkSliceCallerMemory: what a Slice holds is what was appended, whatever the
// caller does afterwards with the slice it spread into Append, and Append never
// writes into the caller's array (one thread; the values of a plain slice
// are copied on append, so are these).
func mkSliceCallerMemory(first, later int, spare int) *mc.Exec {
	var err error
	body := func() {
		mc.GoNamed("caller", func() {
			sl := slice.New[int]()
			arr := make([]int, first, first+spare+1)
			for i := range arr {
				arr[i] = 10 + i
			}
			full := arr[:cap(arr)]
			for i := first; i < len(full); i++ {
				full[i] = -7 // canary in the caller's spare capacity
			}
			sl.Append(arr...)
			want := append([]int{}, arr...)
			for i := range arr {
				arr[i] = 900 + i // the caller reuses its buffer for the next batch
			}
			for k := 0; k < later; k++ {
				sl.Append(100 + k)
				want = append(want, 100+k)
			}
			got := sl.Slice()
			if fmt.Sprint(got) != fmt.Sprint(want) || sl.Len() != len(want) {
				err = fmt.Errorf("[key=caller-memory] Slice() = %v (Len %d) after Append(buf...) of %v, the caller refilling buf, and %d more Appends; the appended values are %v", got, sl.Len(), want[:first], later, want)
				return
			}
			for i := first; i < len(full); i++ {
				if full[i] != -7 {
					err = fmt.Errorf("[key=caller-memory] Append wrote %d into the spare capacity of the slice the caller had spread into an earlier Append (index %d)", full[i], i)
					return
				}
			}
		})
	}
	check := func(e *mc.End) error {
		if !e.AllFinished() {
			return fmt.Errorf("deadlock: %v", e.Parked())
		}
		return err
	}
	return &mc.Exec{Body: body, Check: check}
}

const bigAppend = 4100

func scenarios() []hx.Scenario {
	var out []hx.Scenario
	for _, first := range []int{1, 3} {
		for _, later := range []int{0, 1, 4} {
			for _, spare := range []int{0, 2} {
				first, later, spare := first, later, spare
				out = append(out, hx.Scenario{
					Name: fmt.Sprintf("slice.Slice caller memory first=%d later=%d spare=%d", first, later, spare), Class: "slice.Slice",
					Opts: mc.Options{Bound: 0}, Mk: func() *mc.Exec { return mkSliceCallerMemory(first, later, spare) },
				})
			}
		}
	}
	opts := mc.Options{Bound: 12, MinBound: 12, TieCost: 0, MaxSteps: 2000} // effectively unbounded for these bodies
	seenName := map[string]bool{}
	add := func(kind string, s script, thoroughOnly bool, mk func(script, *cache) *mc.Exec) {
		if seenName[kind+" "+s.String()] {
			return // the same script from an overlapping alphabet
		}
		seenName[kind+" "+s.String()] = true
		c := &cache{m: map[string]bool{}}
		out = append(out, hx.Scenario{
			Name: kind + " " + s.String(), Class: kind + "/linearizability", ThoroughOnly: thoroughOnly, Opts: opts,
			Mk: func() *mc.Exec { return mk(s, c) },
		})
	}
	mapAlpha := []opIn{
		{"Store", "a", 1}, {"Store", "b", 2}, {"Load", "a", 0}, {"Delete", "a", 0}, {"LoadAndDelete", "a", 0},
		{"Len", "", 0}, {"Keys", "", 0}, {"Range", "", 0}, {"Clear", "", 0}, {"Load", "b", 0},
	}
	for _, s := range tuples(mapAlpha, []int{2, 2}) {
		add("cmap.Map", s, false, mkMap)
	}
	mapSmall := []opIn{{"Store", "a", 1}, {"Store", "b", 2}, {"LoadAndDelete", "a", 0}, {"Range", "", 0}, {"Clear", "", 0}, {"Len", "", 0}}
	for _, s := range tuples(mapSmall, []int{1, 1, 1}) {
		add("cmap.Map", s, false, mkMap)
	}
	for _, s := range tuples(mapSmall, []int{2, 2, 2}) {
		add("cmap.Map", s, true, mkMap)
	}
	for _, s := range tuples(mapSmall, []int{3, 3}) {
		add("cmap.Map", s, true, mkMap)
	}
	atAlpha := []opIn{
		{"GetOrCreate", "a", 5}, {"GetOrCreate", "b", 7}, {"Get", "a", 0}, {"Delete", "a", 0}, {"Clear", "", 0},
		{"ForEach", "", 0}, {"CellAdd", "", 1}, {"CellLoad", "", 0}, {"CellStore", "", 3},
	}
	for _, s := range tuples(atAlpha, []int{2, 2}) {
		add("cmap.Atomic", s, false, mkAtomic)
	}
	atSmall := []opIn{{"GetOrCreate", "a", 5}, {"Delete", "a", 0}, {"ForEach", "", 0}, {"CellAdd", "", 1}, {"Clear", "", 0}}
	for _, s := range tuples(atSmall, []int{1, 1, 1}) {
		add("cmap.Atomic", s, false, mkAtomic)
	}
	for _, s := range tuples(atSmall, []int{3, 3}) {
		add("cmap.Atomic", s, true, mkAtomic)
	}
	for _, s := range tuples(atSmall, []int{2, 2, 2}) {
		add("cmap.Atomic", s, true, mkAtomic)
	}
	// a walk the caller stops early, next to writers (it must leave the map usable)
	for _, sh := range [][]int{{2, 2}, {1, 1, 1}} {
		for _, s := range tuples([]opIn{{"Store", "a", 1}, {"RangeStop", "", 0}, {"Store", "b", 2}, {"Len", "", 0}}, sh) {
			add("cmap.Map", s, false, mkMap)
		}
	}
	// one Append of thousands of items next to readers and another appender
	for _, sh := range [][]int{{1, 1}, {2, 2}, {1, 1, 1}} {
		for _, s := range tuples([]opIn{{"AppendBig", "", 7}, {"Append", "", 1}, {"Len", "", 0}, {"Slice", "", 0}}, sh) {
			add("slice.Slice", s, len(sh) == 2 && sh[0] == 2, mkSlice)
		}
	}
	slAlpha := []opIn{{"Append", "", 1}, {"Append2", "", 2}, {"Len", "", 0}, {"Slice", "", 0}}
	for _, shape := range [][]int{{2, 2}, {1, 1, 1}, {3, 3}} {
		for _, s := range tuples(slAlpha, shape) {
			add("slice.Slice", s, false, mkSlice)
		}
	}
	for _, s := range tuples(slAlpha, []int{2, 2, 2}) {
		add("slice.Slice", s, true, mkSlice)
	}
	return out
}

func TestMC(t *testing.T) { hx.Run(t, scenarios()) }
