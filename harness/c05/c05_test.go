// Harness for C05 (cron scheduler) on the mcgen-instrumented copy of
// github.com/dapr/kit/cron.
package c05

import (
	"context"
	"fmt"
	"strings"
	"testing"
	"time"

	"github.com/dapr/kit/cron"

	"verif/hx"
	"verif/mc"
)

var epoch = time.Date(2024, 1, 1, 0, 0, 0, 0, time.UTC)

// op of the single client thread (the package documents that callers order
// their own calls).
type op struct {
	kind byte // 'A' add Every(d), 'X' add seconds-spec, 'R' remove k-th added, 'E' Entries, 'S' Start, 'P' Stop, 'W' wait last Stop ctx, 'Z' sleep, 'G' release blocked jobs
	d    int  // tenths of a second (A: period, Z: duration) / index (R)
	blk  bool // A/X: the job parks until released
	pan  bool // A/X: the job panics on its first run (the chain's Recover wrapper catches it)
	spec string
}

func (o op) String() string {
	b := ""
	if o.blk {
		b = "b"
	}
	if o.pan {
		b += "p"
	}
	switch o.kind {
	case 'A':
		return fmt.Sprintf("A%s(%d)", b, o.d)
	case 'X':
		return fmt.Sprintf("X%s(%s)", b, strings.ReplaceAll(o.spec, " ", "_"))
	case 'R':
		return fmt.Sprintf("R%d", o.d)
	case 'Z':
		return fmt.Sprintf("Z%d", o.d)
	}
	return string(o.kind)
}

type nextCall struct {
	in, out time.Time
	step    int
	thread  int
	initial bool // first call for this entry by this scheduler goroutine (start / add)
}

// logSched wraps the real schedule and records every Next call the scheduler makes.
type logSched struct {
	inner cron.Schedule
	calls *[]nextCall
}

func (l logSched) Next(t time.Time) time.Time {
	out := l.inner.Next(t)
	c := nextCall{in: t, out: out, step: mc.Step(), thread: mc.ThreadID(), initial: true}
	for _, p := range *l.calls {
		if p.thread == c.thread {
			c.initial = false
		}
	}
	*l.calls = append(*l.calls, c)
	return out
}

type jobRun struct {
	thread     int
	begin, end int // steps (end = -1 while running)
	at         time.Duration
}

type entryMon struct {
	abs        cron.Schedule // the schedule itself when its activation instants are absolute (a spec), else nil
	loc        *time.Location
	blk        bool
	id         cron.EntryID
	calls      []nextCall
	runs       []*jobRun
	addedStep  int
	addedAt    time.Duration
	removed    bool
	remEnd     int // step at which Remove returned
	remThreads int // threads created when Remove returned
}

type startRec struct {
	step int
	at   time.Duration
}

type snapRec struct {
	start, end int
	running    bool
	entries    []cron.Entry
}

func dur(t int) time.Duration { return time.Duration(t) * 100 * time.Millisecond }

// cfg is how the Cron under test is built.
type cfg struct {
	zone  bool   // location = a fixed zone one second east of UTC (the model clock delivers UTC readings)
	chain string // "", "delay" (DelayIfStillRunning), "skip" (SkipIfStillRunning)
}

// oddZone is one second east of UTC: a seconds field read on its wall clock is
// off by one from the same field read in UTC, so a schedule consulted with a
// reading in the wrong zone shows within the harness's time scale.
var oddZone = time.FixedZone("UTC+1s", 1)

func mkExec(script []op, timeline bool, cf cfg) *mc.Exec {
	var (
		ents         []*entryMon
		snaps        []snapRec
		running      bool
		startedOnce  bool
		stopEnd      = -1 // step at which the last Stop returned
		stopThreads  int
		stopDoneStep = -1
		errs         []string
		starts       []startRec
		inCall       bool
	)
	bad := func(f string, a ...any) { errs = append(errs, fmt.Sprintf(f, a...)) }
	body := func() {
		parser := cron.NewParser(cron.Second | cron.Minute | cron.Hour | cron.Dom | cron.Month | cron.Dow)
		loc := time.UTC
		if cf.zone {
			loc = oddZone
		}
		copts := []cron.Option{cron.WithLocation(loc), cron.WithLogger(cron.DiscardLogger), cron.WithParser(parser)}
		switch cf.chain {
		case "delay":
			copts = append(copts, cron.WithChain(cron.DelayIfStillRunning(cron.DiscardLogger)))
		case "skip":
			copts = append(copts, cron.WithChain(cron.SkipIfStillRunning(cron.DiscardLogger)))
		case "recover-delay":
			copts = append(copts, cron.WithChain(cron.Recover(cron.DiscardLogger), cron.DelayIfStillRunning(cron.DiscardLogger)))
		case "recover-skip":
			copts = append(copts, cron.WithChain(cron.Recover(cron.DiscardLogger), cron.SkipIfStillRunning(cron.DiscardLogger)))
		case "recover":
			copts = append(copts, cron.WithChain(cron.Recover(cron.DiscardLogger)))
		}
		c := cron.New(copts...)
		release := mc.NewChan[struct{}]()
		// at every quiescent instant while the scheduler is running (and no
		// client call is in flight) no live entry may be due: an activation
		// instant the clock has reached must have been served
		mc.OnQuiescence(func() {
			// only in timeline mode: with early clock moves (race mode) a timer
			// armed late legitimately leaves an entry due for a while
			if !timeline || !running || inCall || len(errs) > 0 {
				return
			}
			now := mc.ModelNow()
			for _, em := range ents {
				// an activation the scheduler has served means the entry's job was
				// started: nothing but the clock can move now, so the job has begun —
				// unless the chain holds it back behind the entry's OWN unfinished run
				if !em.blk {
					if acts := activations(em); len(em.runs) < len(acts) {
						bad("[key=served-activation-job-not-started] entry %d: %d activation instants served %v but only %d job starts although nothing else can run (clock %v) and the entry's own jobs never block", em.id, len(acts), fmtActs(acts), len(em.runs), now)
					}
				}
				if em.removed || len(em.calls) == 0 {
					continue
				}
				last := em.calls[len(em.calls)-1].out
				if !last.IsZero() && last.Sub(epoch) <= now {
					bad("[key=due-entry-unserved-at-quiescence] entry %d: activation instant %v reached (clock %v, nothing else can run) but its job was not started", em.id, last.Sub(epoch), now)
				}
			}
		})
		var lastStop context.Context
		_ = lastStop
		mkJob := func(em *entryMon, blk bool, pan bool) cron.Job {
			return cron.FuncJob(func() {
				r := &jobRun{thread: mc.ThreadID(), begin: mc.Step(), end: -1, at: mc.ModelNow()}
				em.runs = append(em.runs, r)
				if pan && len(em.runs) == 1 {
					r.end = mc.Step()
					panic("job failed (first run)")
				}
				if em.removed && r.thread >= em.remThreads {
					bad("entry %d started (goroutine created) after Remove returned", em.id)
				}
				if !running && stopEnd >= 0 && r.thread >= stopThreads {
					bad("entry %d started (goroutine created) after Stop returned", em.id)
				}
				if stopDoneStep >= 0 && !running {
					bad("entry %d job began after the Stop context was already done", em.id)
				}
				if blk {
					release.Recv()
				} else {
					mc.Yield()
				}
				r.end = mc.Step()
			})
		}
		mc.GoNamed("client", func() {
			for _, o := range script {
				inCall = o.kind != 'Z'
				switch o.kind {
				case 'A', 'X':
					em := &entryMon{addedStep: mc.Step(), addedAt: mc.ModelNow()}
					var inner cron.Schedule
					if o.kind == 'A' {
						inner = cron.Every(dur(o.d))
					} else {
						s, err := parser.Parse(o.spec)
						if err != nil {
							mc.Fail("parse %q: %v", o.spec, err)
						}
						inner = s
					}
					if o.kind == 'X' {
						em.abs, em.loc = inner, loc
					}
					em.blk = o.blk
					ents = append(ents, em)
					em.id = c.Schedule(logSched{inner, &em.calls}, mkJob(em, o.blk, o.pan))
				case 'R':
					if o.d < len(ents) {
						em := ents[o.d]
						c.Remove(em.id)
						em.removed, em.remEnd, em.remThreads = true, mc.Step(), mc.NumThreads()
					}
				case 'E':
					s := snapRec{start: mc.Step(), running: running}
					s.entries = c.Entries()
					s.end = mc.Step()
					snaps = append(snaps, s)
				case 'S':
					running, startedOnce = true, true
					starts = append(starts, startRec{mc.Step(), mc.ModelNow()})
					c.Start()
				case 'U':
					// the other entry point: Run() in a goroutine of the caller's
					running, startedOnce = true, true
					starts = append(starts, startRec{mc.Step(), mc.ModelNow()})
					mc.GoNamed("runcall", func() { c.Run() })
					mc.Yield()
				case 'P':
					ctx := c.Stop()
					lastStop = ctx
					running = false
					stopEnd, stopThreads = mc.Step(), mc.NumThreads()
					stopDoneStep = -1
					// watcher: the Stop context may complete only when every
					// started job has returned
					gen := stopEnd
					mc.GoNamed("stopwatch", func() {
						mc.Twin(ctx.Done()).Recv()
						if stopEnd == gen && !running {
							stopDoneStep = mc.Step()
						}
						for _, em := range ents {
							for _, r := range em.runs {
								if r.end < 0 && r.begin < gen {
									bad("Stop's context completed while a job of entry %d (begun at step %d, before Stop returned) was still running", em.id, r.begin)
								}
							}
						}
					})
				case 'Z':
					inCall = false
					mc.TimeSleep(dur(o.d))
				case 'G':
					if !release.IsClosed() {
						release.Close()
					}
				}
				inCall = false
			}
		})
		_ = startedOnce
	}
	check := func(e *mc.End) error {
		if len(errs) > 0 {
			return fmt.Errorf("%s", errs[0])
		}
		if !e.Finished("client") {
			if e.ArmedBeyondHorizon > 0 {
				// the client is sleeping past the horizon: the scenario was cut
				// off by the harness, which says nothing about the scheduler
				mc.Outcome("cut off at horizon")
				return nil
			}
			return fmt.Errorf("deadlock: client blocked; parked=%v", e.Parked())
		}
		var oc []string
		for _, em := range ents {
			// the scheduler advances an entry only when its activation instant has been reached
			for j := 1; j < len(em.calls); j++ {
				if em.calls[j].in.Before(em.calls[j-1].out) && em.calls[j].step > em.calls[j-1].step && !restartBetween(em, j) {
					return fmt.Errorf("entry %d advanced at %v, before its activation instant %v", em.id, em.calls[j].in.Sub(epoch), em.calls[j-1].out.Sub(epoch))
				}
			}
			// an entry's schedule is (re)computed from a clock reading taken after
			// the entry was added / the scheduler was started, never a stale one
			for _, cl := range em.calls {
				if !cl.initial {
					continue
				}
				trigger := em.addedAt
				for _, st := range starts {
					if st.step < cl.step && st.at > trigger {
						trigger = st.at
					}
				}
				if cl.in.Sub(epoch) < trigger {
					return fmt.Errorf("entry %d scheduled from a stale clock reading %v although it was added/started at %v: activation instants before the entry was added", em.id, cl.in.Sub(epoch), trigger)
				}
			}
			acts := activations(em)
			if len(em.runs) > len(acts) {
				return fmt.Errorf("entry %d: %d job starts for %d activation instants served %v", em.id, len(em.runs), len(acts), fmtActs(acts))
			}
			// one start per wake-up: where the clock moves only at quiescence a job
			// begins at the instant it was started, so two starts of one entry at the
			// same clock reading are two starts for one wake-up
			// (DelayIfStillRunning legitimately runs the held-back jobs of a parking
			// entry back to back once it is released)
			if timeline && !(cf.chain == "delay" && em.blk) {
				for k := 1; k < len(em.runs); k++ {
					if em.runs[k].at <= em.runs[k-1].at {
						return fmt.Errorf("[key=two-starts-for-one-wake-up] entry %d: starts #%d and #%d both at clock %v (activation instants served %v): skipped instants are replayed instead of served once", em.id, k-1, k, em.runs[k].at, fmtActs(acts))
					}
				}
			}
			for k, r := range em.runs {
				if r.at < acts[k].Sub(epoch) {
					return fmt.Errorf("entry %d: start #%d at %v is before its activation instant %v", em.id, k, r.at, acts[k].Sub(epoch))
				}
			}
			// a spec's activation instants are absolute: whatever the scheduler
			// computed, the k-th start cannot precede the k-th instant after the
			// entry was added at which the spec matches on the Cron's wall clock
			if em.abs != nil {
				t := epoch.Add(em.addedAt).In(em.loc)
				for k, r := range em.runs {
					t = em.abs.Next(t)
					if t.IsZero() {
						break
					}
					if r.at < t.Sub(epoch) {
						return fmt.Errorf("[key=start-before-true-activation] entry %d: start #%d at %v, but the spec's activation #%d after the entry was added (%v) on the Cron's wall clock (%s) is %v", em.id, k, r.at, k, em.addedAt, em.loc, t.Sub(epoch))
					}
				}
			}
			oc = append(oc, fmt.Sprintf("e%d:%d/%d", em.id, len(em.runs), len(acts)))
		}
		// at final quiescence while running: every served activation has its
		// job begun, and no live entry is due (nothing reached is left unserved)
		if running {
			for _, em := range ents {
				acts := activations(em)
				if cf.chain == "skip" && (em.blk || !timeline) {
					// SkipIfStillRunning drops the activations that arrive while the
					// entry's own previous job is still running (a job that parks; or,
					// when the clock may move early, one that was merely preempted)
					if len(acts) > 0 && len(em.runs) == 0 {
						return fmt.Errorf("entry %d: %d activation instants served %v but no job started", em.id, len(acts), fmtActs(acts))
					}
				} else if len(em.runs) != len(acts) {
					return fmt.Errorf("entry %d: %d activation instants served %v but %d jobs started", em.id, len(acts), fmtActs(acts), len(em.runs))
				}
				if em.removed || len(em.calls) == 0 {
					if !em.removed && len(em.calls) == 0 {
						return fmt.Errorf("entry %d was never scheduled although the scheduler is running; parked=%v", em.id, e.Parked())
					}
					continue
				}
				last := em.calls[len(em.calls)-1].out
				// (a timer armed late — the clock moved between the scheduler's
				// clock read and its NewTimer — means a late start, which the
				// property allows; only "nothing armed any more" is a lost activation)
				if !last.IsZero() && last.Sub(epoch) <= e.Now && mc.ArmedTimers() == 0 {
					return fmt.Errorf("entry %d: activation instant %v reached (clock %v) but never served; armed timers=%d parked=%v", em.id, last.Sub(epoch), e.Now, mc.ArmedTimers(), e.Parked())
				}
			}
		}
		// Entries() reports the activation actually used
		for _, s := range snaps {
			for _, en := range s.entries {
				var em *entryMon
				for _, x := range ents {
					if x.id == en.ID {
						em = x
					}
				}
				if em == nil {
					return fmt.Errorf("Entries returned unknown id %d", en.ID)
				}
				if em.removed && em.remEnd < s.start {
					return fmt.Errorf("Entries returned entry %d after Remove returned", en.ID)
				}
				ok := false
				if len(em.calls) == 0 || em.calls[0].step > s.start {
					ok = ok || en.Next.IsZero()
				}
				for j, cl := range em.calls {
					if cl.step > s.end {
						break
					}
					// the latest call before the snapshot began, or any during it
					if j+1 < len(em.calls) && em.calls[j+1].step < s.start {
						continue
					}
					prevOK := true
					if sameRun(em, j) && j > 0 {
						prevOK = en.Prev.Equal(em.calls[j-1].out)
					}
					if en.Next.Equal(cl.out) && prevOK {
						ok = true
					}
				}
				if !ok {
					return fmt.Errorf("Entries reported entry %d with next=%v prev=%v, not an activation the scheduler used (%v)", en.ID, en.Next.Sub(epoch), en.Prev.Sub(epoch), fmtCalls(em.calls))
				}
			}
			for _, em := range ents {
				if em.addedStep >= s.start || em.removed && em.remEnd <= s.end {
					continue
				}
				found := false
				for _, en := range s.entries {
					found = found || en.ID == em.id
				}
				if !found && em.id != 0 {
					return fmt.Errorf("Entries omitted live entry %d", em.id)
				}
			}
		}
		mc.Outcome(strings.Join(oc, " ") + fmt.Sprint(" now=", e.Now))
		return nil
	}
	return &mc.Exec{Body: body, Check: check}
}

// sameRun reports whether call j advances the entry from call j-1 (as opposed
// to (re)computing its schedule when the scheduler starts or the entry is added).
func sameRun(em *entryMon, j int) bool {
	return j == 0 || !em.calls[j].initial
}

func restartBetween(em *entryMon, j int) bool { return em.calls[j].initial }

// activations are the instants whose arrival made the scheduler advance the
// entry: every Next call except the initial one of each run consumes the
// previous output.
func activations(em *entryMon) []time.Time {
	var out []time.Time
	for j := 1; j < len(em.calls); j++ {
		if sameRun(em, j) {
			out = append(out, em.calls[j-1].out)
		}
	}
	return out
}

func fmtActs(a []time.Time) string {
	var s []string
	for _, t := range a {
		s = append(s, t.Sub(epoch).String())
	}
	return "[" + strings.Join(s, " ") + "]"
}

func fmtCalls(c []nextCall) string {
	var s []string
	for _, x := range c {
		s = append(s, fmt.Sprintf("%v->%v@%d", x.in.Sub(epoch), x.out.Sub(epoch), x.step))
	}
	return strings.Join(s, " ")
}

func name(script []op) string {
	var s []string
	for _, o := range script {
		s = append(s, o.String())
	}
	return strings.Join(s, " ")
}

func scenarios() []hx.Scenario {
	var out []hx.Scenario
	seen := map[string]bool{}
	var cf cfg
	add := func(prefix string, script []op, o mc.Options, thoroughOnly bool) {
		n := prefix + name(script)
		cf := cf
		if seen[n] {
			return
		}
		seen[n] = true
		sc := script
		o.Epoch = epoch
		if o.MaxSteps == 0 {
			o.MaxSteps = 6000
		}
		class := "cron"
		stopped := false
		for _, x := range script {
			if x.kind == 'P' {
				stopped = true
			}
			if (x.kind == 'S' || x.kind == 'U') && stopped {
				class = "cron/start-after-stop"
			}
		}
		out = append(out, hx.Scenario{Name: n, Class: class, Opts: o, ThoroughOnly: thoroughOnly, Mk: func() *mc.Exec { return mkExec(sc, o.ClockLast, cf) }})
	}
	A1 := op{kind: 'A', d: 10}
	A2 := op{kind: 'A', d: 20}
	A3b := op{kind: 'A', d: 10, blk: true}
	X2 := op{kind: 'X', spec: "*/2 * * * * *"}
	S, P, E, G := op{kind: 'S'}, op{kind: 'P'}, op{kind: 'E'}, op{kind: 'G'}
	R0, R1 := op{kind: 'R', d: 0}, op{kind: 'R', d: 1}
	Z5, Z10, Z25 := op{kind: 'Z', d: 5}, op{kind: 'Z', d: 10}, op{kind: 'Z', d: 25}
	alpha := []op{A1, A2, A3b, X2, S, P, E, R0, R1, Z5, Z10, Z25, G}
	// every script of length <= 4 (5 thorough) that schedules something and starts
	var rec func(cur []op, maxLen int)
	var scripts [][]op
	rec = func(cur []op, maxLen int) {
		if len(cur) > 0 {
			hasA, hasS := false, false
			for _, o := range cur {
				hasA = hasA || o.kind == 'A' || o.kind == 'X'
				hasS = hasS || o.kind == 'S'
			}
			if hasA && hasS {
				scripts = append(scripts, append([]op(nil), cur...))
			}
		}
		if len(cur) == maxLen {
			return
		}
		for _, a := range alpha {
			// prune meaningless steps
			if len(cur) == 0 && (a.kind == 'W' || a.kind == 'P' || a.kind == 'R' || a.kind == 'G' || a.kind == 'Z') {
				continue
			}
			if len(cur) > 0 && cur[len(cur)-1].kind == a.kind && (a.kind == 'E' || a.kind == 'G' || a.kind == 'W') {
				continue
			}
			rec(append(cur, a), maxLen)
		}
	}
	rec(nil, 4)
	horizon := 4500 * time.Millisecond
	for _, sc := range scripts {
		// the scenario ends with blocked jobs released so Stop contexts can complete
		full := append(append([]op(nil), sc...), G)
		heavy := len(sc) > 3
		add("race ", full, mc.Options{Delay: true, MinBound: 2, Bound: 4, AutoClock: true, Horizon: horizon}, heavy)
		if len(sc) <= 3 {
			add("pre ", full, mc.Options{Bound: 1, TieCost: 1, AutoClock: true, Horizon: horizon}, false)
			add("legacy ", full, mc.Options{Delay: true, MinBound: 2, Bound: 3, AutoClock: true, Horizon: horizon, TimerSem: mc.TimerLegacy}, len(sc) > 2)
		}
	}
	// timeline mode (the clock moves only at quiescence, to the next timer
	// deadline): client sleeps land exactly on / between activation instants, so
	// the clock REACHES them; checked at every quiescent instant
	Z15, Z20 := op{kind: 'Z', d: 15}, op{kind: 'Z', d: 20}
	tl := mc.Options{Delay: true, MinBound: 1, Bound: 2, AutoClock: true, ClockLast: true, Horizon: 6500 * time.Millisecond, MaxSteps: 9000}
	// a Cron whose location differs from the zone of the clock's readings (by one
	// second, so that it shows on this time scale): specs are read on the
	// Cron's wall clock at every wake-up
	X3 := op{kind: 'X', spec: "*/3 * * * * *"}
	X2b := op{kind: 'X', spec: "*/2 * * * * *", blk: true}
	cf = cfg{zone: true}
	for _, sc := range [][]op{{X2, S, Z25, Z25}, {S, X2, Z25, Z25, E}, {X2, X3, S, Z25, Z25, Z20}, {X2, A1, S, Z25, R1, Z25}, {X3, S, Z25, P, Z10, S, Z25, Z25}} {
		add("zone tl ", append(append([]op(nil), sc...), G), tl, false)
	}
	add("zone race ", []op{X2, S, Z25, Z25, G}, mc.Options{Delay: true, MinBound: 1, Bound: 2, AutoClock: true, Horizon: 6500 * time.Millisecond, MaxSteps: 9000}, false)
	// job wrappers: DelayIfStillRunning / SkipIfStillRunning concern an entry's
	// OWN previous run; another entry's blocked job holds nobody else back
	for _, ch := range []string{"delay", "skip"} {
		cf = cfg{chain: ch}
		for _, sc := range [][]op{{A3b, A1, S, Z25, Z10}, {A3b, X2, S, Z25, Z10}, {A1, A3b, S, Z25, Z10}, {A3b, A2, A1, S, Z25}, {X2b, A1, S, Z25, Z25}, {A1, S, Z25, Z10}} {
			add("chain-"+ch+" tl ", append(append([]op(nil), sc...), G), tl, false)
		}
		add("chain-"+ch+" race ", []op{A3b, A1, S, Z25, G}, mc.Options{Delay: true, MinBound: 1, Bound: 2, AutoClock: true, Horizon: 4500 * time.Millisecond}, false)
	}
	// a job that panics once under the chain the documentation recommends
	// (Recover outermost): the entry goes on being started at every later
	// activation, and Stop's context still completes
	A1p := op{kind: 'A', d: 10, pan: true}
	for _, ch := range []string{"recover-delay", "recover-skip", "recover"} {
		cf = cfg{chain: ch}
		for _, sc := range [][]op{{A1p, S, Z25, Z10}, {A1p, A2, S, Z25, P, Z5}, {A2, A1p, S, Z25, Z10, E}} {
			add("chain-"+ch+" tl ", append(append([]op(nil), sc...), G), tl, false)
		}
	}
	cf = cfg{}
	for _, ent := range [][]op{{A2}, {A1, A2}, {A2, X2}, {A2, A1, A3b}} {
		for _, mid := range [][]op{{Z15, R0}, {Z15, R1}, {Z5, R0, Z10}, {Z15, E}, {Z15, A1}, {Z10, R0}, {Z25, R0}, {Z15, R0, Z5, R1}} {
			for _, tail := range [][]op{{Z5}, {Z10, Z10}, {Z20, Z20}} {
				sc := append(append(append([]op(nil), ent...), S), mid...)
				sc = append(sc, tail...)
				add("tl ", append(sc, G), tl, false)
				sc2 := append(append([]op{S}, ent...), mid...)
				add("tl ", append(append(sc2, tail...), G), tl, true)
			}
		}
	}
	// restart: Start, Stop, the clock passes activations while stopped, Start again
	// started through Run() in the caller's goroutine, stopped, started again
	U := op{kind: 'U'}
	for _, ent := range [][]op{{A1}, {A1, A2}} {
		for _, second := range []op{S, U} {
			for _, z := range [][]op{{}, {Z5}} {
				sc := append(append([]op(nil), ent...), U, Z15, P)
				sc = append(sc, z...)
				sc = append(sc, second, Z5, P, Z25)
				add("restart-run ", append(sc, E, G), tl, false)
				// (timeline mode only: the clock moves at quiescence, so the sleep after
				// U is a happens-before edge between Run() having started and the
				// next call, which the package asks its callers to provide)
			}
		}
	}
	for _, sc := range [][]op{{A1, U, Z25, E, P, Z10}, {U, A1, A2, Z25, R0, Z10, P}} {
		add("run ", append(append([]op(nil), sc...), G), tl, false)
	}
	// Entries right after a restart (before the first wake-up of the new run),
	// with the clock moved and entries added or removed while stopped
	for _, mid := range [][]op{{Z25}, {Z25, A2}, {Z5, R0, Z25}, {A2, Z25, R0}} {
		sc := append([]op{A1, A2, S, Z5, E, P}, mid...)
		sc = append(sc, S, E, Z10, E)
		add("restart-entries ", append(sc, G), tl, false)
	}
	// a job that is still running across Stop / Start / Stop: every Stop's context
	// waits for it, whichever run started it
	for _, ent := range [][]op{{A3b}, {A3b, A1}} {
		for _, z2 := range [][]op{{}, {Z5}, {Z15}} {
			sc := append(append([]op(nil), ent...), S, Z15, P)
			sc = append(sc, z2...)
			sc = append(sc, S, Z5, P, Z5)
			add("restart-blocked ", append(sc, G), tl, false)
		}
	}
	for _, ent := range [][]op{{A1}, {A2}, {X2}, {A1, A2}} {
		for _, z1 := range [][]op{{}, {Z5}, {Z10}} {
			for _, z2 := range [][]op{{Z5}, {Z10}, {Z25}} {
				for _, z3 := range [][]op{{Z10}, {Z25}} {
					sc := append(append([]op(nil), ent...), S)
					sc = append(sc, z1...)
					sc = append(sc, P)
					sc = append(sc, z2...)
					sc = append(sc, S)
					sc = append(sc, z3...)
					add("restart ", append(sc, E, G), tl, len(ent) > 1)
				}
			}
		}
	}
	// co-prime periods (2 s and 3 s) and equal periods next to each other, over a
	// longer horizon so that their activations coincide at 6 s
	A3 := op{kind: 'A', d: 30}
	for _, sc := range [][]op{{A2, A3, S}, {S, A2, A3}, {A3, S, A2}, {A2, A3, S, Z25, R0}, {A1, A1, S}, {A2, A3, S, Z25, E}} {
		full := append(append([]op(nil), sc...), G)
		add("coprime ", full, mc.Options{Delay: true, MinBound: 2, Bound: 3, AutoClock: true, Horizon: 6500 * time.Millisecond, MaxSteps: 9000}, false)
	}
	// clock jumps over several activations (timeline mode, scripted clock only)
	for _, steps := range [][]time.Duration{
		{2500 * time.Millisecond, 2500 * time.Millisecond},
		{500 * time.Millisecond, 3 * time.Second, time.Second},
		{time.Second, time.Second, time.Second, time.Second},
	} {
		for _, sc := range [][]op{{A1, S}, {A1, A2, S}, {S, A1, X2}, {A1, S, E}, {X2, S, A2}} {
			tag := fmt.Sprintf("jump%v ", steps)
			add(tag, append(append([]op(nil), sc...), Z25, Z25, E, G), mc.Options{Delay: true, MinBound: 2, Bound: 3, ClockSteps: steps, AutoClock: true, ClockLast: true, Horizon: 7 * time.Second}, false)
		}
	}
	return out
}

func TestMC(t *testing.T) { hx.Run(t, scenarios()) }
