// Harness for C09 (coalescing rate limiter) on the mcgen-instrumented copy of
// github.com/dapr/kit/events/ratelimiting.
package c09

import (
	"context"
	"fmt"
	"strings"
	"testing"
	"time"

	"github.com/dapr/kit/events/ratelimiting"

	"verif/hx"
	"verif/mc"
)

const unit = 100 * time.Millisecond

type cfg struct {
	init, max, cap int // units; cap 0 = unset
}

func (c cfg) String() string { return fmt.Sprintf("i%dm%dc%d", c.init, c.max, c.cap) }

func (c cfg) opts() ratelimiting.OptionsCoalescing {
	i, m := time.Duration(c.init)*unit, time.Duration(c.max)*unit
	o := ratelimiting.OptionsCoalescing{InitialDelay: &i, MaxDelay: &m}
	if c.cap > 0 {
		cp := c.cap
		o.MaxPendingEvents = &cp
	}
	return o
}

// refTimeline is the reference timeline written from the property statement.
// adds are strictly increasing instants (units). exact=false when an Add
// coincides with a window end (both orders are legal then).
func refTimeline(adds []int, c cfg) (signals []int, exact bool) {
	idle := true
	var E, D, P int
	for i, t := range adds {
		if i > 0 && adds[i-1] >= t {
			return nil, false
		}
		if !idle && E < t {
			if P > 0 {
				signals = append(signals, E)
			}
			idle = true
		}
		if !idle && E == t {
			return nil, false
		}
		if idle {
			signals = append(signals, t)
			idle, D, E, P = false, c.init, t+c.init, 0
			continue
		}
		P++
		if c.cap > 0 && P >= c.cap {
			signals = append(signals, t)
			P = 0
			continue
		}
		if D < c.max {
			D *= 2
			if D > c.max {
				D = c.max
			}
		}
		E = t + D
	}
	if !idle && P > 0 {
		signals = append(signals, E)
	}
	return signals, true
}

type addRec struct {
	start, end int
	at         time.Duration
}

type sigRec struct {
	step int
	at   time.Duration
}

type ender struct {
	kind  byte // 0 none, 'C' Close, 'X' cancel, 'B' cancel then Close
	after int  // units to sleep before acting (race mode: 0 => act at once)
}

type scen struct {
	c        cfg
	adders   [][]int // per adder: gaps (units) before each Add
	consumer byte    // 'p' prompt, 's' slow (reads after each 1-unit sleep), 'l' late (first read after 3 x MaxDelay + 1 unit, then prompt), 'n' never reads
	end      ender
	timeline bool
}

func (s scen) name() string {
	var a []string
	for _, g := range s.adders {
		a = append(a, strings.Trim(strings.Join(strings.Fields(fmt.Sprint(g)), ","), "[]"))
	}
	mode := "race"
	if s.timeline {
		mode = "tl"
	}
	e := ""
	if s.end.kind != 0 {
		e = fmt.Sprintf(" end=%c@%d", s.end.kind, s.end.after)
	}
	return fmt.Sprintf("%s %s adds=%s cons=%c%s", mode, s.c, strings.Join(a, "|"), s.consumer, e)
}

func mkExec(s scen) *mc.Exec {
	var (
		adds         []addRec
		sigs         []sigRec
		rl           ratelimiting.RateLimiter
		runDone      bool
		runErr       error
		closeDone    bool
		liveAtClose  []string
		cancelled    bool
		capErr       string
		secondRunErr string
	)
	body := func() {
		var err error
		rl, err = ratelimiting.NewCoalescing(s.c.opts())
		if err != nil {
			mc.Fail("NewCoalescing: %v", err)
		}
		ch := mc.NewChan[struct{}]()
		if s.timeline && s.c.cap > 0 && s.end.kind == 0 {
			// "as soon as the pending-events cap is reached": once everything
			// that can run has run, fewer than cap events may be pending
			mc.OnQuiescence(func() {
				if p, _ := ratelimiting.McPending(rl); p >= s.c.cap && capErr == "" {
					capErr = fmt.Sprintf("[key=cap-reached-but-not-signalled] %d events pending at a quiescent instant (t=%v) although MaxPendingEvents is %d", p, mc.ModelNow(), s.c.cap)
				}
			})
		}
		ctx, cancel := mc.CtxWithCancel(context.Background())
		mc.GoNamed("run", func() {
			runErr = rl.Run(ctx, ch)
			runDone = true
		})
		switch s.consumer {
		case 'p':
			mc.GoNamed("consumer", func() {
				for {
					ch.Recv()
					sigs = append(sigs, sigRec{mc.Step(), mc.ModelNow()})
				}
			})
		case 'l':
			mc.GoNamed("consumer", func() {
				// busy elsewhere for longer than any rate-limiting window, then attentive
				mc.TimeSleep(time.Duration(3*s.c.max+1) * unit)
				for {
					ch.Recv()
					sigs = append(sigs, sigRec{mc.Step(), mc.ModelNow()})
				}
			})
		case 's':
			mc.GoNamed("consumer", func() {
				for {
					mc.TimeSleep(unit)
					ch.Recv()
					sigs = append(sigs, sigRec{mc.Step(), mc.ModelNow()})
				}
			})
		}
		for i, gaps := range s.adders {
			gaps := gaps
			mc.GoNamed(fmt.Sprintf("adder%d", i), func() {
				for _, g := range gaps {
					if g > 0 {
						mc.TimeSleep(time.Duration(g) * unit)
					}
					r := addRec{start: mc.Step(), at: mc.ModelNow()}
					rl.Add()
					r.end = mc.Step()
					adds = append(adds, r)
				}
			})
		}
		if s.end.kind != 0 {
			mc.GoNamed("ender", func() {
				if s.end.after > 0 {
					mc.TimeSleep(time.Duration(s.end.after) * unit)
				}
				if s.end.kind == 'X' || s.end.kind == 'B' {
					cancelled = true
					cancel()
				}
				if s.end.kind == 'R' {
					// a second Run while the first one is running is refused, and
					// leaves nothing behind that Close would wait for
					if err := rl.Run(ctx, ch); err == nil {
						secondRunErr = "a second Run on a running limiter returned nil"
					}
				}
				if s.end.kind == 'D' {
					// two overlapping Close calls: each must return only after the helpers finished
					mc.GoNamed("ender2", func() {
						born := mc.NumThreads()
						rl.Close()
						for _, n := range mc.UnfinishedBelow(born) {
							if strings.HasPrefix(n, "g") {
								liveAtClose = append(liveAtClose, n+"(second Close)")
							}
						}
					})
				}
				if s.end.kind == 'C' || s.end.kind == 'B' || s.end.kind == 'D' || s.end.kind == 'R' {
					// helpers started by operations that began before Close was
					// called; later ones belong to calls racing with Close
					born := mc.NumThreads()
					rl.Close()
					closeDone = true
					for _, n := range mc.UnfinishedBelow(born) {
						// goroutines started by the limiter itself are unnamed (g<N>)
						if strings.HasPrefix(n, "g") {
							liveAtClose = append(liveAtClose, n)
						}
					}
				}
			})
		}
	}
	check := func(e *mc.End) error {
		for _, t := range e.Threads {
			if (strings.HasPrefix(t.Name, "adder") || strings.HasPrefix(t.Name, "ender") || t.Name == "main") && !t.Finished {
				return fmt.Errorf("deadlock: %s blocked on %s; parked=%v", t.Name, t.WaitOn, e.Parked())
			}
		}
		ended := s.end.kind != 0
		if ended && !runDone {
			return fmt.Errorf("Run did not return after %c; parked=%v", s.end.kind, e.Parked())
		}
		if runErr != nil {
			return fmt.Errorf("Run returned %v", runErr)
		}
		if secondRunErr != "" {
			return fmt.Errorf("%s", secondRunErr)
		}
		if (s.end.kind == 'C' || s.end.kind == 'B' || s.end.kind == 'D' || s.end.kind == 'R') && len(liveAtClose) > 0 {
			return fmt.Errorf("Close returned while helper goroutines were still alive: %v", liveAtClose)
		}
		_ = closeDone
		_ = cancelled
		if capErr != "" {
			return fmt.Errorf("%s", capErr)
		}
		if len(sigs) > len(adds) {
			return fmt.Errorf("%d signals for %d Adds", len(sigs), len(adds))
		}
		var oc []string
		for _, sg := range sigs {
			oc = append(oc, fmt.Sprint(int(sg.at/unit), ".", int(sg.at%unit)))
		}
		mc.Outcome(strings.Join(oc, ","))
		if ended || s.consumer == 'n' {
			return nil
		}
		// ---- no Add lost (limiter stays open, the consumer reads — at once, slowly or late) ----
		if p, _ := ratelimiting.McPending(rl); p != 0 {
			return fmt.Errorf("lost Add: %d events still pending at final quiescence (t=%v, armed timers=%d); signals=%v", p, e.Now, mc.ArmedTimers(), oc)
		}
		if len(adds) > 0 {
			last := adds[0]
			for _, a := range adds {
				if a.start > last.start {
					last = a
				}
			}
			ok := false
			for _, sg := range sigs {
				if sg.step > last.start {
					ok = true
				}
			}
			if !ok {
				return fmt.Errorf("lost Add: no signal after the last Add (issued at step %d, t=%v); signals at %v", last.start, last.at, oc)
			}
		}
		if !s.timeline || s.consumer != 'p' {
			return nil
		}
		// ---- timeline mode, prompt consumer: time moved only at quiescence ----
		max := time.Duration(s.c.max) * unit
		for _, a := range adds {
			ok := false
			for _, sg := range sigs {
				if sg.at >= a.at && sg.at <= a.at+max {
					ok = true
				}
			}
			// a later Add inside the window restarts it ("while events keep
			// arriving"): then the bound applies to that later Add instead
			for _, b := range adds {
				if b.at > a.at && b.at <= a.at+max {
					ok = true
				}
			}
			if !ok {
				return fmt.Errorf("Add at t=%v not followed by a signal within its quiet window (<= %v later); signals at %v", a.at, max, oc)
			}
		}
		if len(s.adders) == 1 {
			var times []int
			t := 0
			for _, g := range s.adders[0] {
				t += g
				times = append(times, t)
			}
			if want, exact := refTimeline(times, s.c); exact {
				var got []int
				for _, sg := range sigs {
					if sg.at%unit != 0 {
						return fmt.Errorf("signal off the grid at %v", sg.at)
					}
					got = append(got, int(sg.at/unit))
				}
				if fmt.Sprint(got) != fmt.Sprint(want) {
					return fmt.Errorf("timeline: Adds at %v (units of %v) config %s: signals at %v, reference says %v", times, unit, s.c, got, want)
				}
			} else if len(sigs) > 0 && len(adds) > 0 && sigs[0].at != adds[0].at {
				return fmt.Errorf("first Add after idle (t=%v) not signalled immediately (first signal at %v)", adds[0].at, sigs[0].at)
			}
		}
		return nil
	}
	return &mc.Exec{Body: body, Check: check}
}

func seqs(alpha []int, maxLen int) [][]int {
	out := [][]int{}
	var rec func(cur []int)
	rec = func(cur []int) {
		if len(cur) > 0 {
			out = append(out, append([]int(nil), cur...))
		}
		if len(cur) == maxLen {
			return
		}
		for _, a := range alpha {
			rec(append(cur, a))
		}
	}
	rec(nil)
	return out
}

func scenarios() []hx.Scenario {
	var out []hx.Scenario
	add := func(s scen, bound int, sem mc.TimerSem, thoroughOnly bool) {
		n := s.name()
		if sem == mc.TimerLegacy {
			n = "legacy " + n
		}
		sc := s
		out = append(out, hx.Scenario{
			Name: n, Class: "coalescing", ThoroughOnly: thoroughOnly,
			Opts: mc.Options{Delay: true, MinBound: bound, Bound: bound + 3, AutoClock: true, ClockLast: s.timeline, Horizon: 200 * unit, TimerSem: sem, MaxSteps: 4000},
			Mk:   func() *mc.Exec { return mkExec(sc) },
		})
	}
	cfgs := []cfg{{2, 2, 0}, {2, 4, 0}, {2, 8, 0}, {2, 8, 1}, {2, 8, 2}, {2, 4, 3}}
	// (a) timeline mode: one adder, every gap sequence on a grid around window ends
	gaps := []int{0, 1, 2, 3, 5, 9}
	for _, c := range cfgs {
		for _, g := range seqs(gaps, 4) {
			g[0] = 0 // first Add at t=0 (idle)
			dup := false
			for _, x := range out {
				_ = x
			}
			_ = dup
			add(scen{c: c, adders: [][]int{g}, consumer: 'p', timeline: true}, 2, mc.TimerGo123, len(g) > 3)
		}
	}
	// (a°) the same histories under the timer semantics of Go < 1.23 (a fired
	// timer's tick stays in its channel until it is received or drained: what a
	// consumer built with an older language version, and every fake clock,
	// gives the limiter): an Add that arrives exactly when the window ends meets
	// an expired timer whose tick has not been handled yet
	for ci, c := range []cfg{{2, 4, 0}, {2, 8, 2}} {
		for _, g := range seqs(gaps, 4) {
			g[0] = 0
			add(scen{c: c, adders: [][]int{g}, consumer: 'p', timeline: true}, 2, mc.TimerLegacy, len(g) > 3 || ci > 0 || len(g) > 2 && g[1] != 2 && g[1] != 0)
		}
	}
	// (a+) a consumer that is slow, or comes to the channel only long after the
	// signal was raised: the signal waits for it, no Add is lost
	for _, c := range []cfg{{2, 4, 0}, {2, 8, 2}} {
		for _, g := range seqs([]int{0, 1, 3, 9}, 3) {
			g[0] = 0
			for _, cons := range []byte{'l', 's'} {
				add(scen{c: c, adders: [][]int{g}, consumer: cons, timeline: true}, 1, mc.TimerGo123, len(g) > 2 && cons == 's')
			}
		}
	}
	// (a-) a second Run on a running limiter is refused and leaves nothing behind
	// that Close would wait for (timeline mode: the one-unit sleep before it
	// orders it after the first Run has started)
	for _, c := range []cfg{{2, 4, 0}, {2, 4, 2}} {
		for _, as := range [][][]int{{{0}}, {{0, 1}}, {{0}, {1}}, {}} {
			add(scen{c: c, adders: as, consumer: 'p', timeline: true, end: ender{'R', 1}}, 1, mc.TimerGo123, false)
			add(scen{c: c, adders: as, consumer: 'p', timeline: true, end: ender{'R', 3}}, 1, mc.TimerGo123, false)
		}
	}
	// (a') longer histories over a small gap alphabet: a first busy period that
	// reaches MaxDelay, an idle gap, then a second busy period (the window must
	// start again from InitialDelay)
	for _, c := range []cfg{{2, 8, 0}, {1, 4, 0}, {1, 4, 2}, {1, 4, 4}} {
		for _, g := range seqs([]int{1, 2, 9}, 6) {
			if len(g) < 5 {
				continue
			}
			g[0] = 0
			add(scen{c: c, adders: [][]int{g}, consumer: 'p', timeline: true}, 1, mc.TimerGo123, len(g) > 5)
		}
	}
	// (a'') one very long busy period: the window must keep doubling up to the
	// maximum and stay there (70 Adds one unit apart give a single late signal)
	for _, n := range []int{40, 70} {
		g := make([]int, n)
		for i := 1; i < n; i++ {
			g[i] = 1
		}
		sc := scen{c: cfg{2, 8, 0}, adders: [][]int{g}, consumer: 'p', timeline: true}
		scCopy := sc
		out = append(out, hx.Scenario{
			Name: fmt.Sprintf("tl i2m8c0 long burst of %d Adds one unit apart", n), Class: "coalescing",
			Opts: mc.Options{Delay: true, MinBound: 1, Bound: 1, AutoClock: true, ClockLast: true, Horizon: 400 * unit, MaxSteps: 40000},
			Mk:   func() *mc.Exec { return mkExec(scCopy) },
		})
	}
	// (b) race mode: adders x ender x consumer
	raceCfgs := []cfg{{2, 4, 0}, {2, 4, 1}, {2, 4, 2}}
	addScripts := [][][]int{
		{{0}}, {{0, 0}}, {{0, 1}}, {{0, 2}}, {{0, 3}}, {{0}, {0}}, {{0}, {1}}, {{0}, {2}}, {{0, 0}, {0}}, {{0, 1}, {1}}, {{0, 2}, {0, 1}},
	}
	enders := []ender{{0, 0}, {'C', 0}, {'C', 1}, {'C', 2}, {'X', 0}, {'X', 2}, {'B', 0}, {'B', 2}, {'D', 0}, {'D', 1}}
	for _, c := range raceCfgs {
		for ai, as := range addScripts {
			for _, en := range enders {
				for _, cons := range []byte{'p', 's', 'n', 'l'} {
					if en.kind == 0 && cons != 'p' && ai > 4 {
						continue
					}
					if cons == 'l' && (en.kind != 0 || c.cap == 1) {
						continue
					}
					nAdds := 0
					for _, a := range as {
						nAdds += len(a)
					}
					heavy := nAdds > 2 || (len(as) > 1 && en.kind != 0 && cons != 'p')
					add(scen{c: c, adders: as, consumer: cons, end: en}, 2, mc.TimerGo123, heavy)
					if nAdds <= 2 && c.cap == 0 && cons == 'p' {
						add(scen{c: c, adders: as, consumer: cons, end: en}, 2, mc.TimerLegacy, nAdds > 1)
					}
				}
			}
		}
	}
	// de-duplicate names (gap sequences normalised to start at 0 collide)
	seen := map[string]bool{}
	uniq := out[:0]
	for _, s := range out {
		if !seen[s.Name] {
			seen[s.Name] = true
			uniq = append(uniq, s)
		}
	}
	return uniq
}

func TestMC(t *testing.T) { hx.Run(t, scenarios()) }
