// Harness for the concurrent part of C15 (ttlcache) on the mcgen-instrumented
// copy of github.com/dapr/kit/ttlcache with haxmap replaced by a linearizable
// stand-in (verif/ref/haxmapshim).
package c15

import (
	"fmt"
	"strings"
	"testing"
	"time"

	"github.com/dapr/kit/ttlcache"

	"verif/hx"
	"verif/mc"
	haxmap "verif/ref/haxmapshim"
)

const sec = time.Second

type op struct {
	kind byte // 'S' set, 'G' get, 'D' delete, 'C' cleanup, 'R' reset, 'Z' sleep (tenths of a second), 'X' stop
	key  string
	ttl  int
}

func (o op) String() string {
	switch o.kind {
	case 'S':
		return fmt.Sprintf("S(%s,%d)", o.key, o.ttl)
	case 'G':
		return "G(" + o.key + ")"
	case 'D':
		return "D(" + o.key + ")"
	case 'Z':
		return fmt.Sprintf("Z%d", o.ttl)
	}
	return string(o.kind)
}

type rec struct {
	op         op
	thread     int
	start, end int // harness ticks
	t0, t1     time.Duration
	val        int  // S: value written; G: value returned
	hit        bool // G
	mapSetStep int  // S: step of the map-level write
}

type cleanup struct {
	thread    int
	reset     bool // Reset collects everything
	visits    map[string]visit
	delStep   int
	delAt     time.Duration
	delKeys   []string
	done      bool
	beginStep int
}

type visit struct {
	step int
	exp  time.Time
	val  int
}

func mkExec(scripts [][]op, maxTTL int64, interval time.Duration) *mc.Exec {
	var (
		recs     []*rec
		tick     int
		cleans   []*cleanup
		open     = map[int]*cleanup{} // per thread: cleanup/reset in progress
		stopLeak []string
		epoch    = time.Date(2024, 1, 1, 0, 0, 0, 0, time.UTC)
		resetOps = map[int]bool{} // threads currently inside Reset
		errs     []string
	)
	stamp := func() int { tick++; return tick }
	body := func() {
		haxmap.Trace = func(e haxmap.Event) {
			// map-level steps and harness call/return stamps share one counter:
			// callbacks run in true execution order (one thread at a time)
			e.Step = stamp()
			switch e.Op {
			case "set":
				for i := len(recs) - 1; i >= 0; i-- {
					r := recs[i]
					if r.thread == e.Thread && r.op.kind == 'S' && r.end == 0 {
						r.mapSetStep = e.Step
						break
					}
				}
			case "foreach-begin":
				c := &cleanup{thread: e.Thread, visits: map[string]visit{}, reset: resetOps[e.Thread], beginStep: e.Step}
				open[e.Thread] = c
				cleans = append(cleans, c)
			case "visit":
				if c := open[e.Thread]; c != nil {
					v, exp, _ := ttlcache.McEntry(e.Val)
					c.visits[e.Key.(string)] = visit{e.Step, exp, v}
				}
			case "del":
				if c := open[e.Thread]; c != nil {
					c.delStep, c.delAt, c.done = e.Step, mc.ModelNow(), true
					for _, k := range e.Keys {
						c.delKeys = append(c.delKeys, k.(string))
					}
					delete(open, e.Thread)
				}
			}
		}
		before := mc.NumThreads()
		c := ttlcache.NewCache[int](ttlcache.CacheOptions{CleanupInterval: interval, MaxTTL: maxTTL})
		_ = before
		nextVal := 0
		for ti, sc := range scripts {
			ti, sc := ti, sc
			mc.GoNamed(fmt.Sprintf("t%d", ti), func() {
				for _, o := range sc {
					r := &rec{op: o, thread: mc.ThreadID()}
					switch o.kind {
					case 'Z':
						mc.TimeSleep(time.Duration(o.ttl) * 100 * time.Millisecond)
						continue
					case 'S':
						nextVal++
						r.val = nextVal
						recs = append(recs, r)
						r.start, r.t0 = stamp(), mc.ModelNow()
						c.Set(o.key, r.val, int64(o.ttl))
					case 'G':
						recs = append(recs, r)
						r.start, r.t0 = stamp(), mc.ModelNow()
						r.val, r.hit = c.Get(o.key)
					case 'D':
						recs = append(recs, r)
						r.start, r.t0 = stamp(), mc.ModelNow()
						c.Delete(o.key)
					case 'C':
						recs = append(recs, r)
						r.start, r.t0 = stamp(), mc.ModelNow()
						c.Cleanup()
					case 'R':
						recs = append(recs, r)
						r.start, r.t0 = stamp(), mc.ModelNow()
						resetOps[r.thread] = true
						c.Reset()
						resetOps[r.thread] = false
					case 'X':
						recs = append(recs, r)
						r.start, r.t0 = stamp(), mc.ModelNow()
						n := mc.NumThreads()
						c.Stop()
						for _, name := range mc.UnfinishedBelow(n) {
							if strings.HasPrefix(name, "g") {
								stopLeak = append(stopLeak, name)
							}
						}
					}
					r.end, r.t1 = stamp(), mc.ModelNow()
				}
			})
		}
	}
	ttlEff := func(r *rec) time.Duration {
		t := int64(r.op.ttl)
		if maxTTL > 0 && t > maxTTL {
			t = maxTTL
		}
		return time.Duration(t) * sec
	}
	check := func(e *mc.End) error {
		if len(errs) > 0 {
			return fmt.Errorf("%s", errs[0])
		}
		for _, t := range e.Threads {
			if strings.HasPrefix(t.Name, "t") && !t.Finished {
				if e.ArmedBeyondHorizon > 0 {
					mc.Outcome("cut off at horizon")
					return nil
				}
				return fmt.Errorf("deadlock: %s blocked on %s", t.Name, t.WaitOn)
			}
		}
		if len(stopLeak) > 0 {
			return fmt.Errorf("[key=stop-leaks-cleaner] Stop returned while the background cleaner goroutine was still alive: %v", stopLeak)
		}
		// a periodic/manual Cleanup may only collect expired entries
		for _, c := range cleans {
			if c.reset || !c.done {
				continue
			}
			for _, k := range c.delKeys {
				v, ok := c.visits[k]
				if !ok {
					return fmt.Errorf("[key=cleanup-deletes-unvisited] Cleanup deleted key %q which its scan never visited", k)
				}
				if v.exp.Sub(epoch) >= c.delAt {
					return fmt.Errorf("[key=cleanup-collects-live-entry] Cleanup deleted key %q whose entry (value %d) expires at %v, not before the deletion time %v", k, v.val, v.exp.Sub(epoch), c.delAt)
				}
			}
		}
		var oc []string
		for _, g := range recs {
			if g.op.kind != 'G' {
				continue
			}
			oc = append(oc, fmt.Sprintf("%s=%d/%v", g.op.key, g.val, g.hit))
			if g.hit {
				var s *rec
				for _, r := range recs {
					if r.op.kind == 'S' && r.val == g.val && r.op.key == g.op.key {
						s = r
					}
				}
				if s == nil || s.start > g.end {
					return fmt.Errorf("[key=get-invented-value] Get(%s) returned value %d that no earlier Set wrote", g.op.key, g.val)
				}
				if s.end != 0 && s.t1+ttlEff(s) <= g.t0 {
					return fmt.Errorf("[key=get-serves-expired] Get(%s) at t>=%v returned value %d set at t<=%v with effective ttl %v: expired", g.op.key, g.t0, g.val, s.t1, ttlEff(s))
				}
				for _, x := range recs {
					if x == s || x.end == 0 {
						continue
					}
					supersedes := (x.op.kind == 'S' || x.op.kind == 'D') && x.op.key == g.op.key || x.op.kind == 'R'
					if supersedes && s.end != 0 && x.start > s.end && x.end < g.start {
						return fmt.Errorf("[key=get-serves-superseded] Get(%s) returned value %d although %v completed after that Set and before the Get began", g.op.key, g.val, x.op)
					}
				}
				continue
			}
			// miss: is there a Set that makes a hit mandatory?
			for _, s := range recs {
				if s.op.kind != 'S' || s.op.key != g.op.key || s.end == 0 || s.end > g.start {
					continue
				}
				if !(s.t0+ttlEff(s) > g.t1) {
					continue // may have expired
				}
				excused := false
				for _, x := range recs {
					if x == s {
						continue
					}
					// a later (or overlapping) Set of the same key replaces this value
					// and is judged on its own expiry
					removes := (x.op.kind == 'D' || x.op.kind == 'S') && x.op.key == g.op.key || x.op.kind == 'R'
					xe := x.end
					if xe == 0 {
						xe = 1 << 30
					}
					if removes && xe > s.start && x.start < g.end {
						excused = true
					}
				}
				// the documented cleanup/refresh race: a scan visited the key before
				// this Set wrote it and deleted it afterwards
				for _, c := range cleans {
					if !c.done {
						continue
					}
					v, visited := c.visits[g.op.key]
					deleted := false
					for _, k := range c.delKeys {
						deleted = deleted || k == g.op.key
					}
					if visited && deleted && v.step < s.mapSetStep && c.delStep > s.mapSetStep {
						excused = true
					}
				}
				if !excused {
					return fmt.Errorf("[key=live-entry-missed] Get(%s) at t<=%v missed although value %d was Set (completed, t>=%v, effective ttl %v) and nothing deleted, reset or raced it", g.op.key, g.t1, s.val, s.t0, ttlEff(s))
				}
			}
		}
		mc.Outcome(strings.Join(oc, " "))
		return nil
	}
	return &mc.Exec{Body: body, Check: check}
}

func name(scripts [][]op) string {
	var t []string
	for _, sc := range scripts {
		var o []string
		for _, x := range sc {
			o = append(o, x.String())
		}
		t = append(t, strings.Join(o, ";"))
	}
	return strings.Join(t, " | ")
}

func seqs(alpha []op, maxLen int) [][]op {
	var out [][]op
	var rec func(cur []op)
	rec = func(cur []op) {
		if len(cur) > 0 {
			out = append(out, append([]op(nil), cur...))
		}
		if len(cur) == maxLen {
			return
		}
		for _, a := range alpha {
			if len(cur) > 0 && cur[len(cur)-1].kind == 'Z' && a.kind == 'Z' {
				continue
			}
			rec(append(cur, a))
		}
	}
	rec(nil)
	return out
}

func scenarios() []hx.Scenario {
	var out []hx.Scenario
	S1, S2 := op{'S', "a", 1}, op{'S', "a", 2}
	G, D, C, R := op{'G', "a", 0}, op{'D', "a", 0}, op{'C', "", 0}, op{'R', "", 0}
	Sb, Gb := op{'S', "b", 1}, op{'G', "b", 0}
	Z5, Z10, Z15 := op{'Z', "", 5}, op{'Z', "", 10}, op{'Z', "", 15}
	X := op{'X', "", 0}
	writer := seqs([]op{S1, S2, D, Z10, Sb}, 2)
	reader := seqs([]op{G, Z5, Z10, Z15, Gb}, 3)
	third := [][]op{nil, {C}, {R}, {Z10, C}, {Z5, S2}, {Z15, X}, {X}}
	add := func(scripts [][]op, maxTTL int64, thoroughOnly bool) {
		hasG := false
		for _, sc := range scripts {
			for _, o := range sc {
				hasG = hasG || o.kind == 'G'
			}
		}
		if !hasG {
			return
		}
		sc := scripts
		out = append(out, hx.Scenario{
			Name: fmt.Sprintf("max=%d %s", maxTTL, name(scripts)), Class: "ttlcache", ThoroughOnly: thoroughOnly,
			Opts: mc.Options{Delay: true, MinBound: 2, Bound: 4, AutoClock: true, Horizon: 4 * sec, MaxSteps: 5000},
			Mk:   func() *mc.Exec { return mkExec(sc, maxTTL, 1500*time.Millisecond) },
		})
	}
	// two overlapping Stop calls (each must return only after the cleaner exited),
	// also while the cleaner is inside a Cleanup
	for _, w := range [][]op{{S1}, {S1, Z15}, {Z15}} {
		for _, st := range [][][]op{{{X}, {X}}, {{Z15, X}, {Z15, X}}, {{Z15, X}, {Z10, Z5, X}}, {{X}, {Z15, X}}} {
			scripts := append([][]op{w, {G}}, st...)
			add(scripts, 0, false)
		}
	}
	// Reset next to a writer of unrelated keys (which sort before and after the
	// old ones in the map's iteration order): once Reset has returned, every key
	// that was there before it began and was not Set again is gone
	S0, Sz := op{'S', "0", 2}, op{'S', "z", 2}
	for _, other := range [][]op{{S0}, {Sz}, {S0, Sz}, {Z5, S0}} {
		add([][]op{{S1, Sb, R, Gb, G}, other}, 0, false)
		add([][]op{{Sb, S1, R, G, Gb}, other, {Z5, G}}, 0, true)
	}
	// a sweep over an expired key next to a caller that sets it again and then
	// deletes it: what was deleted stays deleted, what was set last is served
	for _, w := range [][]op{{S1, Z15, S2, D, G}, {S1, Z15, S2, G, D, G}, {S1, Z15, D, S2, G}, {S1, Sb, Z15, S2, D, Gb, G}} {
		for _, cl := range [][]op{{Z15, C}, {Z15, C, G}, {Z15, R}} {
			add([][]op{w, cl}, 0, false)
		}
	}
	// the same with the sweep and the caller alternating step by step: four
	// deviations required, a fifth as far as the budget allows (thorough tier:
	// at five the search has tens of millions of schedules)
	{
		sc := [][]op{{S1, Z15, S2, D, G}, {Z15, C}}
		out = append(out, hx.Scenario{
			Name: "deep max=0 " + name(sc), Class: "ttlcache", Shards: 16, ThoroughOnly: true,
			Opts: mc.Options{Delay: true, MinBound: 4, Bound: 5, AutoClock: true, Horizon: 4 * sec, MaxSteps: 5000},
			Mk:   func() *mc.Exec { return mkExec(sc, 0, 1500*time.Millisecond) },
		})
	}
	for _, w := range writer {
		for _, r := range reader {
			for ti, t := range third {
				for _, mx := range []int64{0, 1} {
					scripts := [][]op{w, r}
					if t != nil {
						scripts = append(scripts, t)
					}
					heavy := len(w)+len(r)+len(t) > 4 || mx == 1 && ti > 2
					add(scripts, mx, heavy)
				}
			}
		}
	}
	return out
}

func TestMC(t *testing.T) { hx.Run(t, scenarios()) }
