package cryptoref

import (
	"crypto/aes"
	"crypto/subtle"
	"encoding/binary"
	"errors"
)

// Errors of the key wrap reference.
var (
	ErrKWInput     = errors.New("cryptoref: key data must be n >= 2 blocks of 64 bits (RFC 3394 §2)")
	ErrKWIntegrity = errors.New("cryptoref: key wrap integrity check failed")
)

// kwIV is the default initial value of RFC 3394 §2.2.3.1.
var kwIV = [8]byte{0xA6, 0xA6, 0xA6, 0xA6, 0xA6, 0xA6, 0xA6, 0xA6}

// KWMinBlocks is the smallest n RFC 3394 §2 allows ("The only restriction the
// key wrap algorithm places on n is that n be at least two").
const KWMinBlocks = 2

// KWWrap is RFC 3394 §2.2.1 (index based) with the default initial value: the
// KEK must be 16, 24 or 32 bytes.
func KWWrap(kek, p []byte) ([]byte, error) { return KWWrapIV(kek, p, kwIV) }

// KWDefaultIV returns the default initial value of §2.2.3.1.
func KWDefaultIV() [8]byte { return kwIV }

// KWWrapIV wraps with an alternative initial value (§2.2.3.2). A receiver that
// uses the default initial value must reject the result unless iv is the
// default: the checks use it to present wrapped keys whose integrity value is
// off by one byte.
func KWWrapIV(kek, p []byte, iv [8]byte) ([]byte, error) {
	c, err := aes.NewCipher(kek)
	if err != nil {
		return nil, err
	}
	if len(p)%8 != 0 || len(p)/8 < KWMinBlocks {
		return nil, ErrKWInput
	}
	n := len(p) / 8
	// 1) Initialize variables.
	a := iv
	r := make([][8]byte, n+1) // r[1..n]
	for i := 1; i <= n; i++ {
		copy(r[i][:], p[(i-1)*8:])
	}
	// 2) Calculate intermediate values.
	var b [16]byte
	for j := 0; j <= 5; j++ {
		for i := 1; i <= n; i++ {
			copy(b[:8], a[:])
			copy(b[8:], r[i][:])
			c.Encrypt(b[:], b[:]) // B = AES(K, A | R[i])
			t := uint64(n*j + i)
			binary.BigEndian.PutUint64(a[:], binary.BigEndian.Uint64(b[:8])^t) // A = MSB(64, B) ^ t
			copy(r[i][:], b[8:])                                               // R[i] = LSB(64, B)
		}
	}
	// 3) Output the results.
	out := make([]byte, 0, (n+1)*8)
	out = append(out, a[:]...)
	for i := 1; i <= n; i++ {
		out = append(out, r[i][:]...)
	}
	return out, nil
}

// KWUnwrap is RFC 3394 §2.2.2 with the integrity check of §2.2.3 over all 64
// bits of A.
func KWUnwrap(kek, ct []byte) ([]byte, error) {
	c, err := aes.NewCipher(kek)
	if err != nil {
		return nil, err
	}
	if len(ct)%8 != 0 || len(ct)/8-1 < KWMinBlocks {
		return nil, ErrKWInput
	}
	n := len(ct)/8 - 1
	// 1) Initialize variables.
	var a [8]byte
	copy(a[:], ct[:8])
	r := make([][8]byte, n+1)
	for i := 1; i <= n; i++ {
		copy(r[i][:], ct[i*8:])
	}
	// 2) Compute intermediate values.
	var b [16]byte
	for j := 5; j >= 0; j-- {
		for i := n; i >= 1; i-- {
			t := uint64(n*j + i)
			binary.BigEndian.PutUint64(b[:8], binary.BigEndian.Uint64(a[:])^t)
			copy(b[8:], r[i][:])
			c.Decrypt(b[:], b[:]) // B = AES-1(K, (A ^ t) | R[i])
			copy(a[:], b[:8])
			copy(r[i][:], b[8:])
		}
	}
	// 3) Output results.
	if subtle.ConstantTimeCompare(a[:], kwIV[:]) != 1 {
		return nil, ErrKWIntegrity
	}
	out := make([]byte, 0, n*8)
	for i := 1; i <= n; i++ {
		out = append(out, r[i][:]...)
	}
	return out, nil
}
