package cryptoref

import "errors"

// ErrPadding is returned by Unpad for anything that is not a PKCS#7-padded string.
var ErrPadding = errors.New("cryptoref: invalid PKCS#7 padding")

// Pad implements RFC 5652 §6.3: the input is padded at the trailing end with
// k-(lth mod k) octets all having value k-(lth mod k); a whole block of padding
// is added when lth is a multiple of k. The result is always a fresh slice.
func Pad(in []byte, k int) []byte {
	if k < 2 || k > 255 {
		panic("cryptoref: block size out of range")
	}
	n := k - len(in)%k
	out := make([]byte, len(in)+n)
	copy(out, in)
	for i := len(in); i < len(out); i++ {
		out[i] = byte(n)
	}
	return out
}

// Unpad inverts Pad ("the padding can be removed unambiguously since all input
// is padded"): the input must be a non-empty multiple of k, its last octet v
// must be in 1..k and the last v octets must all equal v.
func Unpad(in []byte, k int) ([]byte, error) {
	if len(in) == 0 || len(in)%k != 0 {
		return nil, ErrPadding
	}
	v := int(in[len(in)-1])
	if v < 1 || v > k {
		return nil, ErrPadding
	}
	for _, b := range in[len(in)-v:] {
		if int(b) != v {
			return nil, ErrPadding
		}
	}
	return append([]byte(nil), in[:len(in)-v]...), nil
}
