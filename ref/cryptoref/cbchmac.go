package cryptoref

import (
	"crypto/aes"
	"crypto/cipher"
	"crypto/hmac"
	"encoding/binary"
	"errors"
	"hash"
)

// Errors of the AES_CBC_HMAC_SHA2 reference.
var (
	ErrCBCHMACKey   = errors.New("cryptoref: AES_CBC_HMAC_SHA2 key has the wrong length")
	ErrCBCHMACIV    = errors.New("cryptoref: AES_CBC_HMAC_SHA2 IV must be 128 bits")
	ErrCBCHMACInput = errors.New("cryptoref: AES_CBC_HMAC_SHA2 ciphertext is not a positive number of blocks")
	ErrCBCHMACAuth  = errors.New("cryptoref: AES_CBC_HMAC_SHA2 authentication failed")
)

// CBCHMACParams are the parameters of RFC 7518 §5.2.2.1 (and of the fourth
// parameter set of draft-mcgrew-aead-aes-cbc-hmac-sha2-05 §2.6, which JWA does
// not name).
type CBCHMACParams struct {
	EncKeyLen, MacKeyLen, TLen int
	Hash                       func() hash.Hash
}

// CBCHMACSeal is RFC 7518 §5.2.2.1. It returns E and T separately.
//
//  1. MAC_KEY = initial MAC_KEY_LEN octets of K, ENC_KEY = final ENC_KEY_LEN octets of K.
//  2. The IV is 128 bits.
//  3. The plaintext is CBC encrypted using PKCS #7 padding using ENC_KEY; output E.
//  4. AL = number of bits in A as a 64-bit unsigned big-endian integer.
//  5. M = MAC(MAC_KEY, A || IV || E || AL); T = first T_LEN octets of M.
func CBCHMACSeal(p CBCHMACParams, k, iv, plaintext, a []byte) (e, t []byte, err error) {
	if len(k) != p.EncKeyLen+p.MacKeyLen {
		return nil, nil, ErrCBCHMACKey
	}
	if len(iv) != 16 {
		return nil, nil, ErrCBCHMACIV
	}
	macKey, encKey := k[:p.MacKeyLen], k[len(k)-p.EncKeyLen:]
	blk, err := aes.NewCipher(encKey)
	if err != nil {
		return nil, nil, err
	}
	padded := Pad(plaintext, 16)
	e = make([]byte, len(padded))
	cipher.NewCBCEncrypter(blk, iv).CryptBlocks(e, padded)
	return e, cbcHMACTag(p, macKey, a, iv, e), nil
}

func cbcHMACTag(p CBCHMACParams, macKey, a, iv, e []byte) []byte {
	var al [8]byte
	binary.BigEndian.PutUint64(al[:], uint64(len(a))*8)
	m := hmac.New(p.Hash, macKey)
	m.Write(a)
	m.Write(iv)
	m.Write(e)
	m.Write(al[:])
	return m.Sum(nil)[:p.TLen]
}

// CBCHMACOpen is RFC 7518 §5.2.2.2: the tag is verified first (constant
// time); only then is E decrypted and the padding checked and removed; any
// failure is the single FAIL outcome (reported with distinct errors here for
// diagnostics only).
func CBCHMACOpen(p CBCHMACParams, k, iv, e, t, a []byte) ([]byte, error) {
	if len(k) != p.EncKeyLen+p.MacKeyLen {
		return nil, ErrCBCHMACKey
	}
	if len(iv) != 16 {
		return nil, ErrCBCHMACIV
	}
	macKey, encKey := k[:p.MacKeyLen], k[len(k)-p.EncKeyLen:]
	if !hmac.Equal(t, cbcHMACTag(p, macKey, a, iv, e)) {
		return nil, ErrCBCHMACAuth
	}
	if len(e) == 0 || len(e)%16 != 0 {
		return nil, ErrCBCHMACInput
	}
	blk, err := aes.NewCipher(encKey)
	if err != nil {
		return nil, err
	}
	out := make([]byte, len(e))
	cipher.NewCBCDecrypter(blk, iv).CryptBlocks(out, e)
	return Unpad(out, 16)
}

// CBCHMACTag computes T for given E (RFC 7518 §5.2.2.1 steps 4-5). The checks
// use it to build inputs whose tag is valid but whose padding is not.
func CBCHMACTag(p CBCHMACParams, k, iv, e, a []byte) []byte {
	return cbcHMACTag(p, k[:p.MacKeyLen], a, iv, e)
}

// CBCHMACParamsOf returns the parameter set of a JWA name (A128CBC-HS256 ...).
func CBCHMACParamsOf(a Alg) CBCHMACParams { return a.cbcHMACParams() }
