package cryptoref

import (
	"crypto/ecdsa"
	"crypto/ed25519"
	"crypto/rand"
	"crypto/rsa"
	"errors"
	"io"
)

// Rand is the randomness the reference uses for RSAES / RSASSA-PSS / ECDSA.
// The checks replace it by a constant stream (ConstReader) so that the
// reference's outputs are the same in every run; the oracles are relational
// (they never depend on the value of the randomness).
var Rand io.Reader = rand.Reader

// ConstReader yields one byte value forever. (Go's rsa/ecdsa functions read
// either n or n+1 bytes from their source - randutil.MaybeReadByte - which is
// invisible on a constant stream.)
type ConstReader byte

func (c ConstReader) Read(p []byte) (int, error) {
	for i := range p {
		p[i] = byte(c)
	}
	return len(p), nil
}

// KeyFamily is the key family ("RSA", "P-256", "P-384", "P-521", "Ed25519")
// an asymmetric algorithm name requires: RFC 7518 §3.3/§3.5/§4.2/§4.3 (RSA),
// §3.4 (ES256 = P-256 + SHA-256, ES384 = P-384 + SHA-384, ES512 = P-521 +
// SHA-512), RFC 8037 §3.1 (EdDSA; Ed25519 is the only curve of the C03 space).
func (a Alg) KeyFamily() string {
	switch a.Class {
	case RSA15, OAEP, SigRSAPKCS1, SigRSAPSS:
		return "RSA"
	case SigECDSA:
		return a.Curve
	case SigEdDSA:
		return "Ed25519"
	}
	return ""
}

// RSAMaxPlaintext is the longest message RSAES can encrypt under a k-byte
// modulus: k-11 for PKCS#1 v1.5 (RFC 8017 §7.2.1), k-2hLen-2 for OAEP (§7.1.1).
func (a Alg) RSAMaxPlaintext(k int) int {
	if a.Class == RSA15 {
		return k - 11
	}
	return k - 2*a.Hash.Size() - 2
}

// RSAEncrypt calls the standard library directly.
func RSAEncrypt(a Alg, pub *rsa.PublicKey, pt, label []byte) ([]byte, error) {
	switch a.Class {
	case RSA15:
		return rsa.EncryptPKCS1v15(Rand, pub, pt)
	case OAEP:
		return rsa.EncryptOAEP(a.Hash.New(), Rand, pub, pt, label)
	}
	return nil, errors.New("cryptoref: not an RSA encryption algorithm")
}

// RSADecrypt calls the standard library directly.
func RSADecrypt(a Alg, priv *rsa.PrivateKey, ct, label []byte) ([]byte, error) {
	switch a.Class {
	case RSA15:
		return rsa.DecryptPKCS1v15(nil, priv, ct)
	case OAEP:
		return rsa.DecryptOAEP(a.Hash.New(), nil, priv, ct, label)
	}
	return nil, errors.New("cryptoref: not an RSA encryption algorithm")
}

// Sign calls the standard library directly. priv is *rsa.PrivateKey,
// *ecdsa.PrivateKey or ed25519.PrivateKey according to the class. For EdDSA
// "digest" is the message (RFC 8032 pure Ed25519).
func Sign(a Alg, priv any, digest []byte) ([]byte, error) {
	switch a.Class {
	case SigRSAPKCS1:
		return rsa.SignPKCS1v15(nil, priv.(*rsa.PrivateKey), a.Hash, digest)
	case SigRSAPSS:
		// RFC 7518 §3.5: salt length = hash length
		return rsa.SignPSS(Rand, priv.(*rsa.PrivateKey), a.Hash, digest, &rsa.PSSOptions{SaltLength: rsa.PSSSaltLengthEqualsHash})
	case SigECDSA:
		k := priv.(*ecdsa.PrivateKey)
		if k.Curve.Params().Name != a.Curve {
			return nil, errors.New("cryptoref: curve does not match the algorithm")
		}
		return ecdsa.SignASN1(Rand, k, digest)
	case SigEdDSA:
		return ed25519.Sign(priv.(ed25519.PrivateKey), digest), nil
	}
	return nil, errors.New("cryptoref: not a signature algorithm")
}

// Verify calls the standard library directly; pub is *rsa.PublicKey,
// *ecdsa.PublicKey or ed25519.PublicKey.
func Verify(a Alg, pub any, digest, sig []byte) bool {
	switch a.Class {
	case SigRSAPKCS1:
		return rsa.VerifyPKCS1v15(pub.(*rsa.PublicKey), a.Hash, digest, sig) == nil
	case SigRSAPSS:
		return rsa.VerifyPSS(pub.(*rsa.PublicKey), a.Hash, digest, sig, &rsa.PSSOptions{SaltLength: rsa.PSSSaltLengthAuto}) == nil
	case SigECDSA:
		k := pub.(*ecdsa.PublicKey)
		return k.Curve.Params().Name == a.Curve && ecdsa.VerifyASN1(k, digest, sig)
	case SigEdDSA:
		return ed25519.Verify(pub.(ed25519.PublicKey), digest, sig)
	}
	return false
}
