// Package cryptoref is the independent reference the C03 and C17 checks compare
// dapr/kit's crypto package with. It is written from the standards only:
//
//   - RFC 7518 (JWA) §4-§5 and the comments of kit's consts.go for what each
//     algorithm NAME means (key size, IV size, tag size, hash, curve);
//   - RFC 5652 §6.3 for PKCS#7 padding;
//   - NIST SP 800-38A (CBC) and SP 800-38D (GCM) through crypto/cipher;
//   - RFC 8439 and draft-irtf-cfrg-xchacha through golang.org/x/crypto;
//   - RFC 3394 §2.2 (AES key wrap), implemented here from the RFC text and
//     anchored by the vectors of RFC 3394 §4;
//   - RFC 7518 §5.2.2 (AES_CBC_HMAC_SHA2), implemented here from the RFC text
//     and anchored by the vectors of RFC 7518 Appendix B;
//   - RFC 8017 (RSAES-PKCS1-v1_5, RSAES-OAEP, RSASSA-PKCS1-v1_5, RSASSA-PSS),
//     FIPS 186-4 ECDSA with ASN.1 DER signatures, RFC 8032 Ed25519 through the
//     standard library called directly.
//
// Nothing here was derived from kit's implementation.
package cryptoref

import (
	"crypto"
	_ "crypto/sha1" // RSA-OAEP (SHA-1)
	_ "crypto/sha256"
	_ "crypto/sha512"
)

// Class is the family an algorithm name belongs to.
type Class int

const (
	ClassNone   Class = iota
	CBCPad            // AES-CBC with PKCS#7 padding, unauthenticated
	CBCNoPad          // AES-CBC, plaintext must be whole blocks, unauthenticated
	GCM               // AES-GCM, 96-bit IV, 128-bit tag
	CBCHMAC           // RFC 7518 §5.2 AES_CBC_HMAC_SHA2
	KW                // RFC 3394 AES key wrap
	C20P              // RFC 8439 ChaCha20-Poly1305, 96-bit nonce
	XC20P             // XChaCha20-Poly1305, 192-bit nonce
	RSA15             // RSAES-PKCS1-v1_5
	OAEP              // RSAES-OAEP, MGF1 with the same hash
	SigRSAPKCS1       // RSASSA-PKCS1-v1_5
	SigRSAPSS         // RSASSA-PSS, MGF1 with the same hash
	SigECDSA          // ECDSA, ASN.1 DER signature
	SigEdDSA          // Ed25519 (pure)
)

// Alg is what the standards say about an algorithm name.
type Alg struct {
	Name     string
	Class    Class
	KeyLen   int         // symmetric: exact key length in bytes (for CBCHMAC: MAC_KEY_LEN+ENC_KEY_LEN)
	NonceLen int         // symmetric: exact IV/nonce length; 0 = the algorithm takes none
	TagLen   int         // symmetric: exact tag length; 0 = the algorithm produces none
	AAD      bool        // symmetric/OAEP: associated data (label) is authenticated
	Hash     crypto.Hash // CBCHMAC, OAEP, signatures
	Curve    string      // ECDSA: the curve the name fixes (RFC 7518 §3.4)
}

// Symmetric reports whether the name is a symmetric content/key encryption algorithm.
func (a Alg) Symmetric() bool { return a.Class >= CBCPad && a.Class <= XC20P }

// AsymEnc reports whether the name is a public-key encryption algorithm.
func (a Alg) AsymEnc() bool { return a.Class == RSA15 || a.Class == OAEP }

// Signature reports whether the name is a signature algorithm.
func (a Alg) Signature() bool { return a.Class >= SigRSAPKCS1 }

// Authenticated reports whether a symmetric algorithm detects modification.
func (a Alg) Authenticated() bool {
	switch a.Class {
	case GCM, CBCHMAC, KW, C20P, XC20P:
		return true
	}
	return false
}

var table = []Alg{
	{Name: "A128CBC", Class: CBCPad, KeyLen: 16, NonceLen: 16},
	{Name: "A192CBC", Class: CBCPad, KeyLen: 24, NonceLen: 16},
	{Name: "A256CBC", Class: CBCPad, KeyLen: 32, NonceLen: 16},
	{Name: "A128CBC-NOPAD", Class: CBCNoPad, KeyLen: 16, NonceLen: 16},
	{Name: "A192CBC-NOPAD", Class: CBCNoPad, KeyLen: 24, NonceLen: 16},
	{Name: "A256CBC-NOPAD", Class: CBCNoPad, KeyLen: 32, NonceLen: 16},
	{Name: "A128GCM", Class: GCM, KeyLen: 16, NonceLen: 12, TagLen: 16, AAD: true},
	{Name: "A192GCM", Class: GCM, KeyLen: 24, NonceLen: 12, TagLen: 16, AAD: true},
	{Name: "A256GCM", Class: GCM, KeyLen: 32, NonceLen: 12, TagLen: 16, AAD: true},
	// RFC 7518 §5.2.3-§5.2.5
	{Name: "A128CBC-HS256", Class: CBCHMAC, KeyLen: 32, NonceLen: 16, TagLen: 16, AAD: true, Hash: crypto.SHA256},
	{Name: "A192CBC-HS384", Class: CBCHMAC, KeyLen: 48, NonceLen: 16, TagLen: 24, AAD: true, Hash: crypto.SHA384},
	{Name: "A256CBC-HS512", Class: CBCHMAC, KeyLen: 64, NonceLen: 16, TagLen: 32, AAD: true, Hash: crypto.SHA512},
	{Name: "A128KW", Class: KW, KeyLen: 16},
	{Name: "A192KW", Class: KW, KeyLen: 24},
	{Name: "A256KW", Class: KW, KeyLen: 32},
	{Name: "C20P", Class: C20P, KeyLen: 32, NonceLen: 12, TagLen: 16, AAD: true},
	{Name: "C20PKW", Class: C20P, KeyLen: 32, NonceLen: 12, TagLen: 16, AAD: true},
	{Name: "XC20P", Class: XC20P, KeyLen: 32, NonceLen: 24, TagLen: 16, AAD: true},
	{Name: "XC20PKW", Class: XC20P, KeyLen: 32, NonceLen: 24, TagLen: 16, AAD: true},

	{Name: "RSA1_5", Class: RSA15},
	{Name: "RSA-OAEP", Class: OAEP, Hash: crypto.SHA1, AAD: true},
	{Name: "RSA-OAEP-256", Class: OAEP, Hash: crypto.SHA256, AAD: true},
	{Name: "RSA-OAEP-384", Class: OAEP, Hash: crypto.SHA384, AAD: true},
	{Name: "RSA-OAEP-512", Class: OAEP, Hash: crypto.SHA512, AAD: true},

	{Name: "RS256", Class: SigRSAPKCS1, Hash: crypto.SHA256},
	{Name: "RS384", Class: SigRSAPKCS1, Hash: crypto.SHA384},
	{Name: "RS512", Class: SigRSAPKCS1, Hash: crypto.SHA512},
	{Name: "PS256", Class: SigRSAPSS, Hash: crypto.SHA256},
	{Name: "PS384", Class: SigRSAPSS, Hash: crypto.SHA384},
	{Name: "PS512", Class: SigRSAPSS, Hash: crypto.SHA512},
	{Name: "ES256", Class: SigECDSA, Hash: crypto.SHA256, Curve: "P-256"},
	{Name: "ES384", Class: SigECDSA, Hash: crypto.SHA384, Curve: "P-384"},
	{Name: "ES512", Class: SigECDSA, Hash: crypto.SHA512, Curve: "P-521"},
	{Name: "EdDSA", Class: SigEdDSA},
}

// Lookup returns what the standards say about a name; ok is false for a name
// this reference does not implement (which includes the JWA names kit defines
// as constants without supporting them: A*GCMKW, ECDH-ES*, HS*).
func Lookup(name string) (Alg, bool) {
	for _, a := range table {
		if a.Name == name {
			return a, true
		}
	}
	return Alg{Name: name}, false
}

// Implemented lists every name of the table.
func Implemented() []Alg { return append([]Alg(nil), table...) }
