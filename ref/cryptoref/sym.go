package cryptoref

import (
	"crypto/aes"
	"crypto/cipher"
	"errors"
	"strings"

	"golang.org/x/crypto/chacha20poly1305"
)

// Fault is the set of things that are wrong with the inputs of a call, as far
// as the standards are concerned. Several can be wrong at once; which of them
// an implementation reports first is its own business.
type Fault uint

const (
	FaultAlg           Fault = 1 << iota // the name is not an algorithm of the required family
	FaultKey                             // key of the wrong kind or size
	FaultNonce                           // IV / nonce of the wrong size
	FaultTag                             // tag of the wrong size
	FaultPlaintextLen                    // plaintext length the algorithm cannot process
	FaultCiphertextLen                   // ciphertext length the algorithm cannot have produced
)

func (f Fault) String() string {
	if f == 0 {
		return "none"
	}
	var s []string
	for i, n := range []string{"algorithm", "key", "nonce", "tag", "plaintext-length", "ciphertext-length"} {
		if f&(1<<i) != 0 {
			s = append(s, n)
		}
	}
	return strings.Join(s, "+")
}

// Errors of the symmetric reference.
var (
	ErrFault = errors.New("cryptoref: invalid input")
	ErrAuth  = errors.New("cryptoref: message authentication failed")
)

// FaultError carries the fault set.
type FaultError struct{ F Fault }

func (e *FaultError) Error() string { return "cryptoref: wrong " + e.F.String() }
func (e *FaultError) Unwrap() error { return ErrFault }

// EncryptFaults says what is wrong with the sizes handed to a symmetric
// encryption. keyLen < 0 means "not a symmetric key at all".
func EncryptFaults(a Alg, keyLen, nonceLen, ptLen int) Fault {
	var f Fault
	if !a.Symmetric() {
		f |= FaultAlg
		if keyLen < 0 {
			f |= FaultKey
		}
		return f
	}
	if keyLen != a.KeyLen {
		f |= FaultKey
	}
	if a.NonceLen != 0 && nonceLen != a.NonceLen {
		f |= FaultNonce
	}
	switch a.Class {
	case CBCNoPad:
		if ptLen%16 != 0 {
			f |= FaultPlaintextLen
		}
	case KW:
		if ptLen%8 != 0 || ptLen/8 < KWMinBlocks {
			f |= FaultPlaintextLen
		}
	}
	return f
}

// DecryptFaults is the same for decryption (sizes only; authentication and
// padding failures are reported by Decrypt itself).
func DecryptFaults(a Alg, keyLen, nonceLen, ctLen, tagLen int) Fault {
	var f Fault
	if !a.Symmetric() {
		f |= FaultAlg
		if keyLen < 0 {
			f |= FaultKey
		}
		return f
	}
	if keyLen != a.KeyLen {
		f |= FaultKey
	}
	if a.NonceLen != 0 && nonceLen != a.NonceLen {
		f |= FaultNonce
	}
	if a.TagLen != 0 && tagLen != a.TagLen {
		f |= FaultTag
	}
	switch a.Class {
	case CBCPad, CBCNoPad:
		if ctLen%16 != 0 {
			f |= FaultCiphertextLen
		}
	}
	return f
}

func (a Alg) cbcHMACParams() CBCHMACParams {
	return CBCHMACParams{EncKeyLen: a.KeyLen / 2, MacKeyLen: a.KeyLen / 2, TLen: a.TagLen, Hash: a.Hash.New}
}

func (a Alg) aead(key []byte) (cipher.AEAD, error) {
	switch a.Class {
	case GCM:
		b, err := aes.NewCipher(key)
		if err != nil {
			return nil, err
		}
		return cipher.NewGCM(b) // 96-bit nonce, 128-bit tag: SP 800-38D as profiled by RFC 7518 §5.3
	case C20P:
		return chacha20poly1305.New(key)
	case XC20P:
		return chacha20poly1305.NewX(key)
	}
	return nil, errors.New("cryptoref: not an AEAD class")
}

// Encrypt is the reference symmetric encryption. Arguments an algorithm does
// not take (nonce for KW; associated data for CBC and KW) are ignored. Inputs
// are never written to and outputs never share memory with them.
func Encrypt(a Alg, key, nonce, plaintext, aad []byte) (ct, tag []byte, err error) {
	if f := EncryptFaults(a, len(key), len(nonce), len(plaintext)); f != 0 {
		return nil, nil, &FaultError{f}
	}
	plaintext = append([]byte(nil), plaintext...)
	switch a.Class {
	case CBCPad, CBCNoPad:
		b, err := aes.NewCipher(key)
		if err != nil {
			return nil, nil, err
		}
		in := plaintext
		if a.Class == CBCPad {
			in = Pad(plaintext, 16)
		}
		ct = make([]byte, len(in))
		cipher.NewCBCEncrypter(b, nonce).CryptBlocks(ct, in)
		return ct, nil, nil
	case GCM, C20P, XC20P:
		ae, err := a.aead(key)
		if err != nil {
			return nil, nil, err
		}
		out := ae.Seal(nil, nonce, plaintext, aad)
		n := len(out) - a.TagLen
		return append([]byte{}, out[:n]...), append([]byte{}, out[n:]...), nil
	case CBCHMAC:
		return CBCHMACSeal(a.cbcHMACParams(), key, nonce, plaintext, aad)
	case KW:
		ct, err = KWWrap(key, plaintext)
		return ct, nil, err
	}
	return nil, nil, &FaultError{FaultAlg}
}

// Decrypt is the reference symmetric decryption.
func Decrypt(a Alg, key, nonce, ct, tag, aad []byte) ([]byte, error) {
	if f := DecryptFaults(a, len(key), len(nonce), len(ct), len(tag)); f != 0 {
		return nil, &FaultError{f}
	}
	switch a.Class {
	case CBCPad, CBCNoPad:
		b, err := aes.NewCipher(key)
		if err != nil {
			return nil, err
		}
		out := make([]byte, len(ct))
		cipher.NewCBCDecrypter(b, nonce).CryptBlocks(out, ct)
		if a.Class == CBCPad {
			return Unpad(out, 16)
		}
		return out, nil
	case GCM, C20P, XC20P:
		ae, err := a.aead(key)
		if err != nil {
			return nil, err
		}
		in := make([]byte, 0, len(ct)+len(tag))
		in = append(append(in, ct...), tag...)
		out, err := ae.Open(nil, nonce, in, aad)
		if err != nil {
			return nil, ErrAuth
		}
		if out == nil {
			out = []byte{}
		}
		return out, nil
	case CBCHMAC:
		return CBCHMACOpen(a.cbcHMACParams(), key, nonce, ct, tag, aad)
	case KW:
		return KWUnwrap(key, ct)
	}
	return nil, &FaultError{FaultAlg}
}
