package cryptoref

import (
	"bytes"
	"crypto/sha256"
	"crypto/sha512"
	"encoding/hex"
	"hash"
	"testing"
)

func unhex(s string) []byte {
	b, err := hex.DecodeString(s)
	if err != nil {
		panic(err)
	}
	return b
}

// RFC 3394 §4.1 - §4.6.
func TestRFC3394Vectors(t *testing.T) {
	const kek = "000102030405060708090A0B0C0D0E0F101112131415161718191A1B1C1D1E1F"
	const data = "00112233445566778899AABBCCDDEEFF000102030405060708090A0B0C0D0E0F"
	for _, v := range []struct {
		name       string
		kekLen, n  int
		ciphertext string
	}{
		{"4.1", 16, 16, "1FA68B0A8112B447AEF34BD8FB5A7B829D3E862371D2CFE5"},
		{"4.2", 24, 16, "96778B25AE6CA435F92B5B97C050AED2468AB8A17AD84E5D"},
		{"4.3", 32, 16, "64E8C3F9CE0F5BA263E9777905818A2A93C8191E7D6E8AE7"},
		{"4.4", 24, 24, "031D33264E15D33268F24EC260743EDCE1C6C7DDEE725A936BA814915C6762D2"},
		{"4.5", 32, 24, "A8F9BC1612C68B3FF6E6F4FBE30E71E4769C8B80A32CB8958CD5D17D6B254DA1"},
		{"4.6", 32, 32, "28C9F404C4B810F4CBCCB35CFB87F8263F5786E2D80ED326CBC7F0E71A99F43BFB988B9B7A02DD21"},
	} {
		k, p, c := unhex(kek)[:v.kekLen], unhex(data)[:v.n], unhex(v.ciphertext)
		got, err := KWWrap(k, p)
		if err != nil || !bytes.Equal(got, c) {
			t.Errorf("%s wrap: %x %v", v.name, got, err)
		}
		back, err := KWUnwrap(k, c)
		if err != nil || !bytes.Equal(back, p) {
			t.Errorf("%s unwrap: %x %v", v.name, back, err)
		}
		for i := range c {
			m := append([]byte(nil), c...)
			m[i] ^= 0x10
			if _, err := KWUnwrap(k, m); err == nil {
				t.Errorf("%s: mutation at %d accepted", v.name, i)
			}
		}
	}
	if _, err := KWWrap(unhex(kek)[:16], make([]byte, 8)); err == nil {
		t.Error("n=1 accepted")
	}
	if _, err := KWWrap(unhex(kek)[:16], make([]byte, 17)); err == nil {
		t.Error("17 bytes accepted")
	}
}

// RFC 7518 Appendix B.1 - B.3 (identical to draft-mcgrew-aead-aes-cbc-hmac-sha2-05 §5.1, §5.2, §5.4).
func TestRFC7518AppendixB(t *testing.T) {
	const k = "000102030405060708090a0b0c0d0e0f101112131415161718191a1b1c1d1e1f202122232425262728292a2b2c2d2e2f303132333435363738393a3b3c3d3e3f"
	p := unhex("41206369706865722073797374656d206d757374206e6f7420626520726571756972656420746f206265207365637265742c20616e64206974206d7573742062652061626c6520746f2066616c6c20696e746f207468652068616e6473206f662074686520656e656d7920776974686f757420696e636f6e76656e69656e6365")
	iv := unhex("1af38c2dc2b96ffdd86694092341bc04")
	a := unhex("546865207365636f6e64207072696e6369706c65206f662041756775737465204b6572636b686f666673")
	for _, v := range []struct {
		name   string
		params CBCHMACParams
		e, t   string
	}{
		{"B.1 AES_128_CBC_HMAC_SHA_256", CBCHMACParams{16, 16, 16, sha256.New},
			"c80edfa32ddf39d5ef00c0b468834279a2e46a1b8049f792f76bfe54b903a9c9a94ac9b47ad2655c5f10f9aef71427e2fc6f9b3f399a221489f16362c703233609d45ac69864e3321cf82935ac4096c86e133314c54019e8ca7980dfa4b9cf1b384c486f3a54c51078158ee5d79de59fbd34d848b3d69550a67646344427ade54b8851ffb598f7f80074b9473c82e2db",
			"652c3fa36b0a7c5b3219fab3a30bc1c4"},
		{"B.2 AES_192_CBC_HMAC_SHA_384", CBCHMACParams{24, 24, 24, sha512.New384},
			"ea65da6b59e61edb419be62d19712ae5d303eeb50052d0dfd6697f77224c8edb000d279bdc14c1072654bd30944230c657bed4ca0c9f4a8466f22b226d1746214bf8cfc2400add9f5126e479663fc90b3bed787a2f0ffcbf3904be2a641d5c2105bfe591bae23b1d7449e532eef60a9ac8bb6c6b01d35d49787bcd57ef484927f280adc91ac0c4e79c7b11efc60054e3",
			"8490ac0e58949bfe51875d733f93ac2075168039ccc733d7"},
		{"draft-mcgrew §5.3 AES_256_CBC_HMAC_SHA_384", CBCHMACParams{32, 24, 24, sha512.New384},
			"893129b0f4ee9eb18d75eda6f2aaa9f3607c98c4ba0444d34162170d8961884e58f27d4a35a5e3e3234aa99404f327f5c2d78e986e5749858b88bcddc2ba05218f195112d6ad48fa3b1e89aa7f20d596682f10b3648d3bb0c983c3185f59e36d28f647c1c13988de8ea0d821198c150977e28ca768080bc78c35faed69d8c0b7d9f506232198a489a1a6ae03a319fb30",
			"dd131d05ab3467dd056f8e882bad70637f1e9a541d9c23e7"},
		{"B.3 AES_256_CBC_HMAC_SHA_512", CBCHMACParams{32, 32, 32, sha512.New},
			"4affaaadb78c31c5da4b1b590d10ffbd3dd8d5d302423526912da037ecbcc7bd822c301dd67c373bccb584ad3e9279c2e6d12a1374b77f077553df829410446b36ebd97066296ae6427ea75c2e0846a11a09ccf5370dc80bfecbad28c73f09b3a3b75e662a2594410ae496b2e2e6609e31e6e02cc837f053d21f37ff4f51950bbe2638d09dd7a4930930806d0703b1f6",
			"4dd3b4c088a7f45c216839645b2012bf2e6269a8c56a816dbc1b267761955bc5"},
	} {
		key := unhex(k)[:v.params.EncKeyLen+v.params.MacKeyLen]
		e, tag, err := CBCHMACSeal(v.params, key, iv, p, a)
		if err != nil || !bytes.Equal(e, unhex(v.e)) || !bytes.Equal(tag, unhex(v.t)) {
			t.Errorf("%s seal:\n E=%x\n T=%x err=%v", v.name, e, tag, err)
			continue
		}
		back, err := CBCHMACOpen(v.params, key, iv, e, tag, a)
		if err != nil || !bytes.Equal(back, p) {
			t.Errorf("%s open: %v", v.name, err)
		}
		tag[0] ^= 1
		if _, err := CBCHMACOpen(v.params, key, iv, e, tag, a); err == nil {
			t.Errorf("%s: bad tag accepted", v.name)
		}
	}
	var _ func() hash.Hash = sha256.New
}

// RFC 5652 §6.3.
func TestPKCS7(t *testing.T) {
	for n := 0; n <= 48; n++ {
		in := bytes.Repeat([]byte{0xEE}, n)
		out := Pad(in, 16)
		if len(out)%16 != 0 || len(out) <= n || len(out) > n+16 || int(out[len(out)-1]) != len(out)-n {
			t.Fatalf("pad %d -> %x", n, out)
		}
		back, err := Unpad(out, 16)
		if err != nil || !bytes.Equal(back, in) {
			t.Fatalf("unpad %d", n)
		}
	}
	for _, bad := range [][]byte{{}, make([]byte, 16), bytes.Repeat([]byte{17}, 32), append(bytes.Repeat([]byte{1}, 14), 3, 2), make([]byte, 15)} {
		if _, err := Unpad(bad, 16); err == nil {
			t.Errorf("accepted %x", bad)
		}
	}
}

// The table and the generic entry points agree with the vectors too.
func TestTableAgainstVectors(t *testing.T) {
	a, _ := Lookup("A128KW")
	ct, _, err := Encrypt(a, unhex("000102030405060708090A0B0C0D0E0F"), nil, unhex("00112233445566778899AABBCCDDEEFF"), nil)
	if err != nil || !bytes.Equal(ct, unhex("1FA68B0A8112B447AEF34BD8FB5A7B829D3E862371D2CFE5")) {
		t.Fatal("A128KW", err)
	}
	h, _ := Lookup("A256CBC-HS512")
	if p := h.cbcHMACParams(); p.EncKeyLen != 32 || p.MacKeyLen != 32 || p.TLen != 32 {
		t.Fatal(p)
	}
	if len(Implemented()) != 34 {
		t.Fatal(len(Implemented()))
	}
}
