// Package quietlog is a no-op implementation of kit's logger.Logger for harnesses.
package quietlog

import (
	"io"

	"github.com/dapr/kit/logger"
)

// L discards everything. Fatal does not exit.
type L struct{}

func New() logger.Logger { return L{} }

func (L) EnableJSONOutput(bool)                     {}
func (L) SetAppID(string)                           {}
func (L) SetOutputLevel(logger.LogLevel)            {}
func (L) SetOutput(io.Writer)                       {}
func (L) IsOutputLevelEnabled(logger.LogLevel) bool { return false }
func (L) WithLogType(string) logger.Logger          { return L{} }
func (L) WithFields(map[string]any) logger.Logger   { return L{} }
func (L) Info(...any)                               {}
func (L) Infof(string, ...any)                      {}
func (L) Debug(...any)                              {}
func (L) Debugf(string, ...any)                     {}
func (L) Warn(...any)                               {}
func (L) Warnf(string, ...any)                      {}
func (L) Error(...any)                              {}
func (L) Errorf(string, ...any)                     {}
func (L) Fatal(...any)                              {}
func (L) Fatalf(string, ...any)                     {}
