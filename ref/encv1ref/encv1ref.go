// Package encv1ref is an independent implementation of the Dapr encryption
// scheme "dapr.io/enc/v1", written from the published specification
// (schemes/enc/v1/README.md in dapr/kit) only. It is deliberately boring:
// whole documents in memory, no streaming, no pooling, no sharing of code with
// the implementation under test. HKDF (RFC 5869) and AES key wrap (RFC 3394)
// are written out here from their RFCs; AES-GCM comes from the Go standard
// library and ChaCha20-Poly1305 (RFC 8439) from golang.org/x/crypto.
//
// Reading of the two places where the README leaves room:
//   - "Segments must never be empty, unless the entire file is empty": for the
//     empty message the payload is empty (no segment, no tag). The property
//     statement C01 says the same ("no segment at all for an empty message").
//   - The README gives the manifest as a Go struct; []byte fields therefore
//     use Go's JSON encoding of byte slices, i.e. standard padded base64
//     strings (as in the README's example header), and the two algorithm
//     fields are JSON numbers.
package encv1ref

import (
	"bytes"
	"crypto/aes"
	"crypto/cipher"
	"crypto/hmac"
	"crypto/sha256"
	"encoding/base64"
	"encoding/binary"
	"encoding/json"
	"errors"
	"fmt"
	"io"
	"strconv"

	"golang.org/x/crypto/chacha20poly1305"
)

const (
	SchemeLine     = "dapr.io/enc/v1"
	SegmentSize    = 65536 // "segments of 64KB (65,536 bytes) each"
	TagSize        = 16    // "Tag size is 16 bytes for AES-GCM and ChaCha20-Poly1305"
	NoncePrefixLen = 7
	FileKeyLen     = 32

	CipherAESGCM           = 1 // 0x01 = AES-GCM
	CipherChaCha20Poly1305 = 2 // 0x02 = ChaCha20-Poly1305

	KWA256KW     = 1 // 0x01 = A256KW
	KWA128CBC    = 2 // 0x02 = A128CBC-NOPAD
	KWA192CBC    = 3 // 0x03 = A192CBC-NOPAD
	KWA256CBC    = 4 // 0x04 = A256CBC-NOPAD
	KWRSAOAEP256 = 5 // 0x05 = RSA-OAEP-256
)

// KWName is the README's name for a key-wrapping algorithm id.
func KWName(id int) string {
	switch id {
	case KWA256KW:
		return "A256KW"
	case KWA128CBC:
		return "A128CBC-NOPAD"
	case KWA192CBC:
		return "A192CBC-NOPAD"
	case KWA256CBC:
		return "A256CBC-NOPAD"
	case KWRSAOAEP256:
		return "RSA-OAEP-256"
	}
	return ""
}

var (
	ErrHeader    = errors.New("encv1ref: malformed header")
	ErrManifest  = errors.New("encv1ref: invalid manifest")
	ErrNoKeyName = errors.New("encv1ref: no key name in the manifest and none supplied")
	ErrUnwrap    = errors.New("encv1ref: file key could not be unwrapped")
	ErrMAC       = errors.New("encv1ref: header MAC mismatch")
	ErrSegment   = errors.New("encv1ref: segment failed authentication")
	ErrPayload   = errors.New("encv1ref: malformed payload")
)

// ---------------------------------------------------------------- RFC 5869

// HKDF is HKDF-SHA-256 (RFC 5869 §2.2 extract, §2.3 expand).
func HKDF(ikm, salt, info []byte, n int) []byte {
	if len(salt) == 0 {
		salt = make([]byte, sha256.Size) // "if not provided, it is set to a string of HashLen zeros"
	}
	ext := hmac.New(sha256.New, salt)
	ext.Write(ikm)
	prk := ext.Sum(nil)
	var okm, t []byte
	for i := byte(1); len(okm) < n; i++ {
		h := hmac.New(sha256.New, prk)
		h.Write(t)
		h.Write(info)
		h.Write([]byte{i})
		t = h.Sum(nil)
		okm = append(okm, t...)
	}
	return okm[:n]
}

// HeaderKey: mac-key = HKDF-SHA-256(ikm = file key, salt = empty, info = "header").
func HeaderKey(fileKey []byte) []byte { return HKDF(fileKey, nil, []byte("header"), 32) }

// PayloadKey: payload-key = HKDF-SHA-256(ikm = file key, salt = nonce prefix, info = "payload").
func PayloadKey(fileKey, noncePrefix []byte) []byte {
	return HKDF(fileKey, noncePrefix, []byte("payload"), 32)
}

// HeaderMAC is HMAC-SHA-256 over the first two header lines including the
// trailing newline of the second.
func HeaderMAC(fileKey, firstTwoLines []byte) []byte {
	h := hmac.New(sha256.New, HeaderKey(fileKey))
	h.Write(firstTwoLines)
	return h.Sum(nil)
}

// Nonce is nonce_prefix || i (BE32) || last_segment.
func Nonce(prefix []byte, i uint32, last bool) []byte {
	n := make([]byte, 0, 12)
	n = append(n, prefix...)
	n = binary.BigEndian.AppendUint32(n, i)
	if last {
		n = append(n, 0x01)
	} else {
		n = append(n, 0x00)
	}
	return n
}

func aead(cph int, key []byte) (cipher.AEAD, error) {
	switch cph {
	case CipherAESGCM:
		b, err := aes.NewCipher(key)
		if err != nil {
			return nil, err
		}
		return cipher.NewGCM(b)
	case CipherChaCha20Poly1305:
		return chacha20poly1305.New(key)
	}
	return nil, fmt.Errorf("%w: cipher id %d", ErrManifest, cph)
}

// ---------------------------------------------------------------- manifest

// Manifest is the decoded second header line.
type Manifest struct {
	HasKeyName  bool
	KeyName     string
	KW          int
	WFK         []byte
	Cipher      int
	NoncePrefix []byte
	Fields      []string // member names in document order
}

// DefaultFieldOrder is the order of the README's struct.
var DefaultFieldOrder = []string{"k", "kw", "wfk", "cph", "np"}

func jsonString(s string) string {
	var b bytes.Buffer
	e := json.NewEncoder(&b)
	e.SetEscapeHTML(false)
	e.Encode(s)
	return string(bytes.TrimRight(b.Bytes(), "\n"))
}

// EncodeManifest writes the compact JSON object with the members in the given
// order ("k" is left out when the manifest has no key name).
func EncodeManifest(m *Manifest, order []string) ([]byte, error) {
	if order == nil {
		order = DefaultFieldOrder
	}
	seen := map[string]bool{}
	var b bytes.Buffer
	b.WriteByte('{')
	first := true
	for _, f := range order {
		if seen[f] {
			return nil, fmt.Errorf("duplicate field %q in order", f)
		}
		seen[f] = true
		var v string
		switch f {
		case "k":
			if !m.HasKeyName {
				continue
			}
			v = jsonString(m.KeyName)
		case "kw":
			v = strconv.Itoa(m.KW)
		case "wfk":
			v = `"` + base64.StdEncoding.EncodeToString(m.WFK) + `"`
		case "cph":
			v = strconv.Itoa(m.Cipher)
		case "np":
			v = `"` + base64.StdEncoding.EncodeToString(m.NoncePrefix) + `"`
		default:
			return nil, fmt.Errorf("unknown field %q", f)
		}
		if !first {
			b.WriteByte(',')
		}
		first = false
		b.WriteString(jsonString(f))
		b.WriteByte(':')
		b.WriteString(v)
	}
	for _, f := range []string{"kw", "wfk", "cph", "np"} {
		if !seen[f] {
			return nil, fmt.Errorf("field %q missing from order", f)
		}
	}
	if m.HasKeyName && !seen["k"] {
		return nil, errors.New(`field "k" missing from order`)
	}
	b.WriteByte('}')
	return b.Bytes(), nil
}

// member is one top-level member of the manifest object.
type member struct {
	name string
	val  any // string, json.Number, or something else
}

func manifestMembers(raw []byte) ([]member, error) {
	dec := json.NewDecoder(bytes.NewReader(raw))
	dec.UseNumber()
	tok, err := dec.Token()
	if err != nil {
		return nil, err
	}
	if d, ok := tok.(json.Delim); !ok || d != '{' {
		return nil, errors.New("manifest is not a JSON object")
	}
	var out []member
	for dec.More() {
		kt, err := dec.Token()
		if err != nil {
			return nil, err
		}
		name, ok := kt.(string)
		if !ok {
			return nil, errors.New("member name is not a string")
		}
		var v any
		if err := dec.Decode(&v); err != nil {
			return nil, err
		}
		out = append(out, member{name, v})
	}
	if _, err := dec.Token(); err != nil { // closing brace
		return nil, err
	}
	if _, err := dec.Token(); err != io.EOF {
		return nil, errors.New("data after the manifest object")
	}
	return out, nil
}

func intMember(v any) (int, bool) {
	n, ok := v.(json.Number)
	if !ok {
		return 0, false
	}
	i, err := strconv.Atoi(n.String())
	if err != nil {
		return 0, false
	}
	return i, true
}

func b64Member(v any) ([]byte, bool) {
	s, ok := v.(string)
	if !ok {
		return nil, false
	}
	b, err := base64.StdEncoding.Strict().DecodeString(s)
	if err != nil {
		return nil, false
	}
	return b, true
}

// ParseManifest decodes the manifest the way a reader of the README would:
// a JSON object whose known members have the documented types; unknown members
// are ignored; the member order is free. Later duplicates win.
func ParseManifest(raw []byte) (*Manifest, error) {
	ms, err := manifestMembers(raw)
	if err != nil {
		return nil, fmt.Errorf("%w: %v", ErrManifest, err)
	}
	m := &Manifest{}
	var haveKW, haveWFK, haveCph, haveNP bool
	for _, x := range ms {
		m.Fields = append(m.Fields, x.name)
		ok := true
		switch x.name {
		case "k":
			var s string
			s, ok = x.val.(string)
			m.KeyName, m.HasKeyName = s, ok && s != ""
		case "kw":
			m.KW, ok = intMember(x.val)
			haveKW = ok
		case "wfk":
			m.WFK, ok = b64Member(x.val)
			haveWFK = ok
		case "cph":
			m.Cipher, ok = intMember(x.val)
			haveCph = ok
		case "np":
			m.NoncePrefix, ok = b64Member(x.val)
			haveNP = ok
		}
		if !ok {
			return nil, fmt.Errorf("%w: member %q has the wrong type", ErrManifest, x.name)
		}
	}
	switch {
	case !haveKW || KWName(m.KW) == "":
		return nil, fmt.Errorf("%w: kw", ErrManifest)
	case !haveWFK || len(m.WFK) == 0:
		return nil, fmt.Errorf("%w: wfk", ErrManifest)
	case !haveCph || (m.Cipher != CipherAESGCM && m.Cipher != CipherChaCha20Poly1305):
		return nil, fmt.Errorf("%w: cph", ErrManifest)
	case !haveNP || len(m.NoncePrefix) != NoncePrefixLen:
		return nil, fmt.Errorf("%w: np", ErrManifest)
	}
	return m, nil
}

// ---------------------------------------------------------------- header

// Header is the three-line header split out of a document.
type Header struct {
	Scheme        []byte // line 1 without its newline
	ManifestRaw   []byte // line 2 without its newline
	MACLine       []byte // line 3 without its newline
	Signed        []byte // lines 1 and 2 including the newline that ends line 2
	PayloadOffset int    // offset of the first payload byte
}

// SplitHeader cuts the three newline-terminated header items off a document.
func SplitHeader(doc []byte) (*Header, error) {
	h := &Header{}
	pos := 0
	var lines [3][]byte
	for i := 0; i < 3; i++ {
		j := bytes.IndexByte(doc[pos:], '\n')
		if j < 0 {
			return nil, fmt.Errorf("%w: header item %d is not terminated by a line feed", ErrHeader, i+1)
		}
		lines[i] = doc[pos : pos+j]
		pos += j + 1
		if i == 1 {
			h.Signed = doc[:pos]
		}
	}
	h.Scheme, h.ManifestRaw, h.MACLine, h.PayloadOffset = lines[0], lines[1], lines[2], pos
	if string(h.Scheme) != SchemeLine {
		return nil, fmt.Errorf("%w: scheme line %q", ErrHeader, h.Scheme)
	}
	return h, nil
}

// SplitSegments cuts the payload into encrypted segments: full ones of
// SegmentSize+TagSize bytes, the last one possibly shorter. An empty payload
// has no segments.
func SplitSegments(payload []byte) [][]byte {
	var segs [][]byte
	for len(payload) > 0 {
		n := SegmentSize + TagSize
		if n > len(payload) {
			n = len(payload)
		}
		segs = append(segs, payload[:n])
		payload = payload[n:]
	}
	return segs
}

// PayloadLen is the payload size the README implies for a plaintext length.
func PayloadLen(plain int) int {
	segs := (plain + SegmentSize - 1) / SegmentSize
	return plain + TagSize*segs
}

// ---------------------------------------------------------------- encrypt

// EncryptParams is everything that determines a document.
type EncryptParams struct {
	FileKey     []byte // 32 bytes
	NoncePrefix []byte // 7 bytes
	Cipher      int
	KW          int
	WFK         []byte // the wrapped file key, produced by the caller
	KeyName     string
	OmitKeyName bool
	FieldOrder  []string // nil = README struct order
}

// SealSegments encrypts the plaintext into the binary payload.
func SealSegments(plaintext, fileKey, noncePrefix []byte, cph int) ([]byte, error) {
	a, err := aead(cph, PayloadKey(fileKey, noncePrefix))
	if err != nil {
		return nil, err
	}
	var out []byte
	nseg := (len(plaintext) + SegmentSize - 1) / SegmentSize
	for i := 0; i < nseg; i++ {
		lo, hi := i*SegmentSize, (i+1)*SegmentSize
		if hi > len(plaintext) {
			hi = len(plaintext)
		}
		out = a.Seal(out, Nonce(noncePrefix, uint32(i), i == nseg-1), plaintext[lo:hi], nil)
	}
	return out, nil
}

// SealOne seals a single segment with an explicit sequence number.
func SealOne(plain, fileKey, noncePrefix []byte, cph int, i uint32, last bool) ([]byte, error) {
	a, err := aead(cph, PayloadKey(fileKey, noncePrefix))
	if err != nil {
		return nil, err
	}
	return a.Seal(nil, Nonce(noncePrefix, i, last), plain, nil), nil
}

// NewAEAD is the segment cipher for a file key and nonce prefix (for callers
// that stream segments instead of holding a document in memory).
func NewAEAD(fileKey, noncePrefix []byte, cph int) (cipher.AEAD, error) {
	return aead(cph, PayloadKey(fileKey, noncePrefix))
}

// BuildHeader returns the three header lines for a manifest line.
func BuildHeader(fileKey, manifest []byte) []byte {
	var b bytes.Buffer
	b.WriteString(SchemeLine)
	b.WriteByte('\n')
	b.Write(manifest)
	b.WriteByte('\n')
	mac := HeaderMAC(fileKey, b.Bytes())
	b.WriteString(base64.StdEncoding.EncodeToString(mac))
	b.WriteByte('\n')
	return b.Bytes()
}

// Encrypt produces a complete document.
func Encrypt(plaintext []byte, p EncryptParams) ([]byte, error) {
	if len(p.FileKey) != FileKeyLen || len(p.NoncePrefix) != NoncePrefixLen {
		return nil, errors.New("encv1ref: file key must be 32 bytes and nonce prefix 7 bytes")
	}
	m := &Manifest{HasKeyName: !p.OmitKeyName && p.KeyName != "", KeyName: p.KeyName, KW: p.KW, WFK: p.WFK, Cipher: p.Cipher, NoncePrefix: p.NoncePrefix}
	mj, err := EncodeManifest(m, p.FieldOrder)
	if err != nil {
		return nil, err
	}
	payload, err := SealSegments(plaintext, p.FileKey, p.NoncePrefix, p.Cipher)
	if err != nil {
		return nil, err
	}
	return append(BuildHeader(p.FileKey, mj), payload...), nil
}

// ---------------------------------------------------------------- decrypt

// UnwrapFunc recovers the file key from the wrapped file key.
type UnwrapFunc func(wfk []byte, kw int, keyName string) ([]byte, error)

// OpenSegments decrypts a payload; it returns the plaintext of the segments
// that authenticated before the first failure, and the failure.
func OpenSegments(payload, fileKey, noncePrefix []byte, cph int) ([]byte, error) {
	a, err := aead(cph, PayloadKey(fileKey, noncePrefix))
	if err != nil {
		return nil, err
	}
	segs := SplitSegments(payload)
	var out []byte
	for i, s := range segs {
		if len(s) <= TagSize {
			return out, fmt.Errorf("%w: segment %d is empty or shorter than a tag", ErrPayload, i)
		}
		pt, err := a.Open(nil, Nonce(noncePrefix, uint32(i), i == len(segs)-1), s, nil)
		if err != nil {
			return out, fmt.Errorf("%w: segment %d", ErrSegment, i)
		}
		out = append(out, pt...)
	}
	return out, nil
}

// Decrypt opens a document. keyName, when not empty, overrides the manifest's.
func Decrypt(doc []byte, keyName string, unwrap UnwrapFunc) ([]byte, error) {
	h, err := SplitHeader(doc)
	if err != nil {
		return nil, err
	}
	m, err := ParseManifest(h.ManifestRaw)
	if err != nil {
		return nil, err
	}
	if keyName == "" {
		keyName = m.KeyName
	}
	if keyName == "" {
		return nil, ErrNoKeyName
	}
	fk, err := unwrap(m.WFK, m.KW, keyName)
	if err != nil || len(fk) != FileKeyLen {
		return nil, fmt.Errorf("%w: %v", ErrUnwrap, err)
	}
	mac, err := base64.StdEncoding.DecodeString(string(h.MACLine))
	if err != nil {
		return nil, fmt.Errorf("%w: MAC line is not base64", ErrHeader)
	}
	if !hmac.Equal(mac, HeaderMAC(fk, h.Signed)) {
		return nil, ErrMAC
	}
	return OpenSegments(doc[h.PayloadOffset:], fk, m.NoncePrefix, m.Cipher)
}

// ---------------------------------------------------------------- conformance

// Expect says what a conforming writer must have produced.
type Expect struct {
	PlainLen int
	Cipher   int
	KW       int
	KeyName  string // "" = the key name must be absent
	WFKLen   int    // 0 = not checked
}

// Departure is one way in which a document departs from the README's layout.
type Departure struct {
	Item string // which part of the layout: "header", "manifest-json", "manifest-compact", "member-<name>", "mac-line", "payload-length"
	Msg  string
}

func (d Departure) String() string { return d.Item + ": " + d.Msg }

// Conformance lists every departure of a document from the layout the README
// prescribes for a writer. It needs no key.
func Conformance(doc []byte, e Expect) []Departure {
	var bad []Departure
	add := func(item, f string, a ...any) { bad = append(bad, Departure{item, fmt.Sprintf(f, a...)}) }
	h, err := SplitHeader(doc)
	if err != nil {
		return []Departure{{"header", err.Error()}}
	}
	raw := h.ManifestRaw
	var compact bytes.Buffer
	if err := json.Compact(&compact, raw); err != nil {
		add("manifest-json", "manifest is not valid JSON: %v", err)
		return bad
	}
	if !bytes.Equal(compact.Bytes(), raw) {
		add("manifest-compact", "manifest is not compact JSON (insignificant whitespace present)")
	}
	ms, err := manifestMembers(raw)
	if err != nil {
		add("manifest-json", "%v", err)
		return bad
	}
	seen := map[string]any{}
	for _, x := range ms {
		if _, dup := seen[x.name]; dup {
			add("member-"+x.name, "appears twice")
		}
		seen[x.name] = x.val
		switch x.name {
		case "k", "kw", "wfk", "cph", "np":
		default:
			add("member-undocumented", "manifest has an undocumented member %q", x.name)
		}
	}
	for _, f := range []string{"kw", "wfk", "cph", "np"} {
		if _, ok := seen[f]; !ok {
			add("member-"+f, "is missing")
		}
	}
	if v, ok := seen["k"]; ok {
		s, isStr := v.(string)
		switch {
		case !isStr:
			add("member-k", "is not a JSON string")
		case e.KeyName == "":
			add("member-k", "is present (%q) although the key name was to be omitted", s)
		case s != e.KeyName:
			add("member-k", "is %q, want %q", s, e.KeyName)
		}
	} else if e.KeyName != "" {
		add("member-k", "is absent, want %q", e.KeyName)
	}
	if v, ok := seen["kw"]; ok {
		if id, isInt := intMember(v); !isInt {
			add("member-kw", "is not a JSON integer: %v", v)
		} else if id != e.KW {
			add("member-kw", "is %d, want %d (%s)", id, e.KW, KWName(e.KW))
		}
	}
	if v, ok := seen["cph"]; ok {
		if id, isInt := intMember(v); !isInt {
			add("member-cph", "is not a JSON integer: %v", v)
		} else if id != e.Cipher {
			add("member-cph", "is %d, want %d", id, e.Cipher)
		}
	}
	if v, ok := seen["wfk"]; ok {
		if b, isB64 := b64Member(v); !isB64 {
			add("member-wfk", "is not a padded standard-base64 string")
		} else if len(b) == 0 {
			add("member-wfk", "is empty")
		} else if e.WFKLen != 0 && len(b) != e.WFKLen {
			add("member-wfk", "is %d bytes, want %d", len(b), e.WFKLen)
		}
	}
	if v, ok := seen["np"]; ok {
		if b, isB64 := b64Member(v); !isB64 {
			add("member-np", "is not a padded standard-base64 string")
		} else if len(b) != NoncePrefixLen {
			add("member-np", "is %d bytes, want 7", len(b))
		}
	}
	if mac, err := base64.StdEncoding.Strict().DecodeString(string(h.MACLine)); err != nil {
		add("mac-line", "is not padded standard base64: %v", err)
	} else if len(mac) != sha256.Size {
		add("mac-line", "MAC is %d bytes, want 32", len(mac))
	}
	payload := len(doc) - h.PayloadOffset
	if want := PayloadLen(e.PlainLen); payload != want {
		add("payload-length", "payload is %d bytes, want %d for a %d-byte plaintext", payload, want, e.PlainLen)
	}
	return bad
}

// ---------------------------------------------------------------- RFC 3394

var kwIV = []byte{0xA6, 0xA6, 0xA6, 0xA6, 0xA6, 0xA6, 0xA6, 0xA6}

// AESKWWrap is the key wrap of RFC 3394 §2.2.1 (index-based variant).
func AESKWWrap(kek, plain []byte) ([]byte, error) {
	if len(plain)%8 != 0 || len(plain) < 16 {
		return nil, errors.New("aeskw: key data must be a multiple of 8 bytes, at least 16")
	}
	c, err := aes.NewCipher(kek)
	if err != nil {
		return nil, err
	}
	n := len(plain) / 8
	a := append([]byte{}, kwIV...)
	r := append([]byte{}, plain...)
	b := make([]byte, 16)
	for j := 0; j < 6; j++ {
		for i := 1; i <= n; i++ {
			copy(b, a)
			copy(b[8:], r[(i-1)*8:i*8])
			c.Encrypt(b, b)
			t := uint64(n*j + i)
			copy(a, b[:8])
			for k := 0; k < 8; k++ {
				a[7-k] ^= byte(t >> (8 * k))
			}
			copy(r[(i-1)*8:], b[8:])
		}
	}
	return append(a, r...), nil
}

// AESKWUnwrap is RFC 3394 §2.2.2 with the §2.2.3 integrity check.
func AESKWUnwrap(kek, wrapped []byte) ([]byte, error) {
	if len(wrapped)%8 != 0 || len(wrapped) < 24 {
		return nil, errors.New("aeskw: wrapped key has an impossible length")
	}
	c, err := aes.NewCipher(kek)
	if err != nil {
		return nil, err
	}
	n := len(wrapped)/8 - 1
	a := append([]byte{}, wrapped[:8]...)
	r := append([]byte{}, wrapped[8:]...)
	b := make([]byte, 16)
	for j := 5; j >= 0; j-- {
		for i := n; i >= 1; i-- {
			t := uint64(n*j + i)
			copy(b, a)
			for k := 0; k < 8; k++ {
				b[7-k] ^= byte(t >> (8 * k))
			}
			copy(b[8:], r[(i-1)*8:i*8])
			c.Decrypt(b, b)
			copy(a, b[:8])
			copy(r[(i-1)*8:], b[8:])
		}
	}
	if !bytes.Equal(a, kwIV) {
		return nil, errors.New("aeskw: integrity check failed")
	}
	return r, nil
}
