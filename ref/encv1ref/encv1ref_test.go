package encv1ref

import (
	"bytes"
	"encoding/hex"
	"os"
	"path/filepath"
	"testing"
)

func unhex(s string) []byte { b, _ := hex.DecodeString(s); return b }

// RFC 5869 appendix A.1 and A.3 (SHA-256).
func TestHKDFVectors(t *testing.T) {
	got := HKDF(unhex("0b0b0b0b0b0b0b0b0b0b0b0b0b0b0b0b0b0b0b0b0b0b"), unhex("000102030405060708090a0b0c"), unhex("f0f1f2f3f4f5f6f7f8f9"), 42)
	if hex.EncodeToString(got) != "3cb25f25faacd57a90434f64d0362f2a2d2d0a90cf1a5a4c5db02d56ecc4c5bf34007208d5b887185865" {
		t.Fatalf("A.1: %x", got)
	}
	got = HKDF(unhex("0b0b0b0b0b0b0b0b0b0b0b0b0b0b0b0b0b0b0b0b0b0b"), nil, nil, 42)
	if hex.EncodeToString(got) != "8da4e775a563c18f715f802a063c5a31b8a11f5c5ee1879ec3454e5f3c738d2d9d201395faa4b61a96c8" {
		t.Fatalf("A.3: %x", got)
	}
}

// RFC 3394 §4.6: 256 bits of key data with a 256-bit KEK.
func TestAESKWVector(t *testing.T) {
	kek := unhex("000102030405060708090A0B0C0D0E0F101112131415161718191A1B1C1D1E1F")
	data := unhex("00112233445566778899AABBCCDDEEFF000102030405060708090A0B0C0D0E0F")
	want := "28c9f404c4b810f4cbccb35cfb87f8263f5786e2d80ed326cbc7f0e71a99f43bfb988b9b7a02dd21"
	w, err := AESKWWrap(kek, data)
	if err != nil || hex.EncodeToString(w) != want {
		t.Fatalf("wrap: %x %v", w, err)
	}
	u, err := AESKWUnwrap(kek, w)
	if err != nil || !bytes.Equal(u, data) {
		t.Fatalf("unwrap: %x %v", u, err)
	}
	w[3] ^= 1
	if _, err := AESKWUnwrap(kek, w); err == nil {
		t.Fatal("tampered wrap accepted")
	}
}

// The example header printed in the README: the manifest line must parse and
// re-encode to itself. (The example's MAC cannot be anchored: the key that
// wrapped its file key is not published; with wfk taken as the file key the
// MAC differs, which only says the example was not made with the identity wrap.)
func TestREADMEExampleHeader(t *testing.T) {
	manifest := `{"k":"mykey","kw":1,"wfk":"hGYjwDpWEXEymSTFZ95zgX8krElb3Gqyls67R8zJA3k=","cph":1,"np":"Y3J5cHRvIQ=="}`
	doc := "dapr.io/enc/v1\n" + manifest + "\npBDKLrhAWL7IAvDKBV/v7lmbTG6AEZbf3srUN0Pnn30=\n"
	h, err := SplitHeader([]byte(doc))
	if err != nil || h.PayloadOffset != len(doc) {
		t.Fatal(err)
	}
	m, err := ParseManifest(h.ManifestRaw)
	if err != nil {
		t.Fatal(err)
	}
	if string(m.NoncePrefix) != "crypto!" || m.KW != 1 || m.Cipher != 1 || m.KeyName != "mykey" || len(m.WFK) != 32 {
		t.Fatalf("%+v", m)
	}
	re, _ := EncodeManifest(m, nil)
	if string(re) != manifest {
		t.Fatalf("re-encoded manifest differs: %s", re)
	}
	if bad := Conformance([]byte(doc), Expect{PlainLen: 0, Cipher: 1, KW: 1, KeyName: "mykey", WFKLen: 32}); len(bad) > 0 {
		t.Fatalf("README example judged non-conforming: %v", bad)
	}
}

// kit's stored documents (schemes/enc/v1/testdata): written by the
// implementation under test at some earlier time with the identity key wrap.
func TestStoredVectors(t *testing.T) {
	dir := "/repo/schemes/enc/v1/testdata"
	if _, err := os.Stat(dir); err != nil {
		t.Skip("no stored vectors")
	}
	rep := func(b []byte, n int) []byte { return bytes.Repeat(b, n) }
	want := map[string][]byte{
		"single-segment.enc":             []byte("hello world"),
		"single-segment-no-key-name.enc": []byte("hello world"),
		"multi-segment.enc":              rep([]byte{1, 2, 3, 4, 5, 6, 7, 8, 9, 0}, 12<<10),
		"one-full-segment.enc":           rep([]byte{1, 2, 3, 4, 5, 6, 7, 8}, 8<<10),
		"two-full-segments.enc":          rep([]byte{1, 2, 3, 4, 5, 6, 7, 8}, 16<<10),
		"large-file.enc":                 rep([]byte{1, 2, 3, 4, 5, 6, 7, 8, 9, 0}, 30<<10),
		"empty-message.enc":              {},
	}
	identity := func(wfk []byte, kw int, name string) ([]byte, error) { return wfk, nil }
	for name, plain := range want {
		doc, err := os.ReadFile(filepath.Join(dir, name))
		if err != nil {
			t.Fatal(err)
		}
		got, err := Decrypt(doc, "mykey", identity)
		if err != nil {
			t.Errorf("%s: %v", name, err)
			continue
		}
		if !bytes.Equal(got, plain) {
			t.Errorf("%s: plaintext differs (%d vs %d bytes)", name, len(got), len(plain))
		}
		h, _ := SplitHeader(doc)
		m, _ := ParseManifest(h.ManifestRaw)
		kn := m.KeyName
		if bad := Conformance(doc, Expect{PlainLen: len(plain), Cipher: m.Cipher, KW: m.KW, KeyName: kn, WFKLen: 32}); len(bad) > 0 {
			t.Errorf("%s: %v", name, bad)
		}
		// re-encrypting with the same key material reproduces the document bit for bit
		re, err := Encrypt(plain, EncryptParams{FileKey: m.WFK, NoncePrefix: m.NoncePrefix, Cipher: m.Cipher, KW: m.KW, WFK: m.WFK, KeyName: kn, OmitKeyName: !m.HasKeyName, FieldOrder: m.Fields})
		if err != nil || !bytes.Equal(re, doc) {
			t.Errorf("%s: reference encryption does not reproduce the stored document (%v)", name, err)
		}
	}
}

func TestRoundTripBothCiphersOrders(t *testing.T) {
	fk := bytes.Repeat([]byte{7}, 32)
	np := []byte{1, 2, 3, 4, 5, 6, 7}
	for _, cph := range []int{CipherAESGCM, CipherChaCha20Poly1305} {
		for _, n := range []int{0, 1, 65535, 65536, 65537, 131072, 131077} {
			p := make([]byte, n)
			for i := range p {
				p[i] = byte(i * 31)
			}
			doc, err := Encrypt(p, EncryptParams{FileKey: fk, NoncePrefix: np, Cipher: cph, KW: KWA256KW, WFK: fk, KeyName: "x", FieldOrder: []string{"np", "cph", "wfk", "kw", "k"}})
			if err != nil {
				t.Fatal(err)
			}
			got, err := Decrypt(doc, "", func(w []byte, kw int, n string) ([]byte, error) { return w, nil })
			if err != nil || !bytes.Equal(got, p) {
				t.Fatalf("cph %d len %d: %v", cph, n, err)
			}
			if bad := Conformance(doc, Expect{PlainLen: n, Cipher: cph, KW: KWA256KW, KeyName: "x"}); len(bad) > 0 {
				t.Fatalf("%v", bad)
			}
		}
	}
}
