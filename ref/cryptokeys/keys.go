package cryptokeys

import (
	"crypto/ecdsa"
	"crypto/ed25519"
	"crypto/rsa"
	"crypto/sha256"
	"crypto/x509"
	"encoding/binary"
	"encoding/pem"
	"fmt"
	"os"
	"strconv"
	"sync"

	"github.com/lestrrat-go/jwx/v2/jwk"
)

// Seed is VERIF_SEED (default 0); it only varies the derived byte strings.
func Seed() int {
	n, _ := strconv.Atoi(os.Getenv("VERIF_SEED"))
	return n
}

// Bytes returns n deterministic bytes for a label: SHA-256(label || seed ||
// counter) in counter mode. Distinct labels give unrelated strings; the same
// label with a larger n extends the shorter string (so a 16-byte key is the
// prefix of the 32-byte key of the same label).
func Bytes(label string, n int) []byte {
	out := make([]byte, 0, n+32)
	var ctr [8]byte
	for i := uint64(0); len(out) < n; i++ {
		binary.BigEndian.PutUint64(ctr[:], i)
		h := sha256.New()
		h.Write([]byte(label))
		h.Write([]byte{0})
		h.Write([]byte(strconv.Itoa(Seed())))
		h.Write([]byte{0})
		h.Write(ctr[:])
		out = h.Sum(out)
	}
	return out[:n:n]
}

// SymSizes are the symmetric key sizes of the C03 space: 0..72 step 8 plus
// {1, 15, 17, 33}. (Size 0 cannot be represented as a jwk.Key - jwx refuses an
// empty octet sequence - and is therefore only reachable through the
// constructors of aescbcaead, which take raw bytes.)
var SymSizes = []int{0, 1, 8, 15, 16, 17, 24, 32, 33, 40, 48, 56, 64, 72}

// Kind names a key kind of the C03 space.
type Kind string

const (
	Oct        Kind = "oct"
	RSAPriv    Kind = "RSA-2048/private"
	RSAPub     Kind = "RSA-2048/public"
	P256Priv   Kind = "P-256/private"
	P256Pub    Kind = "P-256/public"
	P384Priv   Kind = "P-384/private"
	P384Pub    Kind = "P-384/public"
	P521Priv   Kind = "P-521/private"
	P521Pub    Kind = "P-521/public"
	Ed25519Prv Kind = "Ed25519/private"
	Ed25519Pub Kind = "Ed25519/public"
)

// AsymKinds lists every asymmetric kind, private before public.
var AsymKinds = []Kind{RSAPriv, RSAPub, P256Priv, P256Pub, P384Priv, P384Pub, P521Priv, P521Pub, Ed25519Prv, Ed25519Pub}

// Key is one key of the space in all the forms the checks need.
type Key struct {
	Kind   Kind
	Which  string // "A" or "B" (two independent keys per asymmetric kind), or the size for oct
	Size   int    // bytes, for oct keys
	Octets []byte // oct
	JWK    jwk.Key

	RSA     *rsa.PrivateKey    // RSAPriv and RSAPub (RSAPub uses only .PublicKey)
	ECDSA   *ecdsa.PrivateKey  // P-*  (public kinds use only .PublicKey)
	Ed25519 ed25519.PrivateKey // Ed25519 (public kind uses only .Public())
	Private bool
	Family  string // "oct", "RSA", "P-256", "P-384", "P-521", "Ed25519"
}

func (k *Key) String() string { return string(k.Kind) + "#" + k.Which }

func parsePKCS8(s string) any {
	b, _ := pem.Decode([]byte(s))
	if b == nil {
		panic("cryptokeys: bad PEM")
	}
	k, err := x509.ParsePKCS8PrivateKey(b.Bytes)
	if err != nil {
		panic(err)
	}
	return k
}

func mustJWK(raw any) jwk.Key {
	k, err := jwk.FromRaw(raw)
	if err != nil {
		panic(fmt.Sprintf("cryptokeys: jwk.FromRaw(%T): %v", raw, err))
	}
	return k
}

// OctKey builds a symmetric key of the given size; the bytes are a prefix of
// one master string, so a shorter key is a truncation of a longer one (the
// worst case for a missing size check). The jwk.Key holds its own copy.
func OctKey(size int) *Key {
	b := Bytes("oct-master-key", size)
	k := &Key{Kind: Oct, Which: strconv.Itoa(size), Size: size, Octets: b, Family: "oct"}
	if size > 0 {
		k.JWK = mustJWK(append([]byte(nil), b...))
	}
	return k
}

// OctKeyFrom wraps caller-owned bytes WITHOUT copying (jwx keeps the slice it
// is given): used by C17 to put the key material inside the canary arena.
func OctKeyFrom(b []byte) jwk.Key { return mustJWK(b) }

var (
	asymMu    sync.Mutex
	asymCache = map[string]*Key{}
)

// Asym returns key "A" or "B" of an asymmetric kind.
func Asym(kind Kind, which string) *Key {
	id := string(kind) + "#" + which
	asymMu.Lock()
	defer asymMu.Unlock()
	if k, ok := asymCache[id]; ok {
		return k
	}
	k := &Key{Kind: kind, Which: which}
	pick := func(a, b string) string {
		if which == "A" {
			return a
		}
		return b
	}
	switch kind {
	case RSAPriv, RSAPub:
		k.Family = "RSA"
		k.RSA = parsePKCS8(pick(pemRSA2048A, pemRSA2048B)).(*rsa.PrivateKey)
		k.RSA.Precompute()
		if kind == RSAPriv {
			k.Private = true
			k.JWK = mustJWK(k.RSA)
		} else {
			k.JWK = mustJWK(&k.RSA.PublicKey)
		}
	case P256Priv, P256Pub, P384Priv, P384Pub, P521Priv, P521Pub:
		var p string
		switch kind {
		case P256Priv, P256Pub:
			p, k.Family = pick(pemP256A, pemP256B), "P-256"
		case P384Priv, P384Pub:
			p, k.Family = pick(pemP384A, pemP384B), "P-384"
		default:
			p, k.Family = pick(pemP521A, pemP521B), "P-521"
		}
		k.ECDSA = parsePKCS8(p).(*ecdsa.PrivateKey)
		if kind == P256Priv || kind == P384Priv || kind == P521Priv {
			k.Private = true
			k.JWK = mustJWK(k.ECDSA)
		} else {
			k.JWK = mustJWK(&k.ECDSA.PublicKey)
		}
	case Ed25519Prv, Ed25519Pub:
		k.Family = "Ed25519"
		k.Ed25519 = ed25519.NewKeyFromSeed(Bytes("ed25519-seed-"+which, ed25519.SeedSize))
		if kind == Ed25519Prv {
			k.Private = true
			k.JWK = mustJWK(k.Ed25519)
		} else {
			k.JWK = mustJWK(k.Ed25519.Public())
		}
	default:
		panic("cryptokeys: unknown kind " + string(kind))
	}
	asymCache[id] = k
	return k
}

// All returns every key of the C03 space: one oct key per size (size 0
// omitted, see SymSizes) followed by key "A" of every asymmetric kind. Call it
// once, before going parallel.
func All() []*Key {
	var out []*Key
	for _, s := range SymSizes {
		if s == 0 {
			continue
		}
		out = append(out, OctKey(s))
	}
	for _, kd := range AsymKinds {
		out = append(out, Asym(kd, "A"))
	}
	return out
}

// Partner returns the other form (public <-> private) of the same key pair.
func Partner(k *Key) *Key {
	m := map[Kind]Kind{RSAPriv: RSAPub, RSAPub: RSAPriv, P256Priv: P256Pub, P256Pub: P256Priv, P384Priv: P384Pub, P384Pub: P384Priv,
		P521Priv: P521Pub, P521Pub: P521Priv, Ed25519Prv: Ed25519Pub, Ed25519Pub: Ed25519Prv}
	return Asym(m[k.Kind], k.Which)
}

// Clone returns the same key material behind a fresh jwk.Key. jwx keys carry
// a lock that every accessor takes; giving each worker its own copy keeps 16
// cores from contending on it.
func (k *Key) Clone() *Key {
	c := *k
	switch {
	case k.JWK == nil:
	case k.Kind == Oct:
		c.JWK = mustJWK(append([]byte(nil), k.Octets...))
	case k.Family == "RSA" && k.Private:
		c.JWK = mustJWK(k.RSA)
	case k.Family == "RSA":
		c.JWK = mustJWK(&k.RSA.PublicKey)
	case k.Family == "Ed25519" && k.Private:
		c.JWK = mustJWK(k.Ed25519)
	case k.Family == "Ed25519":
		c.JWK = mustJWK(k.Ed25519.Public())
	case k.Private:
		c.JWK = mustJWK(k.ECDSA)
	default:
		c.JWK = mustJWK(&k.ECDSA.PublicKey)
	}
	return &c
}
