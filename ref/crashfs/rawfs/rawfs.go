// Package rawfs is a handful of read and cleanup helpers on bare system
// calls. os.File registers a finalizer per open, which takes a process-wide
// runtime lock; with sixteen workers each opening a directory and its files
// after every single filesystem step that lock serialised the whole check.
// Nothing here is specific to the code under test.
package rawfs

import (
	"sort"
	"syscall"
)

// Kind of a path as lstat(2) sees it.
const (
	Absent = iota
	Dir
	Regular
	Symlink
	Other
)

// Lkind does not follow a final symlink.
func Lkind(path string) (int, error) {
	var st syscall.Stat_t
	if err := syscall.Lstat(path, &st); err != nil {
		if err == syscall.ENOENT {
			return Absent, nil
		}
		return Other, err
	}
	return kindOf(&st), nil
}

func kindOf(st *syscall.Stat_t) int {
	switch st.Mode & syscall.S_IFMT {
	case syscall.S_IFDIR:
		return Dir
	case syscall.S_IFREG:
		return Regular
	case syscall.S_IFLNK:
		return Symlink
	}
	return Other
}

func retry(f func() error) error {
	for {
		err := f()
		if err != syscall.EINTR {
			return err
		}
	}
}

// List returns the sorted entry names of the directory path resolves to
// (symlinks are followed, as for a reader that opens the target).
func List(path string) ([]string, error) {
	var fd int
	err := retry(func() (e error) {
		fd, e = syscall.Open(path, syscall.O_RDONLY|syscall.O_DIRECTORY|syscall.O_CLOEXEC, 0)
		return
	})
	if err != nil {
		return nil, err
	}
	defer syscall.Close(fd)
	var names []string
	buf := make([]byte, 4096)
	for {
		var n int
		err := retry(func() (e error) { n, e = syscall.ReadDirent(fd, buf); return })
		if err != nil {
			return nil, err
		}
		if n <= 0 {
			break
		}
		_, _, names = syscall.ParseDirent(buf[:n], -1, names)
	}
	sort.Strings(names)
	return names, nil
}

// ReadRegular reads path if it is a regular file (a final symlink is not
// followed); ok=false means it exists but is something else.
func ReadRegular(path string) (data string, ok bool, err error) {
	var fd int
	err = retry(func() (e error) {
		fd, e = syscall.Open(path, syscall.O_RDONLY|syscall.O_NOFOLLOW|syscall.O_NONBLOCK|syscall.O_CLOEXEC, 0)
		return
	})
	if err != nil {
		if err == syscall.ELOOP { // a symlink
			return "", false, nil
		}
		return "", false, err
	}
	defer syscall.Close(fd)
	var st syscall.Stat_t
	if err := syscall.Fstat(fd, &st); err != nil {
		return "", false, err
	}
	if kindOf(&st) != Regular {
		return "", false, nil
	}
	out := make([]byte, 0, st.Size+1)
	for {
		var n int
		err := retry(func() (e error) { n, e = syscall.Read(fd, out[len(out):cap(out)]); return })
		if err != nil {
			return "", false, err
		}
		if n <= 0 {
			break
		}
		out = out[:len(out)+n]
		if int64(len(out)) == st.Size {
			break // nobody writes concurrently: the size fstat reported is the end
		}
		if len(out) == cap(out) {
			out = append(out, 0)[:len(out)]
		}
	}
	return string(out), true, nil
}

// Readlink returns the symlink's text.
func Readlink(path string) (string, error) {
	buf := make([]byte, 4096)
	n, err := syscall.Readlink(path, buf)
	if err != nil {
		return "", err
	}
	return string(buf[:n]), nil
}

// RemoveTree removes path and everything below it without following
// symlinks; a missing path is not an error.
func RemoveTree(path string) error {
	k, err := Lkind(path)
	if err != nil || k == Absent {
		return err
	}
	if k != Dir {
		return syscall.Unlink(path)
	}
	names, err := List(path)
	if err != nil {
		return err
	}
	for _, n := range names {
		if err := RemoveTree(path + "/" + n); err != nil {
			return err
		}
	}
	return syscall.Rmdir(path)
}
