package crashfs_test

import (
	"errors"
	"fmt"
	"io/fs"
	"os"
	"path/filepath"
	"reflect"
	"syscall"
	"testing"

	crashfs "verif/ref/crashfs"
	"verif/ref/crashfs/ctime"
	"verif/ref/crashfs/ctl"
	"verif/ref/crashfs/rawfs"
)

func setup(t *testing.T) (*ctl.Controller, string) {
	root, err := filepath.EvalSymlinks(t.TempDir())
	if err != nil {
		t.Fatal(err)
	}
	c := &ctl.Controller{Root: root}
	ctl.Register(c)
	t.Cleanup(func() { ctl.Unregister(c) })
	return c, root
}

func crashOf(f func()) (cr *ctl.Crash) {
	defer func() {
		if x := recover(); x != nil {
			cr = x.(*ctl.Crash)
		}
	}()
	f()
	return nil
}

// Every call is performed for real, in order, one step each (WriteFile three),
// the observer sees every step, and the torn intermediate states exist.
func TestStepsAndTornWrite(t *testing.T) {
	c, root := setup(t)
	var labels []string
	var sizes []int
	f := filepath.Join(root, "d", "f")
	c.Observe = func(ev ctl.Event) {
		labels = append(labels, ev.Label)
		if d, ok, _ := rawfs.ReadRegular(f); ok {
			sizes = append(sizes, len(d))
		} else {
			sizes = append(sizes, -1)
		}
	}
	c.Begin()
	must := func(err error) {
		t.Helper()
		if err != nil {
			t.Fatal(err)
		}
	}
	must(crashfs.MkdirAll(filepath.Join(root, "d"), crashfs.ModePerm))
	must(crashfs.WriteFile(f, []byte("0123456789"), crashfs.ModePerm))
	must(crashfs.Symlink(filepath.Join(root, "d"), filepath.Join(root, "l.new")))
	must(crashfs.Rename(filepath.Join(root, "l.new"), filepath.Join(root, "l")))
	must(crashfs.RemoveAll(filepath.Join(root, "d")))
	must(crashfs.RemoveAll(filepath.Join(root, "nothing")))
	want := []string{"MkdirAll", "WriteFile#1.create", "WriteFile#1.half", "WriteFile#1.rest", "Symlink", "Rename", "RemoveAll.entry#1", "RemoveAll.rmdir", "RemoveAll"}
	if !reflect.DeepEqual(labels, want) {
		t.Fatalf("steps %v, want %v", labels, want)
	}
	if !reflect.DeepEqual(sizes, []int{-1, 0, 5, 10, 10, 10, -1, -1, -1}) {
		t.Fatalf("file sizes seen after each step: %v", sizes)
	}
	if c.Steps() != len(want) {
		t.Fatalf("Steps() = %d", c.Steps())
	}
	if k, _ := rawfs.Lkind(filepath.Join(root, "l")); k != rawfs.Symlink {
		t.Fatalf("rename did not happen for real")
	}
}

// Crash before a step: the step is not performed. Crash after: it is, and
// the observer has seen it.
func TestCrashBeforeAndAfter(t *testing.T) {
	c, root := setup(t)
	d := filepath.Join(root, "d")
	observed := 0
	c.Observe = func(ctl.Event) { observed++ }

	c.Begin()
	c.Arm(0, false)
	cr := crashOf(func() { crashfs.MkdirAll(d, crashfs.ModePerm) })
	if cr == nil || cr.After || cr.Step != 0 || c.Fired() != cr {
		t.Fatalf("no crash before step 0: %v", cr)
	}
	if k, _ := rawfs.Lkind(d); k != rawfs.Absent || observed != 0 || c.Steps() != 0 {
		t.Fatalf("crash-before performed the step")
	}

	c.Begin()
	c.Arm(1, true)
	cr = crashOf(func() {
		crashfs.MkdirAll(d, crashfs.ModePerm)
		crashfs.WriteFile(filepath.Join(d, "f"), []byte("xy"), crashfs.ModePerm) // dies after create
		t.Error("survived the crash")
	})
	if cr == nil || !cr.After || cr.Step != 1 || cr.Label != "WriteFile#1.create" {
		t.Fatalf("crash after step 1: %v", cr)
	}
	if data, ok, _ := rawfs.ReadRegular(filepath.Join(d, "f")); !ok || data != "" || observed != 2 {
		t.Fatalf("crash-after did not leave the created empty file (%q %v), observed %d", data, ok, observed)
	}
	// a crash fires once
	c.Begin()
	if crashOf(func() { crashfs.MkdirAll(d, crashfs.ModePerm); crashfs.MkdirAll(d, crashfs.ModePerm) }) != nil {
		t.Fatal("disarmed controller crashed")
	}
}

// Errors are the real ones.
func TestErrorsAreReal(t *testing.T) {
	c, root := setup(t)
	c.Begin()
	l := filepath.Join(root, "l")
	if err := crashfs.Symlink("x", l); err != nil {
		t.Fatal(err)
	}
	err := crashfs.Symlink("y", l)
	var le *os.LinkError
	if !errors.As(err, &le) || !errors.Is(err, fs.ErrExist) || le.Op != "symlink" || le.New != l {
		t.Fatalf("second Symlink: %v", err)
	}
	err = crashfs.WriteFile(filepath.Join(root, "no", "f"), []byte("x"), crashfs.ModePerm)
	var pe *os.PathError
	if !errors.As(err, &pe) || !errors.Is(err, fs.ErrNotExist) || pe.Op != "open" {
		t.Fatalf("WriteFile into a missing directory: %v", err)
	}
	if err := crashfs.RemoveAll(l); err != nil {
		t.Fatal(err)
	}
	if k, _ := rawfs.Lkind(l); k != rawfs.Absent {
		t.Fatal("RemoveAll of a symlink left it")
	}
}

// A placed fault: the step is not performed, the error comes back unchanged,
// the multi-step call stops there, the step is counted and observed.
func TestFault(t *testing.T) {
	c, root := setup(t)
	var labels []string
	c.Observe = func(ev ctl.Event) {
		l := ev.Label
		if ev.Err != nil {
			l += "!"
		}
		labels = append(labels, l)
	}
	d := filepath.Join(root, "d")
	f := filepath.Join(d, "f")
	eio := &os.PathError{Op: "inject", Path: "x", Err: syscall.EIO}
	c.Begin()
	c.Fail(2, eio)
	if err := crashfs.MkdirAll(d, crashfs.ModePerm); err != nil {
		t.Fatal(err)
	}
	err := crashfs.WriteFile(f, []byte("0123456789"), crashfs.ModePerm) // create ok, half fails, rest skipped
	if err != error(eio) || c.Failed() != "WriteFile#1.half" {
		t.Fatalf("fault not delivered: %v / %q", err, c.Failed())
	}
	if data, ok, _ := rawfs.ReadRegular(f); !ok || data != "" {
		t.Fatalf("failed step was performed: %q", data)
	}
	if err := crashfs.Symlink(d, filepath.Join(root, "l")); err != nil { // one fault only
		t.Fatal(err)
	}
	want := []string{"MkdirAll", "WriteFile#1.create", "WriteFile#1.half!", "Symlink"}
	if !reflect.DeepEqual(labels, want) || c.Steps() != 4 {
		t.Fatalf("steps %v (%d), want %v", labels, c.Steps(), want)
	}
	// failing a RemoveAll entry leaves the rest of the directory
	c.Begin()
	c.Fail(0, eio)
	if err := crashfs.RemoveAll(d); err != error(eio) {
		t.Fatalf("RemoveAll: %v", err)
	}
	if k, _ := rawfs.Lkind(f); k != rawfs.Regular {
		t.Fatal("failed RemoveAll removed the entry")
	}
	c.Begin()
	if c.Failed() != "" {
		t.Fatal("Begin does not clear the fault")
	}
}

// The File wrapper: creation and every write are steps (crash and fault
// points), the result is on the real disk, EEXIST for O_EXCL is the real error.
func TestFileSteps(t *testing.T) {
	c, root := setup(t)
	var labels []string
	c.Observe = func(ev ctl.Event) { labels = append(labels, ev.Label) }
	p := filepath.Join(root, "lock")
	c.Begin()
	f, err := crashfs.OpenFile(p, crashfs.O_CREATE|crashfs.O_EXCL|crashfs.O_WRONLY, 0o600)
	if err != nil {
		t.Fatal(err)
	}
	fmt.Fprintf(f, "%d\n", 42)
	if err := f.Close(); err != nil {
		t.Fatal(err)
	}
	if _, err := crashfs.OpenFile(p, crashfs.O_CREATE|crashfs.O_EXCL|crashfs.O_WRONLY, 0o600); !crashfs.IsExist(err) {
		t.Fatalf("second O_EXCL create: %v", err)
	}
	if g, err := crashfs.Open(p); err != nil { // read-only: not a step
		t.Fatal(err)
	} else {
		g.Close()
	}
	if err := crashfs.Remove(p); err != nil {
		t.Fatal(err)
	}
	want := []string{"OpenFile", "File.Write", "OpenFile", "Remove"}
	if !reflect.DeepEqual(labels, want) {
		t.Fatalf("steps %v, want %v", labels, want)
	}
	// dying between the creation and the write leaves the empty file
	c.Begin()
	c.Arm(1, false)
	cr := crashOf(func() {
		f, _ := crashfs.OpenFile(p, crashfs.O_CREATE|crashfs.O_EXCL|crashfs.O_WRONLY, 0o600)
		defer f.Close()
		f.WriteString("x")
	})
	if cr == nil || cr.Label != "File.Write" {
		t.Fatalf("crash: %v", cr)
	}
	if d, ok, _ := rawfs.ReadRegular(p); !ok || d != "" {
		t.Fatalf("after the crash: %q %v", d, ok)
	}
}

func TestClockStrictlyIncreasing(t *testing.T) {
	prev := ctime.Now().UTC().UnixNano()
	for i := 0; i < 1000; i++ {
		n := ctime.Now().UTC().UnixNano()
		if n <= prev {
			t.Fatalf("Now went %d -> %d", prev, n)
		}
		prev = n
	}
}

func TestOutsideRootPanics(t *testing.T) {
	defer func() {
		if recover() == nil {
			t.Fatal("a path outside every scratch root was accepted")
		}
	}()
	crashfs.MkdirAll("/nonexistent-c18-root/x", crashfs.ModePerm)
}
