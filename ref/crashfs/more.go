package crashfs

import (
	"io/fs"
	"os"

	"verif/ref/crashfs/ctl"
)

// The rest of the `os` surface a realistic edit of dir.go is likely to reach
// for, so that such an edit still builds against the shim: error values and
// predicates, read-only calls (not steps: they change nothing), and the
// remaining mutating calls (one step each).

var (
	ErrExist      = os.ErrExist
	ErrNotExist   = os.ErrNotExist
	ErrPermission = os.ErrPermission
	ErrInvalid    = os.ErrInvalid
)

type (
	FileInfo  = os.FileInfo
	DirEntry  = os.DirEntry
	PathError = os.PathError
	LinkError = os.LinkError
)

const (
	ModeDir        = os.ModeDir
	ModeSymlink    = os.ModeSymlink
	ModeType       = os.ModeType
	O_RDONLY       = os.O_RDONLY
	O_WRONLY       = os.O_WRONLY
	O_RDWR         = os.O_RDWR
	O_CREATE       = os.O_CREATE
	O_TRUNC        = os.O_TRUNC
	O_EXCL         = os.O_EXCL
	O_APPEND       = os.O_APPEND
	O_SYNC         = os.O_SYNC
	ModeAppend     = os.ModeAppend
	ModeExclusive  = os.ModeExclusive
	ModeTemporary  = os.ModeTemporary
	ModeDevice     = os.ModeDevice
	ModeNamedPipe  = os.ModeNamedPipe
	ModeSocket     = os.ModeSocket
	ModeSetuid     = os.ModeSetuid
	ModeSetgid     = os.ModeSetgid
	ModeCharDevice = os.ModeCharDevice
	ModeSticky     = os.ModeSticky
	ModeIrregular  = os.ModeIrregular
	PathSeparator  = os.PathSeparator
	DevNull        = os.DevNull
)

func IsExist(err error) bool      { return os.IsExist(err) }
func IsNotExist(err error) bool   { return os.IsNotExist(err) }
func IsPermission(err error) bool { return os.IsPermission(err) }

func Stat(name string) (FileInfo, error)      { return os.Stat(name) }
func Lstat(name string) (FileInfo, error)     { return os.Lstat(name) }
func Readlink(name string) (string, error)    { return os.Readlink(name) }
func ReadDir(name string) ([]DirEntry, error) { return os.ReadDir(name) }
func ReadFile(name string) ([]byte, error)    { return os.ReadFile(name) }
func Getpid() int                             { return os.Getpid() }
func Getppid() int                            { return os.Getppid() }
func Getuid() int                             { return os.Getuid() }
func Geteuid() int                            { return os.Geteuid() }
func Getgid() int                             { return os.Getgid() }
func Getegid() int                            { return os.Getegid() }
func Getenv(k string) string                  { return os.Getenv(k) }
func LookupEnv(k string) (string, bool)       { return os.LookupEnv(k) }
func Getwd() (string, error)                  { return os.Getwd() }
func Executable() (string, error)             { return os.Executable() }
func IsTimeout(err error) bool                { return os.IsTimeout(err) }
func IsPathSeparator(c uint8) bool            { return os.IsPathSeparator(c) }
func Hostname() (string, error)               { return os.Hostname() }
func TempDir() string                         { return os.TempDir() }
func DirFS(dir string) fs.FS                  { return os.DirFS(dir) }
func SameFile(a, b FileInfo) bool             { return os.SameFile(a, b) }

// Remove is os.Remove as one step.
func Remove(name string) error {
	return ctl.For(name).Step("Remove", name, func() error { return os.Remove(name) })
}

// Mkdir is os.Mkdir as one step.
func Mkdir(name string, perm FileMode) error {
	return ctl.For(name).Step("Mkdir", name, func() error { return os.Mkdir(name, perm) })
}

// Chmod is os.Chmod as one step.
func Chmod(name string, mode FileMode) error {
	return ctl.For(name).Step("Chmod", name, func() error { return os.Chmod(name, mode) })
}

// Link is os.Link as one step.
func Link(oldname, newname string) error {
	return ctl.For(newname).Step("Link", newname, func() error { return os.Link(oldname, newname) })
}

// MkdirTemp is os.MkdirTemp as one step (the generated name is random: a
// change that starts using it makes the history non-replayable by name, which
// the harness's shape-based comparison tolerates).
func MkdirTemp(dir, pattern string) (string, error) {
	var out string
	err := ctl.For(dir+"/x").Step("MkdirTemp", dir, func() error {
		var e error
		out, e = os.MkdirTemp(dir, pattern)
		return e
	})
	return out, err
}
