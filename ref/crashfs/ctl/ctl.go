// Package ctl is the control side of verif/ref/crashfs: a Controller owns a
// scratch directory; every mutating filesystem call that crashfs performs
// below that directory is one numbered *step*. The controller can be armed to
// "crash" (panic with *Crash) immediately before or immediately after a given
// step, and calls an observer after every step that was performed. It knows
// nothing about the code under test.
package ctl

import (
	"fmt"
	"runtime"
	"strings"
	"sync"
	"sync/atomic"
)

// Crash is the panic value of an injected crash. The harness recovers it and
// abandons every in-memory object of the "process" that was running.
type Crash struct {
	Step  int    // step index (since the last Begin) the crash was placed at
	After bool   // false: the step was NOT performed; true: it was performed
	Label string // label of that step
}

func (c *Crash) String() string {
	when := "before"
	if c.After {
		when = "after"
	}
	return fmt.Sprintf("crash %s step %d (%s)", when, c.Step, c.Label)
}

// Event describes one performed step to the observer.
type Event struct {
	Index int    // step index since the last Begin
	Label string // e.g. "MkdirAll", "WriteFile#1.half", "Symlink", "Rename", "RemoveAll"
	Path  string // the (new) path operated on
	Err   error  // error the real filesystem call returned, if any
}

// Controller is used by one goroutine at a time.
type Controller struct {
	Root string // every path below Root belongs to this controller

	// Observe, if set, is called after every performed step (before a
	// crash-after of that step fires) — the "concurrent reader".
	Observe func(Event)

	prefix  string // Root + "/"
	n       int    // steps performed or attempted since Begin
	total   int64
	armed   bool
	at      int
	after   bool
	fired   *Crash
	writeNo int // ordinal of WriteFile calls since Begin

	failing bool // a fault is placed
	failAt  int
	failErr error
	failed  string // label of the step that was made to fail since Begin

	owner   uint64 // goroutine that called Begin: the "process" under test
	fmu     sync.Mutex
	foreign atomic.Int64 // steps performed by any other goroutine
	flabel  atomic.Value // label of the first such step
}

// goid identifies the calling goroutine for the purpose of telling the driver
// of the code under test from goroutines that code left running: it is the
// entry address of the goroutine's start function (the outermost frame below
// runtime.goexit). The driver (a test function or an enumeration worker) and a
// goroutine spawned by the code under test never share a start function.
// Reading it costs one runtime.Callers and no lock (the goroutine number parsed
// from runtime.Stack serialises all workers on the runtime's print lock: it took
// 89% of the check's CPU time).
func goid() uint64 {
	var arr [128]uintptr
	pcs := arr[:]
	n := runtime.Callers(1, pcs)
	for n == len(pcs) { // deeper than the buffer: retry with a larger one
		pcs = make([]uintptr, 2*len(pcs))
		n = runtime.Callers(1, pcs)
	}
	if n >= 2 {
		if f := runtime.FuncForPC(pcs[n-2]); f != nil {
			return uint64(f.Entry())
		}
	}
	return 0
}

// ForeignSteps reports how many filesystem steps were performed by a goroutine
// other than the one driving the code under test (i.e. work the code under
// test left running in the background), and the label of the first one.
func (c *Controller) ForeignSteps() (int64, string) {
	l, _ := c.flabel.Load().(string)
	return c.foreign.Load(), l
}

// Begin resets the step counter and disarms; call it before every operation
// of the code under test whose steps are to be numbered from 0.
func (c *Controller) Begin() {
	c.n, c.armed, c.fired, c.writeNo = 0, false, nil, 0
	c.failing, c.failed = false, ""
	c.owner = goid()
}

// Arm places one crash: before (after=false) or after (after=true) step `at`.
func (c *Controller) Arm(at int, after bool) { c.armed, c.at, c.after = true, at, after }

// Fail places one fault: step `at` is NOT performed and returns err instead
// (an environment failure such as EIO, ENOSPC, EPERM). It still counts as a
// step, the observer is called for it, and a crash may be placed before or
// after it. The shim's multi-step calls stop at their first failing step, as
// the real calls do, so the remaining sub-steps are skipped.
func (c *Controller) Fail(at int, err error) { c.failing, c.failAt, c.failErr = true, at, err }

// Failed returns the label of the step the placed fault hit since Begin, or "".
func (c *Controller) Failed() string { return c.failed }

// Steps is the number of steps performed since Begin.
func (c *Controller) Steps() int { return c.n }

// TotalSteps is the number of steps performed over the controller's life.
func (c *Controller) TotalSteps() int64 { return c.total }

// Fired returns the crash that fired since Begin, or nil.
func (c *Controller) Fired() *Crash { return c.fired }

// NextWriteOrdinal numbers the WriteFile calls since Begin (1-based), so step
// labels do not depend on file names (map iteration order).
func (c *Controller) NextWriteOrdinal() int { c.writeNo++; return c.writeNo }

// Step performs one filesystem step with its two crash points (or, if a fault
// is placed on it, fails it without performing it).
func (c *Controller) Step(label, path string, do func() error) error {
	if c.owner != 0 && goid() != c.owner {
		// a background goroutine of the code under test: perform the step, but
		// keep it out of the numbered history (its timing is not controlled)
		c.fmu.Lock()
		defer c.fmu.Unlock()
		if c.foreign.Add(1) == 1 {
			c.flabel.Store(label)
		}
		return do()
	}
	idx := c.n
	if c.armed && !c.after && c.at == idx {
		c.armed = false
		c.fired = &Crash{Step: idx, After: false, Label: label}
		panic(c.fired)
	}
	var err error
	if c.failing && c.failAt == idx {
		c.failing = false
		c.failed = label
		err = c.failErr
	} else {
		err = do()
	}
	c.n++
	c.total++
	if c.Observe != nil {
		c.Observe(Event{Index: idx, Label: label, Path: path, Err: err})
	}
	if c.armed && c.after && c.at == idx {
		c.armed = false
		c.fired = &Crash{Step: idx, After: true, Label: label}
		panic(c.fired)
	}
	return err
}

var (
	mu  sync.RWMutex
	reg []*Controller
)

// Register makes c responsible for every path below c.Root.
func Register(c *Controller) {
	c.prefix = c.Root + "/"
	mu.Lock()
	reg = append(reg, c)
	mu.Unlock()
}

// Unregister removes c.
func Unregister(c *Controller) {
	mu.Lock()
	for i, x := range reg {
		if x == c {
			reg = append(reg[:i], reg[i+1:]...)
			break
		}
	}
	mu.Unlock()
}

// For returns the controller owning path. A path outside every registered
// root is a harness error: crashfs must never touch anything else.
func For(path string) *Controller {
	mu.RLock()
	defer mu.RUnlock()
	for _, c := range reg {
		if strings.HasPrefix(path, c.prefix) || path == c.Root {
			return c
		}
	}
	panic("crashfs: path outside every registered scratch root: " + path)
}
