// Package crashfs stands in for package os inside
// github.com/dapr/kit/concurrency/dir (import substituted by mcgen -import at
// check time; /repo is never edited). It exports exactly the os names dir.go
// uses. Every call is performed on the REAL filesystem, below a scratch root
// owned by a ctl.Controller, and every mutation is a crash point before and
// after (see ctl.Controller.Step). WriteFile is split into three steps —
// create empty, write first half, write the rest — so a torn file is an
// observable intermediate state, as it is for the real os.WriteFile
// (open(O_CREAT|O_TRUNC); write...; close).
//
// A crash models process death: the kernel's state stays as it is, the
// process' memory is gone. It does not model power loss (dir.go never syncs,
// and the property does not speak about durability).
package crashfs

import (
	"fmt"
	"os"
	"path/filepath"

	"verif/ref/crashfs/ctl"
)

// FileMode is os.FileMode.
type FileMode = os.FileMode

// ModePerm is os.ModePerm.
const ModePerm = os.ModePerm

// MkdirAll is os.MkdirAll as one step.
func MkdirAll(path string, perm FileMode) error {
	return ctl.For(path).Step("MkdirAll", path, func() error { return os.MkdirAll(path, perm) })
}

// WriteFile is os.WriteFile as three steps.
func WriteFile(name string, data []byte, perm FileMode) error {
	c := ctl.For(name)
	k := c.NextWriteOrdinal()
	half := len(data) / 2
	if err := c.Step(fmt.Sprintf("WriteFile#%d.create", k), name, func() error {
		f, err := os.OpenFile(name, os.O_WRONLY|os.O_CREATE|os.O_TRUNC, perm)
		if err != nil {
			return err
		}
		return f.Close()
	}); err != nil {
		return err
	}
	app := func(b []byte) func() error {
		return func() error {
			f, err := os.OpenFile(name, os.O_WRONLY|os.O_APPEND, 0)
			if err != nil {
				return err
			}
			_, err = f.Write(b)
			if err1 := f.Close(); err1 != nil && err == nil {
				err = err1
			}
			return err
		}
	}
	if err := c.Step(fmt.Sprintf("WriteFile#%d.half", k), name, app(data[:half])); err != nil {
		return err
	}
	return c.Step(fmt.Sprintf("WriteFile#%d.rest", k), name, app(data[half:]))
}

// Symlink is os.Symlink as one step.
func Symlink(oldname, newname string) error {
	return ctl.For(newname).Step("Symlink", newname, func() error { return os.Symlink(oldname, newname) })
}

// Rename is os.Rename as one step.
func Rename(oldpath, newpath string) error {
	return ctl.For(newpath).Step("Rename", newpath, func() error { return os.Rename(oldpath, newpath) })
}

// RemoveAll is os.RemoveAll. Removing a non-empty directory is not atomic for
// the real call either (unlink every entry, then rmdir), so it is split the
// same way: one step per directory entry (in name order) and one for the
// directory itself. Anything else (a symlink, a file, an empty directory, a
// path that does not exist) is a single step.
func RemoveAll(path string) error {
	c := ctl.For(path)
	if fi, err := os.Lstat(path); err == nil && fi.IsDir() {
		if ents, err := os.ReadDir(path); err == nil && len(ents) > 0 {
			for i, e := range ents {
				child := filepath.Join(path, e.Name())
				if err := c.Step(fmt.Sprintf("RemoveAll.entry#%d", i+1), child, func() error { return os.RemoveAll(child) }); err != nil {
					return err
				}
			}
			return c.Step("RemoveAll.rmdir", path, func() error { return os.RemoveAll(path) })
		}
	}
	return c.Step("RemoveAll", path, func() error { return os.RemoveAll(path) })
}
