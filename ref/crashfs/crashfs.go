// Package crashfs stands in for package os inside
// github.com/dapr/kit/concurrency/dir (import substituted by mcgen -import at
// check time; /repo is never edited). It exports exactly the os names dir.go
// uses. Every call is performed on the REAL filesystem, below a scratch root
// owned by a ctl.Controller, and every mutation is a crash point before and
// after (see ctl.Controller.Step). WriteFile is split into three steps —
// create empty, write first half, write the rest — so a torn file is an
// observable intermediate state, as it is for the real os.WriteFile
// (open(O_CREAT|O_TRUNC); write...; close).
//
// A crash models process death: the kernel's state stays as it is, the
// process' memory is gone. It does not model power loss (dir.go never syncs,
// and the property does not speak about durability).
package crashfs

import (
	"fmt"
	"os"
	"path/filepath"
	"syscall"

	"verif/ref/crashfs/ctl"
	"verif/ref/crashfs/rawfs"
)

// FileMode is os.FileMode.
type FileMode = os.FileMode

// ModePerm is os.ModePerm.
const ModePerm = os.ModePerm

// MkdirAll is os.MkdirAll as one step.
func MkdirAll(path string, perm FileMode) error {
	return ctl.For(path).Step("MkdirAll", path, func() error { return os.MkdirAll(path, perm) })
}

// WriteFile is os.WriteFile as three steps. The steps use open(2)/write(2)/
// close(2) directly (no os.File: its finalizer registration takes a
// process-wide runtime lock, see rawfs) and report errors as os.WriteFile
// does, as *os.PathError.
func WriteFile(name string, data []byte, perm FileMode) error {
	c := ctl.For(name)
	k := c.NextWriteOrdinal()
	half := len(data) / 2
	if err := c.Step(label(k, 0), name, func() error {
		return openWrite(name, syscall.O_WRONLY|syscall.O_CREAT|syscall.O_TRUNC, perm, nil)
	}); err != nil {
		return err
	}
	if err := c.Step(label(k, 1), name, func() error {
		return openWrite(name, syscall.O_WRONLY|syscall.O_APPEND, 0, data[:half])
	}); err != nil {
		return err
	}
	return c.Step(label(k, 2), name, func() error {
		return openWrite(name, syscall.O_WRONLY|syscall.O_APPEND, 0, data[half:])
	})
}

var subStep = [3]string{"create", "half", "rest"}

func label(k, sub int) string {
	if k < len(labels) {
		return labels[k][sub]
	}
	return fmt.Sprintf("WriteFile#%d.%s", k, subStep[sub])
}

var labels = func() (t [16][3]string) {
	for k := range t {
		for s := range subStep {
			t[k][s] = fmt.Sprintf("WriteFile#%d.%s", k, subStep[s])
		}
	}
	return
}()

func openWrite(name string, flag int, perm FileMode, b []byte) error {
	var fd int
	var err error
	for {
		fd, err = syscall.Open(name, flag|syscall.O_CLOEXEC, uint32(perm.Perm()))
		if err != syscall.EINTR {
			break
		}
	}
	if err != nil {
		return &os.PathError{Op: "open", Path: name, Err: err}
	}
	for len(b) > 0 {
		n, err := syscall.Write(fd, b)
		if err == syscall.EINTR {
			continue
		}
		if err != nil {
			syscall.Close(fd)
			return &os.PathError{Op: "write", Path: name, Err: err}
		}
		b = b[n:]
	}
	if err := syscall.Close(fd); err != nil {
		return &os.PathError{Op: "close", Path: name, Err: err}
	}
	return nil
}

// Symlink is os.Symlink as one step.
func Symlink(oldname, newname string) error {
	return ctl.For(newname).Step("Symlink", newname, func() error { return os.Symlink(oldname, newname) })
}

// Rename is os.Rename as one step.
func Rename(oldpath, newpath string) error {
	return ctl.For(newpath).Step("Rename", newpath, func() error { return os.Rename(oldpath, newpath) })
}

// RemoveAll is os.RemoveAll. Removing a non-empty directory is not atomic for
// the real call either (unlink every entry, then rmdir), so it is split the
// same way: one step per directory entry (in name order) and one for the
// directory itself. Anything else (a symlink, a file, an empty directory, a
// path that does not exist) is a single step.
func RemoveAll(path string) error {
	c := ctl.For(path)
	if k, _ := rawfs.Lkind(path); k == rawfs.Dir {
		if names, err := rawfs.List(path); err == nil && len(names) > 0 {
			for i, n := range names {
				child := filepath.Join(path, n)
				if err := c.Step(fmt.Sprintf("RemoveAll.entry#%d", i+1), child, func() error { return os.RemoveAll(child) }); err != nil {
					return err
				}
			}
			return c.Step("RemoveAll.rmdir", path, func() error { return os.RemoveAll(path) })
		}
	}
	return c.Step("RemoveAll", path, func() error { return os.RemoveAll(path) })
}
