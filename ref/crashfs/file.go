package crashfs

import (
	"io"
	"os"
	"time"

	"verif/ref/crashfs/ctl"
)

// File stands in for os.File: it wraps a real open file; every method that
// changes the filesystem (Write*, Truncate, Chmod, Chown, Sync) is one step of
// the owning controller, i.e. a crash point before and after and a fault
// point. Reads, Seek, Stat, Name, Fd and Close are not steps. A "process" that
// dies with the file open leaks the descriptor until the garbage collector
// finalises the underlying os.File — the kernel would have closed it; nothing
// observable on disk depends on that.
type File struct {
	f *os.File
	c *ctl.Controller
}

func wrap(f *os.File, c *ctl.Controller) *File {
	if f == nil {
		return nil
	}
	return &File{f: f, c: c}
}

// mutating reports whether opening with these flags can change the filesystem.
func mutating(flag int) bool { return flag&(os.O_CREATE|os.O_TRUNC) != 0 }

// OpenFile is os.OpenFile; with O_CREATE or O_TRUNC it is one step (the
// creation / truncation), otherwise it changes nothing and is not a step.
func OpenFile(name string, flag int, perm FileMode) (*File, error) {
	c := ctl.For(name)
	if !mutating(flag) {
		f, err := os.OpenFile(name, flag, perm)
		return wrap(f, c), err
	}
	var f *os.File
	err := c.Step("OpenFile", name, func() (e error) { f, e = os.OpenFile(name, flag, perm); return })
	if err != nil {
		if f != nil {
			f.Close()
		}
		return nil, err
	}
	return wrap(f, c), nil
}

// Create is os.Create as one step.
func Create(name string) (*File, error) {
	return OpenFile(name, os.O_RDWR|os.O_CREATE|os.O_TRUNC, 0o666)
}

// Open is os.Open (read-only, not a step).
func Open(name string) (*File, error) { return OpenFile(name, os.O_RDONLY, 0) }

// CreateTemp is os.CreateTemp as one step.
func CreateTemp(dir, pattern string) (*File, error) {
	if dir == "" {
		dir = os.TempDir()
	}
	c := ctl.For(dir + "/x")
	var f *os.File
	err := c.Step("CreateTemp", dir, func() (e error) { f, e = os.CreateTemp(dir, pattern); return })
	if err != nil {
		return nil, err
	}
	return wrap(f, c), nil
}

func (f *File) step(label string, do func() error) error {
	return f.c.Step("File."+label, f.f.Name(), do)
}

func (f *File) Write(b []byte) (n int, err error) {
	err = f.step("Write", func() (e error) { n, e = f.f.Write(b); return })
	return
}

func (f *File) WriteString(s string) (n int, err error) {
	err = f.step("Write", func() (e error) { n, e = f.f.WriteString(s); return })
	return
}

func (f *File) WriteAt(b []byte, off int64) (n int, err error) {
	err = f.step("WriteAt", func() (e error) { n, e = f.f.WriteAt(b, off); return })
	return
}

func (f *File) Truncate(size int64) error {
	return f.step("Truncate", func() error { return f.f.Truncate(size) })
}
func (f *File) Chmod(mode FileMode) error {
	return f.step("Chmod", func() error { return f.f.Chmod(mode) })
}
func (f *File) Chown(uid, gid int) error {
	return f.step("Chown", func() error { return f.f.Chown(uid, gid) })
}

// Sync is a step although it changes nothing a surviving kernel would not
// keep anyway: code that syncs expects the call to be able to fail.
func (f *File) Sync() error { return f.step("Sync", func() error { return f.f.Sync() }) }

func (f *File) Close() error                              { return f.f.Close() }
func (f *File) Name() string                              { return f.f.Name() }
func (f *File) Fd() uintptr                               { return f.f.Fd() }
func (f *File) Read(b []byte) (int, error)                { return f.f.Read(b) }
func (f *File) ReadAt(b []byte, off int64) (int, error)   { return f.f.ReadAt(b, off) }
func (f *File) Seek(off int64, whence int) (int64, error) { return f.f.Seek(off, whence) }
func (f *File) Stat() (FileInfo, error)                   { return f.f.Stat() }
func (f *File) ReadDir(n int) ([]DirEntry, error)         { return f.f.ReadDir(n) }
func (f *File) Readdir(n int) ([]FileInfo, error)         { return f.f.Readdir(n) }
func (f *File) Readdirnames(n int) ([]string, error)      { return f.f.Readdirnames(n) }
func (f *File) SetDeadline(t time.Time) error             { return f.f.SetDeadline(t) }
func (f *File) SetReadDeadline(t time.Time) error         { return f.f.SetReadDeadline(t) }
func (f *File) SetWriteDeadline(t time.Time) error        { return f.f.SetWriteDeadline(t) }
func (f *File) ReadFrom(r io.Reader) (int64, error) {
	var n int64
	err := f.step("Write", func() (e error) { n, e = f.f.ReadFrom(r); return })
	return n, err
}

// Truncate is os.Truncate as one step.
func Truncate(name string, size int64) error {
	return ctl.For(name).Step("Truncate", name, func() error { return os.Truncate(name, size) })
}

// Chown / Lchown / Chtimes are one step each.
func Chown(name string, uid, gid int) error {
	return ctl.For(name).Step("Chown", name, func() error { return os.Chown(name, uid, gid) })
}
func Lchown(name string, uid, gid int) error {
	return ctl.For(name).Step("Lchown", name, func() error { return os.Lchown(name, uid, gid) })
}
func Chtimes(name string, atime, mtime time.Time) error {
	return ctl.For(name).Step("Chtimes", name, func() error { return os.Chtimes(name, atime, mtime) })
}
