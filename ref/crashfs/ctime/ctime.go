// Package ctime stands in for package time inside
// github.com/dapr/kit/concurrency/dir. dir.go names version directories by
// time.Now().UTC().UnixNano(); the real clock may return the same value twice
// or step backwards, which is outside the property. Now is strictly
// increasing over the whole process (all goroutines), so every Write gets a
// fresh directory name.
package ctime

import (
	"sync/atomic"
	"time"
)

// Time and Duration are the real types.
type (
	Time     = time.Time
	Duration = time.Duration
)

const epoch int64 = 1_600_000_000_000_000_000

var ticks atomic.Int64

// Now returns a strictly increasing instant (1 ns per call).
func Now() Time { return time.Unix(0, epoch+ticks.Add(1)) }
