package cronref

import (
	"fmt"
	"sort"
	"time"
)

// Matches reports whether the wall-clock reading w (already expressed in the
// schedule's zone) satisfies the expression: second, minute, hour and month
// must be in their sets; the day must satisfy both day fields when at least
// one of them is unrestricted ('*'/'?') and either of them when both are
// restricted.
func (s *Schedule) Matches(w time.Time) bool {
	ok, _ := s.matchLevel(w)
	return ok
}

// Mismatch names the first field, from the coarsest, whose wall-clock value in w
// is not allowed by the schedule ("month", "day", "hour", "minute", "second"),
// or "" if w matches.
func (s *Schedule) Mismatch(w time.Time) string {
	if s.Month>>uint(w.Month())&1 == 0 {
		return "month"
	}
	_, level := s.matchLevel(w)
	return [...]string{"day", "hour", "minute", "second", ""}[level]
}

// matchLevel: level 0 = month or day wrong, 1 = hour wrong, 2 = minute wrong,
// 3 = second wrong, 4 = match. w must read the zone's wall clock.
func (s *Schedule) matchLevel(w time.Time) (bool, int) {
	if s.DomStar == Unspecified || s.DowStar == Unspecified {
		panic("cronref: day rule of this schedule is not specified by the documentation")
	}
	_, month, day := w.Date()
	hour, min, sec := w.Clock()
	domIn := s.Dom>>uint(day)&1 == 1
	dowIn := s.Dow>>uint(w.Weekday())&1 == 1
	var dayOK bool
	if s.DomStar == Yes || s.DowStar == Yes {
		dayOK = domIn && dowIn
	} else {
		dayOK = domIn || dowIn
	}
	switch {
	case s.Month>>uint(month)&1 == 0 || !dayOK:
		return false, 0
	case s.Hour>>uint(hour)&1 == 0:
		return false, 1
	case s.Min>>uint(min)&1 == 0:
		return false, 2
	case s.Sec>>uint(sec)&1 == 0:
		return false, 3
	}
	return true, 4
}

// Zone is a location together with what a scan of it established about the
// era [From, To] (Unix seconds): every instant at which its UTC offset
// changes, and which UTC quarter-hours / minutes contain such a change
// strictly inside them (there the scan must not skip ahead).
type Zone struct {
	Name                 string
	Loc                  *time.Location
	From, To             int64
	Transitions          []int64 // instants (first second of the new offset), ascending
	Offsets              []int   // distinct UTC offsets seen, ascending (seconds)
	AllOffsets15m        bool    // every offset in the era is a multiple of 15 minutes
	UnalignedTransitions []int64 // transitions that are not on a UTC quarter hour
	badQuarter           map[int64]bool
	badMinute            map[int64]bool
	offAfter             []int // offAfter[i]: the offset in force from Transitions[i] on
	offFirst             int   // the offset in force at From
}

// floorDiv: a/b rounded towards minus infinity (instants before 1970 are negative).
func floorDiv(a, b int64) int64 {
	q := a / b
	if a%b != 0 && a < 0 {
		q--
	}
	return q
}

func offsetAt(loc *time.Location, u int64) int {
	_, off := time.Unix(u, 0).In(loc).Zone()
	return off
}

// ScanZone establishes the facts above by walking the zone's periods
// (Time.ZoneBounds) and cross-checks the walk against an independent probe of
// the offset at every UTC quarter hour of the era (crossCheck).
func ScanZone(name string, loc *time.Location, from, to int64, crossCheck bool) (*Zone, error) {
	z := &Zone{Name: name, Loc: loc, From: from, To: to, badQuarter: map[int64]bool{}, badMinute: map[int64]bool{}, AllOffsets15m: true}
	offs := map[int]bool{}
	cur := time.Unix(from, 0).In(loc)
	z.offFirst = offsetAt(loc, from)
	offs[z.offFirst] = true
	for {
		if cur.Unix() > to {
			break
		}
		_, end := cur.ZoneBounds()
		if end.IsZero() || !end.After(cur) {
			// no further period reported, or (seen beyond the last explicit
			// transition of a zone that continues by rule, on the last day of a
			// leap year) a period that does not advance: move on by a day. A
			// change missed this way is caught by the cross-check below.
			cur = cur.Add(24 * time.Hour)
			continue
		}
		if end.Unix() > to {
			break
		}
		e := end.Unix()
		before, after := offsetAt(loc, e-1), offsetAt(loc, e)
		offs[after] = true
		if before != after {
			z.Transitions = append(z.Transitions, e)
			z.offAfter = append(z.offAfter, after)
			if e%900 != 0 {
				z.badQuarter[floorDiv(e, 900)] = true
				z.UnalignedTransitions = append(z.UnalignedTransitions, e)
			}
			if e%60 != 0 {
				z.badMinute[floorDiv(e, 60)] = true
			}
		}
		cur = end
	}
	for o := range offs {
		z.Offsets = append(z.Offsets, o)
		if o%900 != 0 {
			z.AllOffsets15m = false
		}
	}
	sort.Ints(z.Offsets)
	if !crossCheck {
		// the walk is deterministic: a process that only re-derives a table some
		// other process has already cross-checked may skip the probe
		return z, nil
	}
	// cross-check: the offset differs between consecutive quarter hours exactly
	// where a recorded transition lies in (q, q+900].
	ti := 0
	q := from - from%900
	if q < from {
		q += 900
	}
	prev := offsetAt(loc, q)
	for ; q+900 <= to; q += 900 {
		next := offsetAt(loc, q+900)
		has := false
		for ti < len(z.Transitions) && z.Transitions[ti] <= q {
			ti++
		}
		n := 0
		for j := ti; j < len(z.Transitions) && z.Transitions[j] <= q+900; j++ {
			has = true
			n++
		}
		if n > 1 {
			return nil, fmt.Errorf("zone %s: two offset changes within one quarter hour after %d", name, q)
		}
		if z.tableOffset(q+900) != next {
			return nil, fmt.Errorf("zone %s: offset table disagrees with the zone at %d", name, q+900)
		}
		if has != (prev != next) {
			return nil, fmt.Errorf("zone %s: period walk and quarter-hour probe disagree at %s", name, time.Unix(q, 0).UTC().Format(time.RFC3339))
		}
		prev = next
	}
	return z, nil
}

// Nearest returns the offset change closest to u, if one lies within d seconds.
func (z *Zone) Nearest(u, d int64) (int64, bool) {
	i := sort.Search(len(z.Transitions), func(i int) bool { return z.Transitions[i] >= u })
	best, found := int64(0), false
	for _, j := range []int{i - 1, i} {
		if j < 0 || j >= len(z.Transitions) {
			continue
		}
		dist := z.Transitions[j] - u
		if dist < 0 {
			dist = -dist
		}
		if dist > d {
			continue
		}
		bd := best - u
		if bd < 0 {
			bd = -bd
		}
		if !found || dist < bd {
			best, found = z.Transitions[j], true
		}
	}
	return best, found
}

// Answer of the reference Next.
type Answer struct {
	Found bool
	Unix  int64
}

// tableOffset: the UTC offset at u according to the table the scan produced.
func (z *Zone) tableOffset(u int64) int {
	i := sort.Search(len(z.Transitions), func(i int) bool { return z.Transitions[i] > u })
	if i == 0 {
		return z.offFirst
	}
	return z.offAfter[i-1]
}

// Scanner is the reference "next activation": a monotone scan of absolute
// time. It never builds a time from calendar fields. Being a forward scan that
// tests every instant it does not provably skip, the first match it reports is
// the earliest by construction.
//
// Plain mode (Fast=false) is the definition: each probed instant is read on
// the zone's wall clock with In(loc); when month/day/hour cannot match the scan
// moves to the next UTC quarter hour, when the minute cannot match to the next
// UTC minute - only where the zone's offset is a multiple of 15 minutes (one
// minute) and no offset change lies inside the skipped stretch - else to the
// next second.
//
// Fast mode reads the wall clock as UTC+offset with the offset taken from the
// table ScanZone built (and cross-checked against In(loc) at every quarter
// hour of the era), and skips to the end of the current local day / hour /
// minute when the date / hour / minute cannot match, but never across an
// offset change. Every 1024th probe it re-reads the wall clock with In(loc)
// and panics on any difference; the checks additionally compare Fast against
// Plain answers on a sample of their cases.
//
// A Scanner remembers the stretch [a, b) it has already established to be free
// of matches, so that consecutive questions with non-decreasing start instants
// continue the same scan instead of repeating it (Next(t') = Next(t) whenever
// t <= t' < Next(t)). A fresh Scanner per question gives the memory-less form.
type Scanner struct {
	Z      *Zone
	S      *Schedule
	Fast   bool
	a, b   int64
	hit    bool // b itself matches
	valid  bool
	Probes int64 // instants examined (cost / coverage measure)
}

// wall reads the zone's wall clock at u as a UTC-located Time with the same
// field values, plus the offset and the next offset change after u (0 = none).
func (sc *Scanner) wall(u int64) (w time.Time, off int, nextChange int64) {
	z := sc.Z
	if !sc.Fast {
		w = time.Unix(u, 0).In(z.Loc)
		_, off = w.Zone()
		return w, off, 0
	}
	i := sort.Search(len(z.Transitions), func(i int) bool { return z.Transitions[i] > u })
	off = z.offFirst
	if i > 0 {
		off = z.offAfter[i-1]
	}
	if i < len(z.Transitions) {
		nextChange = z.Transitions[i]
	}
	w = time.Unix(u+int64(off), 0).UTC()
	if sc.Probes%1024 == 0 {
		d := time.Unix(u, 0).In(z.Loc)
		y1, m1, d1 := d.Date()
		y2, m2, d2 := w.Date()
		h1, mi1, s1 := d.Clock()
		h2, mi2, s2 := w.Clock()
		if y1 != y2 || m1 != m2 || d1 != d2 || h1 != h2 || mi1 != mi2 || s1 != s2 || d.Weekday() != w.Weekday() {
			panic(fmt.Sprintf("cronref: offset table and In(loc) disagree at %d in %s", u, z.Name))
		}
	}
	return w, off, nextChange
}

// Next: the earliest whole second strictly after t that matches, provided its
// calendar year (in the zone) is at most five more than that of the first
// candidate second; the caller applies the documented five-year horizon to it.
func (sc *Scanner) Next(t time.Time) Answer {
	start := t.Unix() + 1 // floor(t) + 1s
	if start < sc.Z.From || start > sc.Z.To {
		panic("cronref: start outside the scanned era")
	}
	w0, _, _ := sc.wall(start)
	limitYear := w0.Year() + 5
	if !sc.valid || start < sc.a || start > sc.b {
		sc.a, sc.b, sc.hit, sc.valid = start, start, false, true
	}
	for !sc.hit {
		if sc.b > sc.Z.To {
			panic("cronref: scan left the scanned era")
		}
		w, off, nextChange := sc.wall(sc.b)
		if w.Year() > limitYear {
			return Answer{}
		}
		sc.Probes++
		ok, level := sc.S.matchLevel(w)
		if ok {
			sc.hit = true
			break
		}
		if sc.Fast {
			h, m, s := w.Clock()
			var next int64
			switch level {
			case 0:
				next = sc.b + int64(86400-(h*3600+m*60+s)) // local midnight
			case 1:
				next = sc.b + int64(3600-(m*60+s)) // next local hour
			case 2:
				next = sc.b + int64(60-s) // next local minute
			default:
				next = sc.b + 1
			}
			if nextChange != 0 && nextChange < next {
				next = nextChange // the wall clock jumps there: re-read it
			}
			sc.b = next
			continue
		}
		switch {
		case level <= 1 && off%900 == 0 && !sc.Z.badQuarter[floorDiv(sc.b, 900)]:
			// month, day and hour are constant over this UTC quarter hour
			sc.b = (floorDiv(sc.b, 900) + 1) * 900
		case level <= 2 && off%60 == 0 && !sc.Z.badMinute[floorDiv(sc.b, 60)]:
			// ... and, with the minute, over this UTC minute
			sc.b = (floorDiv(sc.b, 60) + 1) * 60
		default:
			sc.b++
		}
	}
	if wb, _, _ := sc.wall(sc.b); wb.Year() > limitYear {
		return Answer{}
	}
	return Answer{Found: true, Unix: sc.b}
}

// Next is the plain, memory-less reference.
func Next(z *Zone, s *Schedule, t time.Time) Answer {
	sc := Scanner{Z: z, S: s}
	return sc.Next(t)
}

// EveryNext is the documented result of "@every d": t truncated to the second
// plus the effective delay.
func EveryNext(delay time.Duration, t time.Time) time.Time {
	return time.Unix(t.Unix(), 0).Add(delay)
}
