package cronref

import (
	"fmt"
	"sort"
	"time"
)

// Matches reports whether the wall-clock reading w (already expressed in the
// schedule's zone) satisfies the expression: second, minute, hour and month
// must be in their sets; the day must satisfy both day fields when at least
// one of them is unrestricted ('*'/'?') and either of them when both are
// restricted.
func (s *Schedule) Matches(w time.Time) bool {
	ok, _ := s.matchLevel(w)
	return ok
}

// matchLevel: level 0 = month/day/hour wrong, 1 = minute wrong, 2 = second
// wrong, 3 = match.
func (s *Schedule) matchLevel(w time.Time) (bool, int) {
	if s.DomStar == Unspecified || s.DowStar == Unspecified {
		panic("cronref: day rule of this schedule is not specified by the documentation")
	}
	_, month, day := w.Date()
	hour, min, sec := w.Clock()
	domIn := s.Dom>>uint(day)&1 == 1
	dowIn := s.Dow>>uint(w.Weekday())&1 == 1
	var dayOK bool
	if s.DomStar == Yes || s.DowStar == Yes {
		dayOK = domIn && dowIn
	} else {
		dayOK = domIn || dowIn
	}
	switch {
	case s.Month>>uint(month)&1 == 0 || !dayOK || s.Hour>>uint(hour)&1 == 0:
		return false, 0
	case s.Min>>uint(min)&1 == 0:
		return false, 1
	case s.Sec>>uint(sec)&1 == 0:
		return false, 2
	}
	return true, 3
}

// Zone is a location together with what a scan of it established about the
// era [From, To] (Unix seconds): every instant at which its UTC offset
// changes, and which UTC quarter-hours / minutes contain such a change
// strictly inside them (there the scan must not skip ahead).
type Zone struct {
	Name                 string
	Loc                  *time.Location
	From, To             int64
	Transitions          []int64 // instants (first second of the new offset), ascending
	Offsets              []int   // distinct UTC offsets seen, ascending (seconds)
	AllOffsets15m        bool    // every offset in the era is a multiple of 15 minutes
	UnalignedTransitions []int64 // transitions that are not on a UTC quarter hour
	badQuarter           map[int64]bool
	badMinute            map[int64]bool
}

func offsetAt(loc *time.Location, u int64) int {
	_, off := time.Unix(u, 0).In(loc).Zone()
	return off
}

// ScanZone establishes the facts above by walking the zone's periods
// (Time.ZoneBounds) and cross-checks the walk against an independent probe of
// the offset at every UTC quarter hour of the era.
func ScanZone(name string, loc *time.Location, from, to int64) (*Zone, error) {
	z := &Zone{Name: name, Loc: loc, From: from, To: to, badQuarter: map[int64]bool{}, badMinute: map[int64]bool{}, AllOffsets15m: true}
	offs := map[int]bool{}
	cur := time.Unix(from, 0).In(loc)
	offs[offsetAt(loc, from)] = true
	for {
		_, end := cur.ZoneBounds()
		if end.IsZero() || end.Unix() > to {
			break
		}
		e := end.Unix()
		before, after := offsetAt(loc, e-1), offsetAt(loc, e)
		offs[after] = true
		if before != after {
			z.Transitions = append(z.Transitions, e)
			if e%900 != 0 {
				z.badQuarter[e/900] = true
				z.UnalignedTransitions = append(z.UnalignedTransitions, e)
			}
			if e%60 != 0 {
				z.badMinute[e/60] = true
			}
		}
		if !end.After(cur) {
			return nil, fmt.Errorf("zone %s: ZoneBounds does not advance at %v", name, cur)
		}
		cur = end
	}
	for o := range offs {
		z.Offsets = append(z.Offsets, o)
		if o%900 != 0 {
			z.AllOffsets15m = false
		}
	}
	sort.Ints(z.Offsets)
	// cross-check: the offset differs between consecutive quarter hours exactly
	// where a recorded transition lies in (q, q+900].
	ti := 0
	q := from - from%900
	if q < from {
		q += 900
	}
	prev := offsetAt(loc, q)
	for ; q+900 <= to; q += 900 {
		next := offsetAt(loc, q+900)
		has := false
		for ti < len(z.Transitions) && z.Transitions[ti] <= q {
			ti++
		}
		n := 0
		for j := ti; j < len(z.Transitions) && z.Transitions[j] <= q+900; j++ {
			has = true
			n++
		}
		if n > 1 {
			return nil, fmt.Errorf("zone %s: two offset changes within one quarter hour after %d", name, q)
		}
		if has != (prev != next) {
			return nil, fmt.Errorf("zone %s: period walk and quarter-hour probe disagree at %s", name, time.Unix(q, 0).UTC().Format(time.RFC3339))
		}
		prev = next
	}
	return z, nil
}

// Nearest returns the offset change closest to u, if one lies within d seconds.
func (z *Zone) Nearest(u, d int64) (int64, bool) {
	i := sort.Search(len(z.Transitions), func(i int) bool { return z.Transitions[i] >= u })
	best, found := int64(0), false
	for _, j := range []int{i - 1, i} {
		if j < 0 || j >= len(z.Transitions) {
			continue
		}
		dist := z.Transitions[j] - u
		if dist < 0 {
			dist = -dist
		}
		if dist > d {
			continue
		}
		bd := best - u
		if bd < 0 {
			bd = -bd
		}
		if !found || dist < bd {
			best, found = z.Transitions[j], true
		}
	}
	return best, found
}

// Answer of the reference Next.
type Answer struct {
	Found bool
	Unix  int64
}

// Scanner is the reference "next activation": a monotone scan of absolute
// time. It never builds a time from calendar fields; it reads the wall clock
// of each probed instant with In(loc). Being a forward scan that tests every
// instant it does not provably skip, the first match it reports is the
// earliest by construction.
//
// A Scanner remembers the stretch [a, b) it has already established to be free
// of matches, so that consecutive questions with non-decreasing start instants
// continue the same scan instead of repeating it (Next(t') = Next(t) whenever
// t <= t' < Next(t)). A fresh Scanner per question gives the plain definition.
type Scanner struct {
	Z      *Zone
	S      *Schedule
	a, b   int64
	hit    bool // b itself matches
	valid  bool
	Probes int64 // instants examined (cost / coverage measure)
}

// Next: the earliest whole second strictly after t that matches, provided its
// calendar year (in the zone) is at most five more than that of the first
// candidate second; the caller applies the documented five-year horizon to it.
func (sc *Scanner) Next(t time.Time) Answer {
	start := t.Unix() + 1 // floor(t) + 1s
	if start < sc.Z.From || start > sc.Z.To {
		panic("cronref: start outside the scanned era")
	}
	limitYear := time.Unix(start, 0).In(sc.Z.Loc).Year() + 5
	if !sc.valid || start < sc.a || start > sc.b {
		sc.a, sc.b, sc.hit, sc.valid = start, start, false, true
	}
	for !sc.hit {
		if sc.b > sc.Z.To {
			panic("cronref: scan left the scanned era")
		}
		w := time.Unix(sc.b, 0).In(sc.Z.Loc)
		if w.Year() > limitYear {
			return Answer{}
		}
		sc.Probes++
		ok, level := sc.S.matchLevel(w)
		if ok {
			sc.hit = true
			break
		}
		_, off := w.Zone()
		switch {
		case level == 0 && off%900 == 0 && !sc.Z.badQuarter[sc.b/900]:
			// month, day and hour are constant over this UTC quarter hour
			sc.b = (sc.b/900 + 1) * 900
		case level <= 1 && off%60 == 0 && !sc.Z.badMinute[sc.b/60]:
			// ... and, with the minute, over this UTC minute
			sc.b = (sc.b/60 + 1) * 60
		default:
			sc.b++
		}
	}
	if time.Unix(sc.b, 0).In(sc.Z.Loc).Year() > limitYear {
		return Answer{}
	}
	return Answer{Found: true, Unix: sc.b}
}

// Next is the plain (memory-less) reference.
func Next(z *Zone, s *Schedule, t time.Time) Answer {
	sc := Scanner{Z: z, S: s}
	return sc.Next(t)
}

// EveryNext is the documented result of "@every d": t truncated to the second
// plus the effective delay.
func EveryNext(delay time.Duration, t time.Time) time.Time {
	return time.Unix(t.Unix(), 0).Add(delay)
}
