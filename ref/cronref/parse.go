// Package cronref is an independent reference model of the cron expression
// language and of "next activation" as documented in /repo/cron/doc.go (and,
// for the parser option sets, in the doc comments of cron.ParseOption /
// cron.NewParser). It is written from that documentation, not from kit's
// code, and deliberately shares no technique with it: the parser is a small
// hand-written scanner producing plain sets, Next is a monotone scan of
// absolute time (next.go).
//
// The parser is three-valued: an input is either given a meaning (Accept), is
// in one of the refusal classes the property names (Refuse), or is a form the
// documentation does not define at all (Undefined) - the property says nothing
// about the latter and the checks must not alarm on them.
package cronref

import (
	"time"
)

// Verdict of the reference parser.
type Verdict int

const (
	Accept    Verdict = iota // the documentation gives the expression a meaning
	Refuse                   // the property requires an error
	Undefined                // outside the documented grammar: no claim either way
)

func (v Verdict) String() string { return [...]string{"accept", "refuse", "undefined"}[v] }

// Tri is a three-valued flag.
type Tri int

const (
	No Tri = iota
	Yes
	Unspecified
)

func (t Tri) String() string { return [...]string{"no", "yes", "unspecified"}[t] }

// Schedule is the meaning of an accepted expression: bit i of a set is 1 iff
// value i is allowed in that field.
type Schedule struct {
	Sec, Min, Hour, Dom, Month, Dow uint64

	// DomStar/DowStar: is the day field "unrestricted" for the purpose of the
	// day rule (a day must satisfy both day fields if either is unrestricted,
	// and either of them if both are restricted)?
	//   Yes         - the field contains a bare '*' or '?'
	//   No          - it does not (it is "restricted"), whatever its value set:
	//                 "1-31", "sun-sat", "0,1,2,3,4,5,6" are restricted
	//   Unspecified - no bare star, but a "*/S" term and the whole range as
	//                 value set ("*/1"): the documentation is ambiguous there
	//                 and nothing is claimed.
	DomStar, DowStar Tri

	Zone string // IANA name given by a TZ=/CRON_TZ= prefix; "" = none

	IsEvery bool          // "@every d"
	Every   time.Duration // the effective delay (whole seconds, >= 1s)
}

// Presence of a field in a parser configuration.
type Presence int

const (
	Absent Presence = iota
	Required
	Optional
)

// Layout is a parser configuration (the documented meaning of cron.ParseOption):
// which fields an expression has, in the fixed order second, minute, hour,
// day-of-month, month, day-of-week. Absent / omitted-optional fields take their
// documented defaults: second, minute, hour 0; dom, month, dow '*'.
type Layout struct {
	Second      Presence
	Minute      bool
	Hour        bool
	Dom         bool
	Month       bool
	Dow         Presence
	Descriptors bool
}

// Result of the reference parser.
type Result struct {
	Verdict Verdict
	Why     string // refusal class or reason the form is undefined
	Sched   Schedule
}

type fieldKind int

const (
	fSec fieldKind = iota
	fMin
	fHour
	fDom
	fMonth
	fDow
)

// Range returns the documented allowed values of field k (0=second .. 5=dow).
func Range(k int) (min, max int) {
	switch fieldKind(k) {
	case fSec, fMin:
		return 0, 59
	case fHour:
		return 0, 23
	case fDom:
		return 1, 31
	case fMonth:
		return 1, 12
	default:
		return 0, 6
	}
}

// MonthNames and DowNames are the documented names, in value order.
var (
	MonthNames = []string{"JAN", "FEB", "MAR", "APR", "MAY", "JUN", "JUL", "AUG", "SEP", "OCT", "NOV", "DEC"}
	DowNames   = []string{"SUN", "MON", "TUE", "WED", "THU", "FRI", "SAT"}
)

func full(k fieldKind) uint64 {
	lo, hi := Range(int(k))
	var s uint64
	for v := lo; v <= hi; v++ {
		s |= 1 << uint(v)
	}
	return s
}

func refuse(why string) Result    { return Result{Verdict: Refuse, Why: why} }
func undefined(why string) Result { return Result{Verdict: Undefined, Why: why} }

// ZoneKnown decides whether an IANA zone name exists (the time zone database
// is part of the environment, not of the code under test).
var ZoneKnown = func(name string) bool {
	_, err := time.LoadLocation(name)
	return err == nil
}

// Parse gives spec its documented meaning under the parser configuration lay.
func Parse(spec string, lay Layout) Result {
	if spec == "" {
		return refuse("wrong field count (empty)")
	}
	var sch Schedule
	rest := spec
	for _, p := range []string{"CRON_TZ=", "TZ="} {
		if len(rest) >= len(p) && rest[:len(p)] == p {
			rest = rest[len(p):]
			sp := -1
			for i := 0; i < len(rest); i++ {
				if rest[i] == ' ' {
					sp = i
					break
				}
			}
			if sp < 0 {
				return undefined("time-zone prefix without a following expression")
			}
			zone := rest[:sp]
			if zone == "" {
				return undefined("empty time-zone name")
			}
			if !ZoneKnown(zone) {
				return refuse("unknown time zone")
			}
			sch.Zone = zone
			rest = rest[sp:]
			for len(rest) > 0 && rest[0] == ' ' {
				rest = rest[1:]
			}
			break
		}
	}
	for i := 0; i < len(rest); i++ {
		if rest[i] == '\t' || rest[i] == '\n' || rest[i] == '\r' {
			return undefined("separator other than a space")
		}
	}
	if len(rest) > 0 && rest[0] == '@' {
		if !lay.Descriptors {
			return refuse("descriptors not enabled")
		}
		return parseDescriptor(rest, sch)
	}
	// space-separated fields
	toks := make([]string, 0, 8)
	from := -1
	for i := 0; i <= len(rest); i++ {
		if i == len(rest) || rest[i] == ' ' {
			if from >= 0 {
				toks = append(toks, rest[from:i])
				from = -1
			}
			continue
		}
		if from < 0 {
			from = i
		}
	}
	// which fields are expected?
	type slot struct {
		kind fieldKind
		opt  bool
	}
	slots := make([]slot, 0, 6)
	if lay.Second != Absent {
		slots = append(slots, slot{fSec, lay.Second == Optional})
	}
	if lay.Minute {
		slots = append(slots, slot{fMin, false})
	}
	if lay.Hour {
		slots = append(slots, slot{fHour, false})
	}
	if lay.Dom {
		slots = append(slots, slot{fDom, false})
	}
	if lay.Month {
		slots = append(slots, slot{fMonth, false})
	}
	if lay.Dow != Absent {
		slots = append(slots, slot{fDow, lay.Dow == Optional})
	}
	nopt := 0
	for _, s := range slots {
		if s.opt {
			nopt++
		}
	}
	if nopt > 1 {
		return undefined("more than one optional field")
	}
	switch {
	case len(toks) == len(slots):
	case nopt == 1 && len(toks) == len(slots)-1:
		// the optional field was left out
		var kept []slot
		for _, s := range slots {
			if !s.opt {
				kept = append(kept, s)
			}
		}
		slots = kept
	default:
		return refuse("wrong field count")
	}
	// documented defaults
	sets := [6]uint64{1 << 0, 1 << 0, 1 << 0, full(fDom), full(fMonth), full(fDow)}
	stars := [6]Tri{No, No, No, Yes, Yes, Yes}
	verdict := Accept
	why := ""
	for i, s := range slots {
		set, star, v, w := parseField(toks[i], s.kind)
		switch v {
		case Undefined:
			// an undefined form anywhere makes the whole expression undefined
			return undefined(w)
		case Refuse:
			if verdict == Accept {
				verdict, why = Refuse, w
			}
		}
		sets[s.kind], stars[s.kind] = set, star
	}
	if verdict == Refuse {
		return refuse(why)
	}
	sch.Sec, sch.Min, sch.Hour, sch.Dom, sch.Month, sch.Dow = sets[0], sets[1], sets[2], sets[3], sets[4], sets[5]
	sch.DomStar, sch.DowStar = stars[fDom], stars[fDow]
	return Result{Verdict: Accept, Sched: sch}
}

// parseDescriptor: the table of predefined schedules and "@every <duration>".
func parseDescriptor(d string, sch Schedule) Result {
	at := func(min, hour, dom, month, dow uint64, domStar, dowStar Tri) Result {
		sch.Sec, sch.Min, sch.Hour, sch.Dom, sch.Month, sch.Dow = 1, min, hour, dom, month, dow
		sch.DomStar, sch.DowStar = domStar, dowStar
		return Result{Verdict: Accept, Sched: sch}
	}
	switch d {
	case "@yearly", "@annually": // 0 0 1 1 *
		return at(1, 1, 1<<1, 1<<1, full(fDow), No, Yes)
	case "@monthly": // 0 0 1 * *
		return at(1, 1, 1<<1, full(fMonth), full(fDow), No, Yes)
	case "@weekly": // 0 0 * * 0
		return at(1, 1, full(fDom), full(fMonth), 1<<0, Yes, No)
	case "@daily", "@midnight": // 0 0 * * *
		return at(1, 1, full(fDom), full(fMonth), full(fDow), Yes, Yes)
	case "@hourly": // 0 * * * *
		return at(1, full(fHour), full(fDom), full(fMonth), full(fDow), Yes, Yes)
	}
	const every = "@every "
	if len(d) > len(every) && d[:len(every)] == every {
		dur, err := time.ParseDuration(d[len(every):])
		if err != nil {
			return refuse("non-numeric / malformed duration")
		}
		sch.IsEvery = true
		sch.Every = EveryDelay(dur)
		return Result{Verdict: Accept, Sched: sch}
	}
	return refuse("unknown descriptor")
}

// EveryDelay is the documented effective delay of "@every d": d rounded down
// to whole seconds, and at least one second.
func EveryDelay(d time.Duration) time.Duration {
	whole := (d / time.Second) * time.Second
	if d < 0 || whole < time.Second {
		return time.Second
	}
	return whole
}

// parseField: a comma-separated list of terms.
func parseField(f string, k fieldKind) (set uint64, star Tri, v Verdict, why string) {
	v = Accept
	bare, starStep := false, false
	start := 0
	for i := 0; i <= len(f); i++ {
		if i < len(f) && f[i] != ',' {
			continue
		}
		term := f[start:i]
		start = i + 1
		if term == "" {
			return 0, No, Undefined, "empty list item"
		}
		s, isBare, tv, tw := parseTerm(term, k)
		if tv == Undefined {
			return 0, No, Undefined, tw
		}
		if tv == Refuse && v == Accept {
			v, why = Refuse, tw
		}
		set |= s
		bare = bare || isBare
		if len(term) > 1 && term[0] == '*' && term[1] == '/' {
			starStep = true
		}
	}
	if v != Accept {
		return 0, No, v, why
	}
	// "Restricted" (the either-day rule applies when BOTH day fields are) means
	// written without '*' / '?': doc.go defers to the Wikipedia rule "restricted
	// (not contain '*')". A field spelled as ranges / lists / names is therefore
	// restricted even when its values add up to the whole range ("1-31",
	// "sun-sat", "0,1,2,3,4,5,6"). "*/S" contains a star but doc.go also calls
	// it equivalent to "first-last/S": for a strict subset it is taken as
	// restricted (both the set reading and the equivalence say so); for the
	// whole range ("*/1") the two readings disagree and nothing is claimed.
	switch {
	case bare:
		star = Yes
	case set == full(k) && starStep:
		star = Unspecified
	default:
		star = No
	}
	return set, star, Accept, ""
}

type tokClass int

const (
	tNumber tokClass = iota
	tName
	tEmpty
	tSigned
	tStar
	tOther
)

// classify a value token of field k.
func classify(tok string, k fieldKind) (tokClass, int) {
	if tok == "" {
		return tEmpty, 0
	}
	if tok == "*" || tok == "?" {
		return tStar, 0
	}
	digits := true
	for i := 0; i < len(tok); i++ {
		if tok[i] < '0' || tok[i] > '9' {
			digits = false
		}
	}
	if digits {
		n := 0
		for i := 0; i < len(tok); i++ {
			n = n*10 + int(tok[i]-'0')
			if n > 1<<30 {
				n = 1 << 30 // far beyond every range; keeps the arithmetic small
			}
		}
		return tNumber, n
	}
	if (tok[0] == '+' || tok[0] == '-') && len(tok) > 1 {
		rest := true
		for i := 1; i < len(tok); i++ {
			if tok[i] < '0' || tok[i] > '9' {
				rest = false
			}
		}
		if rest {
			return tSigned, 0
		}
	}
	var names []string
	base := 0
	switch k {
	case fMonth:
		names, base = MonthNames, 1
	case fDow:
		names, base = DowNames, 0
	}
	if len(tok) == 3 {
		up := make([]byte, 3)
		for i := 0; i < 3; i++ {
			c := tok[i]
			if c >= 'a' && c <= 'z' {
				c -= 'a' - 'A'
			}
			up[i] = c
		}
		for i, n := range names {
			if n == string(up) {
				return tName, base + i
			}
		}
	}
	return tOther, 0
}

// parseTerm: '*' | '?' | v | v-v | '*'/s | v/s | v-v/s.
func parseTerm(term string, k fieldKind) (set uint64, bareStar bool, v Verdict, why string) {
	lo, hi := Range(int(k))
	slashes, hyphens := 0, 0
	for i := 0; i < len(term); i++ {
		if term[i] == '/' {
			slashes++
		}
	}
	if slashes > 1 {
		return 0, false, Undefined, "more than one slash"
	}
	base, stepTok := term, ""
	if slashes == 1 {
		for i := 0; i < len(term); i++ {
			if term[i] == '/' {
				base, stepTok = term[:i], term[i+1:]
			}
		}
	}
	v = Accept
	note := func(nv Verdict, w string) {
		if nv == Undefined {
			v, why = Undefined, w
		} else if nv == Refuse && v == Accept {
			v, why = Refuse, w
		}
	}
	step := 1
	if slashes == 1 {
		c, n := classify(stepTok, fSec) // a step is never a name
		switch c {
		case tNumber:
			if n == 0 {
				note(Refuse, "zero step")
			}
			step = n
		case tSigned:
			note(Undefined, "signed number")
		case tStar:
			note(Undefined, "star as step")
		default:
			note(Refuse, "non-numeric step")
		}
	}
	from, to := lo, hi
	switch {
	case base == "*":
		bareStar = slashes == 0
	case base == "?":
		if k != fDom && k != fDow {
			return 0, false, Undefined, "'?' outside the day fields"
		}
		if slashes == 1 {
			return 0, false, Undefined, "'?' with a step"
		}
		bareStar = true
	default:
		for i := 0; i < len(base); i++ {
			if base[i] == '-' {
				hyphens++
			}
		}
		if hyphens > 1 {
			return 0, false, Undefined, "more than one hyphen"
		}
		a, b := base, ""
		if hyphens == 1 {
			for i := 0; i < len(base); i++ {
				if base[i] == '-' {
					a, b = base[:i], base[i+1:]
				}
			}
		}
		val := func(tok string) int {
			c, n := classify(tok, k)
			switch c {
			case tNumber, tName:
				if n < lo || n > hi {
					note(Refuse, "value out of range")
				}
				return n
			case tSigned:
				note(Undefined, "signed number")
			case tStar:
				note(Undefined, "star as a range bound")
			case tEmpty:
				note(Refuse, "non-numeric (empty) value")
			default:
				note(Refuse, "non-numeric value / unknown name")
			}
			return lo
		}
		from = val(a)
		if hyphens == 1 {
			to = val(b)
			if v == Accept && from > to {
				note(Refuse, "inverted range")
			}
		} else if slashes == 1 {
			to = hi // "N/S" means "N-MAX/S"
		} else {
			to = from
		}
	}
	if v != Accept {
		return 0, false, v, why
	}
	for x := from; x <= to; x += step {
		set |= 1 << uint(x)
	}
	return set, bareStar, Accept, ""
}
