package cronref

import (
	"testing"
	"time"
	_ "time/tzdata"
)

// Anchors: every example that doc.go spells out, evaluated by the reference.

var std = Layout{Minute: true, Hour: true, Dom: true, Month: true, Dow: Required, Descriptors: true}
var withSec = Layout{Second: Required, Minute: true, Hour: true, Dom: true, Month: true, Dow: Required, Descriptors: true}

func set(vs ...int) uint64 {
	var s uint64
	for _, v := range vs {
		s |= 1 << uint(v)
	}
	return s
}

func rng(a, b int) uint64 {
	var s uint64
	for v := a; v <= b; v++ {
		s |= 1 << uint(v)
	}
	return s
}

func TestDocExamples(t *testing.T) {
	r := Parse("3-59/15 * * * *", std)
	if r.Verdict != Accept || r.Sched.Min != set(3, 18, 33, 48) {
		t.Fatalf("3-59/15: %+v", r)
	}
	r = Parse("30 3-6,20-23 * * *", std)
	if r.Verdict != Accept || r.Sched.Min != set(30) || r.Sched.Hour != rng(3, 6)|rng(20, 23) || r.Sched.Sec != 1 {
		t.Fatalf("%+v", r)
	}
	r = Parse("* * * * MON,WED,FRI", std)
	if r.Verdict != Accept || r.Sched.Dow != set(1, 3, 5) || r.Sched.DowStar != No || r.Sched.DomStar != Yes {
		t.Fatalf("%+v", r)
	}
	r = Parse("* 9-17 * * *", std)
	if r.Verdict != Accept || r.Sched.Hour != rng(9, 17) {
		t.Fatalf("%+v", r)
	}
	r = Parse("CRON_TZ=Asia/Tokyo 30 04 * * *", std)
	if r.Verdict != Accept || r.Sched.Zone != "Asia/Tokyo" || r.Sched.Hour != set(4) || r.Sched.Min != set(30) {
		t.Fatalf("%+v", r)
	}
	r = Parse("0 6 * * ?", std)
	if r.Verdict != Accept || r.Sched.DowStar != Yes || r.Sched.Dow != rng(0, 6) {
		t.Fatalf("%+v", r)
	}
	// "*/S" == "first-last/S"; "N/S" == "N-MAX/S"
	a, b := Parse("*/7 * * * *", std), Parse("0-59/7 * * * *", std)
	if a.Sched.Min != b.Sched.Min {
		t.Fatal("*/7")
	}
	a, b = Parse("* * 5/3 * *", std), Parse("* * 5-31/3 * *", std)
	if a.Sched.Dom != b.Sched.Dom || a.Sched.Dom != set(5, 8, 11, 14, 17, 20, 23, 26, 29) {
		t.Fatal("5/3")
	}
	// the table of predefined schedules
	for d, eq := range map[string]string{"@yearly": "0 0 1 1 *", "@annually": "0 0 1 1 *", "@monthly": "0 0 1 * *", "@weekly": "0 0 * * 0", "@daily": "0 0 * * *", "@midnight": "0 0 * * *", "@hourly": "0 * * * *"} {
		x, y := Parse(d, std), Parse(eq, std)
		if x.Verdict != Accept || x.Sched != y.Sched {
			t.Fatalf("%s vs %s: %+v %+v", d, eq, x, y)
		}
	}
	r = Parse("@every 1h30m10s", std)
	if !r.Sched.IsEvery || r.Sched.Every != time.Hour+30*time.Minute+10*time.Second {
		t.Fatalf("%+v", r)
	}
	if EveryDelay(1500*time.Millisecond) != time.Second || EveryDelay(10*time.Millisecond) != time.Second || EveryDelay(-time.Hour) != time.Second {
		t.Fatal("EveryDelay")
	}
	for spec, v := range map[string]Verdict{
		"* * * *": Refuse, "* * * * * *": Refuse, "60 * * * *": Refuse, "* 24 * * *": Refuse, "* * 0 * *": Refuse, "* * * 13 *": Refuse, "* * * * 7": Refuse,
		"5-3 * * * *": Refuse, "*/0 * * * *": Refuse, "x * * * *": Refuse, "* * * FOO *": Refuse, "* * * * JAN": Refuse, "@foo": Refuse, "TZ=No/Where * * * * *": Refuse,
		"-1 * * * *":  Refuse,
		"*-5 * * * *": Undefined, "1,,2 * * * *": Undefined, "+5 * * * *": Undefined, "? * * * *": Undefined, ", * * * *": Undefined, "TZ=UTC": Undefined,
		"* * 1-31 * *": Accept, "* * */1 * *": Accept,
	} {
		if got := Parse(spec, std); got.Verdict != v {
			t.Errorf("%q: %v (%s), want %v", spec, got.Verdict, got.Why, v)
		}
	}
	if Parse("* * 1-31 * *", std).Sched.DomStar != No || Parse("* * * * sun-sat", std).Sched.DowStar != No || Parse("* * 1-15,16-31 * *", std).Sched.DomStar != No || Parse("* * */2,2-30/2 * *", std).Sched.DomStar != Unspecified || Parse("* * */1 * *", std).Sched.DomStar != Unspecified || Parse("* * */2 * *", std).Sched.DomStar != No || Parse("* * *,5 * *", std).Sched.DomStar != Yes {
		t.Fatal("star flags")
	}
}

func TestNextAnchors(t *testing.T) {
	ny, err := time.LoadLocation("America/New_York")
	if err != nil {
		t.Fatal(err)
	}
	from := time.Date(2004, 12, 1, 0, 0, 0, 0, time.UTC).Unix()
	to := time.Date(2037, 2, 1, 0, 0, 0, 0, time.UTC).Unix()
	z, err := ScanZone("America/New_York", ny, from, to, true)
	if err != nil {
		t.Fatal(err)
	}
	// 2012-03-11 07:00Z spring forward, 2012-11-04 06:00Z fall back
	found := 0
	for _, tr := range z.Transitions {
		s := time.Unix(tr, 0).UTC().Format(time.RFC3339)
		if s == "2012-03-11T07:00:00Z" || s == "2012-11-04T06:00:00Z" {
			found++
		}
	}
	if found != 2 || !z.AllOffsets15m || len(z.UnalignedTransitions) != 0 {
		t.Fatalf("transitions: %d %+v", found, z)
	}
	cases := []struct{ spec, start, want string }{
		// "Runs at 6am in America/New_York"
		{"0 0 6 * * ?", "2012-07-09T14:45:00-04:00", "2012-07-10T06:00:00-04:00"},
		// a wall time in the spring-forward gap does not occur that day
		{"0 30 2 * * *", "2012-03-11T00:00:00-05:00", "2012-03-12T02:30:00-04:00"},
		// a wall time in the fall-back overlap occurs twice; the first one is earliest
		{"0 30 1 * * *", "2012-11-04T00:00:00-04:00", "2012-11-04T01:30:00-04:00"},
		{"0 30 1 * * *", "2012-11-04T01:30:00-04:00", "2012-11-04T01:30:00-05:00"},
		// either-day rule: both restricted
		{"0 0 0 15 * 1", "2012-07-09T14:45:00-04:00", "2012-07-15T00:00:00-04:00"},
		{"0 0 0 15 * 1", "2012-07-15T00:00:00-04:00", "2012-07-16T00:00:00-04:00"},
		// leap day
		{"0 0 0 29 2 *", "2012-07-09T14:45:00-04:00", "2016-02-29T00:00:00-05:00"},
	}
	for _, c := range cases {
		r := Parse(c.spec, withSec)
		if r.Verdict != Accept {
			t.Fatal(c.spec)
		}
		st, _ := time.Parse(time.RFC3339, c.start)
		w, _ := time.Parse(time.RFC3339, c.want)
		a := Next(z, &r.Sched, st)
		if !a.Found || a.Unix != w.Unix() {
			t.Errorf("%s from %s: got %v want %s", c.spec, c.start, time.Unix(a.Unix, 0).In(ny), c.want)
		}
	}
	r := Parse("0 0 0 30 2 *", withSec)
	if a := Next(z, &r.Sched, time.Date(2012, 7, 9, 0, 0, 0, 0, time.UTC)); a.Found {
		t.Error("Feb 30 found")
	}
	// the continuing scanner gives the same answers as the plain one
	r = Parse("0 */15 1,2 * * 0", withSec)
	sc := &Scanner{Z: z, S: &r.Sched, Fast: true}
	for u := time.Date(2012, 3, 9, 0, 0, 0, 0, time.UTC).Unix(); u < time.Date(2012, 3, 20, 0, 0, 0, 0, time.UTC).Unix(); u += 421 {
		a, b := sc.Next(time.Unix(u, 5)), Next(z, &r.Sched, time.Unix(u, 5))
		if a != b {
			t.Fatalf("scanner %v plain %v at %d", a, b, u)
		}
	}
}
