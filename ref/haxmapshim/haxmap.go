// Package haxmap (import path verif/ref/haxmapshim) is a linearizable stand-in
// for github.com/alphadose/haxmap used ONLY by the concurrent part of C15:
// every method is one atomic step on the model runtime (a scheduling point
// followed by the whole operation) and ForEach walks the live key set in a fixed total order,
// element by element, with a scheduling point between elements (an insertion
// behind the cursor is visited, as in the real sorted list). The property is
// then about the cache given a linearizable map; the real haxmap is exercised
// by the sequential part.
package haxmap

import (
	"fmt"

	"verif/mc"
)

// Event is reported to Trace for every map-level step.
type Event struct {
	Op     string // "set", "get", "del", "visit", "foreach-begin", "foreach-end", "len"
	Key    any
	Keys   []any
	Val    any
	Ok     bool
	Thread int
	Step   int
}

// Trace, when set, receives every map-level step (the harness sets it at the
// start of each execution).
var Trace func(Event)

func emit(e Event) {
	if Trace != nil {
		e.Thread, e.Step = mc.ThreadID(), mc.Step()
		Trace(e)
	}
}

type Map[K comparable, V any] struct {
	keys []K
	m    map[K]V
}

func New[K comparable, V any](size ...uintptr) *Map[K, V] {
	return &Map[K, V]{m: map[K]V{}}
}

func (m *Map[K, V]) Get(k K) (V, bool) {
	mc.Yield()
	v, ok := m.m[k]
	emit(Event{Op: "get", Key: k, Val: v, Ok: ok})
	return v, ok
}

func (m *Map[K, V]) Set(k K, v V) {
	mc.Yield()
	if _, ok := m.m[k]; !ok {
		m.keys = append(m.keys, k)
	}
	m.m[k] = v
	emit(Event{Op: "set", Key: k, Val: v})
}

func (m *Map[K, V]) Del(keys ...K) {
	mc.Yield()
	var ks []any
	for _, k := range keys {
		ks = append(ks, k)
		if _, ok := m.m[k]; ok {
			delete(m.m, k)
			for i, x := range m.keys {
				if x == k {
					m.keys = append(m.keys[:i], m.keys[i+1:]...)
					break
				}
			}
		}
	}
	emit(Event{Op: "del", Keys: ks})
}

func (m *Map[K, V]) Len() uintptr {
	mc.Yield()
	emit(Event{Op: "len"})
	return uintptr(len(m.m))
}

func (m *Map[K, V]) ForEach(f func(K, V) bool) {
	// The real map keeps its elements in a list sorted by key hash and ForEach
	// walks that live list: an element inserted behind the cursor while the walk
	// is under way is visited, one inserted before it is not. The stand-in walks
	// the keys in a fixed total order (their printed form) and, at every step,
	// goes on to the smallest key beyond the last one visited.
	mc.Yield()
	emit(Event{Op: "foreach-begin"})
	cursor, started := "", false
	for {
		mc.Yield()
		var next K
		nextS, found := "", false
		for k := range m.m {
			ks := fmt.Sprint(k)
			if started && ks <= cursor {
				continue
			}
			if !found || ks < nextS {
				next, nextS, found = k, ks, true
			}
		}
		if !found {
			break
		}
		cursor, started = nextS, true
		v := m.m[next]
		emit(Event{Op: "visit", Key: next, Val: v})
		if !f(next, v) {
			break
		}
	}
	emit(Event{Op: "foreach-end"})
}

// The rest of the real map's API (each method one atomic step), so that a
// change of the cache that starts using it can still be explored.

func (m *Map[K, V]) GetOrSet(k K, v V) (V, bool) {
	mc.Yield()
	if old, ok := m.m[k]; ok {
		emit(Event{Op: "get", Key: k, Val: old, Ok: true})
		return old, true
	}
	m.keys = append(m.keys, k)
	m.m[k] = v
	emit(Event{Op: "set", Key: k, Val: v})
	return v, false
}

func (m *Map[K, V]) GetOrCompute(k K, fn func() V) (V, bool) {
	mc.Yield()
	if old, ok := m.m[k]; ok {
		emit(Event{Op: "get", Key: k, Val: old, Ok: true})
		return old, true
	}
	v := fn()
	m.keys = append(m.keys, k)
	m.m[k] = v
	emit(Event{Op: "set", Key: k, Val: v})
	return v, false
}

func (m *Map[K, V]) GetAndDel(k K) (V, bool) {
	mc.Yield()
	v, ok := m.m[k]
	emit(Event{Op: "get", Key: k, Val: v, Ok: ok})
	if ok {
		delete(m.m, k)
		for i, x := range m.keys {
			if x == k {
				m.keys = append(m.keys[:i], m.keys[i+1:]...)
				break
			}
		}
		emit(Event{Op: "del", Keys: []any{k}})
	}
	return v, ok
}

func (m *Map[K, V]) Swap(k K, v V) (V, bool) {
	mc.Yield()
	old, ok := m.m[k]
	if ok {
		m.m[k] = v
		emit(Event{Op: "set", Key: k, Val: v})
	}
	return old, ok
}

func (m *Map[K, V]) CompareAndSwap(k K, old, new V) bool {
	mc.Yield()
	cur, ok := m.m[k]
	if ok && any(cur) == any(old) {
		m.m[k] = new
		emit(Event{Op: "set", Key: k, Val: new})
		return true
	}
	return false
}

func (m *Map[K, V]) Grow(uintptr)              {}
func (m *Map[K, V]) SetHasher(func(K) uintptr) {}
func (m *Map[K, V]) Fillrate() uintptr         { return 50 }
