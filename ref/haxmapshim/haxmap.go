// Package haxmap (import path verif/ref/haxmapshim) is a linearizable stand-in
// for github.com/alphadose/haxmap used ONLY by the concurrent part of C15:
// every method is one atomic step on the model runtime (a scheduling point
// followed by the whole operation) and ForEach visits a snapshot of the keys
// element by element with a scheduling point between elements. The property is
// then about the cache given a linearizable map; the real haxmap is exercised
// by the sequential part.
package haxmap

import "verif/mc"

// Event is reported to Trace for every map-level step.
type Event struct {
	Op     string // "set", "get", "del", "visit", "foreach-begin", "foreach-end", "len"
	Key    any
	Keys   []any
	Val    any
	Ok     bool
	Thread int
	Step   int
}

// Trace, when set, receives every map-level step (the harness sets it at the
// start of each execution).
var Trace func(Event)

func emit(e Event) {
	if Trace != nil {
		e.Thread, e.Step = mc.ThreadID(), mc.Step()
		Trace(e)
	}
}

type Map[K comparable, V any] struct {
	keys []K
	m    map[K]V
}

func New[K comparable, V any](size ...uintptr) *Map[K, V] {
	return &Map[K, V]{m: map[K]V{}}
}

func (m *Map[K, V]) Get(k K) (V, bool) {
	mc.Yield()
	v, ok := m.m[k]
	emit(Event{Op: "get", Key: k, Val: v, Ok: ok})
	return v, ok
}

func (m *Map[K, V]) Set(k K, v V) {
	mc.Yield()
	if _, ok := m.m[k]; !ok {
		m.keys = append(m.keys, k)
	}
	m.m[k] = v
	emit(Event{Op: "set", Key: k, Val: v})
}

func (m *Map[K, V]) Del(keys ...K) {
	mc.Yield()
	var ks []any
	for _, k := range keys {
		ks = append(ks, k)
		if _, ok := m.m[k]; ok {
			delete(m.m, k)
			for i, x := range m.keys {
				if x == k {
					m.keys = append(m.keys[:i], m.keys[i+1:]...)
					break
				}
			}
		}
	}
	emit(Event{Op: "del", Keys: ks})
}

func (m *Map[K, V]) Len() uintptr {
	mc.Yield()
	emit(Event{Op: "len"})
	return uintptr(len(m.m))
}

func (m *Map[K, V]) ForEach(f func(K, V) bool) {
	mc.Yield()
	snap := append([]K(nil), m.keys...)
	emit(Event{Op: "foreach-begin"})
	for _, k := range snap {
		mc.Yield()
		v, ok := m.m[k]
		if !ok {
			continue
		}
		emit(Event{Op: "visit", Key: k, Val: v})
		if !f(k, v) {
			break
		}
	}
	emit(Event{Op: "foreach-end"})
}
