// Package enumx is the harness-side support for Engine-2 parts: exhaustive
// enumeration of inputs, operation histories, fault placements and crash
// points on the real code (no scheduler). A part is a Go test package with
//
//	func TestCheck(t *testing.T) { enumx.Main(t, "<part name>", run) }
//
// where run enumerates its space through the *Run it is given.
package enumx

import (
	"encoding/json"
	"flag"
	"fmt"
	"os"
	"runtime"
	"sort"
	"sync"
	"sync/atomic"
	"testing"
	"time"

	"verif/evid"
)

var (
	flagTier   = flag.String("tier", "quick", "quick|thorough")
	flagOut    = flag.String("out", "", "part result file")
	flagReplay = flag.String("replay", "", "replay file")
	flagOnly   = flag.String("only", "", "scenario filter of mc parts; accepted and ignored by enumeration parts so that one command line serves every part")
	flagBudget = flag.Duration("budget", 0, "wall-clock budget; when exceeded the part stops, reports exhaustive=false and exits 0")
)

// Run collects what a part covered.
type Run struct {
	Tier     string
	Property string
	Part     string
	start    time.Time
	deadline time.Time

	replaying   bool
	mu          sync.Mutex
	evals       atomic.Int64
	nontrivial  atomic.Int64
	findings    []evid.Finding
	findingKeys map[string]int
	samples     []any
	extra       map[string]any
	rule        string
	assumptions []string
	incomplete  []string
	spaces      []string
}

// Thorough reports whether the thorough tier was requested.
func (r *Run) Thorough() bool { return r.Tier == "thorough" }

// Count adds n evaluated cases of which nt are distinct and non-trivial.
func (r *Run) Count(n, nt int64) { r.evals.Add(n); r.nontrivial.Add(nt) }

// Sample records an example case (at most 8 are kept per part).
func (r *Run) Sample(v any) {
	r.mu.Lock()
	if len(r.samples) < 8 {
		r.samples = append(r.samples, v)
	}
	r.mu.Unlock()
}

// Rule states how cases are enumerated and what makes one non-trivial.
func (r *Run) Rule(s string) { r.rule = s }

// Assume records an assumption / trusted-base item.
func (r *Run) Assume(s string) { r.assumptions = append(r.assumptions, s) }

// Set records an extra coverage key.
func (r *Run) Set(k string, v any) { r.mu.Lock(); r.extra[k] = v; r.mu.Unlock() }

// Space records that a named sub-space was enumerated completely.
func (r *Run) Space(desc string) { r.mu.Lock(); r.spaces = append(r.spaces, desc); r.mu.Unlock() }

// Incomplete records that a sub-space was cut short (budget / cap); the part
// then reports exhaustive=false.
func (r *Run) Incomplete(desc string) {
	r.mu.Lock()
	r.incomplete = append(r.incomplete, desc)
	r.mu.Unlock()
}

// Expired reports whether the wall-clock budget is used up.
func (r *Run) Expired() bool { return !r.deadline.IsZero() && time.Now().After(r.deadline) }

// Violation records a finding. key identifies the failing input / call site /
// history class (it is what known_findings.txt matches on); replay is any
// JSON-serialisable value from which -replay can reproduce the case. At most
// 20 findings per key are kept.
func (r *Run) Violation(key, msg string, replay any) {
	r.mu.Lock()
	defer r.mu.Unlock()
	r.findingKeys[key]++
	if r.findingKeys[key] > 20 {
		return
	}
	if r.replaying {
		// re-running a stored case: report, but do not write another artefact
		r.findings = append(r.findings, evid.Finding{Key: key, Msg: msg})
		return
	}
	wrapped := map[string]any{"property": r.Property, "part": r.Part, "key": key, "msg": msg, "case": replay}
	path := evid.SaveReplay(r.Property, r.Part+"-"+key+"-"+fmt.Sprint(r.findingKeys[key]), wrapped)
	r.findings = append(r.findings, evid.Finding{Key: key, Msg: msg, Replay: path})
}

// Parallel runs fn(i) for i in [0,n) on all cores; it stops handing out work
// when the budget expires and returns how many indices were processed.
func (r *Run) Parallel(n int, fn func(i int)) int {
	var next atomic.Int64
	var done atomic.Int64
	var wg sync.WaitGroup
	w := runtime.NumCPU()
	if w > n {
		w = n
	}
	for k := 0; k < w; k++ {
		wg.Add(1)
		go func() {
			defer wg.Done()
			for {
				i := int(next.Add(1) - 1)
				if i >= n || r.Expired() {
					return
				}
				fn(i)
				done.Add(1)
			}
		}()
	}
	wg.Wait()
	return int(done.Load())
}

// ReplayCase is the decoded replay file.
type ReplayCase struct {
	Key  string          `json:"key"`
	Msg  string          `json:"msg"`
	Case json.RawMessage `json:"case"`
}

// Main is the body of TestCheck. run enumerates the space; when replay is
// non-nil the part is asked to re-run exactly that case and must call
// r.Violation again if it still fails.
func Main(t *testing.T, property, part string, run func(r *Run, replay *ReplayCase)) {
	_ = *flagOnly
	r := &Run{Tier: *flagTier, Property: property, Part: part, start: time.Now(), findingKeys: map[string]int{}, extra: map[string]any{}}
	if *flagBudget > 0 {
		r.deadline = r.start.Add(*flagBudget)
	}
	if *flagReplay != "" {
		b, err := os.ReadFile(*flagReplay)
		if err != nil {
			t.Fatal(err)
		}
		var rc ReplayCase
		if err := json.Unmarshal(b, &rc); err != nil {
			t.Fatal(err)
		}
		r.replaying = true
		run(r, &rc)
		if len(r.findings) > 0 {
			for _, f := range r.findings {
				fmt.Printf("REPRODUCED key=%s\n  %s\n", f.Key, f.Msg)
			}
			t.Fail()
		} else {
			fmt.Println("replay: no violation")
		}
		return
	}
	run(r, nil)
	cov := map[string]any{
		"evaluations":         r.evals.Load(),
		"distinct_nontrivial": r.nontrivial.Load(),
		"rule":                r.rule,
		"samples":             r.samples,
		"exhaustive":          len(r.incomplete) == 0,
		"spaces_completed":    r.spaces,
		"spaces_cut_short":    r.incomplete,
		"wall_s":              time.Since(r.start).Seconds(),
	}
	for k, v := range r.extra {
		cov[k] = v
	}
	if len(r.samples) == 0 {
		cov["samples"] = []any{"(none recorded)"}
	}
	sort.SliceStable(r.findings, func(i, j int) bool { return r.findings[i].Key < r.findings[j].Key })
	res := map[string]any{"name": part, "coverage": cov, "findings": r.findings, "assumptions": r.assumptions}
	if r.findings == nil {
		res["findings"] = []evid.Finding{}
	}
	b, _ := json.Marshal(res)
	if *flagOut == "" {
		fmt.Printf("part %s/%s: evaluations=%d nontrivial=%d findings=%d exhaustive=%v wall=%.1fs\n", property, part, r.evals.Load(), r.nontrivial.Load(), len(r.findings), len(r.incomplete) == 0, time.Since(r.start).Seconds())
		for _, f := range r.findings {
			fmt.Printf("FINDING key=%s\n  %s\n", f.Key, f.Msg)
		}
		return
	}
	if err := os.WriteFile(*flagOut, b, 0o644); err != nil {
		t.Fatal(err)
	}
	fmt.Printf("part %s/%s tier=%s evaluations=%d findings=%d exhaustive=%v wall=%.1fs\n", property, part, r.Tier, r.evals.Load(), len(r.findings), len(r.incomplete) == 0, time.Since(r.start).Seconds())
}
