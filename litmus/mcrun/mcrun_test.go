// Package mcrun explores every litmus program (re-targeted by mcgen through the
// build overlay) exhaustively and writes the outcome sets for the native run.
package mcrun

import (
	"encoding/json"
	"os"
	"sort"
	"testing"
	"time"

	"verif/litmus/progs"
	"verif/mc"
)

func TestExplore(t *testing.T) {
	sets := map[string][]string{}
	for _, p := range progs.All() {
		p := p
		seen := map[string]bool{}
		st := mc.Explore(mc.Options{Bound: 3, TieCost: 0, AutoClock: true, Horizon: 100 * time.Hour, MaxSteps: 5000}, func() *mc.Exec {
			var out string
			done := false
			return &mc.Exec{
				Body: func() { out = p.Run(); done = true },
				Check: func(e *mc.End) error {
					if !done {
						t.Errorf("%s: program did not terminate under the model: parked=%v", p.Name, e.Parked())
						return nil
					}
					seen[out] = true
					mc.Outcome(out)
					return nil
				},
			}
		})
		if len(st.Violations) > 0 {
			t.Errorf("%s: %s", p.Name, st.Violations[0].Msg)
		}
		var got []string
		for s := range seen {
			got = append(got, s)
		}
		sort.Strings(got)
		sets[p.Name] = got
		if p.Want != nil {
			w := append([]string(nil), p.Want...)
			sort.Strings(w)
			if len(w) != len(got) {
				t.Errorf("%s: explorer found outcomes %q, hand-derived set is %q", p.Name, got, w)
				continue
			}
			for i := range w {
				if w[i] != got[i] {
					t.Errorf("%s: explorer found outcomes %q, hand-derived set is %q", p.Name, got, w)
					break
				}
			}
		}
		t.Logf("%-32s execs=%-6d outcomes=%q", p.Name, st.Execs, got)
	}
	if f := os.Getenv("LITMUS_OUT"); f != "" {
		b, _ := json.MarshalIndent(sets, "", " ")
		if err := os.WriteFile(f, b, 0o644); err != nil {
			t.Fatal(err)
		}
	}
}
