// Package native runs every litmus program on the real Go runtime many times;
// each observed outcome must be in the set the explorer computed.
package native

import (
	"encoding/json"
	"os"
	"runtime"
	"strconv"
	"testing"

	"verif/litmus/progs"
)

func TestNative(t *testing.T) {
	f := os.Getenv("LITMUS_OUT")
	if f == "" {
		t.Skip("LITMUS_OUT not set")
	}
	b, err := os.ReadFile(f)
	if err != nil {
		t.Fatal(err)
	}
	sets := map[string][]string{}
	if err := json.Unmarshal(b, &sets); err != nil {
		t.Fatal(err)
	}
	for _, p := range progs.All() {
		allowed := map[string]bool{}
		for _, s := range sets[p.Name] {
			allowed[s] = true
		}
		if len(allowed) == 0 {
			t.Errorf("%s: no model outcomes", p.Name)
			continue
		}
		seen := map[string]int{}
		n := 1500
		if v, err := strconv.Atoi(os.Getenv("LITMUS_N")); err == nil && v > 0 {
			n = v
		}
		for i := 0; i < n; i++ {
			if i%3 == 0 {
				runtime.Gosched()
			}
			o := p.Run()
			seen[o]++
			if !allowed[o] {
				t.Errorf("%s: native outcome %q is not among the explorer's outcomes %q — the model excludes something real", p.Name, o, sets[p.Name])
				break
			}
		}
		t.Logf("%-32s native outcomes %v of model %q", p.Name, seen, sets[p.Name])
	}
}
