#!/bin/bash
# Conformance of mcgen + the model runtime with the real Go runtime (DESIGN §2.7).
set -e
cd "$(dirname "$0")/.."
export GOFLAGS=-mod=mod GOPROXY=off GOSUMDB=off GOTOOLCHAIN=local
tmp=$(mktemp -d)
trap 'rm -rf "$tmp"' EXIT
bin/mcgen -repo "$(pwd)" -out "$tmp/gen" verif/litmus/progs
export LITMUS_OUT="$tmp/sets.json"
go test -count=1 -vet=off -overlay "$tmp/gen/overlay.json" ./litmus/mcrun "$@"
go test -count=1 -vet=off ./litmus/native "$@"
echo "litmus conformance ok"
