// Package progs holds tiny concurrent programs in plain Go. They are run (a)
// natively, many times, on the real Go runtime and (b) exhaustively under the
// mc explorer after mcgen has re-targeted this very file. Every outcome seen
// natively must be in the set the explorer computed (the model must
// over-approximate the runtime), and for programs with a hand-derived expected
// set the explorer's set must equal it. This binds mcgen's rewrite and the
// model runtime to the real semantics of channels, select, sync, atomics,
// timers and contexts.
package progs

import (
	"context"
	"fmt"
	"sort"
	"strings"
	"sync"
	"sync/atomic"
	"time"
)

// Program is one litmus test. Run must terminate and return its observation.
type Program struct {
	Name string
	Run  func() string
	// Want, when non-nil, is the exact set of outcomes (sorted) the explorer must find.
	Want []string
}

func join(xs []string) string { sort.Strings(xs); return strings.Join(xs, ",") }

// All returns the litmus programs.
func All() []Program {
	return []Program{
		{"lost-update", func() string {
			var a atomic.Int32
			var wg sync.WaitGroup
			wg.Add(2)
			for i := 0; i < 2; i++ {
				go func() {
					defer wg.Done()
					v := a.Load()
					a.Store(v + 1)
				}()
			}
			wg.Wait()
			return fmt.Sprint(a.Load())
		}, []string{"1", "2"}},
		{"mutex-counter", func() string {
			var mu sync.Mutex
			n := 0
			var wg sync.WaitGroup
			for i := 0; i < 3; i++ {
				wg.Add(1)
				go func(d int) {
					defer wg.Done()
					mu.Lock()
					n += d
					mu.Unlock()
				}(i + 1)
			}
			wg.Wait()
			return fmt.Sprint(n)
		}, []string{"6"}},
		{"unbuffered-handoff", func() string {
			c := make(chan int)
			done := make(chan string)
			go func() { done <- fmt.Sprint(<-c) }()
			c <- 7
			return <-done
		}, []string{"7"}},
		{"buffered-order", func() string {
			c := make(chan int, 2)
			c <- 1
			c <- 2
			close(c)
			var o []string
			for v := range c {
				o = append(o, fmt.Sprint(v))
			}
			return strings.Join(o, "")
		}, []string{"12"}},
		{"select-default", func() string {
			c := make(chan int)
			go func() { c <- 1 }()
			r := ""
			select {
			case v := <-c:
				r = fmt.Sprint("got", v)
			default:
				r = "default"
				<-c
			}
			return r
		}, []string{"default", "got1"}},
		{"select-two-ready", func() string {
			a, b := make(chan int, 1), make(chan int, 1)
			a <- 1
			b <- 2
			select {
			case v := <-a:
				return fmt.Sprint("a", v)
			case v := <-b:
				return fmt.Sprint("b", v)
			}
		}, []string{"a1", "b2"}},
		{"select-send-recv", func() string {
			in, out := make(chan int, 1), make(chan int, 1)
			in <- 5
			r := ""
			for i := 0; i < 2; i++ {
				select {
				case v := <-in:
					r += fmt.Sprint("r", v)
				case out <- 9:
					r += "s"
				}
			}
			return r
		}, []string{"r5s", "sr5"}},
		{"close-wakes-receivers", func() string {
			c := make(chan int)
			res := make(chan string, 2)
			for i := 0; i < 2; i++ {
				go func() {
					_, ok := <-c
					res <- fmt.Sprint(ok)
				}()
			}
			close(c)
			return <-res + <-res
		}, []string{"falsefalse"}},
		{"nil-channel-in-select", func() string {
			var n chan int
			c := make(chan int, 1)
			c <- 3
			select {
			case <-n:
				return "nil"
			case v := <-c:
				return fmt.Sprint(v)
			}
		}, []string{"3"}},
		{"rwmutex-writer-excludes", func() string {
			var mu sync.RWMutex
			x := 0
			var wg sync.WaitGroup
			res := make([]string, 2)
			wg.Add(3)
			go func() { defer wg.Done(); mu.Lock(); x = 1; x = 2; mu.Unlock() }()
			for i := 0; i < 2; i++ {
				go func(i int) { defer wg.Done(); mu.RLock(); res[i] = fmt.Sprint(x); mu.RUnlock() }(i)
			}
			wg.Wait()
			return join(res)
		}, []string{"0,0", "0,2", "2,2"}},
		{"once", func() string {
			var o sync.Once
			var n atomic.Int32
			var wg sync.WaitGroup
			for i := 0; i < 3; i++ {
				wg.Add(1)
				go func() { defer wg.Done(); o.Do(func() { n.Add(1) }) }()
			}
			wg.Wait()
			return fmt.Sprint(n.Load())
		}, []string{"1"}},
		{"cas-race", func() string {
			var b atomic.Bool
			var wins atomic.Int32
			var wg sync.WaitGroup
			for i := 0; i < 3; i++ {
				wg.Add(1)
				go func() {
					defer wg.Done()
					if b.CompareAndSwap(false, true) {
						wins.Add(1)
					}
				}()
			}
			wg.Wait()
			return fmt.Sprint(wins.Load())
		}, []string{"1"}},
		{"token-channel-mutex", func() string {
			tok := make(chan struct{}, 1)
			n := 0
			var wg sync.WaitGroup
			for i := 0; i < 2; i++ {
				wg.Add(1)
				go func() { defer wg.Done(); tok <- struct{}{}; n++; <-tok }()
			}
			wg.Wait()
			return fmt.Sprint(n)
		}, []string{"2"}},
		{"context-cancel-propagates", func() string {
			ctx, cancel := context.WithCancel(context.Background())
			child, cancel2 := context.WithCancel(ctx)
			defer cancel2()
			go cancel()
			<-child.Done()
			return fmt.Sprint(child.Err(), ctx.Err())
		}, []string{"context canceled context canceled"}},
		{"context-cause", func() string {
			ctx, cancel := context.WithCancelCause(context.Background())
			cancel(fmt.Errorf("boom"))
			<-ctx.Done()
			return fmt.Sprint(ctx.Err(), "/", context.Cause(ctx))
		}, []string{"context canceled/boom"}},
		{"select-ctx-vs-chan", func() string {
			ctx, cancel := context.WithCancel(context.Background())
			c := make(chan int)
			go cancel()
			go func() {
				select {
				case c <- 1:
				case <-ctx.Done():
				}
			}()
			select {
			case <-c:
				cancel()
				return "value"
			case <-ctx.Done():
				return "cancelled"
			}
		}, []string{"cancelled", "value"}},
		{"timer-vs-stop-channel", func() string {
			t := time.NewTimer(time.Millisecond)
			stop := make(chan struct{})
			go close(stop)
			select {
			case <-t.C:
				return "fired"
			case <-stop:
				t.Stop()
				return "stopped"
			}
		}, []string{"fired", "stopped"}},
		{"timer-stop-then-no-tick", func() string {
			t := time.NewTimer(time.Millisecond)
			time.Sleep(3 * time.Millisecond)
			stopped := t.Stop()
			got := false
			select {
			case <-t.C:
				got = true
			default:
			}
			// go >= 1.23 (this module's go directive): Stop discards the undelivered tick
			return fmt.Sprint(stopped, got)
		}, []string{"true false"}},
		{"timer-reset", func() string {
			t := time.NewTimer(time.Hour)
			t.Reset(time.Millisecond)
			<-t.C
			return "ok"
		}, []string{"ok"}},
		{"after-orders", func() string {
			a, b := time.After(time.Millisecond), time.After(20*time.Millisecond)
			r := ""
			for i := 0; i < 2; i++ {
				select {
				case <-a:
					r += "a"
					a = nil
				case <-b:
					r += "b"
					b = nil
				}
			}
			return r
		}, nil}, // natively "ab" (unless the machine stalls); the explorer also allows "ba" when both are due
		{"labeled-break-and-range", func() string {
			c := make(chan int, 3)
			for i := 0; i < 3; i++ {
				c <- i
			}
			n := 0
		outer:
			for {
				select {
				case v := <-c:
					n += v
					if v == 2 {
						break outer
					}
				}
			}
			return fmt.Sprint(n)
		}, []string{"3"}},
		{"go-with-args-evaluated-early", func() string {
			res := make(chan int, 1)
			x := 1
			go func(v int) { res <- v }(x)
			x = 2
			_ = x
			return fmt.Sprint(<-res)
		}, []string{"1"}},
		{"waitgroup-then-close", func() string {
			var wg sync.WaitGroup
			out := make(chan int, 4)
			for i := 1; i <= 2; i++ {
				wg.Add(1)
				go func(i int) { defer wg.Done(); out <- i }(i)
			}
			go func() { wg.Wait(); close(out) }()
			s := 0
			for v := range out {
				s += v
			}
			return fmt.Sprint(s)
		}, []string{"3"}},
		{"pool-roundtrip", func() string {
			p := sync.Pool{New: func() any { return new(int) }}
			a := p.Get().(*int)
			*a = 5
			p.Put(a)
			b := p.Get().(*int)
			return fmt.Sprint(*b == 5 || *b == 0)
		}, []string{"true"}},
		{"ticker", func() string {
			t := time.NewTicker(time.Millisecond)
			defer t.Stop()
			<-t.C
			<-t.C
			return "2"
		}, []string{"2"}},
		{"cond-handoff", func() string {
			// two consumers wait for two items; Signal wakes in arrival order,
			// a Signal before the Wait is kept by the predicate loop
			var mu sync.Mutex
			c := sync.NewCond(&mu)
			q := 0
			got := make(chan string, 2)
			for _, name := range []string{"a", "b"} {
				go func(name string) {
					mu.Lock()
					for q == 0 {
						c.Wait()
					}
					q--
					mu.Unlock()
					got <- name
				}(name)
			}
			for i := 0; i < 2; i++ {
				mu.Lock()
				q++
				mu.Unlock()
				c.Signal()
			}
			return <-got + <-got
		}, []string{"ab", "ba"}},
		{"cond-broadcast", func() string {
			var mu sync.Mutex
			c := sync.NewCond(&mu)
			open := false
			var wg sync.WaitGroup
			var n atomic.Int32
			for i := 0; i < 2; i++ {
				wg.Add(1)
				go func() {
					defer wg.Done()
					mu.Lock()
					for !open {
						c.Wait()
					}
					mu.Unlock()
					n.Add(1)
				}()
			}
			mu.Lock()
			open = true
			mu.Unlock()
			c.Broadcast()
			wg.Wait()
			return fmt.Sprint(n.Load())
		}, []string{"2"}},
		{"oncevalue-racing-callers", func() string {
			var calls atomic.Int32
			f := sync.OnceValue(func() int { return int(calls.Add(1)) * 10 })
			g := sync.OnceFunc(func() { calls.Add(100) })
			res := make(chan int, 2)
			for i := 0; i < 2; i++ {
				go func() { g(); res <- f() }()
			}
			a, b := <-res, <-res
			return fmt.Sprint(a, b, calls.Load())
		}, []string{"1010 1010 101"}},
		{"context-afterfunc", func() string {
			ctx, cancel := context.WithCancel(context.Background())
			ran := make(chan string, 2)
			stop := context.AfterFunc(ctx, func() { ran <- "f" })
			stop2 := context.AfterFunc(ctx, func() { ran <- "g" })
			s2 := stop2() // stopped before the context ends: g never runs
			cancel()
			first := <-ran
			s1 := stop() // f has started: stop reports false
			plain := context.WithoutCancel(ctx)
			select {
			case <-plain.Done():
				first += "!"
			default:
			}
			return fmt.Sprint(first, s1, s2, len(ran), plain.Err() == nil)
		}, []string{"ffalse true 0 true"}},
		{"afterfunc-vs-stop", func() string {
			ctx, cancel := context.WithCancel(context.Background())
			ran := make(chan struct{}, 1)
			stop := context.AfterFunc(ctx, func() { ran <- struct{}{} })
			go cancel()
			if stop() {
				// stopped first: f will never run
				select {
				case <-ran:
					return "stopped-but-ran"
				case <-time.After(2 * time.Millisecond):
					return "stopped"
				}
			}
			<-ran
			return "ran"
		}, []string{"ran", "stopped"}},
		{"atomic-swap-and-or", func() string {
			var x int32
			var flags atomic.Uint32
			var wg sync.WaitGroup
			res := make([]int32, 2)
			for i := 0; i < 2; i++ {
				wg.Add(1)
				go func(i int) {
					defer wg.Done()
					res[i] = atomic.SwapInt32(&x, int32(i+1))
					flags.Or(1 << uint(i))
				}(i)
			}
			wg.Wait()
			return fmt.Sprint(res[0]+res[1]+atomic.LoadInt32(&x), flags.And(1))
		}, []string{"3 3"}},
		{"syncmap-cas", func() string {
			var m sync.Map
			m.Store("k", 0)
			var wg sync.WaitGroup
			var wins atomic.Int32
			for i := 0; i < 2; i++ {
				wg.Add(1)
				go func(i int) {
					defer wg.Done()
					if m.CompareAndSwap("k", 0, i+1) {
						wins.Add(1)
					}
				}(i)
			}
			wg.Wait()
			v, _ := m.Load("k")
			old, loaded := m.Swap("k", 9)
			return fmt.Sprint(wins.Load(), v == old, loaded, m.CompareAndDelete("k", 9))
		}, []string{"1 true true true"}},
		{"deadline-derived-contexts", func() string {
			// a context derived from one that ends by its deadline reports
			// DeadlineExceeded; derived from one that was cancelled first, Canceled
			d1, c1 := context.WithTimeout(context.Background(), time.Millisecond)
			defer c1()
			child1, cc1 := context.WithCancel(d1)
			defer cc1()
			grand1, cg1 := context.WithCancelCause(child1)
			defer cg1(nil)
			<-grand1.Done()
			d2, c2 := context.WithTimeout(context.Background(), 1000*time.Hour)
			child2, cc2 := context.WithCancel(d2)
			defer cc2()
			c2()
			<-child2.Done()
			p3, cp3 := context.WithCancel(context.Background())
			d3, c3 := context.WithTimeout(p3, 1000*time.Hour)
			defer c3()
			child3, cc3 := context.WithCancel(d3)
			defer cc3()
			cp3()
			<-child3.Done()
			return fmt.Sprint(d1.Err(), "|", child1.Err(), "|", grand1.Err(), "|", context.Cause(grand1), "|", child2.Err(), "|", child3.Err(), "|", d3.Err())
		}, []string{"context deadline exceeded|context deadline exceeded|context deadline exceeded|context deadline exceeded|context canceled|context canceled|context canceled"}},
		{"map-range", func() string {
			m := map[string]int{"a": 1, "b": 2, "c": 3}
			s := 0
			for _, v := range m {
				s += v
			}
			delete(m, "a")
			for k := range m {
				if k == "a" {
					s += 100
				}
			}
			return fmt.Sprint(s)
		}, []string{"6"}},
	}
}
