// mcgen re-targets packages of /repo onto the verif/mc model runtime.
//
// It loads the named packages with type information, rewrites each non-test
// file (channels, select, go, range-over-channel/map, and selected selectors of
// sync, sync/atomic, context, time, k8s.io/utils/clock, io) and writes the
// result plus an overlay JSON for `go build -overlay`. /repo is never modified.
// Anything it cannot translate is a hard error (exit 2).
package main

import (
	"bytes"
	"encoding/json"
	"flag"
	"fmt"
	"go/ast"
	"go/constant"
	"go/format"
	"go/token"
	"go/types"
	"os"
	"path/filepath"
	"sort"
	"strconv"
	"strings"

	"golang.org/x/tools/go/ast/astutil"
	"golang.org/x/tools/go/packages"
)

const mcPath = "verif/mc"
const mcName = "mcrt"

// selector replacement table: import path -> name -> mc name
var replTable = map[string]map[string]string{
	"sync": {
		"Mutex": "Mutex", "RWMutex": "RWMutex", "WaitGroup": "WaitGroup", "Once": "Once",
		"Pool": "Pool", "Map": "SyncMap", "Locker": "Locker",
		"Cond": "Cond", "NewCond": "NewCond", "OnceFunc": "OnceFunc", "OnceValue": "OnceValue", "OnceValues": "OnceValues",
	},
	"sync/atomic": {
		"Bool": "AtomicBool", "Int32": "AtomicInt32", "Int64": "AtomicInt64", "Uint32": "AtomicUint32",
		"Uint64": "AtomicUint64", "Uintptr": "AtomicUintptr", "Pointer": "AtomicPointer", "Value": "AtomicValue",
		"AddInt32": "AtomicAddInt32", "AddInt64": "AtomicAddInt64", "AddUint32": "AtomicAddUint32", "AddUint64": "AtomicAddUint64",
		"LoadInt32": "AtomicLoadInt32", "LoadInt64": "AtomicLoadInt64", "LoadUint32": "AtomicLoadUint32", "LoadUint64": "AtomicLoadUint64",
		"StoreInt32": "AtomicStoreInt32", "StoreInt64": "AtomicStoreInt64", "StoreUint32": "AtomicStoreUint32", "StoreUint64": "AtomicStoreUint64",
		"CompareAndSwapInt32": "AtomicCompareAndSwapInt32", "CompareAndSwapInt64": "AtomicCompareAndSwapInt64",
		"CompareAndSwapUint32": "AtomicCompareAndSwapUint32", "CompareAndSwapUint64": "AtomicCompareAndSwapUint64",
		"SwapInt32": "AtomicSwapInt32", "SwapInt64": "AtomicSwapInt64", "SwapUint32": "AtomicSwapUint32", "SwapUint64": "AtomicSwapUint64",
		"SwapUintptr": "AtomicSwapUintptr", "SwapPointer": "AtomicSwapPointer",
		"LoadUintptr": "AtomicLoadUintptr", "LoadPointer": "AtomicLoadPointer", "StoreUintptr": "AtomicStoreUintptr", "StorePointer": "AtomicStorePointer",
		"AddUintptr": "AtomicAddUintptr", "CompareAndSwapUintptr": "AtomicCompareAndSwapUintptr", "CompareAndSwapPointer": "AtomicCompareAndSwapPointer",
		"AndInt32": "AtomicAndInt32", "AndInt64": "AtomicAndInt64", "AndUint32": "AtomicAndUint32", "AndUint64": "AtomicAndUint64",
		"OrInt32": "AtomicOrInt32", "OrInt64": "AtomicOrInt64", "OrUint32": "AtomicOrUint32", "OrUint64": "AtomicOrUint64",
	},
	"context": {
		"WithCancel": "CtxWithCancel", "WithCancelCause": "CtxWithCancelCause", "WithTimeout": "CtxWithTimeout",
		"WithDeadline": "CtxWithDeadline", "WithTimeoutCause": "CtxWithTimeoutCause", "WithDeadlineCause": "CtxWithDeadlineCause",
		"AfterFunc": "CtxAfterFunc", "WithoutCancel": "CtxWithoutCancel",
	},
	"time": {
		"Now": "TimeNow", "Since": "TimeSince", "Until": "TimeUntil", "After": "TimeAfter", "AfterFunc": "TimeAfterFunc",
		"NewTimer": "TimeNewTimer", "NewTicker": "TimeNewTicker", "Tick": "TimeTick", "Sleep": "TimeSleep",
		"Timer": "TimeTimer", "Ticker": "TimeTicker",
	},
	"k8s.io/utils/clock": {
		"Clock": "Clock", "PassiveClock": "PassiveClock", "WithTicker": "WithTicker", "WithDelayedExecution": "WithDelayedExecution",
		"WithTickerAndDelayedExecution": "WithTickerAndDelayedExecution", "Timer": "ClockTimer", "Ticker": "ClockTicker", "RealClock": "RealClock",
	},
	"io": {
		"Pipe": "IOPipe", "PipeReader": "PipeReader", "PipeWriter": "PipeWriter",
	},
}

// names that would escape the scheduler if left on the real runtime
var denied = map[string]map[string]bool{
	"os/signal": {"Notify": true, "NotifyContext": true},
}

type multiFlag []string

func (m *multiFlag) String() string     { return strings.Join(*m, ",") }
func (m *multiFlag) Set(s string) error { *m = append(*m, s); return nil }

var (
	outDir    = flag.String("out", "", "output directory (must be outside /repo and /verif)")
	repoDir   = flag.String("repo", "/repo", "repository root")
	tags      = flag.String("tags", "unit", "build tags")
	chanCaps  multiFlag // pkgpath:old=new
	imports   multiFlag // pkgpath:oldimport=newimport
	adds      multiFlag // pkgpath=file
	noMapSort = flag.Bool("nomapsort", false, "leave range-over-map alone")
	mapSort   = flag.Bool("mapsort", false, "with -noconc: still canonicalise range-over-map (harness-controlled order through mc.ReverseMapOrder)")
	noConc    = flag.Bool("noconc", false, "do not re-target concurrency constructs; only apply -import/-add (for sequential Engine-2 parts that need a substituted import or an in-package accessor)")
)

type gen struct {
	pkg     *packages.Package
	instr   map[string]bool // instrumented package paths
	fset    *token.FileSet
	info    *types.Info
	ctr     int
	usedMC  bool
	errs    []string
	chanCap map[int64]int64
	impRepl map[string]string

	recv2       map[*ast.UnaryExpr]bool
	inComm      map[ast.Node]bool
	selRepl     map[*ast.SelectorExpr]string
	pkgUses     map[*types.PkgName]int
	makeChan    map[*ast.CallExpr]bool
	chanBuiltin map[*ast.CallExpr]string
	twin        map[*ast.CallExpr]bool
	rangeChan   map[*ast.RangeStmt]bool
	rangeMap    map[*ast.RangeStmt]bool
	goInline    map[*ast.GoStmt][]bool // per arg: inline (constant/nil)
	goDirect    map[*ast.GoStmt]bool   // call Fun directly
}

func (g *gen) errf(pos token.Pos, format string, a ...any) {
	g.errs = append(g.errs, fmt.Sprintf("%s: %s", g.fset.Position(pos), fmt.Sprintf(format, a...)))
}

func mcSel(name string) *ast.SelectorExpr {
	return &ast.SelectorExpr{X: ast.NewIdent(mcName), Sel: ast.NewIdent(name)}
}

func isChan(t types.Type) bool {
	if t == nil {
		return false
	}
	_, ok := t.Underlying().(*types.Chan)
	return ok
}

func isMap(t types.Type) bool {
	if t == nil {
		return false
	}
	_, ok := t.Underlying().(*types.Map)
	return ok
}

func (g *gen) typeOf(e ast.Expr) types.Type {
	if tv, ok := g.info.Types[e]; ok {
		return tv.Type
	}
	return nil
}

func (g *gen) isBuiltin(fun ast.Expr, name string) bool {
	id, ok := ast.Unparen(fun).(*ast.Ident)
	if !ok || id.Name != name {
		return false
	}
	_, ok = g.info.Uses[id].(*types.Builtin)
	return ok
}

// calleeForeign reports whether call's callee is a function/method declared
// outside the instrumented packages.
func (g *gen) calleeForeign(call *ast.CallExpr) bool {
	var obj types.Object
	switch f := ast.Unparen(call.Fun).(type) {
	case *ast.Ident:
		obj = g.info.Uses[f]
	case *ast.SelectorExpr:
		if s, ok := g.info.Selections[f]; ok {
			obj = s.Obj()
		} else {
			obj = g.info.Uses[f.Sel]
		}
	}
	fn, ok := obj.(*types.Func)
	if !ok || fn.Pkg() == nil {
		return false
	}
	p := fn.Pkg().Path()
	if g.instr[p] || p == mcPath {
		return false
	}
	// package-level functions that are themselves replaced by a shim function
	// (time.After, time.Tick) are not foreign
	if sig, ok := fn.Type().(*types.Signature); ok && sig.Recv() == nil {
		if t := replTable[p]; t != nil {
			if _, ok := t[fn.Name()]; ok {
				return false
			}
		}
	}
	// methods of a type that is itself replaced by a shim type are not foreign
	if sig, ok := fn.Type().(*types.Signature); ok && sig.Recv() != nil {
		rt := sig.Recv().Type()
		if pt, ok := rt.(*types.Pointer); ok {
			rt = pt.Elem()
		}
		if nt, ok := rt.(*types.Named); ok && nt.Obj().Pkg() != nil {
			if t := replTable[nt.Obj().Pkg().Path()]; t != nil {
				if _, ok := t[nt.Obj().Name()]; ok {
					return false
				}
			}
		}
	}
	return true
}

func pure(e ast.Expr) bool {
	switch x := e.(type) {
	case *ast.Ident:
		return true
	case *ast.SelectorExpr:
		return pure(x.X)
	case *ast.StarExpr:
		return pure(x.X)
	case *ast.ParenExpr:
		return pure(x.X)
	case *ast.IndexExpr:
		return pure(x.X) && pure(x.Index)
	case *ast.BasicLit:
		return true
	}
	return false
}

// prepass records, on the untouched AST, every decision that needs types.
func (g *gen) prepass(f *ast.File) {
	ast.Inspect(f, func(n ast.Node) bool {
		switch x := n.(type) {
		case *ast.AssignStmt:
			if len(x.Lhs) == 2 && len(x.Rhs) == 1 {
				if u, ok := ast.Unparen(x.Rhs[0]).(*ast.UnaryExpr); ok && u.Op == token.ARROW {
					g.recv2[u] = true
				}
			}
		case *ast.ValueSpec:
			if len(x.Names) == 2 && len(x.Values) == 1 {
				if u, ok := ast.Unparen(x.Values[0]).(*ast.UnaryExpr); ok && u.Op == token.ARROW {
					g.recv2[u] = true
				}
			}
		case *ast.CommClause:
			if x.Comm != nil {
				g.inComm[x.Comm] = true
				switch c := x.Comm.(type) {
				case *ast.ExprStmt:
					g.inComm[ast.Unparen(c.X)] = true
				case *ast.AssignStmt:
					g.inComm[ast.Unparen(c.Rhs[0])] = true
				}
			}
		case *ast.SelectorExpr:
			if id, ok := x.X.(*ast.Ident); ok {
				if pn, ok := g.info.Uses[id].(*types.PkgName); ok {
					g.pkgUses[pn]++
					path := pn.Imported().Path()
					if d := denied[path]; d != nil && d[x.Sel.Name] {
						g.errf(x.Pos(), "unsupported: %s.%s would escape the model scheduler", path, x.Sel.Name)
					}
					if t := replTable[path]; t != nil {
						if nn, ok := t[x.Sel.Name]; ok && !*noConc {
							g.selRepl[x] = nn
							g.pkgUses[pn]--
						}
					}
				}
			}
		case *ast.CallExpr:
			switch {
			case g.isBuiltin(x.Fun, "make") && len(x.Args) >= 1 && isChan(g.typeOf(x.Args[0])):
				if _, ok := x.Args[0].(*ast.ChanType); !ok {
					g.errf(x.Pos(), "unsupported: make of a named channel type")
				}
				g.makeChan[x] = true
			case g.isBuiltin(x.Fun, "close"):
				g.chanBuiltin[x] = "Close"
			case g.isBuiltin(x.Fun, "len") && len(x.Args) == 1 && isChan(g.typeOf(x.Args[0])):
				g.chanBuiltin[x] = "Len"
			case g.isBuiltin(x.Fun, "cap") && len(x.Args) == 1 && isChan(g.typeOf(x.Args[0])):
				g.chanBuiltin[x] = "Cap"
			default:
				if t := g.typeOf(x); t != nil && isChan(t) && g.calleeForeign(x) {
					ch := t.Underlying().(*types.Chan)
					if st, ok := ch.Elem().Underlying().(*types.Struct); ok && st.NumFields() == 0 {
						g.twin[x] = true
					} else {
						g.errf(x.Pos(), "unsupported: foreign call returning %s", t)
					}
				}
			}
		case *ast.RangeStmt:
			t := g.typeOf(x.X)
			if isChan(t) {
				g.rangeChan[x] = true
			} else if isMap(t) && !*noMapSort {
				if !pure(x.X) {
					g.errf(x.Pos(), "unsupported: range over a map expression with side effects")
				}
				if x.Tok == token.ASSIGN {
					g.errf(x.Pos(), "unsupported: range over map with '='")
				}
				g.rangeMap[x] = true
			}
		case *ast.GoStmt:
			call := x.Call
			inl := make([]bool, len(call.Args))
			for i, a := range call.Args {
				if tv, ok := g.info.Types[a]; ok && (tv.Value != nil || tv.IsNil()) {
					inl[i] = true
				}
			}
			g.goInline[x] = inl
			switch f := ast.Unparen(call.Fun).(type) {
			case *ast.Ident:
				if _, ok := g.info.Uses[f].(*types.Func); ok {
					g.goDirect[x] = true
				}
			case *ast.SelectorExpr:
				if id, ok := f.X.(*ast.Ident); ok {
					if _, ok := g.info.Uses[id].(*types.PkgName); ok {
						g.goDirect[x] = true
					}
				}
			}
			if len(call.Args) == 1 {
				if tup, ok := g.typeOf(call.Args[0]).(*types.Tuple); ok && tup.Len() > 1 {
					g.errf(x.Pos(), "unsupported: go f(g()) with multi-value g")
				}
			}
		}
		return true
	})
}

func (g *gen) fresh(prefix string) string {
	g.ctr++
	return fmt.Sprintf("_mc%s%d", prefix, g.ctr)
}

func call(fun ast.Expr, args ...ast.Expr) *ast.CallExpr {
	return &ast.CallExpr{Fun: fun, Args: args}
}

func method(recv ast.Expr, name string, args ...ast.Expr) *ast.CallExpr {
	return call(&ast.SelectorExpr{X: paren(recv), Sel: ast.NewIdent(name)}, args...)
}

func paren(e ast.Expr) ast.Expr {
	switch e.(type) {
	case *ast.Ident, *ast.SelectorExpr, *ast.CallExpr, *ast.IndexExpr, *ast.ParenExpr:
		return e
	}
	return &ast.ParenExpr{X: e}
}

func (g *gen) rewrite(f *ast.File) {
	astutil.Apply(f, nil, func(c *astutil.Cursor) bool {
		switch x := c.Node().(type) {
		case *ast.ChanType:
			g.usedMC = true
			c.Replace(&ast.StarExpr{X: &ast.IndexExpr{X: mcSel("Chan"), Index: x.Value}})
		case *ast.SelectorExpr:
			if nn, ok := g.selRepl[x]; ok {
				g.usedMC = true
				c.Replace(mcSel(nn))
			}
		case *ast.UnaryExpr:
			if x.Op == token.ARROW && !g.inComm[x] {
				g.usedMC = true
				if g.recv2[x] {
					c.Replace(method(x.X, "Recv2"))
				} else {
					c.Replace(method(x.X, "Recv"))
				}
			}
		case *ast.SendStmt:
			if !g.inComm[x] {
				g.usedMC = true
				c.Replace(&ast.ExprStmt{X: method(x.Chan, "Send", x.Value)})
			}
		case *ast.CallExpr:
			switch {
			case g.makeChan[x]:
				g.usedMC = true
				st, ok := x.Args[0].(*ast.StarExpr)
				if !ok {
					g.errf(x.Pos(), "internal: make(chan) argument not rewritten")
					return true
				}
				elem := st.X.(*ast.IndexExpr).Index
				args := x.Args[1:]
				if len(args) == 1 {
					if tv, ok := g.info.Types[args[0]]; ok && tv.Value != nil {
						if v, ok := constant.Int64Val(constant.ToInt(tv.Value)); ok {
							if nv, ok := g.chanCap[v]; ok {
								args = []ast.Expr{&ast.BasicLit{Kind: token.INT, Value: strconv.FormatInt(nv, 10)}}
							}
						}
					}
				}
				c.Replace(call(&ast.IndexExpr{X: mcSel("NewChan"), Index: elem}, args...))
			case g.chanBuiltin[x] != "":
				g.usedMC = true
				c.Replace(method(x.Args[0], g.chanBuiltin[x]))
			case g.twin[x]:
				g.usedMC = true
				c.Replace(call(mcSel("Twin"), x))
			}
		case *ast.GoStmt:
			g.usedMC = true
			c.Replace(g.rewriteGo(x))
		case *ast.SelectStmt:
			g.usedMC = true
			c.Replace(g.rewriteSelect(x))
		case *ast.RangeStmt:
			if g.rangeChan[x] {
				g.usedMC = true
				c.Replace(g.rewriteRangeChan(x))
			} else if g.rangeMap[x] {
				g.usedMC = true
				g.rewriteRangeMap(x)
			}
		}
		return true
	})
}

func (g *gen) rewriteGo(x *ast.GoStmt) ast.Stmt {
	cl := x.Call
	if fl, ok := cl.Fun.(*ast.FuncLit); ok && len(cl.Args) == 0 {
		return &ast.ExprStmt{X: call(mcSel("Go"), fl)}
	}
	var stmts []ast.Stmt
	fun := cl.Fun
	if !g.goDirect[x] {
		fn := g.fresh("f")
		stmts = append(stmts, &ast.AssignStmt{Lhs: []ast.Expr{ast.NewIdent(fn)}, Tok: token.DEFINE, Rhs: []ast.Expr{cl.Fun}})
		fun = ast.NewIdent(fn)
	}
	inl := g.goInline[x]
	args := make([]ast.Expr, len(cl.Args))
	var lhs, rhs []ast.Expr
	for i, a := range cl.Args {
		if inl[i] {
			args[i] = a
			continue
		}
		n := g.fresh("a")
		lhs = append(lhs, ast.NewIdent(n))
		rhs = append(rhs, a)
		args[i] = ast.NewIdent(n)
	}
	if len(lhs) > 0 {
		stmts = append(stmts, &ast.AssignStmt{Lhs: lhs, Tok: token.DEFINE, Rhs: rhs})
	}
	inner := &ast.CallExpr{Fun: fun, Args: args, Ellipsis: cl.Ellipsis}
	if cl.Ellipsis != token.NoPos {
		inner.Ellipsis = 1
	}
	lit := &ast.FuncLit{Type: &ast.FuncType{Params: &ast.FieldList{}}, Body: &ast.BlockStmt{List: []ast.Stmt{&ast.ExprStmt{X: inner}}}}
	stmts = append(stmts, &ast.ExprStmt{X: call(mcSel("Go"), lit)})
	return &ast.BlockStmt{List: stmts}
}

func (g *gen) rewriteSelect(x *ast.SelectStmt) ast.Stmt {
	var lhs, rhs []ast.Expr
	var clauses []ast.Stmt
	hasDefault := false
	idx := 0
	for _, s := range x.Body.List {
		cc := s.(*ast.CommClause)
		if cc.Comm == nil {
			hasDefault = true
			clauses = append(clauses, &ast.CaseClause{List: nil, Body: cc.Body})
			continue
		}
		name := g.fresh("c")
		var prologue []ast.Stmt
		switch cm := cc.Comm.(type) {
		case *ast.SendStmt:
			rhs = append(rhs, method(cm.Chan, "SendCase", cm.Value))
		case *ast.ExprStmt:
			u, ok := ast.Unparen(cm.X).(*ast.UnaryExpr)
			if !ok || u.Op != token.ARROW {
				g.errf(cm.Pos(), "unsupported select comm")
				continue
			}
			rhs = append(rhs, method(u.X, "RecvCase"))
		case *ast.AssignStmt:
			u, ok := ast.Unparen(cm.Rhs[0]).(*ast.UnaryExpr)
			if !ok || u.Op != token.ARROW {
				g.errf(cm.Pos(), "unsupported select comm")
				continue
			}
			rhs = append(rhs, method(u.X, "RecvCase"))
			vals := []ast.Expr{&ast.SelectorExpr{X: ast.NewIdent(name), Sel: ast.NewIdent("V")}}
			if len(cm.Lhs) == 2 {
				vals = append(vals, &ast.SelectorExpr{X: ast.NewIdent(name), Sel: ast.NewIdent("Ok")})
			}
			tok := cm.Tok
			if tok == token.DEFINE {
				allBlank := true
				for _, l := range cm.Lhs {
					if id, ok := l.(*ast.Ident); !ok || id.Name != "_" {
						allBlank = false
					}
				}
				if allBlank {
					tok = token.ASSIGN
				}
			}
			prologue = append(prologue, &ast.AssignStmt{Lhs: cm.Lhs, Tok: tok, Rhs: vals})
		default:
			g.errf(cc.Pos(), "unsupported select comm %T", cm)
			continue
		}
		lhs = append(lhs, ast.NewIdent(name))
		body := append(prologue, cc.Body...)
		clauses = append(clauses, &ast.CaseClause{
			List: []ast.Expr{&ast.BasicLit{Kind: token.INT, Value: strconv.Itoa(idx)}},
			Body: body,
		})
		idx++
	}
	def := "false"
	if hasDefault {
		def = "true"
	} else {
		// a select without default is a terminating statement when its arms
		// are; keep that property for the switch
		clauses = append(clauses, &ast.CaseClause{List: nil, Body: []ast.Stmt{
			&ast.ExprStmt{X: call(ast.NewIdent("panic"), &ast.BasicLit{Kind: token.STRING, Value: strconv.Quote("mc: unreachable select arm")})}}})
	}
	args := append([]ast.Expr{ast.NewIdent(def)}, lhs...)
	sw := &ast.SwitchStmt{Tag: call(mcSel("Select"), args...), Body: &ast.BlockStmt{List: clauses}}
	if len(lhs) > 0 {
		sw.Init = &ast.AssignStmt{Lhs: lhs, Tok: token.DEFINE, Rhs: rhs}
	}
	return sw
}

func (g *gen) rewriteRangeChan(x *ast.RangeStmt) ast.Stmt {
	chv := g.fresh("ch")
	okv := g.fresh("ok")
	var recvLhs ast.Expr = ast.NewIdent("_")
	tok := token.DEFINE
	var pre []ast.Stmt
	if x.Key != nil {
		recvLhs = x.Key
		if x.Tok == token.ASSIGN {
			tok = token.ASSIGN
			pre = append(pre, &ast.DeclStmt{Decl: &ast.GenDecl{Tok: token.VAR, Specs: []ast.Spec{
				&ast.ValueSpec{Names: []*ast.Ident{ast.NewIdent(okv)}, Type: ast.NewIdent("bool")}}}})
		}
	}
	recv := &ast.AssignStmt{Lhs: []ast.Expr{recvLhs, ast.NewIdent(okv)}, Tok: tok, Rhs: []ast.Expr{method(ast.NewIdent(chv), "Recv2")}}
	brk := &ast.IfStmt{Cond: &ast.UnaryExpr{Op: token.NOT, X: ast.NewIdent(okv)}, Body: &ast.BlockStmt{List: []ast.Stmt{&ast.BranchStmt{Tok: token.BREAK}}}}
	body := append(pre, recv, brk)
	body = append(body, x.Body.List...)
	return &ast.ForStmt{
		Init: &ast.AssignStmt{Lhs: []ast.Expr{ast.NewIdent(chv)}, Tok: token.DEFINE, Rhs: []ast.Expr{x.X}},
		Body: &ast.BlockStmt{List: body},
	}
}

func (g *gen) rewriteRangeMap(x *ast.RangeStmt) {
	m := x.X
	var key ast.Expr
	if x.Key != nil {
		id, ok := x.Key.(*ast.Ident)
		if !ok {
			g.errf(x.Pos(), "unsupported: range over map with non-identifier key")
			return
		}
		if id.Name != "_" {
			key = id
		}
	}
	if key == nil {
		key = ast.NewIdent(g.fresh("k"))
	}
	okv := g.fresh("ok")
	var valLhs ast.Expr = ast.NewIdent("_")
	if x.Value != nil {
		valLhs = x.Value
	}
	look := &ast.AssignStmt{Lhs: []ast.Expr{valLhs, ast.NewIdent(okv)}, Tok: token.DEFINE, Rhs: []ast.Expr{&ast.IndexExpr{X: m, Index: key}}}
	cont := &ast.IfStmt{Cond: &ast.UnaryExpr{Op: token.NOT, X: ast.NewIdent(okv)}, Body: &ast.BlockStmt{List: []ast.Stmt{&ast.BranchStmt{Tok: token.CONTINUE}}}}
	x.Body.List = append([]ast.Stmt{look, cont}, x.Body.List...)
	x.Key = ast.NewIdent("_")
	x.Value = key
	x.Tok = token.DEFINE
	x.X = call(mcSel("SortedKeys"), m)
}

func (g *gen) fixImports(f *ast.File) {
	// drop imports whose every use was replaced
	for _, imp := range f.Imports {
		path, _ := strconv.Unquote(imp.Path.Value)
		if np, ok := g.impRepl[path]; ok {
			if imp.Name == nil {
				// keep the local name the file already uses
				for pn := range g.pkgUses {
					if pn.Imported().Path() == path {
						imp.Name = ast.NewIdent(pn.Name())
						break
					}
				}
			}
			imp.Path.Value = strconv.Quote(np)
			continue
		}
	}
	var drop []*ast.ImportSpec
	for _, imp := range f.Imports {
		if imp.Name != nil && (imp.Name.Name == "_" || imp.Name.Name == ".") {
			continue
		}
		obj := g.info.Implicits[imp]
		if imp.Name != nil {
			obj = g.info.Defs[imp.Name]
		}
		pn, ok := obj.(*types.PkgName)
		if !ok {
			continue
		}
		if n, seen := g.pkgUses[pn]; seen && n == 0 {
			drop = append(drop, imp)
		}
	}
	for _, d := range drop {
		for _, decl := range f.Decls {
			gd, ok := decl.(*ast.GenDecl)
			if !ok || gd.Tok != token.IMPORT {
				continue
			}
			specs := gd.Specs[:0]
			for _, s := range gd.Specs {
				if s != ast.Spec(d) {
					specs = append(specs, s)
				}
			}
			gd.Specs = specs
		}
	}
	// remove empty import decls
	decls := f.Decls[:0]
	for _, decl := range f.Decls {
		if gd, ok := decl.(*ast.GenDecl); ok && gd.Tok == token.IMPORT && len(gd.Specs) == 0 {
			continue
		}
		decls = append(decls, decl)
	}
	f.Decls = decls
	used := false
	ast.Inspect(f, func(n ast.Node) bool {
		if se, ok := n.(*ast.SelectorExpr); ok {
			if id, ok := se.X.(*ast.Ident); ok && id.Name == mcName {
				used = true
			}
		}
		return !used
	})
	if used {
		spec := &ast.ImportSpec{Name: ast.NewIdent(mcName), Path: &ast.BasicLit{Kind: token.STRING, Value: strconv.Quote(mcPath)}}
		f.Decls = append([]ast.Decl{&ast.GenDecl{Tok: token.IMPORT, Specs: []ast.Spec{spec}}}, f.Decls...)
	}
}

// oldLang reports whether the package's module declares a language version
// without generics.
func oldLang(p *packages.Package) bool {
	if p.Module == nil || p.Module.GoVersion == "" {
		return false
	}
	var maj, min int
	fmt.Sscanf(p.Module.GoVersion, "%d.%d", &maj, &min)
	return maj == 1 && min < 21
}

func buildLine(src []byte) string {
	for _, l := range strings.Split(string(src), "\n") {
		t := strings.TrimSpace(l)
		if strings.HasPrefix(t, "//go:build ") {
			return t
		}
		if strings.HasPrefix(t, "package ") {
			break
		}
	}
	return ""
}

func main() {
	flag.Var(&chanCaps, "chancap", "pkgpath:old=new — replace constant channel capacity old by new in that package")
	flag.Var(&imports, "import", "pkgpath:old=new — replace a whole import path in that package")
	flag.Var(&adds, "add", "pkgpath=file — add a file to the package through the overlay")
	flag.Parse()
	if *outDir == "" || flag.NArg() == 0 {
		fmt.Fprintln(os.Stderr, "usage: mcgen -out DIR pkg...")
		os.Exit(2)
	}
	abs, _ := filepath.Abs(*outDir)
	if strings.HasPrefix(abs, "/repo") {
		fmt.Fprintln(os.Stderr, "mcgen: -out must be outside /repo")
		os.Exit(2)
	}
	os.MkdirAll(abs, 0o755)
	cfg := &packages.Config{
		Mode: packages.NeedName | packages.NeedFiles | packages.NeedCompiledGoFiles | packages.NeedSyntax |
			packages.NeedTypes | packages.NeedTypesInfo | packages.NeedImports | packages.NeedDeps | packages.NeedModule,
		Dir:        *repoDir,
		BuildFlags: []string{"-tags=" + *tags},
		Env:        append(os.Environ(), "GOFLAGS=-mod=mod", "GOPROXY=off", "GOSUMDB=off", "GOTOOLCHAIN=local"),
	}
	pkgs, err := packages.Load(cfg, flag.Args()...)
	if err != nil {
		fmt.Fprintln(os.Stderr, "mcgen: load:", err)
		os.Exit(2)
	}
	bad := false
	for _, p := range pkgs {
		for _, e := range p.Errors {
			fmt.Fprintln(os.Stderr, "mcgen: package error:", e)
			bad = true
		}
	}
	if bad {
		os.Exit(2)
	}
	instr := map[string]bool{}
	for _, p := range pkgs {
		instr[p.PkgPath] = true
	}
	overlay := map[string]string{}
	type stat struct {
		Pkg   string `json:"pkg"`
		Files int    `json:"files"`
		Funcs int    `json:"funcs"`
	}
	var stats []stat
	var allErrs []string
	for _, p := range pkgs {
		g := &gen{pkg: p, instr: instr, fset: p.Fset, info: p.TypesInfo, chanCap: map[int64]int64{}, impRepl: map[string]string{}}
		for _, cc := range chanCaps {
			i := strings.LastIndex(cc, ":")
			if i < 0 || !strings.HasSuffix(p.PkgPath, cc[:i]) {
				continue
			}
			var o, n int64
			fmt.Sscanf(cc[i+1:], "%d=%d", &o, &n)
			g.chanCap[o] = n
		}
		for _, im := range imports {
			i := strings.Index(im, ":")
			if i < 0 || !strings.HasSuffix(p.PkgPath, im[:i]) {
				continue
			}
			kv := strings.SplitN(im[i+1:], "=", 2)
			g.impRepl[kv[0]] = kv[1]
		}
		st := stat{Pkg: p.PkgPath}
		for i, f := range p.Syntax {
			path := p.CompiledGoFiles[i]
			src, _ := os.ReadFile(path)
			if bytes.Contains(src, []byte("//go:embed")) || bytes.Contains(src, []byte("//go:linkname")) {
				allErrs = append(allErrs, path+": unsupported compiler directive")
			}
			g.recv2 = map[*ast.UnaryExpr]bool{}
			g.inComm = map[ast.Node]bool{}
			g.selRepl = map[*ast.SelectorExpr]string{}
			g.pkgUses = map[*types.PkgName]int{}
			g.makeChan = map[*ast.CallExpr]bool{}
			g.chanBuiltin = map[*ast.CallExpr]string{}
			g.twin = map[*ast.CallExpr]bool{}
			g.rangeChan = map[*ast.RangeStmt]bool{}
			g.rangeMap = map[*ast.RangeStmt]bool{}
			g.goInline = map[*ast.GoStmt][]bool{}
			g.goDirect = map[*ast.GoStmt]bool{}
			g.usedMC = false
			g.prepass(f)
			if *noConc {
				g.errs = nil
				g.selRepl = map[*ast.SelectorExpr]string{}
				if *mapSort {
					astutil.Apply(f, nil, func(c *astutil.Cursor) bool {
						if x, ok := c.Node().(*ast.RangeStmt); ok && g.rangeMap[x] {
							g.rewriteRangeMap(x)
						}
						return true
					})
				}
			} else {
				g.rewrite(f)
			}
			g.fixImports(f)
			for _, d := range f.Decls {
				if _, ok := d.(*ast.FuncDecl); ok {
					st.Funcs++
				}
			}
			st.Files++
			f.Comments = nil
			stripDocs(f)
			var buf bytes.Buffer
			bl := buildLine(src)
			if oldLang(p) {
				// the rewritten code uses generics (mcrt.Chan[T], SortedKeys): a
				// go1.N build constraint raises the file's language version above
				// the one its module's go.mod declares
				if bl == "" {
					bl = "//go:build go1.21"
				} else {
					bl = "//go:build (" + strings.TrimPrefix(bl, "//go:build ") + ") && go1.21"
				}
			}
			if bl != "" {
				buf.WriteString(bl + "\n\n")
			}
			buf.WriteString("// Code generated by mcgen from " + path + "; DO NOT EDIT.\n\n")
			if err := format.Node(&buf, p.Fset, f); err != nil {
				allErrs = append(allErrs, fmt.Sprintf("%s: print: %v", path, err))
				continue
			}
			rel, _ := filepath.Rel(*repoDir, path)
			out := filepath.Join(abs, "src", rel)
			os.MkdirAll(filepath.Dir(out), 0o755)
			if err := os.WriteFile(out, buf.Bytes(), 0o644); err != nil {
				allErrs = append(allErrs, err.Error())
			}
			overlay[path] = out
		}
		allErrs = append(allErrs, g.errs...)
		stats = append(stats, st)
	}
	for _, a := range adds {
		kv := strings.SplitN(a, "=", 2)
		if len(kv) != 2 {
			allErrs = append(allErrs, "bad -add "+a)
			continue
		}
		var dir string
		for _, p := range pkgs {
			if strings.HasSuffix(p.PkgPath, kv[0]) && len(p.GoFiles) > 0 {
				dir = filepath.Dir(p.GoFiles[0])
			}
		}
		if dir == "" {
			allErrs = append(allErrs, "-add: package not loaded: "+kv[0])
			continue
		}
		src, _ := filepath.Abs(kv[1])
		overlay[filepath.Join(dir, "zz_mc_"+strings.TrimSuffix(filepath.Base(kv[1]), ".txt"))] = src
	}
	if len(allErrs) > 0 {
		sort.Strings(allErrs)
		for _, e := range allErrs {
			fmt.Fprintln(os.Stderr, "mcgen:", e)
		}
		os.Exit(2)
	}
	ov, _ := json.MarshalIndent(map[string]any{"Replace": overlay}, "", " ")
	os.WriteFile(filepath.Join(abs, "overlay.json"), ov, 0o644)
	sj, _ := json.MarshalIndent(stats, "", " ")
	os.WriteFile(filepath.Join(abs, "stats.json"), sj, 0o644)
}

func stripDocs(f *ast.File) {
	f.Doc = nil
	ast.Inspect(f, func(n ast.Node) bool {
		switch x := n.(type) {
		case *ast.FuncDecl:
			x.Doc = nil
		case *ast.GenDecl:
			x.Doc = nil
		case *ast.TypeSpec:
			x.Doc, x.Comment = nil, nil
		case *ast.ValueSpec:
			x.Doc, x.Comment = nil, nil
		case *ast.Field:
			x.Doc, x.Comment = nil, nil
		case *ast.ImportSpec:
			x.Doc, x.Comment = nil, nil
		}
		return true
	})
}
