// Package evid writes evidence files and matches findings against
// /verif/known_findings.txt.
package evid

import (
	"bufio"
	"encoding/json"
	"fmt"
	"os"
	"path/filepath"
	"sort"
	"strconv"
	"strings"
)

// Root is the /verif directory.
func Root() string {
	if r := os.Getenv("VERIF_ROOT"); r != "" {
		return r
	}
	return "/verif"
}

// Evidence mirrors EVIDENCE.schema.json.
type Evidence struct {
	PropertyID  string         `json:"property_id"`
	Tier        string         `json:"tier"`
	Seed        int            `json:"seed"`
	Level       string         `json:"level"`
	Coverage    map[string]any `json:"coverage"`
	Assumptions []string       `json:"assumptions,omitempty"`
	WallS       float64        `json:"wall_s"`
	Violations  int            `json:"violations"`
}

// Seed returns VERIF_SEED or 0.
func Seed() int {
	n, _ := strconv.Atoi(os.Getenv("VERIF_SEED"))
	return n
}

// Write stores the evidence at /verif/evidence/<id>.json.
func Write(e *Evidence) error {
	dir := filepath.Join(Root(), "evidence")
	os.MkdirAll(dir, 0o755)
	b, err := json.MarshalIndent(e, "", " ")
	if err != nil {
		return err
	}
	return os.WriteFile(filepath.Join(dir, e.PropertyID+".json"), append(b, '\n'), 0o644)
}

// Finding is one observed violation.
type Finding struct {
	Key    string // stable identity of the failing input / call site / history class
	Msg    string
	Replay string // path of the replay artefact
}

// Known loads the "known:" entries for a property: key -> description.
func Known(property string) map[string]string {
	out := map[string]string{}
	f, err := os.Open(filepath.Join(Root(), "known_findings.txt"))
	if err != nil {
		return out
	}
	defer f.Close()
	sc := bufio.NewScanner(f)
	sc.Buffer(make([]byte, 1<<20), 1<<20)
	for sc.Scan() {
		l := strings.TrimSpace(sc.Text())
		if !strings.HasPrefix(l, "known:") {
			continue
		}
		l = strings.TrimSpace(strings.TrimPrefix(l, "known:"))
		desc := ""
		if i := strings.Index(l, " :: "); i >= 0 {
			desc = l[i+4:]
			l = l[:i]
		}
		if !strings.HasPrefix(l, "property="+property+" ") {
			continue
		}
		l = strings.TrimPrefix(l, "property="+property+" ")
		if !strings.HasPrefix(l, "key=") {
			continue
		}
		out[strings.TrimPrefix(l, "key=")] = desc
	}
	return out
}

// Report prints KNOWN-FINDING / VIOLATION lines and returns the process exit
// code (0 if every finding is listed in known_findings.txt).
func Report(property string, findings []Finding) (exit int, unknown int) {
	known := Known(property)
	seenKnown := map[string]bool{}
	perKey := map[string]int{}
	var order []string
	for _, f := range findings {
		if desc, ok := known[f.Key]; ok {
			if !seenKnown[f.Key] {
				seenKnown[f.Key] = true
				fmt.Printf("KNOWN-FINDING: property=%s key=%s %s\n", property, f.Key, desc)
			}
			continue
		}
		unknown++
		if perKey[f.Key] == 0 {
			order = append(order, f.Key)
		}
		perKey[f.Key]++
	}
	var unseen []string
	for k := range known {
		if !seenKnown[k] {
			unseen = append(unseen, k)
		}
	}
	sort.Strings(unseen)
	for _, k := range unseen {
		fmt.Printf("KNOWN-FINDING: property=%s key=%s %s (listed; not reached by this run)\n", property, k, known[k])
	}
	// every distinct key is shown (up to 2 cases each, 40 lines in all)
	shown := map[string]int{}
	lines := 0
	for _, f := range findings {
		if _, ok := known[f.Key]; ok {
			continue
		}
		if shown[f.Key] >= 2 || lines >= 40 {
			continue
		}
		shown[f.Key]++
		lines++
		fmt.Printf("VIOLATION property=%s replay=%s\n", property, f.Replay)
		fmt.Printf("  key=%s (%d case(s) with this key)\n  %s\n", f.Key, perKey[f.Key], strings.ReplaceAll(f.Msg, "\n", "\n  "))
	}
	if unknown > lines {
		fmt.Printf("... and %d more violations of %s over %d distinct key(s) (replay files under %s/replays)\n", unknown-lines, property, len(order), Root())
	}
	if unknown > 0 {
		return 1, unknown
	}
	return 0, 0
}

// SaveReplay writes a replay artefact under /verif/replays and returns its path.
func SaveReplay(property, name string, v any) string {
	dir := filepath.Join(Root(), "replays")
	os.MkdirAll(dir, 0o755)
	safe := strings.Map(func(r rune) rune {
		if r >= 'a' && r <= 'z' || r >= 'A' && r <= 'Z' || r >= '0' && r <= '9' || r == '-' || r == '_' || r == '.' {
			return r
		}
		return '_'
	}, name)
	if len(safe) > 80 {
		safe = safe[:80]
	}
	p := filepath.Join(dir, property+"-"+safe+".json")
	b, _ := json.MarshalIndent(v, "", " ")
	os.WriteFile(p, b, 0o644)
	return p
}
