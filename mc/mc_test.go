package mc

import (
	"fmt"
	"sort"
	"strings"
	"testing"
	"time"
)

func outcomes(t *testing.T, opts Options, body func(out *[]string)) (map[string]bool, *Stats) {
	set := map[string]bool{}
	st := Explore(opts, func() *Exec {
		var out []string
		return &Exec{
			Body: func() { body(&out) },
			Check: func(e *End) error {
				s := strings.Join(out, ",")
				if !e.AllFinished() {
					s += "|parked:" + strings.Join(e.Parked(), ";")
				}
				set[s] = true
				Outcome(s)
				return nil
			},
		}
	})
	if len(st.Violations) > 0 {
		t.Fatalf("violation: %+v", st.Violations[0])
	}
	return set, st
}

func keys(m map[string]bool) string {
	var k []string
	for s := range m {
		k = append(k, s)
	}
	sort.Strings(k)
	return strings.Join(k, " / ")
}

func TestLostUpdate(t *testing.T) {
	set, st := outcomes(t, Options{Bound: 2}, func(out *[]string) {
		var a AtomicInt32
		var wg WaitGroup
		wg.Add(2)
		for i := 0; i < 2; i++ {
			Go(func() {
				v := a.Load()
				a.Store(v + 1)
				wg.Done()
			})
		}
		wg.Wait()
		*out = append(*out, fmt.Sprint(a.Peek()))
	})
	if keys(set) != "1 / 2" {
		t.Fatalf("got %s", keys(set))
	}
	t.Logf("%+v", st)
}

func TestMutexExclusion(t *testing.T) {
	set, _ := outcomes(t, Options{Bound: 3}, func(out *[]string) {
		var mu Mutex
		var a AtomicInt32
		var wg WaitGroup
		wg.Add(2)
		for i := 0; i < 2; i++ {
			Go(func() {
				mu.Lock()
				v := a.Load()
				a.Store(v + 1)
				mu.Unlock()
				wg.Done()
			})
		}
		wg.Wait()
		*out = append(*out, fmt.Sprint(a.Peek()))
	})
	if keys(set) != "2" {
		t.Fatalf("got %s", keys(set))
	}
}

func TestSelectDefaultAndDeadlock(t *testing.T) {
	set, _ := outcomes(t, Options{Bound: 2}, func(out *[]string) {
		c := NewChan[int]()
		Go(func() { c.Send(1) })
		rc := c.RecvCase()
		switch Select(true, rc) {
		case 0:
			*out = append(*out, "got")
		default:
			*out = append(*out, "default")
		}
	})
	// if default is taken the sender stays parked forever
	if keys(set) != "default|parked:g1@send ch1 / got" {
		t.Fatalf("got %s", keys(set))
	}
}

func TestSelectTie(t *testing.T) {
	set, _ := outcomes(t, Options{Bound: 1, TieCost: 1}, func(out *[]string) {
		a, b := NewChan[int](1), NewChan[int](1)
		a.Send(1)
		b.Send(2)
		ra, rb := a.RecvCase(), b.RecvCase()
		switch Select(false, ra, rb) {
		case 0:
			*out = append(*out, fmt.Sprint("a", ra.V))
		case 1:
			*out = append(*out, fmt.Sprint("b", rb.V))
		}
	})
	if keys(set) != "a1 / b2" {
		t.Fatalf("got %s", keys(set))
	}
}

func TestCloseWakes(t *testing.T) {
	set, _ := outcomes(t, Options{Bound: 2}, func(out *[]string) {
		c := NewChan[int]()
		d := NewChan[string]()
		Go(func() {
			_, ok := c.Recv2()
			d.Send(fmt.Sprint(ok))
		})
		c.Close()
		*out = append(*out, d.Recv())
	})
	if keys(set) != "false" {
		t.Fatalf("got %s", keys(set))
	}
}

func TestRWMutexWriterBlocksNewReaders(t *testing.T) {
	// reader A holds; writer announces; reader B must wait for the writer.
	set, _ := outcomes(t, Options{Bound: 3}, func(out *[]string) {
		var mu RWMutex
		var wg WaitGroup
		mu.RLock()
		wg.Add(2)
		Go(func() {
			mu.Lock()
			*out = append(*out, "W")
			mu.Unlock()
			wg.Done()
		})
		Go(func() {
			mu.RLock()
			*out = append(*out, "R")
			mu.RUnlock()
			wg.Done()
		})
		Yield()
		mu.RUnlock()
		wg.Wait()
	})
	if keys(set) != "R,W / W,R" {
		t.Fatalf("got %s", keys(set))
	}
}

func TestRecursiveRLockDeadlock(t *testing.T) {
	// classic: reader re-enters while a writer is pending => deadlock
	set, _ := outcomes(t, Options{Bound: 2}, func(out *[]string) {
		var mu RWMutex
		mu.RLock()
		Go(func() { mu.Lock(); mu.Unlock() })
		Yield()
		mu.RLock()
		mu.RUnlock()
		mu.RUnlock()
		*out = append(*out, "ok")
	})
	if !set["ok"] || len(set) != 2 {
		t.Fatalf("got %s", keys(set))
	}
}

func TestTimerSemantics(t *testing.T) {
	for _, sem := range []TimerSem{TimerGo123, TimerLegacy} {
		// bound 0: timers are delivered promptly (a due timer may otherwise be
		// starved while the clock moves on, at a cost)
		set, _ := outcomes(t, Options{Bound: 0, TimerSem: sem, AutoClock: true}, func(out *[]string) {
			tm := TimeNewTimer(time.Second)
			TimeSleep(2 * time.Second) // timer fired
			stopped := tm.Stop()
			_, _, got := tm.C.TryRecv()
			*out = append(*out, fmt.Sprint(stopped, got))
		})
		want := "true false"
		if sem == TimerLegacy {
			want = "false true"
		}
		if keys(set) != want {
			t.Fatalf("sem %d got %s", sem, keys(set))
		}
	}
}

func TestTimerRace(t *testing.T) {
	// Stop racing the firing: both results visible within bound 1
	set, _ := outcomes(t, Options{Bound: 1, AutoClock: true}, func(out *[]string) {
		tm := TimeNewTimer(time.Second)
		stopCh := NewChan[struct{}]()
		Go(func() { stopCh.Close() })
		rc, rs := tm.C.RecvCase(), stopCh.RecvCase()
		switch Select(false, rc, rs) {
		case 0:
			*out = append(*out, "fired")
		case 1:
			*out = append(*out, "stopped")
		}
	})
	if keys(set) != "fired / stopped" {
		t.Fatalf("got %s", keys(set))
	}
}

func TestContextShim(t *testing.T) {
	set, _ := outcomes(t, Options{Bound: 2}, func(out *[]string) {
		ctx, cancel := CtxWithCancel(bg)
		child, cancel2 := CtxWithCancel(ctx)
		defer cancel2()
		Go(func() { cancel() })
		Twin(child.Done()).Recv()
		*out = append(*out, fmt.Sprint(child.Err()))
	})
	if keys(set) != "context canceled" {
		t.Fatalf("got %s", keys(set))
	}
}

func TestPanicReported(t *testing.T) {
	st := Explore(Options{Bound: 1}, func() *Exec {
		return &Exec{Body: func() {
			c := NewChan[int]()
			Go(func() { c.Close() })
			Go(func() { c.Close() })
		}}
	})
	if len(st.Violations) != 1 || !strings.Contains(st.Violations[0].Msg, "close of closed channel") || !st.Violations[0].Stable {
		t.Fatalf("%+v", st)
	}
}

func TestGoexitInDefer(t *testing.T) {
	// parked thread with deferred shim ops must unwind cleanly, 1000 times
	st := Explore(Options{Bound: 2}, func() *Exec {
		return &Exec{Body: func() {
			var mu Mutex
			c := NewChan[int]()
			for i := 0; i < 3; i++ {
				Go(func() {
					defer func() {
						mu.Lock()
						defer mu.Unlock()
						c.Close()
					}()
					c.Recv()
				})
			}
		}}
	})
	if len(st.Violations) != 0 {
		t.Fatalf("%+v", st.Violations)
	}
	t.Logf("execs=%d", st.Execs)
}

func TestSharding(t *testing.T) {
	mk := func() *Exec {
		return &Exec{Body: func() {
			var mu Mutex
			var a AtomicInt32
			var wg WaitGroup
			wg.Add(3)
			for i := 0; i < 3; i++ {
				Go(func() {
					mu.Lock()
					a.Store(a.Load() + 1)
					mu.Unlock()
					a.Load()
					wg.Done()
				})
			}
			wg.Wait()
		}}
	}
	for _, delay := range []bool{false, true} {
		whole := Explore(Options{Bound: 2, Delay: delay}, mk)
		var sum [3]int64
		for k := 0; k < 5; k++ {
			st := Explore(Options{Bound: 2, Delay: delay, Shard: k, Shards: 5}, mk)
			if st.ExecsPerLevel[0] != whole.ExecsPerLevel[0] {
				t.Fatalf("level 0 differs: %v vs %v", st.ExecsPerLevel, whole.ExecsPerLevel)
			}
			for l := 1; l <= 2; l++ {
				sum[l] += st.ExecsPerLevel[l]
			}
		}
		if sum[1] != whole.ExecsPerLevel[1] || sum[2] != whole.ExecsPerLevel[2] {
			t.Fatalf("delay=%v: shards cover %v, whole search %v", delay, sum, whole.ExecsPerLevel)
		}
		t.Logf("delay=%v whole=%v", delay, whole.ExecsPerLevel)
	}
}
