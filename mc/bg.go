package mc

import "context"

var bg = context.Background()
