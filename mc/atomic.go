package mc

// Atomic types: every access is a scheduling point and atomic.

type AtomicBool struct{ v bool }

func (a *AtomicBool) Load() bool { rt.yield("atomic", 0); return a.v }
func (a *AtomicBool) Store(v bool) {
	rt.yield("atomic", 0)
	a.v = v
}
func (a *AtomicBool) Swap(v bool) bool {
	rt.yield("atomic", 0)
	o := a.v
	a.v = v
	return o
}
func (a *AtomicBool) CompareAndSwap(old, new bool) bool {
	rt.yield("atomic", 0)
	if a.v == old {
		a.v = new
		return true
	}
	return false
}

// Peek reads without a scheduling point (oracles).
func (a *AtomicBool) Peek() bool { return a.v }

type atomicInt[T int32 | int64 | uint32 | uint64 | uintptr] struct{ v T }

func (a *atomicInt[T]) Load() T { rt.yield("atomic", 0); return a.v }
func (a *atomicInt[T]) Store(v T) {
	rt.yield("atomic", 0)
	a.v = v
}
func (a *atomicInt[T]) Swap(v T) T {
	rt.yield("atomic", 0)
	o := a.v
	a.v = v
	return o
}
func (a *atomicInt[T]) Add(d T) T {
	rt.yield("atomic", 0)
	a.v += d
	return a.v
}
func (a *atomicInt[T]) CompareAndSwap(old, new T) bool {
	rt.yield("atomic", 0)
	if a.v == old {
		a.v = new
		return true
	}
	return false
}
func (a *atomicInt[T]) Peek() T { return a.v }

type AtomicInt32 struct{ atomicInt[int32] }
type AtomicInt64 struct{ atomicInt[int64] }
type AtomicUint32 struct{ atomicInt[uint32] }
type AtomicUint64 struct{ atomicInt[uint64] }
type AtomicUintptr struct{ atomicInt[uintptr] }

type AtomicPointer[T any] struct{ p *T }

func (a *AtomicPointer[T]) Load() *T { rt.yield("atomic", 0); return a.p }
func (a *AtomicPointer[T]) Store(p *T) {
	rt.yield("atomic", 0)
	a.p = p
}
func (a *AtomicPointer[T]) Swap(p *T) *T {
	rt.yield("atomic", 0)
	o := a.p
	a.p = p
	return o
}
func (a *AtomicPointer[T]) CompareAndSwap(old, new *T) bool {
	rt.yield("atomic", 0)
	if a.p == old {
		a.p = new
		return true
	}
	return false
}

type AtomicValue struct{ v any }

func (a *AtomicValue) Load() any { rt.yield("atomic", 0); return a.v }
func (a *AtomicValue) Store(v any) {
	rt.yield("atomic", 0)
	if v == nil {
		panic("sync/atomic: store of nil value into Value")
	}
	a.v = v
}
func (a *AtomicValue) Swap(v any) any {
	rt.yield("atomic", 0)
	o := a.v
	a.v = v
	return o
}
func (a *AtomicValue) CompareAndSwap(old, new any) bool {
	rt.yield("atomic", 0)
	if a.v == old {
		a.v = new
		return true
	}
	return false
}

// Function forms.
func AtomicAddInt32(p *int32, d int32) int32     { rt.yield("atomic", 0); *p += d; return *p }
func AtomicAddInt64(p *int64, d int64) int64     { rt.yield("atomic", 0); *p += d; return *p }
func AtomicAddUint32(p *uint32, d uint32) uint32 { rt.yield("atomic", 0); *p += d; return *p }
func AtomicAddUint64(p *uint64, d uint64) uint64 { rt.yield("atomic", 0); *p += d; return *p }
func AtomicLoadInt32(p *int32) int32             { rt.yield("atomic", 0); return *p }
func AtomicLoadInt64(p *int64) int64             { rt.yield("atomic", 0); return *p }
func AtomicLoadUint32(p *uint32) uint32          { rt.yield("atomic", 0); return *p }
func AtomicLoadUint64(p *uint64) uint64          { rt.yield("atomic", 0); return *p }
func AtomicStoreInt32(p *int32, v int32)         { rt.yield("atomic", 0); *p = v }
func AtomicStoreInt64(p *int64, v int64)         { rt.yield("atomic", 0); *p = v }
func AtomicStoreUint32(p *uint32, v uint32)      { rt.yield("atomic", 0); *p = v }
func AtomicStoreUint64(p *uint64, v uint64)      { rt.yield("atomic", 0); *p = v }
func AtomicCompareAndSwapInt32(p *int32, o, n int32) bool {
	rt.yield("atomic", 0)
	if *p == o {
		*p = n
		return true
	}
	return false
}
func AtomicCompareAndSwapInt64(p *int64, o, n int64) bool {
	rt.yield("atomic", 0)
	if *p == o {
		*p = n
		return true
	}
	return false
}
func AtomicCompareAndSwapUint32(p *uint32, o, n uint32) bool {
	rt.yield("atomic", 0)
	if *p == o {
		*p = n
		return true
	}
	return false
}
func AtomicCompareAndSwapUint64(p *uint64, o, n uint64) bool {
	rt.yield("atomic", 0)
	if *p == o {
		*p = n
		return true
	}
	return false
}
