package mc

import "io"

// IOPipe is io.Pipe on the model runtime (a port of the standard library's
// implementation onto model channels, mutex and once).
func IOPipe() (*PipeReader, *PipeWriter) {
	p := &pipe{
		wrCh: NewChan[[]byte](),
		rdCh: NewChan[int](),
		done: NewChan[struct{}](),
	}
	return &PipeReader{p}, &PipeWriter{p}
}

type pipe struct {
	wrMu Mutex
	wrCh *Chan[[]byte]
	rdCh *Chan[int]
	once Once
	done *Chan[struct{}]
	rerr error
	werr error
}

func (p *pipe) read(b []byte) (int, error) {
	switch c := p.done.RecvCase(); Select(true, c) {
	case 0:
		return 0, p.readCloseError()
	}
	cw, cd := p.wrCh.RecvCase(), p.done.RecvCase()
	switch Select(false, cw, cd) {
	case 0:
		nr := copy(b, cw.V)
		p.rdCh.Send(nr)
		return nr, nil
	default:
		return 0, p.readCloseError()
	}
}

func (p *pipe) write(b []byte) (n int, err error) {
	switch c := p.done.RecvCase(); Select(true, c) {
	case 0:
		return 0, p.writeCloseError()
	default:
		p.wrMu.Lock()
		defer p.wrMu.Unlock()
	}
	for once := true; once || len(b) > 0; once = false {
		cw, cd := p.wrCh.SendCase(b), p.done.RecvCase()
		switch Select(false, cw, cd) {
		case 0:
			nw := p.rdCh.Recv()
			b = b[nw:]
			n += nw
		default:
			return n, p.writeCloseError()
		}
	}
	return n, nil
}

func (p *pipe) closeRead(err error) error {
	if err == nil {
		err = io.ErrClosedPipe
	}
	if p.rerr == nil {
		p.rerr = err
	}
	p.once.Do(func() { p.done.Close() })
	return nil
}

func (p *pipe) closeWrite(err error) error {
	if err == nil {
		err = io.EOF
	}
	if p.werr == nil {
		p.werr = err
	}
	p.once.Do(func() { p.done.Close() })
	return nil
}

func (p *pipe) readCloseError() error {
	if p.rerr == nil && p.werr != nil {
		return p.werr
	}
	return io.ErrClosedPipe
}

func (p *pipe) writeCloseError() error {
	if p.werr == nil && p.rerr != nil {
		return p.rerr
	}
	return io.ErrClosedPipe
}

// PipeReader mirrors io.PipeReader.
type PipeReader struct{ pipe *pipe }

func (r *PipeReader) Read(data []byte) (int, error)  { return r.pipe.read(data) }
func (r *PipeReader) Close() error                   { return r.CloseWithError(nil) }
func (r *PipeReader) CloseWithError(err error) error { return r.pipe.closeRead(err) }

// PipeWriter mirrors io.PipeWriter.
type PipeWriter struct{ pipe *pipe }

func (w *PipeWriter) Write(data []byte) (int, error) { return w.pipe.write(data) }
func (w *PipeWriter) Close() error                   { return w.CloseWithError(nil) }
func (w *PipeWriter) CloseWithError(err error) error { return w.pipe.closeWrite(err) }
