package mc

import (
	"fmt"
	"time"
)

// mtimer is a model timer/ticker registered with the model clock.
type mtimer struct {
	id     int
	when   int64
	period int64
	armed  bool
	ch     *Chan[time.Time]
	fn     func() // AfterFunc: run in a new model thread
	envFn  func() // environment callback executed inline (context deadlines)
}

func (r *rtime) newTimer(d time.Duration, period time.Duration, fn func()) *mtimer {
	tm := &mtimer{id: r.newObj(), when: satAdd(r.now, int64(d)), period: int64(period), armed: true, fn: fn}
	if fn == nil {
		tm.ch = &Chan[time.Time]{id: tm.id, cap: 1}
	}
	r.timers = append(r.timers, tm)
	return tm
}

// satAdd adds a duration to a model instant, saturating like the runtime's
// when(): a deadline that overflows means "never".
func satAdd(now, d int64) int64 {
	if d <= 0 {
		return now + d
	}
	w := now + d
	if w < now {
		return 1<<63 - 1
	}
	return w
}

func (r *rtime) modelTime() time.Time { return r.opts.Epoch.Add(time.Duration(r.now)) }

func (r *rtime) fireTimer(tm *mtimer) {
	if r.opts.Trace {
		r.trace = append(r.trace, Ev{Thread: -1, Op: "timer-fire", Obj: tm.id, Time: time.Duration(r.now)})
	}
	if tm.period > 0 {
		tm.when += tm.period
		if tm.when <= r.now {
			// a jump over several periods: next tick strictly in the future
			tm.when = r.now + tm.period - (r.now-tm.when)%tm.period
		}
	} else {
		tm.armed = false
	}
	switch {
	case tm.envFn != nil:
		tm.envFn()
	case tm.fn != nil:
		r.newThread(fmt.Sprintf("afterfunc%d", tm.id), tm.fn)
	default:
		if tm.ch.canSend() {
			tm.ch.doSend(r.modelTime())
		}
	}
	r.compactTimers()
}

func (r *rtime) compactTimers() {
	if len(r.timers) < 32 {
		return
	}
	q := r.timers[:0]
	for _, t := range r.timers {
		if t.armed {
			q = append(q, t)
		}
	}
	r.timers = q
}

// nextDeadline is the earliest armed deadline strictly in the future: time may
// move on while a due timer has not been delivered yet (the runtime delivers a
// tick some time after it is due; under load that can be long).
func (r *rtime) nextDeadline() (int64, bool) {
	var best int64
	ok := false
	for _, t := range r.timers {
		if t.armed && t.when > r.now && (!ok || t.when < best) {
			best, ok = t.when, true
		}
	}
	return best, ok
}

func (r *rtime) clockEnabled() bool {
	if r.clockPos < len(r.opts.ClockSteps) {
		return true
	}
	if !r.opts.AutoClock {
		return false
	}
	d, ok := r.nextDeadline()
	return ok && d > r.now && d <= int64(r.opts.Horizon)
}

func (r *rtime) advanceClock() {
	if r.clockPos < len(r.opts.ClockSteps) {
		r.now += int64(r.opts.ClockSteps[r.clockPos])
		r.clockPos++
	} else {
		d, _ := r.nextDeadline()
		r.now = d
	}
	if r.opts.Trace {
		r.trace = append(r.trace, Ev{Thread: -2, Op: "clock", Obj: 0, Time: time.Duration(r.now)})
	}
}

func (tm *mtimer) stop() bool {
	r := rt
	was := tm.armed
	tm.armed = false
	if tm.ch != nil && r.opts.TimerSem == TimerGo123 {
		if len(tm.ch.buf) > 0 {
			tm.ch.buf = tm.ch.buf[:0]
			was = true
		}
	}
	return was
}

func (tm *mtimer) reset(d time.Duration) bool {
	r := rt
	was := tm.stop()
	tm.when = satAdd(r.now, int64(d))
	tm.armed = true
	found := false
	for _, t := range r.timers {
		if t == tm {
			found = true
			break
		}
	}
	if !found {
		r.timers = append(r.timers, tm)
	}
	return was
}

// ---- package time ----

// TimeTimer mirrors time.Timer.
type TimeTimer struct {
	C  *Chan[time.Time]
	tm *mtimer
}

func (t *TimeTimer) Stop() bool {
	rt.yield("timer.stop", t.tm.id)
	return t.tm.stop()
}

func (t *TimeTimer) Reset(d time.Duration) bool {
	rt.yield("timer.reset", t.tm.id)
	return t.tm.reset(d)
}

// TimeTicker mirrors time.Ticker.
type TimeTicker struct {
	C  *Chan[time.Time]
	tm *mtimer
}

func (t *TimeTicker) Stop() {
	rt.yield("ticker.stop", t.tm.id)
	t.tm.stop()
}

func (t *TimeTicker) Reset(d time.Duration) {
	rt.yield("ticker.reset", t.tm.id)
	t.tm.period = int64(d)
	t.tm.reset(d)
}

func TimeNow() time.Time {
	rt.yield("now", 0)
	return rt.modelTime()
}

func TimeSince(t time.Time) time.Duration { return TimeNow().Sub(t) }
func TimeUntil(t time.Time) time.Duration { return t.Sub(TimeNow()) }

func TimeNewTimer(d time.Duration) *TimeTimer {
	rt.yield("newtimer", 0)
	tm := rt.newTimer(d, 0, nil)
	return &TimeTimer{C: tm.ch, tm: tm}
}

func TimeAfter(d time.Duration) *Chan[time.Time] { return TimeNewTimer(d).C }

func TimeAfterFunc(d time.Duration, f func()) *TimeTimer {
	rt.yield("afterfunc", 0)
	tm := rt.newTimer(d, 0, f)
	return &TimeTimer{tm: tm}
}

func TimeNewTicker(d time.Duration) *TimeTicker {
	if d <= 0 {
		panic("non-positive interval for NewTicker")
	}
	rt.yield("newticker", 0)
	tm := rt.newTimer(d, d, nil)
	return &TimeTicker{C: tm.ch, tm: tm}
}

func TimeTick(d time.Duration) *Chan[time.Time] { return TimeNewTicker(d).C }

func TimeSleep(d time.Duration) {
	if d <= 0 {
		rt.yield("sleep0", 0)
		return
	}
	TimeNewTimer(d).C.Recv()
}

// ---- k8s.io/utils/clock ----

type PassiveClock interface {
	Now() time.Time
	Since(time.Time) time.Duration
}

type Clock interface {
	PassiveClock
	After(d time.Duration) *Chan[time.Time]
	NewTimer(d time.Duration) ClockTimer
	Sleep(d time.Duration)
	Tick(d time.Duration) *Chan[time.Time]
}

type WithTicker interface {
	Clock
	NewTicker(time.Duration) ClockTicker
}

type WithDelayedExecution interface {
	Clock
	AfterFunc(d time.Duration, f func()) ClockTimer
}

type WithTickerAndDelayedExecution interface {
	WithTicker
	AfterFunc(d time.Duration, f func()) ClockTimer
}

type ClockTimer interface {
	C() *Chan[time.Time]
	Stop() bool
	Reset(d time.Duration) bool
}

type ClockTicker interface {
	C() *Chan[time.Time]
	Stop()
}

// RealClock is the model clock in the clothes of clock.RealClock.
type RealClock struct{}

func (RealClock) Now() time.Time                         { return TimeNow() }
func (RealClock) Since(t time.Time) time.Duration        { return TimeSince(t) }
func (RealClock) After(d time.Duration) *Chan[time.Time] { return TimeAfter(d) }
func (RealClock) NewTimer(d time.Duration) ClockTimer    { return &clockTimer{TimeNewTimer(d)} }
func (RealClock) Sleep(d time.Duration)                  { TimeSleep(d) }
func (RealClock) Tick(d time.Duration) *Chan[time.Time]  { return TimeTick(d) }
func (RealClock) NewTicker(d time.Duration) ClockTicker  { return &clockTicker{TimeNewTicker(d)} }
func (RealClock) AfterFunc(d time.Duration, f func()) ClockTimer {
	return &clockTimer{TimeAfterFunc(d, f)}
}

type clockTimer struct{ t *TimeTimer }

func (c *clockTimer) C() *Chan[time.Time]        { return c.t.C }
func (c *clockTimer) Stop() bool                 { return c.t.Stop() }
func (c *clockTimer) Reset(d time.Duration) bool { return c.t.Reset(d) }

type clockTicker struct{ t *TimeTicker }

func (c *clockTicker) C() *Chan[time.Time] { return c.t.C }
func (c *clockTicker) Stop()               { c.t.Stop() }

// ArmedTimers reports how many timers are armed (oracles).
func ArmedTimers() int {
	n := 0
	for _, t := range rt.timers {
		if t.armed {
			n++
		}
	}
	return n
}
