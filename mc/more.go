package mc

import (
	"context"
	"fmt"
	"unsafe"
)

// Shims for primitives the pinned tree does not use but a change to it may
// introduce (sync.Cond, sync.OnceFunc/OnceValue/OnceValues, context.AfterFunc,
// context.WithoutCancel, the remaining sync/atomic functions and methods,
// sync.Map's newer methods). Without them such a change would leave the part
// "not decided" (mcgen refuses what would escape the scheduler).

// ---- sync.Cond ----

type condWaiter struct {
	t         *thread
	signalled bool
}

// Cond models sync.Cond: waiters are woken in arrival order (the runtime's
// notify list hands out tickets), a Signal between the unlock and the sleep of
// a waiter is not lost.
type Cond struct {
	L       Locker
	gen     uint64
	id      int
	waiters []*condWaiter
}

func NewCond(l Locker) *Cond { return &Cond{L: l} }

func (c *Cond) init() {
	if c.gen != rt.gen {
		c.gen, c.id, c.waiters = rt.gen, rt.newObj(), nil
	}
}

func (c *Cond) Wait() {
	r := rt
	r.yield("cond.wait", 0)
	c.init()
	w := &condWaiter{t: r.cur}
	c.waiters = append(c.waiters, w)
	c.L.Unlock()
	for !w.signalled {
		r.park(fmt.Sprintf("cond%d", c.id))
	}
	c.L.Lock()
}

func (c *Cond) Signal() {
	r := rt
	r.yield("cond.signal", 0)
	c.init()
	if len(c.waiters) > 0 {
		w := c.waiters[0]
		c.waiters = c.waiters[1:]
		w.signalled = true
		r.ready(w.t)
	}
}

func (c *Cond) Broadcast() {
	r := rt
	r.yield("cond.broadcast", 0)
	c.init()
	for _, w := range c.waiters {
		w.signalled = true
		r.ready(w.t)
	}
	c.waiters = nil
}

// ---- sync.OnceFunc / OnceValue / OnceValues ----

func OnceFunc(f func()) func() {
	var (
		once  Once
		valid bool
		p     any
	)
	g := func() {
		defer func() {
			p = recover()
			if !valid {
				panic(p)
			}
		}()
		f()
		f = nil
		valid = true
	}
	return func() {
		once.Do(g)
		if !valid {
			panic(p)
		}
	}
}

func OnceValue[T any](f func() T) func() T {
	var (
		once   Once
		valid  bool
		p      any
		result T
	)
	g := func() {
		defer func() {
			p = recover()
			if !valid {
				panic(p)
			}
		}()
		result = f()
		f = nil
		valid = true
	}
	return func() T {
		once.Do(g)
		if !valid {
			panic(p)
		}
		return result
	}
}

func OnceValues[T1, T2 any](f func() (T1, T2)) func() (T1, T2) {
	var (
		once  Once
		valid bool
		p     any
		r1    T1
		r2    T2
	)
	g := func() {
		defer func() {
			p = recover()
			if !valid {
				panic(p)
			}
		}()
		r1, r2 = f()
		f = nil
		valid = true
	}
	return func() (T1, T2) {
		once.Do(g)
		if !valid {
			panic(p)
		}
		return r1, r2
	}
}

// ---- context.AfterFunc / WithoutCancel ----

type afterFn struct {
	f                func()
	stopped, started bool
}

// CtxAfterFunc models context.AfterFunc: f runs in its own model thread once
// ctx is done, unless stop was called first.
func CtxAfterFunc(ctx context.Context, f func()) (stop func() bool) {
	r := rt
	r.yield("ctx.afterfunc", 0)
	a := &afterFn{f: f}
	n := r.lookupCtx(ctx)
	switch {
	case n == nil && ctx.Done() != nil:
		panic("mc: context.AfterFunc on a context that was not created through the shim")
	case n == nil: // never done
	case n.twin.closed:
		a.started = true
		r.newThread("ctx-afterfunc", f)
	default:
		n.after = append(n.after, a)
	}
	return func() bool {
		rt.yield("ctx.afterfunc.stop", 0)
		if a.started || a.stopped {
			return false
		}
		a.stopped = true
		return true
	}
}

// CtxWithoutCancel is context.WithoutCancel: the result is never done, so it
// has no twin (Twin(nil) is the nil channel).
func CtxWithoutCancel(parent context.Context) context.Context {
	return context.WithoutCancel(parent)
}

// ---- the rest of sync/atomic ----

func (a *atomicInt[T]) And(mask T) T { rt.yield("atomic", 0); old := a.v; a.v &= mask; return old }
func (a *atomicInt[T]) Or(mask T) T  { rt.yield("atomic", 0); old := a.v; a.v |= mask; return old }

func atomicSwap[T any](p *T, v T) T { rt.yield("atomic", 0); old := *p; *p = v; return old }
func atomicCAS[T comparable](p *T, o, n T) bool {
	rt.yield("atomic", 0)
	if *p == o {
		*p = n
		return true
	}
	return false
}

func AtomicSwapInt32(p *int32, v int32) int32         { return atomicSwap(p, v) }
func AtomicSwapInt64(p *int64, v int64) int64         { return atomicSwap(p, v) }
func AtomicSwapUint32(p *uint32, v uint32) uint32     { return atomicSwap(p, v) }
func AtomicSwapUint64(p *uint64, v uint64) uint64     { return atomicSwap(p, v) }
func AtomicSwapUintptr(p *uintptr, v uintptr) uintptr { return atomicSwap(p, v) }
func AtomicSwapPointer(p *unsafe.Pointer, v unsafe.Pointer) unsafe.Pointer {
	return atomicSwap(p, v)
}
func AtomicLoadUintptr(p *uintptr) uintptr               { rt.yield("atomic", 0); return *p }
func AtomicLoadPointer(p *unsafe.Pointer) unsafe.Pointer { rt.yield("atomic", 0); return *p }
func AtomicStoreUintptr(p *uintptr, v uintptr)           { rt.yield("atomic", 0); *p = v }
func AtomicStorePointer(p *unsafe.Pointer, v unsafe.Pointer) {
	rt.yield("atomic", 0)
	*p = v
}
func AtomicAddUintptr(p *uintptr, d uintptr) uintptr            { rt.yield("atomic", 0); *p += d; return *p }
func AtomicCompareAndSwapUintptr(p *uintptr, o, n uintptr) bool { return atomicCAS(p, o, n) }
func AtomicCompareAndSwapPointer(p *unsafe.Pointer, o, n unsafe.Pointer) bool {
	return atomicCAS(p, o, n)
}
func AtomicAndInt32(p *int32, m int32) int32     { rt.yield("atomic", 0); o := *p; *p &= m; return o }
func AtomicAndInt64(p *int64, m int64) int64     { rt.yield("atomic", 0); o := *p; *p &= m; return o }
func AtomicAndUint32(p *uint32, m uint32) uint32 { rt.yield("atomic", 0); o := *p; *p &= m; return o }
func AtomicAndUint64(p *uint64, m uint64) uint64 { rt.yield("atomic", 0); o := *p; *p &= m; return o }
func AtomicOrInt32(p *int32, m int32) int32      { rt.yield("atomic", 0); o := *p; *p |= m; return o }
func AtomicOrInt64(p *int64, m int64) int64      { rt.yield("atomic", 0); o := *p; *p |= m; return o }
func AtomicOrUint32(p *uint32, m uint32) uint32  { rt.yield("atomic", 0); o := *p; *p |= m; return o }
func AtomicOrUint64(p *uint64, m uint64) uint64  { rt.yield("atomic", 0); o := *p; *p |= m; return o }

// ---- sync.Map, newer methods ----

func (m *SyncMap) Swap(k, v any) (any, bool) {
	rt.yield("syncmap", 0)
	m.init()
	old, ok := m.m[k]
	if !ok {
		m.keys = append(m.keys, k)
	}
	m.m[k] = v
	return old, ok
}

func (m *SyncMap) CompareAndSwap(k, old, new any) bool {
	rt.yield("syncmap", 0)
	m.init()
	if cur, ok := m.m[k]; ok && cur == old {
		m.m[k] = new
		return true
	}
	return false
}

func (m *SyncMap) CompareAndDelete(k, old any) bool {
	rt.yield("syncmap", 0)
	m.init()
	if cur, ok := m.m[k]; ok && cur == old {
		m.del(k)
		return true
	}
	return false
}

func (m *SyncMap) Clear() {
	rt.yield("syncmap", 0)
	m.init()
	m.m, m.keys = map[any]any{}, nil
}
