package mc

import (
	"fmt"
	"sort"
)

// Locker mirrors sync.Locker.
type Locker interface {
	Lock()
	Unlock()
}

// Mutex is the model of sync.Mutex (no FIFO promise: any waiter may win).
type Mutex struct {
	gen     uint64
	id      int
	locked  bool
	owner   int
	waiters []*thread
}

func (m *Mutex) init() {
	if m.gen != rt.gen {
		*m = Mutex{gen: rt.gen, id: rt.newObj()}
	}
}

// ID returns the object id used in traces.
func (m *Mutex) ID() int { m.init(); return m.id }

func (m *Mutex) Lock() {
	r := rt
	r.yield("lock?", 0)
	m.init()
	for m.locked {
		m.waiters = append(m.waiters, r.cur)
		r.park(fmt.Sprintf("mutex%d", m.id))
	}
	m.locked = true
	m.owner = ThreadID()
	r.ev("lock", m.id)
}

func (m *Mutex) TryLock() bool {
	r := rt
	r.yield("trylock", 0)
	m.init()
	if m.locked {
		return false
	}
	m.locked = true
	m.owner = ThreadID()
	r.ev("lock", m.id)
	return true
}

func (m *Mutex) Unlock() {
	r := rt
	r.yield("unlock", 0)
	m.init()
	if !m.locked {
		panic("sync: unlock of unlocked mutex")
	}
	m.locked = false
	r.ev("unlock", m.id)
	for _, w := range m.waiters {
		r.ready(w)
	}
	m.waiters = m.waiters[:0]
}

// Held reports the lock state without a scheduling point (oracles).
func (m *Mutex) Held() bool { return m.gen == rt.gen && m.locked }

// RWMutex models sync.RWMutex as the runtime implements it: a writer first
// takes the writer mutex and announces itself (new readers then block), waits
// for the readers active at that moment, and Unlock admits every reader that
// was blocked before releasing the writer mutex.
type RWMutex struct {
	gen        uint64
	id         int
	readers    int  // active readers
	announced  bool // a writer holds w and has announced
	writing    bool // the announced writer has been granted
	readerWait int
	wOwner     *thread
	wWaiters   []*thread // waiting for the writer mutex
	rWaiters   []*thread // readers blocked by an announced writer
	writerT    *thread   // announced writer waiting for readers to drain
}

func (m *RWMutex) init() {
	if m.gen != rt.gen {
		*m = RWMutex{gen: rt.gen, id: rt.newObj()}
	}
}

func (m *RWMutex) ID() int { m.init(); return m.id }

func (m *RWMutex) RLock() {
	r := rt
	r.yield("rlock?", 0)
	m.init()
	if m.announced {
		m.rWaiters = append(m.rWaiters, r.cur)
		r.park(fmt.Sprintf("rwmutex%d.RLock", m.id))
		// granted by Unlock on our behalf (readers already incremented)
		r.ev("rlock", m.id)
		return
	}
	m.readers++
	r.ev("rlock", m.id)
}

func (m *RWMutex) TryRLock() bool {
	r := rt
	r.yield("tryrlock", 0)
	m.init()
	if m.announced {
		return false
	}
	m.readers++
	r.ev("rlock", m.id)
	return true
}

func (m *RWMutex) RUnlock() {
	r := rt
	r.yield("runlock", 0)
	m.init()
	if m.readers <= 0 {
		panic("sync: RUnlock of unlocked RWMutex")
	}
	m.readers--
	r.ev("runlock", m.id)
	if m.announced && !m.writing && m.readerWait > 0 {
		m.readerWait--
		if m.readerWait == 0 && m.writerT != nil {
			m.writing = true
			r.ready(m.writerT)
			m.writerT = nil
		}
	}
}

func (m *RWMutex) Lock() {
	r := rt
	r.yield("wlock?", 0)
	m.init()
	for m.wOwner != nil {
		m.wWaiters = append(m.wWaiters, r.cur)
		r.park(fmt.Sprintf("rwmutex%d.Lock(w)", m.id))
	}
	m.wOwner = r.cur
	m.announced = true
	if m.readers > 0 {
		m.readerWait = m.readers
		m.writerT = r.cur
		r.park(fmt.Sprintf("rwmutex%d.Lock(readers)", m.id))
	} else {
		m.writing = true
	}
	r.ev("wlock", m.id)
}

func (m *RWMutex) TryLock() bool {
	r := rt
	r.yield("trywlock", 0)
	m.init()
	if m.wOwner != nil || m.readers > 0 {
		return false
	}
	m.wOwner = r.cur
	m.announced = true
	m.writing = true
	r.ev("wlock", m.id)
	return true
}

func (m *RWMutex) Unlock() {
	r := rt
	r.yield("wunlock", 0)
	m.init()
	if !m.writing {
		panic("sync: Unlock of unlocked RWMutex")
	}
	m.writing = false
	m.announced = false
	r.ev("wunlock", m.id)
	for _, w := range m.rWaiters {
		m.readers++
		r.ready(w)
	}
	m.rWaiters = m.rWaiters[:0]
	m.wOwner = nil
	for _, w := range m.wWaiters {
		r.ready(w)
	}
	m.wWaiters = m.wWaiters[:0]
}

// RLocker mirrors (*sync.RWMutex).RLocker.
func (m *RWMutex) RLocker() Locker { return (*rlocker)(m) }

type rlocker RWMutex

func (r *rlocker) Lock()   { (*RWMutex)(r).RLock() }
func (r *rlocker) Unlock() { (*RWMutex)(r).RUnlock() }

// State reports (active readers, writer granted) without a scheduling point.
func (m *RWMutex) State() (int, bool) {
	if m.gen != rt.gen {
		return 0, false
	}
	return m.readers, m.writing
}

// WaitGroup models sync.WaitGroup.
type WaitGroup struct {
	gen     uint64
	id      int
	n       int
	waiters []*thread
}

func (w *WaitGroup) init() {
	if w.gen != rt.gen {
		*w = WaitGroup{gen: rt.gen, id: rt.newObj()}
	}
}

func (w *WaitGroup) Add(delta int) {
	r := rt
	r.yield("wg.add", 0)
	w.init()
	w.n += delta
	r.ev("wg.add", w.id)
	if w.n < 0 {
		panic("sync: negative WaitGroup counter")
	}
	if w.n == 0 {
		for _, t := range w.waiters {
			r.ready(t)
		}
		w.waiters = w.waiters[:0]
	}
}

func (w *WaitGroup) Done() { w.Add(-1) }

func (w *WaitGroup) Wait() {
	r := rt
	r.yield("wg.wait", 0)
	w.init()
	if w.n > 0 {
		w.waiters = append(w.waiters, r.cur)
		r.park(fmt.Sprintf("waitgroup%d", w.id))
		if w.n != 0 {
			// the runtime checks this when a released waiter resumes
			panic("sync: WaitGroup is reused before previous Wait has returned")
		}
	}
	r.ev("wg.waited", w.id)
}

// Count reports the counter without a scheduling point (oracles).
func (w *WaitGroup) Count() int {
	if w.gen != rt.gen {
		return 0
	}
	return w.n
}

// Once models sync.Once.
type Once struct {
	gen     uint64
	done    bool
	running bool
	waiters []*thread
}

func (o *Once) Do(f func()) {
	r := rt
	r.yield("once", 0)
	if o.gen != r.gen {
		*o = Once{gen: r.gen}
	}
	if o.done {
		return
	}
	if o.running {
		o.waiters = append(o.waiters, r.cur)
		r.park("once")
		return
	}
	o.running = true
	defer func() {
		o.done = true
		o.running = false
		for _, t := range o.waiters {
			rt.ready(t)
		}
		o.waiters = nil
	}()
	f()
}

// Pool models sync.Pool: Get chooses between every pooled item and New.
type Pool struct {
	New   func() any
	gen   uint64
	items []any
}

func (p *Pool) Get() any {
	r := rt
	r.yield("pool.get", 0)
	if p.gen != r.gen {
		p.gen = r.gen
		p.items = nil
	}
	n := len(p.items)
	k := r.choose(n + 1) // 0 = newest ... n-1 = oldest, n = miss
	if k < n {
		i := n - 1 - k
		x := p.items[i]
		p.items = append(p.items[:i], p.items[i+1:]...)
		return x
	}
	if p.New != nil {
		return p.New()
	}
	return nil
}

func (p *Pool) Put(x any) {
	r := rt
	r.yield("pool.put", 0)
	if p.gen != r.gen {
		p.gen = r.gen
		p.items = nil
	}
	if x == nil {
		return
	}
	p.items = append(p.items, x)
}

// SyncMap models sync.Map (each method one atomic step; Range visits a
// snapshot of the keys one step at a time).
type SyncMap struct {
	gen  uint64
	m    map[any]any
	keys []any
}

func (m *SyncMap) init() {
	if m.gen != rt.gen {
		*m = SyncMap{gen: rt.gen, m: map[any]any{}}
	}
}

func (m *SyncMap) Load(k any) (any, bool) {
	rt.yield("syncmap", 0)
	m.init()
	v, ok := m.m[k]
	return v, ok
}

func (m *SyncMap) Store(k, v any) {
	rt.yield("syncmap", 0)
	m.init()
	if _, ok := m.m[k]; !ok {
		m.keys = append(m.keys, k)
	}
	m.m[k] = v
}

func (m *SyncMap) LoadOrStore(k, v any) (any, bool) {
	rt.yield("syncmap", 0)
	m.init()
	if old, ok := m.m[k]; ok {
		return old, true
	}
	m.keys = append(m.keys, k)
	m.m[k] = v
	return v, false
}

func (m *SyncMap) LoadAndDelete(k any) (any, bool) {
	rt.yield("syncmap", 0)
	m.init()
	v, ok := m.m[k]
	m.del(k)
	return v, ok
}

func (m *SyncMap) del(k any) {
	if _, ok := m.m[k]; ok {
		delete(m.m, k)
		for i, x := range m.keys {
			if x == k {
				m.keys = append(m.keys[:i], m.keys[i+1:]...)
				break
			}
		}
	}
}

func (m *SyncMap) Delete(k any) {
	rt.yield("syncmap", 0)
	m.init()
	m.del(k)
}

func (m *SyncMap) Range(f func(k, v any) bool) {
	rt.yield("syncmap", 0)
	m.init()
	snap := append([]any(nil), m.keys...)
	for _, k := range snap {
		rt.yield("syncmap", 0)
		v, ok := m.m[k]
		if !ok {
			continue
		}
		if !f(k, v) {
			return
		}
	}
}

// ReverseMapOrder makes SortedKeys return descending order (a harness can run a
// case under both orders).
var ReverseMapOrder bool

// SortedKeys returns the keys of m in a canonical order, so that map
// iteration order is not a source of nondeterminism the scheduler does not own.
func SortedKeys[M ~map[K]V, K comparable, V any](m M) []K {
	keys := make([]K, 0, len(m))
	for k := range m {
		keys = append(keys, k)
	}
	if len(keys) < 2 {
		return keys
	}
	sort.Slice(keys, func(i, j int) bool {
		if ReverseMapOrder {
			return keyLess(any(keys[j]), any(keys[i]))
		}
		return keyLess(any(keys[i]), any(keys[j]))
	})
	return keys
}

type idd interface{ McID() uint64 }

func keyLess(a, b any) bool {
	switch x := a.(type) {
	case string:
		return x < b.(string)
	case int:
		return x < b.(int)
	case int64:
		return x < b.(int64)
	case uint64:
		return x < b.(uint64)
	case int32:
		return x < b.(int32)
	case uint32:
		return x < b.(uint32)
	case idd:
		return x.McID() < b.(idd).McID()
	}
	return fmt.Sprintf("%v", a) < fmt.Sprintf("%v", b)
}
