package mc

import (
	"context"
	"time"
)

// The context shim keeps context.Context as the real interface type, so
// instrumented packages still type-check against un-instrumented ones. Every
// context made through the shim is a real std context (so Err/Value/Cause and
// propagation to children made by un-instrumented code work synchronously)
// whose Done channel is registered with a model twin that instrumented code
// waits on.

type ctxNode struct {
	ctx      context.Context
	twin     *Chan[struct{}]
	children []*ctxNode
	cancel   func(cause error)
	after    []*afterFn // context.AfterFunc registrations
	onClose  func()     // run once when the twin closes (deadline contexts: cancel the real derived contexts)
}

func (r *rtime) lookupCtx(ctx context.Context) *ctxNode {
	if ctx == nil {
		return nil
	}
	d := ctx.Done()
	if d == nil {
		return nil
	}
	return r.twins[d]
}

func (r *rtime) registerCtx(parent context.Context, ctx context.Context, cancel func(error)) *ctxNode {
	n := &ctxNode{ctx: ctx, twin: NewChan[struct{}](), cancel: cancel}
	r.twins[ctx.Done()] = n
	if p := r.lookupCtx(parent); p != nil {
		p.children = append(p.children, n)
		if p.twin.closed {
			n.closeTree()
		}
	} else if parent != nil && parent.Done() != nil {
		panic("mc: parent context with a Done channel that was not created through the shim")
	}
	return n
}

func (n *ctxNode) closeTree() {
	if !n.twin.closed {
		n.twin.closeNow()
		if n.onClose != nil {
			n.onClose()
		}
	}
	for _, a := range n.after {
		if !a.stopped && !a.started {
			a.started = true
			rt.newThread("ctx-afterfunc", a.f)
		}
	}
	n.after = nil
	for _, c := range n.children {
		c.closeTree()
	}
}

func (n *ctxNode) doCancel(cause error) {
	rt.yield("ctx.cancel", n.twin.id)
	if n.ctx.Err() != nil {
		return
	}
	n.cancel(cause)
	n.closeTree()
}

func CtxWithCancel(parent context.Context) (context.Context, context.CancelFunc) {
	if rt.aborting {
		rt.yield("", 0)
	}
	ctx, cancel := context.WithCancelCause(parent)
	n := rt.registerCtx(parent, ctx, cancel)
	return ctx, func() { n.doCancel(nil) }
}

func CtxWithCancelCause(parent context.Context) (context.Context, context.CancelCauseFunc) {
	if rt.aborting {
		rt.yield("", 0)
	}
	ctx, cancel := context.WithCancelCause(parent)
	n := rt.registerCtx(parent, ctx, cancel)
	return ctx, func(cause error) { n.doCancel(cause) }
}

// deadlineCtx is a context that ends by a deadline, with the real runtime's
// semantics for derived contexts: once it has expired, it and every context
// derived from it (by instrumented or un-instrumented code) report
// Err() == context.DeadlineExceeded; when it ends because its parent was
// cancelled or its cancel function was called, context.Canceled. It is built on
// a real WithCancelCause context (inner) whose Done channel it shares; Value
// goes to the parent, which hides inner from the standard library, so derived
// contexts are attached through the AfterFunc hook below and cancelled —
// without a scheduling point — right when the model twin closes.
type deadlineCtx struct {
	inner    context.Context
	parent   context.Context
	deadline time.Time
	expired  bool
	fns      map[int]func()
	next     int
}

func (d *deadlineCtx) Deadline() (time.Time, bool) { return d.deadline, true }
func (d *deadlineCtx) Done() <-chan struct{}       { return d.inner.Done() }
func (d *deadlineCtx) Value(key any) any           { return d.parent.Value(key) }
func (d *deadlineCtx) Err() error {
	if d.expired {
		return context.DeadlineExceeded
	}
	return d.inner.Err()
}

// AfterFunc is the hook context.WithCancel* uses for parents it does not know.
func (d *deadlineCtx) AfterFunc(f func()) func() bool {
	if d.inner.Err() != nil {
		f()
		return func() bool { return false }
	}
	id := d.next
	d.next++
	d.fns[id] = f
	return func() bool {
		_, ok := d.fns[id]
		delete(d.fns, id)
		return ok
	}
}

// runFns cancels the real contexts derived from d (in registration order).
func (d *deadlineCtx) runFns() {
	for id := 0; id < d.next; id++ {
		if f, ok := d.fns[id]; ok {
			delete(d.fns, id)
			f()
		}
	}
}

func CtxWithDeadline(parent context.Context, d time.Time) (context.Context, context.CancelFunc) {
	return CtxWithDeadlineCause(parent, d, nil)
}

func CtxWithDeadlineCause(parent context.Context, d time.Time, cause error) (context.Context, context.CancelFunc) {
	if rt.aborting {
		rt.yield("", 0)
	}
	r := rt
	inner, cancel := context.WithCancelCause(parent)
	ctx := &deadlineCtx{inner: inner, parent: parent, deadline: d, fns: map[int]func(){}}
	n := r.registerCtx(parent, ctx, cancel)
	n.onClose = ctx.runFns
	dur := d.Sub(r.modelTime())
	tm := r.newTimer(dur, 0, nil)
	tm.ch = nil
	tm.envFn = func() {
		if inner.Err() == nil {
			ctx.expired = true
			if cause == nil {
				cancel(context.DeadlineExceeded)
			} else {
				cancel(cause)
			}
			n.closeTree()
		}
	}
	return ctx, func() {
		n.doCancel(nil)
		tm.armed = false
	}
}

func CtxWithTimeout(parent context.Context, d time.Duration) (context.Context, context.CancelFunc) {
	return CtxWithDeadline(parent, rt.modelTime().Add(d))
}

func CtxWithTimeoutCause(parent context.Context, d time.Duration, cause error) (context.Context, context.CancelFunc) {
	return CtxWithDeadlineCause(parent, rt.modelTime().Add(d), cause)
}

// CtxDone reports whether ctx's twin is closed, without a scheduling point.
func CtxDone(ctx context.Context) bool { return ctx.Err() != nil }
