package mc

import (
	"context"
	"time"
)

// The context shim keeps context.Context as the real interface type, so
// instrumented packages still type-check against un-instrumented ones. Every
// context made through the shim is a real std context (so Err/Value/Cause and
// propagation to children made by un-instrumented code work synchronously)
// whose Done channel is registered with a model twin that instrumented code
// waits on.

type ctxNode struct {
	ctx      context.Context
	twin     *Chan[struct{}]
	children []*ctxNode
	cancel   func(cause error)
	after    []*afterFn // context.AfterFunc registrations
}

func (r *rtime) lookupCtx(ctx context.Context) *ctxNode {
	if ctx == nil {
		return nil
	}
	d := ctx.Done()
	if d == nil {
		return nil
	}
	return r.twins[d]
}

func (r *rtime) registerCtx(parent context.Context, ctx context.Context, cancel func(error)) *ctxNode {
	n := &ctxNode{ctx: ctx, twin: NewChan[struct{}](), cancel: cancel}
	r.twins[ctx.Done()] = n
	if p := r.lookupCtx(parent); p != nil {
		p.children = append(p.children, n)
		if p.twin.closed {
			n.closeTree()
		}
	} else if parent != nil && parent.Done() != nil {
		panic("mc: parent context with a Done channel that was not created through the shim")
	}
	return n
}

func (n *ctxNode) closeTree() {
	if !n.twin.closed {
		n.twin.closeNow()
	}
	for _, a := range n.after {
		if !a.stopped && !a.started {
			a.started = true
			rt.newThread("ctx-afterfunc", a.f)
		}
	}
	n.after = nil
	for _, c := range n.children {
		c.closeTree()
	}
}

func (n *ctxNode) doCancel(cause error) {
	rt.yield("ctx.cancel", n.twin.id)
	if n.ctx.Err() != nil {
		return
	}
	n.cancel(cause)
	n.closeTree()
}

func CtxWithCancel(parent context.Context) (context.Context, context.CancelFunc) {
	if rt.aborting {
		rt.yield("", 0)
	}
	ctx, cancel := context.WithCancelCause(parent)
	n := rt.registerCtx(parent, ctx, cancel)
	return ctx, func() { n.doCancel(nil) }
}

func CtxWithCancelCause(parent context.Context) (context.Context, context.CancelCauseFunc) {
	if rt.aborting {
		rt.yield("", 0)
	}
	ctx, cancel := context.WithCancelCause(parent)
	n := rt.registerCtx(parent, ctx, cancel)
	return ctx, func(cause error) { n.doCancel(cause) }
}

type deadlineCtx struct {
	context.Context
	deadline time.Time
}

func (d *deadlineCtx) Deadline() (time.Time, bool) { return d.deadline, true }
func (d *deadlineCtx) Err() error {
	if err := d.Context.Err(); err != nil {
		if context.Cause(d.Context) == context.DeadlineExceeded {
			return context.DeadlineExceeded
		}
		return err
	}
	return nil
}

func CtxWithDeadline(parent context.Context, d time.Time) (context.Context, context.CancelFunc) {
	return CtxWithDeadlineCause(parent, d, nil)
}

func CtxWithDeadlineCause(parent context.Context, d time.Time, cause error) (context.Context, context.CancelFunc) {
	if rt.aborting {
		rt.yield("", 0)
	}
	r := rt
	inner, cancel := context.WithCancelCause(parent)
	ctx := &deadlineCtx{Context: inner, deadline: d}
	n := r.registerCtx(parent, ctx, cancel)
	dur := d.Sub(r.modelTime())
	tm := r.newTimer(dur, 0, nil)
	tm.ch = nil
	tm.envFn = func() {
		if inner.Err() == nil {
			if cause == nil {
				cancel(context.DeadlineExceeded)
			} else {
				cancel(context.DeadlineExceeded) // Err must be DeadlineExceeded; cause is lost (unused by kit)
			}
			n.closeTree()
		}
	}
	return ctx, func() {
		n.doCancel(nil)
		tm.armed = false
	}
}

func CtxWithTimeout(parent context.Context, d time.Duration) (context.Context, context.CancelFunc) {
	return CtxWithDeadline(parent, rt.modelTime().Add(d))
}

func CtxWithTimeoutCause(parent context.Context, d time.Duration, cause error) (context.Context, context.CancelFunc) {
	return CtxWithDeadlineCause(parent, rt.modelTime().Add(d), cause)
}

// CtxDone reports whether ctx's twin is closed, without a scheduling point.
func CtxDone(ctx context.Context) bool { return ctx.Err() != nil }
