package mc

import "fmt"

// selState is shared by the waiters a parked select registers.
type selState struct {
	fired       bool
	idx         int
	closedPanic bool
}

type waiter[T any] struct {
	t           *thread
	sel         *selState
	idx         int
	val         T
	ok          bool
	dst         *RecvCase[T] // select receive destination
	closedPanic bool
	done        bool
}

func (w *waiter[T]) stale() bool { return w.done || (w.sel != nil && w.sel.fired) }

// Chan is the model twin of a Go channel.
type Chan[T any] struct {
	id     int
	cap    int
	buf    []T
	closed bool
	recvq  []*waiter[T]
	sendq  []*waiter[T]
}

// NewChan is make(chan T, n).
func NewChan[T any](n ...int) *Chan[T] {
	c := &Chan[T]{}
	if len(n) > 0 {
		if n[0] < 0 {
			panic("makechan: size out of range")
		}
		c.cap = n[0]
	}
	if rt != nil {
		c.id = rt.newObj()
	}
	return c
}

// ID returns the object id (stable for a given schedule).
func (c *Chan[T]) ID() int {
	if c == nil {
		return 0
	}
	return c.id
}

func (c *Chan[T]) McID() uint64 { return uint64(c.ID()) }

func (c *Chan[T]) firstRecv() *waiter[T] {
	for len(c.recvq) > 0 {
		w := c.recvq[0]
		c.recvq = c.recvq[1:]
		if !w.stale() {
			return w
		}
	}
	return nil
}

func (c *Chan[T]) firstSend() *waiter[T] {
	for len(c.sendq) > 0 {
		w := c.sendq[0]
		c.sendq = c.sendq[1:]
		if !w.stale() {
			return w
		}
	}
	return nil
}

func (c *Chan[T]) hasRecv() bool {
	for _, w := range c.recvq {
		if !w.stale() {
			return true
		}
	}
	return false
}

func (c *Chan[T]) hasSend() bool {
	for _, w := range c.sendq {
		if !w.stale() {
			return true
		}
	}
	return false
}

func fire[T any](w *waiter[T]) {
	w.done = true
	if w.sel != nil {
		w.sel.fired = true
		w.sel.idx = w.idx
		if w.closedPanic {
			w.sel.closedPanic = true
		}
		if w.dst != nil {
			w.dst.V, w.dst.Ok = w.val, w.ok
		}
	}
	rt.ready(w.t)
}

func (c *Chan[T]) canSend() bool {
	if c == nil {
		return false
	}
	return c.closed || c.hasRecv() || len(c.buf) < c.cap
}

func (c *Chan[T]) canRecv() bool {
	if c == nil {
		return false
	}
	return len(c.buf) > 0 || c.closed || c.hasSend()
}

// doSend completes a send; precondition canSend().
func (c *Chan[T]) doSend(v T) {
	if c.closed {
		panic("send on closed channel")
	}
	if w := c.firstRecv(); w != nil {
		w.val, w.ok = v, true
		fire(w)
		return
	}
	c.buf = append(c.buf, v)
}

// doRecv completes a receive; precondition canRecv().
func (c *Chan[T]) doRecv() (v T, ok bool) {
	if len(c.buf) > 0 {
		v = c.buf[0]
		var zero T
		c.buf[0] = zero
		c.buf = c.buf[1:]
		if w := c.firstSend(); w != nil {
			c.buf = append(c.buf, w.val)
			fire(w)
		}
		return v, true
	}
	if w := c.firstSend(); w != nil {
		v = w.val
		fire(w)
		return v, true
	}
	// closed and drained
	return v, false
}

// Send is `c <- v`.
func (c *Chan[T]) Send(v T) {
	r := rt
	r.yield("send", c.ID())
	if c == nil {
		r.park("send on nil chan")
		return
	}
	if c.canSend() {
		c.doSend(v)
		return
	}
	w := &waiter[T]{t: r.cur, val: v}
	c.sendq = append(c.sendq, w)
	r.park(fmt.Sprintf("send ch%d", c.id))
	if w.closedPanic {
		panic("send on closed channel")
	}
}

// Recv is `<-c`.
func (c *Chan[T]) Recv() T {
	v, _ := c.Recv2()
	return v
}

// Recv2 is `v, ok := <-c`.
func (c *Chan[T]) Recv2() (T, bool) {
	r := rt
	r.yield("recv", c.ID())
	if c == nil {
		r.park("recv on nil chan")
		var z T
		return z, false
	}
	if c.canRecv() {
		return c.doRecv()
	}
	w := &waiter[T]{t: r.cur}
	c.recvq = append(c.recvq, w)
	r.park(fmt.Sprintf("recv ch%d", c.id))
	return w.val, w.ok
}

// Close is close(c).
func (c *Chan[T]) Close() {
	r := rt
	r.yield("close", c.ID())
	if c == nil {
		panic("close of nil channel")
	}
	c.closeNow()
}

func (c *Chan[T]) closeNow() {
	if c.closed {
		panic("close of closed channel")
	}
	c.closed = true
	for {
		w := c.firstRecv()
		if w == nil {
			break
		}
		var z T
		w.val, w.ok = z, false
		fire(w)
	}
	for {
		w := c.firstSend()
		if w == nil {
			break
		}
		w.closedPanic = true
		fire(w)
	}
}

// Len is len(c).
func (c *Chan[T]) Len() int {
	rt.yield("chanlen", c.ID())
	if c == nil {
		return 0
	}
	return len(c.buf)
}

// Cap is cap(c).
func (c *Chan[T]) Cap() int {
	if c == nil {
		return 0
	}
	return c.cap
}

// IsClosed reports the closed flag without a scheduling point (for oracles).
func (c *Chan[T]) IsClosed() bool { return c != nil && c.closed }

// BufLen reports the buffered count without a scheduling point (for oracles).
func (c *Chan[T]) BufLen() int {
	if c == nil {
		return 0
	}
	return len(c.buf)
}

// TryRecv receives without blocking and without a scheduling point (oracles,
// environment steps).
func (c *Chan[T]) TryRecv() (v T, ok bool, got bool) {
	if c != nil && c.canRecv() {
		v, ok = c.doRecv()
		return v, ok, true
	}
	return v, false, false
}

// ---- select ----

// Case is one arm of a select.
type Case interface {
	isReady() bool
	exec()
	enqueue(s *selState, idx int)
	dequeue(s *selState)
	chanID() int
}

// RecvCase is `case v, ok := <-c`.
type RecvCase[T any] struct {
	c  *Chan[T]
	V  T
	Ok bool
}

// SendCase is `case c <- v`.
type SendCase[T any] struct {
	c *Chan[T]
	v T
}

func (c *Chan[T]) RecvCase() *RecvCase[T]    { return &RecvCase[T]{c: c} }
func (c *Chan[T]) SendCase(v T) *SendCase[T] { return &SendCase[T]{c: c, v: v} }

func (k *RecvCase[T]) isReady() bool { return k.c.canRecv() }
func (k *RecvCase[T]) exec()         { k.V, k.Ok = k.c.doRecv() }
func (k *RecvCase[T]) chanID() int   { return k.c.ID() }
func (k *RecvCase[T]) enqueue(s *selState, idx int) {
	if k.c == nil {
		return
	}
	k.c.recvq = append(k.c.recvq, &waiter[T]{t: rt.cur, sel: s, idx: idx, dst: k})
}
func (k *RecvCase[T]) dequeue(s *selState) {
	if k.c == nil {
		return
	}
	q := k.c.recvq[:0]
	for _, w := range k.c.recvq {
		if w.sel != s {
			q = append(q, w)
		}
	}
	k.c.recvq = q
}

func (k *SendCase[T]) isReady() bool { return k.c.canSend() }
func (k *SendCase[T]) exec()         { k.c.doSend(k.v) }
func (k *SendCase[T]) chanID() int   { return k.c.ID() }
func (k *SendCase[T]) enqueue(s *selState, idx int) {
	if k.c == nil {
		return
	}
	k.c.sendq = append(k.c.sendq, &waiter[T]{t: rt.cur, sel: s, idx: idx, val: k.v})
}
func (k *SendCase[T]) dequeue(s *selState) {
	if k.c == nil {
		return
	}
	q := k.c.sendq[:0]
	for _, w := range k.c.sendq {
		if w.sel != s {
			q = append(q, w)
		}
	}
	k.c.sendq = q
}

// Select runs a select statement. It returns the index of the arm taken, or
// -1 for the default arm.
func Select(hasDefault bool, cases ...Case) int {
	r := rt
	r.yield("select", 0)
	var readyIdx [16]int
	ready := readyIdx[:0]
	for i, c := range cases {
		if c.isReady() {
			ready = append(ready, i)
		}
	}
	if len(ready) > 0 {
		k := ready[r.choose(len(ready))]
		r.ev("select-arm", cases[k].chanID())
		cases[k].exec()
		return k
	}
	if hasDefault {
		r.ev("select-default", 0)
		return -1
	}
	s := &selState{}
	for i, c := range cases {
		c.enqueue(s, i)
	}
	r.park("select")
	for i, c := range cases {
		if i != s.idx || true {
			c.dequeue(s)
		}
	}
	if !s.fired {
		panic("mc: select woke without firing")
	}
	r.ev("select-arm", cases[s.idx].chanID())
	if s.closedPanic {
		panic("send on closed channel")
	}
	return s.idx
}

// Twin returns the model twin of a real channel obtained from un-instrumented
// code (in practice ctx.Done()).
func Twin(ch <-chan struct{}) *Chan[struct{}] {
	if ch == nil {
		return nil
	}
	if rt == nil {
		panic("mc: Twin outside an execution")
	}
	n := rt.twins[ch]
	if n == nil {
		panic("mc: real channel with no model twin (context not created through the shim)")
	}
	return n.twin
}
