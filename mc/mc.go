package mc

func Hello() string { return "hi" }
