package mc

import (
	"fmt"
	"hash/fnv"
	"time"
)

// Violation is a failing schedule.
type Violation struct {
	Choices []int    `json:"choices"`
	Cost    int      `json:"cost"`
	Msg     string   `json:"msg"`
	Detail  string   `json:"detail,omitempty"`
	Logs    []string `json:"logs,omitempty"`
	Stable  bool     `json:"stable"` // replayed 5x with identical failure
}

// Stats summarises an exploration.
type Stats struct {
	Execs          int64       `json:"execs"`
	ExecsPerLevel  []int64     `json:"execs_per_level"`
	Transitions    int64       `json:"transitions"` // scheduling points executed
	Decisions      int64       `json:"decisions"`   // recorded multi-option points
	MaxDepth       int         `json:"max_depth"`   // max decisions in one execution
	MaxSteps       int         `json:"max_steps"`
	Outcomes       int         `json:"distinct_outcomes"`
	BoundCompleted int         `json:"bound_completed"` // -1 if not even level 0 completed
	Exhaustive     bool        `json:"exhaustive"`      // every level up to Bound completed
	CapHit         string      `json:"cap_hit,omitempty"`
	Violations     []Violation `json:"violations,omitempty"`
	outcomes       map[uint64]struct{}
	SampleOutcomes []string `json:"sample_outcomes,omitempty"`
}

// item is a schedule prefix still to be run: the first n choices of base (the
// complete choice list of the execution it was derived from, shared between
// all of that execution's children) followed by alt.
type item struct {
	base []uint8
	n    int
	alt  int // -1: the prefix is base[:n] itself
	cost int
}

func (it item) prefixLen() int {
	if it.alt < 0 {
		return it.n
	}
	return it.n + 1
}

func (it item) prefix() []int {
	out := make([]int, it.n, it.n+1)
	for i := 0; i < it.n; i++ {
		out[i] = int(it.base[i])
	}
	if it.alt >= 0 {
		out = append(out, it.alt)
	}
	return out
}

func (it item) bytes() []byte {
	out := append([]byte(nil), it.base[:it.n]...)
	if it.alt >= 0 {
		out = append(out, byte(it.alt))
	}
	return out
}

// Outcome lets a harness's Check register the observable outcome of the
// execution (used only to count distinct outcomes, exposing vacuity).
func Outcome(s string) {
	if rt != nil {
		rt.logs = append(rt.logs, "\x00"+s)
	}
}

func splitOutcome(logs []string) (string, []string) {
	out := ""
	var rest []string
	for _, l := range logs {
		if len(l) > 0 && l[0] == 0 {
			out = l[1:]
		} else {
			rest = append(rest, l)
		}
	}
	return out, rest
}

// Explore enumerates every schedule of mk's harness within opts.Bound,
// level by level (all cost-0 executions, then cost-1, ...). It stops at the
// first violation.
func Explore(opts Options, mk func() *Exec) *Stats {
	opts.defaults()
	if opts.MinBound > opts.Bound || (opts.MinBound == 0 && opts.SoftBudget == 0) {
		opts.MinBound = opts.Bound
	}
	started := time.Now()
	st := &Stats{BoundCompleted: -1, outcomes: map[uint64]struct{}{}}
	st.ExecsPerLevel = make([]int64, opts.Bound+1)
	levels := make([][]item, opts.Bound+2)
	levels[0] = []item{{alt: -1}}
	for lvl := 0; lvl <= opts.Bound; lvl++ {
		stack := levels[lvl]
		levels[lvl] = nil
		if lvl > opts.MinBound && opts.SoftBudget > 0 && time.Since(started) > opts.SoftBudget/4 {
			// the next level would not fit: stop at a level boundary
			st.Exhaustive = true
			return st
		}
		for len(stack) > 0 {
			if lvl > opts.MinBound && opts.SoftBudget > 0 && st.Execs%64 == 0 && time.Since(started) > opts.SoftBudget {
				st.CapHit = fmt.Sprintf("soft budget in optional level %d", lvl)
				st.Exhaustive = true
				return st
			}
			it := stack[len(stack)-1]
			stack = stack[:len(stack)-1]
			if opts.MaxExecs > 0 && st.Execs >= opts.MaxExecs {
				st.CapHit = fmt.Sprintf("max executions %d", opts.MaxExecs)
				return st
			}
			if !opts.Deadline.IsZero() && st.Execs%64 == 0 && time.Now().After(opts.Deadline) {
				st.CapHit = "deadline"
				return st
			}
			pre := it.prefix()
			res := runOnce(&opts, pre, mk)
			st.Execs++
			st.ExecsPerLevel[lvl]++
			st.Transitions += int64(res.End.Steps)
			st.Decisions += int64(len(res.Points))
			if len(res.Points) > st.MaxDepth {
				st.MaxDepth = len(res.Points)
			}
			if res.End.Steps > st.MaxSteps {
				st.MaxSteps = res.End.Steps
			}
			oc, logs := splitOutcome(res.Logs)
			if res.Diverged {
				panic("mc: nondeterminism: " + res.Fail)
			}
			if res.Fail != "" {
				choices := make([]int, len(res.Points))
				for i, p := range res.Points {
					choices[i] = p.Chosen
				}
				v := Violation{Choices: choices, Cost: it.cost, Msg: res.Fail, Detail: res.Detail, Logs: logs, Stable: true}
				for k := 0; k < 5; k++ {
					again := runOnce(&opts, choices, mk)
					if again.Fail != res.Fail {
						v.Stable = false
						v.Msg += fmt.Sprintf("\n[unstable: replay %d gave %q]", k, again.Fail)
						break
					}
				}
				// keep exploring: a scenario may hide a second, different
				// violation behind a known one; collect up to 4 distinct kinds
				kind := violationKind(v.Msg)
				dup := false
				for _, o := range st.Violations {
					dup = dup || violationKind(o.Msg) == kind
				}
				if !dup {
					st.Violations = append(st.Violations, v)
				}
				if len(st.Violations) >= 4 {
					st.CapHit = "4 distinct violations"
					return st
				}
			}
			h := fnv.New64a()
			h.Write([]byte(oc))
			key := h.Sum64()
			if _, ok := st.outcomes[key]; !ok {
				st.outcomes[key] = struct{}{}
				st.Outcomes = len(st.outcomes)
				if len(st.SampleOutcomes) < 6 && oc != "" {
					st.SampleOutcomes = append(st.SampleOutcomes, oc)
				}
			}
			// children (they share this execution's choice list)
			var base []uint8
			plen := it.prefixLen()
			for i := len(res.Points) - 1; i >= plen; i-- {
				p := res.Points[i]
				for alt := p.N - 1; alt >= 1; alt-- {
					c := it.cost
					if p.Cost&(1<<uint(alt)) != 0 {
						c++
					}
					if c > opts.Bound {
						continue
					}
					if base == nil {
						base = make([]uint8, len(res.Points))
						for j, q := range res.Points {
							base[j] = uint8(q.Chosen)
						}
					}
					child := item{base: base, n: i, alt: alt, cost: c}
					if c == lvl {
						stack = append(stack, child)
					} else {
						if opts.Shards > 1 && lvl == 0 {
							hh := fnv.New32a()
							hh.Write(child.bytes())
							if int(hh.Sum32()%uint32(opts.Shards)) != opts.Shard {
								continue
							}
						}
						levels[c] = append(levels[c], child)
					}
				}
			}
		}
		st.BoundCompleted = lvl
	}
	st.Exhaustive = true
	return st
}

// violationKind strips the varying parts (numbers) off a failure message.
func violationKind(msg string) string {
	b := []byte(msg)
	out := b[:0]
	for _, c := range b {
		if c >= '0' && c <= '9' {
			continue
		}
		if c == '\n' {
			break
		}
		out = append(out, c)
	}
	return string(out)
}

// Replay runs one schedule with tracing on.
func Replay(opts Options, choices []int, mk func() *Exec) *RunResult {
	opts.defaults()
	opts.Trace = true
	return runOnce(&opts, choices, mk)
}

// FormatTrace renders a trace for humans.
func FormatTrace(res *RunResult) string {
	s := ""
	names := map[int]string{-1: "timerd", -2: "clock"}
	for _, t := range res.End.Threads {
		names[t.ID] = t.Name
	}
	for i, e := range res.End.Trace {
		s += fmt.Sprintf("%4d t=%-10v %-12s %s #%d\n", i, e.Time, names[e.Thread], e.Op, e.Obj)
	}
	return s
}
