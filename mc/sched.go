// Package mc is a deterministic model runtime for Go's concurrency primitives
// plus a stateless, deviation-bounded depth-first explorer. Packages of
// dapr/kit are re-targeted onto it mechanically by mcgen (see DESIGN.md §2).
//
// Exactly one model thread holds the baton at any time. Every visible
// operation (channel op, select, lock, atomic, clock read, ...) first yields to
// the scheduler — that is the scheduling point where a preemption can be
// placed — and only when the thread is scheduled again does it attempt the
// operation, either completing it at once or parking as a visible waiter.
package mc

import (
	"fmt"
	"runtime"
	"runtime/debug"
	"sort"
	"strings"
	"time"
)

// TimerSem selects how Stop/Reset treat a fired-but-unreceived tick.
type TimerSem int

const (
	// TimerGo123: Stop/Reset discard an undelivered tick and report true
	// (Go >= 1.23 with a go.mod go directive >= 1.23).
	TimerGo123 TimerSem = iota
	// TimerLegacy: fired tick stays buffered; Stop reports false after fire.
	TimerLegacy
)

// Options configure one exploration.
type Options struct {
	// Delay selects delay bounding: the default scheduler is deterministic
	// (keep running the current thread; on block the first candidate in
	// canonical order) and EVERY departure from it — also at forced switches —
	// costs 1. Without it (preemption bounding) choices among forced
	// candidates are free, which covers every non-preemptive order but grows
	// factorially with the number of threads.
	Delay bool
	// MinBound is the bound that must be completed for the exploration to
	// count as exhaustive; levels MinBound+1..Bound are explored as far as
	// SoftBudget allows (iterative deepening).
	MinBound   int
	SoftBudget time.Duration
	// Shard/Shards split one scenario's search over processes: every shard
	// runs the cost-0 level, and each subtree rooted at a first deviation
	// belongs to exactly one shard (by hash of its prefix).
	Shard, Shards int
	Bound         int           // max total cost (preemptions + deviations) per execution
	TieCost       int           // cost of taking a non-first ready select arm / non-default data choice (0 or 1)
	MaxSteps      int           // scheduling points per execution before "livelock" is reported
	TimerSem      TimerSem      // timer semantics
	Horizon       time.Duration // model clock never advances past Epoch+Horizon
	ClockSteps    []time.Duration
	// ClockSteps: explicit advances performed by the clock pseudo-thread, in
	// order. After the script (or with an empty script) the clock advances to
	// the earliest armed timer deadline ("auto") while AutoClock is set.
	AutoClock bool
	// ClockLast ("timeline mode"): the clock is offered only when nothing else
	// can run, so model time never moves while a thread or a due timer is
	// pending, whatever the bound.
	ClockLast bool
	Epoch     time.Time // model time zero
	MaxExecs  int64     // cap on executions (0 = none); hitting it clears Exhaustive
	Deadline  time.Time // wall-clock deadline for the exploration (zero = none)
	Trace     bool      // record per-step trace (always on for replays)
}

func (o *Options) defaults() {
	if o.MaxSteps == 0 {
		o.MaxSteps = 20000
	}
	if o.Epoch.IsZero() {
		o.Epoch = time.Date(2024, 1, 1, 0, 0, 0, 0, time.UTC)
	}
	if o.Horizon == 0 {
		o.Horizon = 24 * time.Hour
	}
}

// Exec is one fresh instance of a harness: Body runs as the main model
// thread; Check is evaluated by the controller once the execution is over.
type Exec struct {
	Body  func()
	Check func(e *End) error
}

// Ev is one executed visible operation.
type Ev struct {
	Thread int
	Op     string
	Obj    int
	Time   time.Duration
}

// End describes the terminal state of an execution.
type End struct {
	Threads  []ThreadEnd
	Now      time.Duration // model time since epoch
	Steps    int
	Trace    []Ev
	TimedOut bool // step limit hit
	// ArmedBeyondHorizon counts timers still armed whose deadline lies past the
	// horizon: whoever waits for them is cut off by the harness, not deadlocked.
	ArmedBeyondHorizon int
}

type ThreadEnd struct {
	ID       int
	Name     string
	Finished bool
	WaitOn   string
}

// Parked lists names of threads that have not finished.
func (e *End) Parked() []string {
	var out []string
	for _, t := range e.Threads {
		if !t.Finished {
			out = append(out, t.Name+"@"+t.WaitOn)
		}
	}
	return out
}

// Finished reports whether the thread with the given name finished (false if
// there is no such thread).
func (e *End) Finished(name string) bool {
	for _, t := range e.Threads {
		if t.Name == name {
			return t.Finished
		}
	}
	return false
}

// AllFinished reports whether every thread finished.
func (e *End) AllFinished() bool {
	for _, t := range e.Threads {
		if !t.Finished {
			return false
		}
	}
	return true
}

type thread struct {
	id       int
	name     string
	wake     chan struct{}
	exited   chan struct{}
	parked   bool
	finished bool
	waitOn   string
	fn       func()
}

// Point is one recorded decision with more than one option.
type Point struct {
	N      int    // number of options
	Cost   uint64 // bit i set => option i costs 1
	Chosen int
	Kind   byte // 's' schedule, 'd' data
}

type cand struct {
	th    *thread
	timer *mtimer
	clock bool
}

type rtime struct {
	gen      uint64
	opts     *Options
	threads  []*thread
	cur      *thread
	prefix   []int
	pos      int
	points   []Point
	now      int64
	timers   []*mtimer
	clockPos int
	aborting bool
	fail     string
	detail   string
	diverged bool
	steps    int
	timedOut bool
	ctl      chan struct{}
	trace    []Ev
	nextObj  int
	twins    map[<-chan struct{}]*ctxNode
	cands    []cand
	logs     []string
	quiesce  func()
}

var (
	// rt is never nil: outside an execution it is an idle runtime on which
	// operations complete immediately (cur == nil) and blocking is an error.
	rt     = idleRuntime()
	genCtr uint64
)

func idleRuntime() *rtime {
	o := &Options{}
	o.defaults()
	return &rtime{opts: o, ctl: make(chan struct{}, 1), twins: map[<-chan struct{}]*ctxNode{}}
}

type abortSentinel struct{}

func (r *rtime) newThread(name string, fn func()) *thread {
	t := &thread{id: len(r.threads), name: name, wake: make(chan struct{}, 1), exited: make(chan struct{}), fn: fn}
	if name == "" {
		t.name = fmt.Sprintf("g%d", t.id)
	}
	r.threads = append(r.threads, t)
	go r.threadMain(t)
	return t
}

func (r *rtime) threadMain(t *thread) {
	<-t.wake
	defer close(t.exited)
	if r.aborting {
		return
	}
	defer func() {
		if r.aborting {
			return
		}
		if p := recover(); p != nil {
			if _, ok := p.(abortSentinel); ok {
				return
			}
			r.fail = fmt.Sprintf("panic in thread %s: %v", t.name, p)
			r.detail = trimStack(debug.Stack())
			t.finished = true
			r.cur = nil
			r.ctl <- struct{}{}
			return
		}
		t.finished = true
		next := r.schedule()
		if next == nil {
			r.cur = nil
			r.ctl <- struct{}{}
			return
		}
		r.cur = next
		next.wake <- struct{}{}
	}()
	t.fn()
}

func trimStack(b []byte) string {
	lines := strings.Split(string(b), "\n")
	var out []string
	for i := 0; i < len(lines) && len(out) < 24; i++ {
		l := lines[i]
		if strings.Contains(l, "runtime/debug") || strings.Contains(l, "runtime/panic") {
			continue
		}
		out = append(out, l)
	}
	return strings.Join(out, "\n")
}

// die ends the execution from inside a model thread; never returns.
func (r *rtime) die(msg string) {
	if r.fail == "" {
		r.fail = msg
	}
	t := r.cur
	r.cur = nil
	r.ctl <- struct{}{}
	if t != nil {
		<-t.wake
	}
	runtime.Goexit()
}

// schedule picks who runs next. Environment steps (timer firing, clock
// advance) are executed inline. Returns nil when nothing can run.
func (r *rtime) schedule() *thread {
	for {
		cands := r.cands[:0]
		curRunnable := r.cur != nil && !r.cur.parked && !r.cur.finished
		if curRunnable {
			cands = append(cands, cand{th: r.cur})
		}
		// due timers in (when, id) order: a due timer fires promptly by default
		nd0 := len(cands)
		for _, tm := range r.timers {
			if tm.armed && tm.when <= r.now {
				cands = append(cands, cand{timer: tm})
			}
		}
		if len(cands)-nd0 > 1 {
			d := cands[nd0:]
			sort.Slice(d, func(i, j int) bool {
				if d[i].timer.when != d[j].timer.when {
					return d[i].timer.when < d[j].timer.when
				}
				return d[i].timer.id < d[j].timer.id
			})
		}
		for _, t := range r.threads {
			if t != r.cur && !t.parked && !t.finished {
				cands = append(cands, cand{th: t})
			}
		}
		clockIdx := -1
		if r.clockEnabled() && !(r.opts.ClockLast && len(cands) > 0) {
			clockIdx = len(cands)
			cands = append(cands, cand{clock: true})
		}
		r.cands = cands
		if len(cands) == 0 {
			return nil
		}
		idx := 0
		if len(cands) > 1 {
			var cost uint64
			for i := 1; i < len(cands); i++ {
				// leaving a runnable thread is a preemption; moving the clock
				// while something else can run is a deviation; every other
				// forced choice is free
				if curRunnable || i == clockIdx || r.opts.Delay {
					cost |= 1 << uint(i)
				}
			}
			idx = r.decide(len(cands), cost, 's')
		}
		c := cands[idx]
		if c.th != nil {
			return c.th
		}
		if c.timer != nil {
			r.fireTimer(c.timer)
		} else {
			if len(cands) == 1 && r.quiesce != nil {
				// nothing but the clock can move: a quiescent instant
				r.quiesce()
			}
			r.advanceClock()
		}
	}
}

func (r *rtime) decide(n int, cost uint64, kind byte) int {
	if n > 64 {
		r.die(fmt.Sprintf("mc: decision with %d options", n))
	}
	ch := 0
	if r.pos < len(r.prefix) {
		ch = r.prefix[r.pos]
		if ch >= n {
			r.diverged = true
			r.die(fmt.Sprintf("mc: replay divergence at point %d: choice %d of %d", r.pos, ch, n))
		}
	}
	r.pos++
	r.points = append(r.points, Point{N: n, Cost: cost, Chosen: ch, Kind: kind})
	return ch
}

// choose is a data choice point (select tie, pool reuse, ...).
func (r *rtime) choose(n int) int {
	if n <= 1 || r.cur == nil {
		return 0
	}
	var cost uint64
	if r.opts.TieCost > 0 || r.opts.Delay {
		cost = ^uint64(1)
	}
	return r.decide(n, cost, 'd')
}

// yield is the scheduling point in front of every visible operation.
func (r *rtime) yield(op string, obj int) {
	if r.aborting {
		runtime.Goexit()
	}
	t := r.cur
	if t == nil {
		return // controller context (Check): operations are immediate
	}
	r.steps++
	if r.steps > r.opts.MaxSteps {
		r.timedOut = true
		r.die(fmt.Sprintf("step limit %d exceeded (livelock or horizon too far)", r.opts.MaxSteps))
	}
	next := r.schedule()
	if next != t {
		r.cur = next
		next.wake <- struct{}{}
		<-t.wake
		if r.aborting {
			runtime.Goexit()
		}
	}
	if r.opts.Trace {
		r.trace = append(r.trace, Ev{Thread: t.id, Op: op, Obj: obj, Time: time.Duration(r.now)})
	}
}

// park blocks the current thread until a partner clears t.parked.
func (r *rtime) park(desc string) {
	t := r.cur
	if t == nil {
		panic("mc: blocking operation in controller context: " + desc)
	}
	t.parked = true
	t.waitOn = desc
	for t.parked {
		next := r.schedule()
		if next == nil {
			r.cur = nil
			r.ctl <- struct{}{}
			<-t.wake
			runtime.Goexit()
		}
		if next == t {
			// an inline environment step made us runnable again
			break
		}
		r.cur = next
		next.wake <- struct{}{}
		<-t.wake
		if r.aborting {
			runtime.Goexit()
		}
	}
	t.waitOn = ""
}

func (r *rtime) ready(t *thread) { t.parked = false }

func (r *rtime) newObj() int { r.nextObj++; return r.nextObj }

func (r *rtime) ev(op string, obj int) {
	if r.opts.Trace && r.cur != nil {
		r.trace = append(r.trace, Ev{Thread: r.cur.id, Op: op, Obj: obj, Time: time.Duration(r.now)})
	}
}

// ---- public helpers for harnesses and rewritten code ----

// Go starts a model thread.
func Go(fn func()) { GoNamed("", fn) }

// GoNamed starts a named model thread.
func GoNamed(name string, fn func()) {
	r := rt
	if r.aborting {
		runtime.Goexit()
	}
	r.newThread(name, fn)
}

// Yield is an explicit scheduling point (used inside harness critical sections).
func Yield() { rt.yield("yield", 0) }

// Now returns the model time elapsed since the epoch without a scheduling point.
func ModelNow() time.Duration { return time.Duration(rt.now) }

// Step returns the number of scheduling points executed so far.
func Step() int { return rt.steps }

// ThreadID returns the id of the running model thread.
func ThreadID() int {
	if rt.cur == nil {
		return -1
	}
	return rt.cur.id
}

// OnQuiescence registers fn to be called at every quiescent instant — when
// no thread can run, no timer is due and the clock is about to move. fn runs in
// scheduler context: it may read harness and (through accessors) library state
// and call Fail-free recording functions, but must not perform model operations.
func OnQuiescence(fn func()) { rt.quiesce = fn }

// NumThreads reports how many model threads have been created so far (ids are
// assigned in creation order).
func NumThreads() int { return len(rt.threads) }

// UnfinishedBelow lists unfinished threads whose id is below n.
func UnfinishedBelow(n int) []string {
	var out []string
	for _, t := range rt.threads {
		if !t.finished && t.id < n {
			out = append(out, t.name)
		}
	}
	return out
}

// Unfinished lists the names of model threads that have not finished.
func Unfinished() []string {
	var out []string
	for _, t := range rt.threads {
		if !t.finished {
			out = append(out, t.name)
		}
	}
	return out
}

// ThreadName returns the running thread's name.
func ThreadName() string {
	if rt.cur == nil {
		return "ctl"
	}
	return rt.cur.name
}

// Fail records a violation and ends the execution.
func Fail(format string, a ...any) {
	r := rt
	if r.aborting {
		runtime.Goexit()
	}
	msg := fmt.Sprintf(format, a...)
	if r.cur == nil {
		if r.fail == "" {
			r.fail = msg
		}
		return
	}
	r.die(msg)
}

// Logf appends a line to the execution log (shown with violations).
func Logf(format string, a ...any) {
	r := rt
	if r == nil || r.aborting {
		return
	}
	r.logs = append(r.logs, fmt.Sprintf("[s%d t=%v %s] ", r.steps, time.Duration(r.now), ThreadName())+fmt.Sprintf(format, a...))
}

// Choose is a harness-level data choice among n options (cost per TieCost).
func Choose(n int) int {
	if rt.aborting {
		runtime.Goexit()
	}
	return rt.choose(n)
}

// Active reports whether a model execution is in progress.
func Active() bool { return rt.cur != nil && !rt.aborting }

// RunResult is the outcome of one execution.
type RunResult struct {
	Points   []Point
	Fail     string
	Detail   string
	Diverged bool
	End      *End
	Logs     []string
}

// runOnce executes one schedule given by prefix (choice 0 afterwards).
func runOnce(opts *Options, prefix []int, mk func() *Exec) *RunResult {
	genCtr++
	r := &rtime{gen: genCtr, opts: opts, prefix: prefix, ctl: make(chan struct{}, 1), twins: map[<-chan struct{}]*ctxNode{}}
	rt = r
	ex := mk()
	r.newThread("main", ex.Body)
	first := r.schedule()
	if first == nil {
		panic("mc: nothing to run")
	}
	r.cur = first
	first.wake <- struct{}{}
	<-r.ctl
	r.cur = nil
	end := &End{Now: time.Duration(r.now), Steps: r.steps, Trace: r.trace, TimedOut: r.timedOut}
	for _, tm := range r.timers {
		if tm.armed && tm.when > int64(opts.Horizon) {
			end.ArmedBeyondHorizon++
		}
	}
	for _, t := range r.threads {
		end.Threads = append(end.Threads, ThreadEnd{ID: t.id, Name: t.name, Finished: t.finished, WaitOn: t.waitOn})
	}
	res := &RunResult{End: end}
	if r.fail == "" && ex.Check != nil {
		func() {
			defer func() {
				if p := recover(); p != nil {
					r.fail = fmt.Sprintf("panic in Check: %v", p)
					r.detail = trimStack(debug.Stack())
				}
			}()
			if err := ex.Check(end); err != nil && r.fail == "" {
				r.fail = err.Error()
			}
		}()
	}
	// teardown: unwind every unfinished thread
	r.aborting = true
	for _, t := range r.threads {
		select {
		case <-t.exited:
			continue
		default:
		}
		select {
		case t.wake <- struct{}{}:
		default:
		}
		<-t.exited
	}
	rt = idleRuntime()
	res.Points = r.points
	res.Fail = r.fail
	res.Detail = r.detail
	res.Diverged = r.diverged
	res.Logs = r.logs
	return res
}
