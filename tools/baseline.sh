#!/bin/bash
# tools/baseline.sh — re-run dapr/kit's own test suite on /repo's working tree (fix: commits
# included, no verif tag) and compare with the stable-pass list of /root/.vp/BASELINE.json.
export GOFLAGS=-mod=mod GOPROXY=off GOSUMDB=off GOTOOLCHAIN=local
out=$(mktemp /tmp/baseline-XXXXXX.json)
(cd /repo && go test -mod=mod -json -vet=off -count=1 -timeout 25m ./... > "$out" 2>/dev/null)
python3 - "$out" <<'PY'
import json,sys
passed=set(); failed=set()
for l in open(sys.argv[1]):
    try: e=json.loads(l)
    except Exception: continue
    if e.get('Test') and e.get('Action') in ('pass','fail'):
        k=e['Package']+'::'+e['Test']
        (passed if e['Action']=='pass' else failed).add(k)
stable=set(json.load(open('/root/.vp/BASELINE.json'))['stable_pass'])
missing=sorted(stable-passed)
print(f"stable_pass={len(stable)} passed_now={len(stable&passed)} not_passed={len(missing)} failed_any={len(failed)}")
for m in missing[:20]: print("  NOT PASSED:", m)
PY
rm -f "$out"
