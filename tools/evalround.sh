#!/bin/bash
# tools/evalround.sh <dir-prefix> [ID...] — evaluate every <dir-prefix>-<ID>/out/<n> with evalseed.sh;
# the demo's package is taken from the `go test … -run … ./<pkg>/` line of the seed's README.
pre=$1; shift
ids=${*:-C01 C02 C03 C04 C05 C06 C07 C08 C09 C10 C11 C12 C13 C14 C15 C16 C17 C18 C19 C20}
cd "$(dirname "$0")/.."
for id in $ids; do
  for d in $pre-$id/out/*; do
    [ -f "$d/patch.diff" ] || continue
    pk=$(grep -ho 'go test[^`]*-run[^`]*' "$d/README.md" | grep -o '\./[A-Za-z0-9_/]*' | head -1 | sed 's|^\./||; s|/$||')
    [ -z "$pk" ] && pk=$(git apply --numstat "$d/patch.diff" 2>/dev/null | head -1 | awk '{print $3}' | xargs dirname)
    tags=""; case "$pk" in events*|concurrency*) tags=unit;; esac
    res=$(tools/evalseed.sh "$id" "$d" "$pk" $tags 2>&1)
    keys=$(echo "$res" | grep "^  key=" | sed 's/ (.*//; s/^  key=//' | sort -u | head -4 | tr '\n' ';')
    flags=$(echo "$res" | grep RESULT | sed 's/RESULT //' | tr '\n' ' ')
    echo "$id $(basename $d) pkg=$pk :: $flags:: $keys"
  done
done
