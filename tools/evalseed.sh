#!/bin/bash
# tools/evalseed.sh <PROPERTY-ID> <seed dir with patch.diff, demo_test.go, README.md> <pkgdir for demo> [test tags]
# Confirms a seeded change in a scratch worktree of /repo (existing tests pass
# with it, the demonstration fails with it and passes without it), runs the
# property's quick check against it through VERIF_REPO, and prints a summary.
# EVALSEED_BASE=<commit> evaluates a change written against an earlier /repo commit.
set -u
id=$1; seed=$(realpath "$2"); pkg=$3; tags=${4:-}
export GOFLAGS=-mod=mod GOPROXY=off GOSUMDB=off GOTOOLCHAIN=local
wt=$(mktemp -d /tmp/evalseed-XXXXXX); rmdir "$wt"
git -C /repo worktree add -q --detach "$wt" "${EVALSEED_BASE:-HEAD}" || exit 2
trap 'git -C /repo worktree remove --force "$wt" >/dev/null 2>&1; rm -rf "$wt"' EXIT
demo=$(ls "$seed"/demo*_test.go 2>/dev/null | head -1)
tagarg=""; [ -n "$tags" ] && tagarg="-tags $tags"
res() { echo "RESULT $1=$2"; }
# demo on the unchanged tree
cp "$demo" "$wt/$pkg/zz_demo_test.go"
(cd "$wt" && timeout 300 go test -count=1 $tagarg -run 'Demo|demo|Seed' ./$pkg/ >/tmp/evalseed.$$.log 2>&1) && res demo_without_change pass || { res demo_without_change FAIL; tail -5 /tmp/evalseed.$$.log; }
rm -f "$wt/$pkg/zz_demo_test.go"
git -C "$wt" apply "$seed/patch.diff" 2>/dev/null || git -C "$wt" apply --3way "$seed/patch.diff" >/dev/null 2>&1 || { res apply FAIL; exit 2; }
(cd "$wt" && go build ./... >/dev/null 2>&1) && res build pass || res build FAIL
(cd "$wt" && timeout 900 go test -count=1 $tagarg ./$pkg/... >/tmp/evalseed.$$.log 2>&1) && res existing_tests_with_change pass || { res existing_tests_with_change FAIL; tail -5 /tmp/evalseed.$$.log; }
cp "$demo" "$wt/$pkg/zz_demo_test.go"
(cd "$wt" && timeout 300 go test -count=1 $tagarg -run 'Demo|demo|Seed' ./$pkg/ >/tmp/evalseed.$$.log 2>&1) && res demo_with_change "pass(NOT-demonstrated)" || res demo_with_change fails-as-intended
rm -f "$wt/$pkg/zz_demo_test.go"
out=$(cd /verif && VERIF_REPO="$wt" ./check "$id" --tier quick 2>&1)
rc=$?
echo "$out" | grep -E "^VIOLATION|^  key=|^check " | head -8
res check_exit $rc
rm -f /tmp/evalseed.$$.log
