#!/usr/bin/env python3
"""Print the markdown table of seeded changes (DESIGN.md 8.5) from seeded/*/meta.json."""
import json, glob, os
root = os.path.dirname(os.path.dirname(os.path.abspath(__file__)))
import io, sys
_out = io.StringIO()
_print = print
def print(*a):
    _print(*a, file=_out)
rows = []
for p in sorted(glob.glob(os.path.join(root, "seeded/*/meta.json"))):
    m = json.load(open(p))
    rows.append(m)
print("| change | clause broken | needs | result |")
print("|---|---|---|---|")
for m in rows:
    res = "caught: " + m["reported_keys"] if m["check_exit"] == 1 else "NOT caught"
    if m.get("note"):
        res += " — " + m["note"]
    print(f"| {m['id']} | {m['clause_broken']} | {m['needs_to_manifest']} | {res} |")
caught = sum(1 for m in rows if m["check_exit"] == 1)
print(f"\n{caught} of {len(rows)} seeded changes are reported by the property's quick check.")

txt = _out.getvalue()
dp = os.path.join(root, "DESIGN.md")
d = open(dp).read()
mark, end = "<!-- SEEDTABLE -->", "<!-- /SEEDTABLE -->"
if d.count(mark) == 1 and d.count(end) == 1:
    a = d.index(mark) + len(mark)
    b = d.index(end)
    open(dp, "w").write(d[:a] + "\n" + txt + d[b:])
    _print("DESIGN.md section 8.5 rewritten:", txt.strip().splitlines()[-1])
else:
    _print(txt)
