#!/usr/bin/env python3
"""Print the markdown table of seeded changes (DESIGN.md 8.5) from seeded/*/meta.json."""
import json, glob, os
root = os.path.dirname(os.path.dirname(os.path.abspath(__file__)))
rows = []
for p in sorted(glob.glob(os.path.join(root, "seeded/*/meta.json"))):
    m = json.load(open(p))
    rows.append(m)
print("| change | clause broken | needs | result |")
print("|---|---|---|---|")
for m in rows:
    res = "caught: " + m["reported_keys"] if m["check_exit"] == 1 else "NOT caught"
    if m.get("note"):
        res += " — " + m["note"]
    print(f"| {m['id']} | {m['clause_broken']} | {m['needs_to_manifest']} | {res} |")
caught = sum(1 for m in rows if m["check_exit"] == 1)
print(f"\n{caught} of {len(rows)} seeded changes are reported by the property's quick check.")
