#!/bin/bash
# tools/trymut.sh <patch.diff | -e 'sed-expr' file | -x 'shell command run inside the worktree'> -- ./check CNN --tier quick
# Applies a change to a scratch worktree of /repo (never /repo itself), runs the
# given command with VERIF_REPO pointing at it, then removes the worktree.
set -u
wt=$(mktemp -d /tmp/mut-XXXXXX)
rmdir "$wt"
git -C /repo worktree add -q --detach "$wt" HEAD || exit 2
# carry uncommitted changes of /repo's working tree over too
git -C /repo diff HEAD | git -C "$wt" apply --allow-empty 2>/dev/null
trap 'git -C /repo worktree remove --force "$wt" >/dev/null 2>&1; rm -rf "$wt"' EXIT
if [ "$1" = "-x" ]; then
  (cd "$wt" && bash -c "$2") || exit 2
  shift 2
elif [ "$1" = "-e" ]; then
  sed -i -E "$2" "$wt/$3" || exit 2
  shift 3
else
  git -C "$wt" apply "$1" || { echo "patch does not apply"; exit 2; }
  shift
fi
[ "$1" = "--" ] && shift
(cd "$wt" && git diff --stat | tail -3)
VERIF_REPO="$wt" "$@"
rc=$?
echo "exit=$rc"
exit $rc
