#!/bin/bash
# tools/runall.sh [quick|thorough] — run every claimed check once and print one line each.
cd "$(dirname "$0")/.."
tier=${1:-quick}
ids=${IDS:-$(python3 -c "import json;print(' '.join(c['property_id'] for c in json.load(open('MANIFEST.json'))['checks']))")}
for id in $ids; do
  start=$(date +%s)
  out=$(./check "$id" --tier "$tier" 2>&1); rc=$?
  end=$(date +%s)
  line=$(echo "$out" | grep "^check $id" | tail -1)
  kf=$(echo "$out" | grep -c "^KNOWN-FINDING")
  echo "$id rc=$rc $((end-start))s known=$kf :: $line"
done
