#!/usr/bin/env python3
"""tools/storeround.py <evalround log> <dir-prefix> <round> <first index> [ID...] — store every seed the log shows as caught
(check_exit=1, demo confirmed) under seeded/<ID>-<first index + n - 1>; clause = first heading of its README."""
import re, subprocess, sys, os
log, pre, rnd, first = sys.argv[1], sys.argv[2], sys.argv[3], int(sys.argv[4])
only = set(sys.argv[5:])
for l in open(log):
    m = re.match(r'(C\d\d) (\d+) pkg=(\S*) :: (.*?):: (.*)$', l.strip())
    if not m: continue
    pid, n, pkg, flags, keys = m.groups()
    if only and pid not in only: continue
    if 'check_exit=1' not in flags or 'demo_with_change=fails-as-intended' not in flags or 'demo_without_change=pass' not in flags:
        print("skip", pid, n, flags.strip()); continue
    src = f"{pre}-{pid}/out/{n}"
    if not os.path.isdir(src): print("gone", src); continue
    head = ""
    for rl in open(os.path.join(src, "README.md")):
        if rl.startswith("#"):
            head = rl.lstrip("# ").strip(); break
    sid = f"{pid}-{first + int(n) - 1}"
    subprocess.run([os.path.join(os.path.dirname(__file__), "storeseed.py"), sid, src, rnd, "1", head, "see README.md", keys.strip().rstrip(';'), ""], check=True)
