#!/usr/bin/env python3
"""Regenerate /verif/MANIFEST.json from tools/manifest_meta.json and the spec.json files."""
import json, glob, os
root = os.path.dirname(os.path.dirname(os.path.abspath(__file__)))
meta = json.load(open(os.path.join(root, "tools/manifest_meta.json")))
specs = {}
for p in sorted(glob.glob(os.path.join(root, "harness/*/spec.json")) + glob.glob(os.path.join(root, "checks/*/spec.json"))):
    s = json.load(open(p))
    specs.setdefault(s["id"], {"level": s["level"], "parts": []})["parts"] += [q["name"] for q in s["parts"]]
props = [json.loads(l)["id"] for l in open(os.path.join(root, "properties.jsonl"))]
checks, na = [], []
for pid in props:
    m = meta["properties"].get(pid, {})
    if pid in specs and m.get("claimed", False):
        checks.append({
            "property_id": pid,
            "quick_cmd": f"./check {pid} --tier quick",
            "thorough_cmd": f"./check {pid} --tier thorough",
            "evidence_file": f"/verif/evidence/{pid}.json",
            "replay_cmd_template": f"./check {pid} --replay {{path}}",
            "engine": m.get("engine", "mc"),
            "level_claimed": {"category": specs[pid]["level"], "text": m["level_text"], "design_ref": f"DESIGN.md §4 {pid}"},
            "level_note": m["level_note"],
            "technique": m["technique"],
        })
    else:
        na.append({"property_id": pid, "reason": m.get("na_reason", "check not built yet in this session; see DESIGN.md §4 for the plan")})
man = {
    "version": 1,
    "setup_cmd": "./setup.sh",
    "hooks": meta["hooks"],
    "engines": meta["engines"],
    "checks": checks,
    "notes": meta["notes"],
    "not_applicable": na,
}
json.dump(man, open(os.path.join(root, "MANIFEST.json"), "w"), indent=1)
print(f"claimed={len(checks)} not_applicable={len(na)}")
