#!/usr/bin/env python3
"""tools/storeseed.py <ID-n> <srcdir> <round> <check_exit> <clause> <needs> <keys> [note]
Copies patch.diff, demo*_test.go, README.md of a confirmed seeded change into
seeded/<ID-n>/ and writes meta.json (or, with srcdir '-', only rewrites the
check_exit / reported_keys / note fields of an existing meta)."""
import json, os, shutil, sys, glob
sid, src, rnd, rc, clause, needs, keys = sys.argv[1:8]
note = sys.argv[8] if len(sys.argv) > 8 else ""
d = os.path.join(os.path.dirname(__file__), "..", "seeded", sid)
mp = os.path.join(d, "meta.json")
if src == "-":
    m = json.load(open(mp))
else:
    os.makedirs(d, exist_ok=True)
    for f in ["patch.diff", "README.md"] + [os.path.basename(x) for x in glob.glob(src + "/demo*_test.go")]:
        shutil.copy(os.path.join(src, f), os.path.join(d, f))
    pid = sid.split("-")[0]
    m = {"id": sid, "round": int(rnd), "property": pid, "clause_broken": clause, "needs_to_manifest": needs,
         "origin": "written by an independent sub-agent (given the property text, a scratch worktree of /repo" + (" and one-line summaries of the first-round changes to avoid)" if int(rnd) > 1 else ")"),
         "confirmed_by_me": {"tool": "tools/evalseed.sh (scratch worktree of /repo, removed afterwards)", "patch_applies_and_builds": True,
                             "existing_package_tests_pass_with_change": True, "demo_passes_without_change": True, "demo_fails_with_change": True},
         "check_run": "VERIF_REPO=<scratch worktree> ./check %s --tier quick" % pid}
if clause and src == "-": m["clause_broken"] = clause
if needs and src == "-": m["needs_to_manifest"] = needs
m["check_exit"] = int(rc)
m["reported_keys"] = keys
m["note"] = note
json.dump(m, open(mp, "w"), indent=1)
print("stored", sid)
