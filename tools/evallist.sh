#!/bin/bash
# tools/evallist.sh <dir-prefix> <ID>:<n> ... — evalround.sh for an explicit list of seeds.
pre=$1; shift
cd "$(dirname "$0")/.."
for s in "$@"; do
  id=${s%%:*}; n=${s##*:}; d=$pre-$id/out/$n
  [ -f "$d/patch.diff" ] || continue
  pk=$(grep -ho 'go test[^`]*-run[^`]*' "$d/README.md" | grep -o '\./[A-Za-z0-9_/]*' | head -1 | sed 's|^\./||; s|/$||')
  [ -z "$pk" ] && pk=$(git apply --numstat "$d/patch.diff" 2>/dev/null | head -1 | awk '{print $3}' | xargs dirname)
  tags=""; case "$pk" in events*|concurrency*) tags=unit;; esac
  res=$(tools/evalseed.sh "$id" "$d" "$pk" $tags 2>&1)
  keys=$(echo "$res" | grep "^  key=" | sed 's/ (.*//; s/^  key=//' | sort -u | head -4 | tr '\n' ';')
  flags=$(echo "$res" | grep RESULT | sed 's/RESULT //' | tr '\n' ' ')
  echo "$id $n pkg=$pk :: $flags:: $keys"
done
