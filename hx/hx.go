// Package hx is the harness-side driver for mc explorations: a scenario
// registry, sharding, replay, and per-shard JSON results that cmd/check merges
// into the evidence file.
package hx

import (
	"encoding/json"
	"flag"
	"fmt"
	"os"
	"sort"
	"strings"
	"testing"
	"time"

	"verif/mc"
)

// Scenario is one closed harness program explored exhaustively within Opts.
type Scenario struct {
	Name string
	// Class identifies the family the scenario belongs to; a violation is
	// matched against known_findings.txt by "<Class>".
	Class string
	Opts  mc.Options
	Mk    func() *mc.Exec
	// Thorough-only scenarios are skipped in the quick tier.
	ThoroughOnly bool
	// QuickBound overrides Opts.Bound in the quick tier when set.
	QuickBound *int
	// QuickMin overrides Opts.MinBound in the quick tier when set.
	QuickMin *int
	// Shards > 1 splits the scenario's search into that many work units
	// (subtrees below the first deviation are partitioned by hash).
	Shards int
}

// ScenarioResult is what a shard reports for one scenario.
type ScenarioResult struct {
	Name  string    `json:"name"`
	Class string    `json:"class"`
	Bound int       `json:"bound"`
	Min   int       `json:"min_bound"`
	Delay bool      `json:"delay_bounding"`
	Stats *mc.Stats `json:"stats"`
	WallS float64   `json:"wall_s"`
}

// ShardResult is the JSON a shard writes.
type ShardResult struct {
	Lo        int              `json:"lo"`
	Hi        int              `json:"hi"`
	Tier      string           `json:"tier"`
	Scenarios []ScenarioResult `json:"scenarios"`
	Skipped   int              `json:"skipped_for_deadline"`
	Total     int              `json:"total_scenarios"`
}

var (
	flagRange    = flag.String("range", "", "a:b — scenario index range [a,b) to run (default all)")
	flagTier     = flag.String("tier", "quick", "quick|thorough")
	flagOut      = flag.String("out", "", "shard result file")
	flagReplay   = flag.String("replay", "", "replay file")
	flagOnly     = flag.String("only", "", "substring filter on scenario names")
	flagDeadline = flag.Duration("deadline", 0, "wall-clock budget for this shard")
	flagList     = flag.Bool("list", false, "list scenarios")
	flagSoft     = flag.Duration("soft", 0, "soft per-scenario budget for optional deeper levels")
	flagBonus    = flag.Bool("bonus", false, "quick tier: select the scenarios reserved for the thorough tier instead (run to their required bound only)")
)

// ReplayFile is a stored violating schedule.
type ReplayFile struct {
	Property string   `json:"property"`
	Part     string   `json:"part"`
	Scenario string   `json:"scenario"`
	Class    string   `json:"class"`
	Choices  []int    `json:"choices"`
	Msg      string   `json:"msg"`
	Detail   string   `json:"detail,omitempty"`
	Logs     []string `json:"logs,omitempty"`
	Tier     string   `json:"tier"`
}

// Run is the body of the single TestMC entry point of a harness package.
func Run(t *testing.T, scenarios []Scenario) {
	tier := *flagTier
	bonus := *flagBonus && tier != "thorough"
	var sel []Scenario
	for _, s := range scenarios {
		if bonus {
			if !s.ThoroughOnly {
				continue
			}
		} else if s.ThoroughOnly && tier != "thorough" {
			continue
		}
		if *flagOnly != "" && !strings.Contains(s.Name, *flagOnly) {
			continue
		}
		if tier != "thorough" && s.QuickBound != nil {
			s.Opts.Bound = *s.QuickBound
		}
		if s.Shards > 1 {
			for k := 0; k < s.Shards; k++ {
				u := s
				u.Name = fmt.Sprintf("%s #%d/%d", s.Name, k, s.Shards)
				u.Opts.Shard, u.Opts.Shards = k, s.Shards
				sel = append(sel, u)
			}
			continue
		}
		sel = append(sel, s)
	}
	seen := map[string]bool{}
	for _, s := range sel {
		if seen[s.Name] {
			t.Fatalf("duplicate scenario name %q", s.Name)
		}
		seen[s.Name] = true
	}
	if *flagList {
		fmt.Printf("SCENARIOS %d\n", len(sel))
		for _, s := range sel {
			fmt.Println(s.Name)
		}
		return
	}
	if *flagReplay != "" {
		replay(t, sel)
		return
	}
	lo, hi := 0, len(sel)
	if *flagRange != "" {
		fmt.Sscanf(*flagRange, "%d:%d", &lo, &hi)
	}
	var deadline time.Time
	if *flagDeadline > 0 {
		deadline = time.Now().Add(*flagDeadline)
	}
	res := ShardResult{Lo: lo, Hi: hi, Tier: tier, Total: len(sel)}
	for k, s := range sel {
		if k < lo || k >= hi {
			continue
		}
		if !deadline.IsZero() && time.Now().After(deadline) {
			res.Skipped++
			continue
		}
		o := s.Opts
		o.Deadline = deadline
		if o.SoftBudget == 0 {
			o.SoftBudget = *flagSoft
		}
		if tier != "thorough" && s.QuickMin != nil {
			o.MinBound = *s.QuickMin
		} else if o.MinBound == 0 {
			// no optional levels were asked for: the whole bound is what
			// "exhaustive" refers to, whatever soft budget the driver hands out
			o.MinBound = o.Bound
		}
		if bonus && o.Bound > o.MinBound {
			o.Bound = o.MinBound // no optional levels beyond the quick set
		}
		start := time.Now()
		st := mc.Explore(o, s.Mk)
		res.Scenarios = append(res.Scenarios, ScenarioResult{Name: s.Name, Class: s.Class, Bound: o.Bound, Min: o.MinBound, Delay: o.Delay, Stats: st, WallS: time.Since(start).Seconds()})
	}
	if *flagOut != "" {
		b, _ := json.Marshal(res)
		if err := os.WriteFile(*flagOut, b, 0o644); err != nil {
			t.Fatal(err)
		}
	} else {
		var execs int64
		for _, r := range res.Scenarios {
			execs += r.Stats.Execs
			if len(r.Stats.Violations) > 0 {
				v := r.Stats.Violations[0]
				t.Errorf("scenario %s: VIOLATION (cost %d, stable %v): %s\nchoices=%v\n%s\n%s", r.Name, v.Cost, v.Stable, v.Msg, v.Choices, strings.Join(v.Logs, "\n"), v.Detail)
			}
		}
		t.Logf("scenarios=%d execs=%d", len(res.Scenarios), execs)
	}
}

func replay(t *testing.T, sel []Scenario) {
	b, err := os.ReadFile(*flagReplay)
	if err != nil {
		t.Fatal(err)
	}
	var rf ReplayFile
	if err := json.Unmarshal(b, &rf); err != nil {
		t.Fatal(err)
	}
	for _, s := range sel {
		if s.Name != rf.Scenario {
			continue
		}
		res := mc.Replay(s.Opts, rf.Choices, s.Mk)
		fmt.Printf("scenario %s\nchoices %v\n", s.Name, rf.Choices)
		fmt.Print(mc.FormatTrace(res))
		for _, l := range res.Logs {
			if len(l) > 0 && l[0] != 0 {
				fmt.Println(l)
			}
		}
		if res.Fail != "" {
			fmt.Printf("FAIL: %s\n%s\n", res.Fail, res.Detail)
			t.Fail()
		} else {
			fmt.Println("replay: no violation")
		}
		return
	}
	t.Fatalf("scenario %q not found (tier %s)", rf.Scenario, *flagTier)
}

// SortedStrings is a tiny helper for canonical outcome strings.
func SortedStrings(xs []string) []string {
	out := append([]string(nil), xs...)
	sort.Strings(out)
	return out
}

// Ptr returns a pointer to v.
func Ptr[T any](v T) *T { return &v }
