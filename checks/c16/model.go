// Package c16 decides property C16 (streams) by bounded exhaustive
// enumeration: every composition of a byte sequence into read chunks, every
// way a reader may end (EOF alone, EOF together with the last data, an error,
// an http.ErrBodyReadAfterClose), a zero-length read at every position, every
// consumer buffer size and consumption path, against expectations derived
// from the io.Reader contract and the property statement (never from kit's
// code).
//
// This file holds the environment (scripted sources, writers, consumers) and
// the reference expectations; check_test.go holds the enumeration.
package c16

import (
	"errors"
	"fmt"
	"io"
	"net/http"
	"strings"
)

var (
	errSrc = errors.New("c16: injected source error")
	errW   = errors.New("c16: injected writer error")
)

// Style says how a scripted source ends and whether it inserts one zero-length
// read.
type Style struct {
	// Term: "eof" ends with io.EOF, "err" with a sticky non-EOF error, "body"
	// with a sticky http.ErrBodyReadAfterClose (a body its owner has closed).
	Term string `json:"term"`
	// With: the terminal condition is returned together with the last chunk
	// (n>0, err) instead of alone (0, err). Only meaningful with >=1 chunk.
	With bool `json:"with"`
	// Zero: -1 none; p in 0..len(chunks): one (0, nil) read is answered before
	// chunk p (p == len(chunks): after the last chunk, before the terminal).
	Zero int `json:"zero"`
}

func (s Style) String() string {
	t := map[string]string{"eof": "io.EOF", "err": "a source error", "body": "http.ErrBodyReadAfterClose"}[s.Term]
	w := "returned alone after the last chunk"
	if s.With {
		w = "returned together with the last chunk"
	}
	z := ""
	if s.Zero >= 0 {
		z = fmt.Sprintf(", one (0,nil) read inserted at chunk position %d", s.Zero)
	}
	return t + " " + w + z
}

func termErr(t string) error {
	switch t {
	case "eof":
		return io.EOF
	case "err":
		return errSrc
	case "body":
		return http.ErrBodyReadAfterClose
	}
	panic("c16: unknown terminal " + t)
}

// ev is one scripted answer: n>0 a chunk (delivered over several Reads if the
// caller's buffer is smaller; err, if any, accompanies its final portion),
// n==0 && err==nil a zero-length read, n==0 && err!=nil the sticky terminal.
type ev struct {
	n   int
	err error
}

// BuildScript renders chunks+style as the answer list of a source.
func BuildScript(chunks []int, st Style) []ev {
	k := len(chunks)
	evs := make([]ev, 0, k+2)
	for i, c := range chunks {
		if st.Zero == i {
			evs = append(evs, ev{})
		}
		evs = append(evs, ev{n: c})
	}
	te := termErr(st.Term)
	if st.With && k > 0 {
		evs[len(evs)-1].err = te
	} else {
		if st.Zero == k {
			evs = append(evs, ev{})
		}
		evs = append(evs, ev{0, te})
	}
	return evs
}

// Styles lists every style of a k-chunk source (no two render the same script).
func Styles(k int, body bool) []Style {
	terms := []string{"eof", "err"}
	if body {
		terms = append(terms, "body")
	}
	var out []Style
	for _, t := range terms {
		for z := -1; z <= k; z++ {
			out = append(out, Style{Term: t, Zero: z})
		}
		if k > 0 {
			for z := -1; z < k; z++ {
				out = append(out, Style{Term: t, With: true, Zero: z})
			}
		}
	}
	return out
}

// Composition returns the composition of l selected by mask (bit i set = a
// chunk boundary after byte i+1); masks 0..2^(l-1)-1 give every composition.
func Composition(l int, mask uint32) []int {
	if l == 0 {
		return nil
	}
	var out []int
	run := 0
	for i := 0; i < l; i++ {
		run++
		if i == l-1 || mask&(1<<uint(i)) != 0 {
			out = append(out, run)
			run = 0
		}
	}
	return out
}

func sum(c []int) int {
	t := 0
	for _, x := range c {
		t += x
	}
	return t
}

// alphabet: source j byte i is distinct from every other byte in the case, so
// loss, duplication and reordering are all visible.
const alphabet = "abcdefghijklmnopqrstuvwxyzABCDEFGHIJKLMNOPQRSTUVWXYZ"

func srcData(j, l int) []byte { return []byte(alphabet[j*4 : j*4+l]) }

type hangPanic struct{}

// src is the scripted source. It has no Close method.
type src struct {
	data   []byte
	evs    []ev
	i, off int
	rem    int
	term   error
	closes int
	// closesTold: Close calls received after the source had answered a Read with
	// http.ErrBodyReadAfterClose, i.e. after it had told its reader that its
	// owner has already closed it (such a source starts with one close, its
	// owner's; every call counted here is a close on top of that).
	closesTold int
	closeErr   error // what Close returns (sources that can be closed only)
	reads      int
	maxReads   int
}

func (s *src) Read(p []byte) (int, error) {
	s.reads++
	if s.reads > s.maxReads {
		panic(hangPanic{})
	}
	if len(p) == 0 {
		return 0, nil
	}
	if s.term != nil {
		return 0, s.term
	}
	e := &s.evs[s.i]
	if e.n == 0 {
		s.i++
		if e.err != nil {
			s.term = e.err
		}
		return 0, e.err
	}
	if s.rem == 0 {
		s.rem = e.n
	}
	n := len(p)
	if n > s.rem {
		n = s.rem
	}
	copy(p, s.data[s.off:s.off+n])
	s.off += n
	s.rem -= n
	if s.rem == 0 {
		s.i++
		if e.err != nil {
			s.term = e.err
			return n, e.err
		}
	}
	return n, nil
}

// srcC is a source that can be closed; it counts the Close calls it receives.
type srcC struct{ *src }

func (s srcC) Close() error {
	s.closes++
	if s.term == http.ErrBodyReadAfterClose {
		s.closesTold++
	}
	return s.closeErr
}

func newSrc(data []byte, evs []ev) *src {
	return &src{data: data, evs: evs, maxReads: 4*(len(data)+len(evs)) + 16}
}

// delivered is the reference meaning of a script: the bytes it hands out and
// the condition it ends with.
func delivered(evs []ev) (d int, term error) {
	for _, e := range evs {
		d += e.n
		if e.err != nil {
			return d, e.err
		}
	}
	panic("c16: script without terminal")
}

// Writer is the tee writer. Kind "accept": takes everything. Otherwise it has
// room for T bytes in total; a Write that does not fit is answered
// (room, io.ErrShortWrite) after taking what fits ("short") or (0, error)
// taking nothing ("fail"), as the io.Writer contract requires (n < len(p)
// always comes with a non-nil error).
type Writer struct {
	Kind string `json:"kind"`
	T    int    `json:"t"`
}

func (w Writer) String() string {
	switch w.Kind {
	case "accept":
		return "a writer that accepts everything"
	case "short":
		return fmt.Sprintf("a writer with room for %d bytes that then short-writes (n<len, io.ErrShortWrite)", w.T)
	}
	return fmt.Sprintf("a writer with room for %d bytes that rejects any write that does not fit (0, error)", w.T)
}

type wr struct {
	spec   Writer
	got    []byte
	failed bool
}

func (w *wr) Write(p []byte) (int, error) {
	if w.spec.Kind == "accept" {
		w.got = append(w.got, p...)
		return len(p), nil
	}
	room := w.spec.T - len(w.got)
	if len(p) <= room {
		w.got = append(w.got, p...)
		return len(p), nil
	}
	w.failed = true
	if w.spec.Kind == "short" {
		w.got = append(w.got, p[:room]...)
		return room, io.ErrShortWrite
	}
	return 0, errW
}

// sink is a plain destination for io.Copy: no ReadFrom, so io.Copy /
// io.CopyBuffer use the source's WriteTo if it has one and the given buffer
// otherwise.
type sink struct{ b []byte }

func (s *sink) Write(p []byte) (int, error) { s.b = append(s.b, p...); return len(p), nil }

// outcome is what the consumer saw.
type outcome struct {
	data  []byte
	err   error // Read loop: the first non-nil error (io.EOF for a clean end); ReadAll/Copy: nil for a clean end
	clean bool  // the consumer saw a normal end of stream
	hung  bool
	panic string
	// MultiReaderCloser, sources already closed by their owner: how many were
	// closed by Close before they had been read to their end / after WriteTo
	// had reported their error (both accepted, both counted in the evidence)
	bodyUntold, bodySurfaced int
}

func (o outcome) String() string {
	switch {
	case o.hung:
		return fmt.Sprintf("%q and then no end (read budget exhausted)", o.data)
	case o.panic != "":
		return fmt.Sprintf("%q and then panic: %s", o.data, o.panic)
	case o.clean:
		return fmt.Sprintf("%q and then a clean end of stream (EOF)", o.data)
	}
	return fmt.Sprintf("%q and then error %q", o.data, o.err)
}

func guard(out *outcome) {
	if x := recover(); x != nil {
		if _, ok := x.(hangPanic); ok {
			out.hung = true
			return
		}
		out.panic = fmt.Sprint(x)
	}
}

// Consumers. "read": a Read loop with a b-byte buffer that stops at the first
// non-nil error. "readall": io.ReadAll. "copy": io.CopyBuffer into a plain
// writer with a b-byte buffer (takes the stream's WriteTo when it has one).
// "read1+copy": one Read with a 1-byte buffer, then io.Copy for the rest.
func consume(r io.Reader, mode string, b, maxIter int) (out outcome) {
	defer guard(&out)
	switch mode {
	case "read":
		buf := make([]byte, b)
		for i := 0; i < maxIter; i++ {
			for j := range buf {
				buf[j] = 0xFF
			}
			n, err := r.Read(buf)
			if n < 0 || n > len(buf) {
				out.panic = fmt.Sprintf("Read returned n=%d for a %d-byte buffer", n, len(buf))
				return
			}
			out.data = append(out.data, buf[:n]...)
			if err != nil {
				out.err = err
				out.clean = err == io.EOF
				return
			}
		}
		out.hung = true
	case "readall":
		out.data, out.err = io.ReadAll(r)
		out.clean = out.err == nil
	case "copy":
		var s sink
		_, out.err = io.CopyBuffer(&s, r, make([]byte, b))
		out.data = s.b
		out.clean = out.err == nil
	case "read1+copy":
		buf := []byte{0xFF}
		n, err := r.Read(buf)
		if n < 0 || n > 1 {
			out.panic = fmt.Sprintf("Read returned n=%d for a 1-byte buffer", n)
			return
		}
		out.data = append(out.data, buf[:n]...)
		if err != nil {
			out.err = err
			out.clean = err == io.EOF
			return
		}
		var s sink
		_, out.err = io.Copy(&s, r)
		out.data = append(out.data, s.b...)
		out.clean = out.err == nil
	default:
		panic("c16: unknown consumer " + mode)
	}
	return
}

func usesWriteTo(mode string) bool { return strings.Contains(mode, "copy") }

func isPrefix(p, of []byte) bool { return len(p) <= len(of) && string(of[:len(p)]) == string(p) }
