package c16

// Operation-sequence families: instead of "consume, then Close" every script
// over a small operation alphabet is run against a stream —
//
//	R1 R2  one Read with a 1- / 2-byte buffer
//	F      io.ReadFull of exactly the bytes that are still due (a length-driven
//	       consumer: it stops without having seen io.EOF)
//	D      a Read loop (2-byte buffer) until the first error
//	W      io.Copy into a plain writer (MultiReaderCloser: the WriteTo path)
//	S      Stop (TeeReadCloser)
//	C      Close (1..2 times per script, at every position)
//	Mnil Mdecoy Mswap  the caller of NewMultiReaderCloser(parts...) sets the
//	       elements of its slice to nil / overwrites them with other sources /
//	       reverses them (the argument is the caller's memory)
//
// against sources whose Close succeeds or returns an error (every subset), and
// the clauses of the property are evaluated after every operation.

import (
	"errors"
	"fmt"
	"io"
	"net/http"
	"sort"
	"strings"

	"github.com/dapr/kit/streams"
)

var errClose = errors.New("c16: injected Close error")

type OpSrc struct {
	Chunks   []int `json:"chunks"`
	Style    Style `json:"style"`
	Closable bool  `json:"closable"`
	CloseErr bool  `json:"close_err"` // Close returns an error (the call still counts)
}

type OpsCase struct {
	Family string   `json:"family"` // "ops"
	Stream string   `json:"stream"` // "limit" | "multi" | "tee"
	N      int      `json:"n"`      // limit
	Srcs   []OpSrc  `json:"srcs"`
	Writer string   `json:"writer"` // tee: "plain" | "closer" | "closer-err"
	Ops    []string `json:"ops"`
}

func (c OpsCase) String() string {
	var b strings.Builder
	switch c.Stream {
	case "limit":
		fmt.Fprintf(&b, "LimitReadCloser(N=%d) over", c.N)
	case "tee":
		fmt.Fprintf(&b, "TeeReadCloser (writer: %s) over", c.Writer)
	default:
		b.WriteString("NewMultiReaderCloser(parts...) over")
	}
	for j, s := range c.Srcs {
		cl := "not closable"
		if s.Closable {
			cl = "closable"
			if s.CloseErr {
				cl = "closable, its Close returns an error"
			}
		}
		fmt.Fprintf(&b, " [%d] source %q (%s) handed out as chunks %v ending with %s;", j, srcData(j, sum(s.Chunks)), cl, s.Chunks, s.Style)
	}
	fmt.Fprintf(&b, " operations %v", c.Ops)
	return b.String()
}

// opW is the tee writer of these families: it accepts everything.
type opW struct {
	got      []byte
	closes   int
	closeErr error
}

func (w *opW) Write(p []byte) (int, error) { w.got = append(w.got, p...); return len(p), nil }

type opWC struct{ *opW }

func (w opWC) Close() error { w.closes++; return w.closeErr }

const decoyBytes = "XYZ"

// runOps executes one script. With tr != nil every operation and its result
// is appended to it.
func runOps(c OpsCase, tr *[]string, dim map[string]int64) (vs []viol) {
	T := map[string]string{"limit": "LimitReadCloser/", "multi": "MultiReaderCloser/", "tee": "TeeReadCloser/"}[c.Stream]
	m := len(c.Srcs)
	orig := make([]*src, m)
	parts := make([]io.Reader, m)
	var want []byte
	wantTerm := io.EOF
	for j, s := range c.Srcs {
		evs := BuildScript(s.Chunks, s.Style)
		data := srcData(j, sum(s.Chunks))
		orig[j] = newSrc(data, evs)
		orig[j].maxReads += 8 * len(c.Ops)
		if s.CloseErr {
			orig[j].closeErr = errClose
		}
		if s.Closable {
			parts[j] = srcC{orig[j]}
		} else {
			parts[j] = orig[j]
		}
		if wantTerm == io.EOF {
			d, term := delivered(evs)
			want = append(want, data[:d]...)
			if term != http.ErrBodyReadAfterClose { // a body its owner already read and closed: at its end
				wantTerm = term
			}
		}
	}
	oversize := false
	srcLen := len(want)
	full := want
	if c.Stream == "limit" && srcLen > c.N {
		oversize = true
		want = want[:c.N]
	}
	callerView := append([]io.Reader(nil), parts...)

	var rd io.Reader
	var cl io.Closer
	var stop func() error
	var w *opW
	switch c.Stream {
	case "limit":
		lr := streams.LimitReadCloser(parts[0].(io.ReadCloser), int64(c.N))
		rd, cl = lr, lr
	case "tee":
		w = &opW{}
		var ww io.Writer = w
		if c.Writer != "plain" {
			if c.Writer == "closer-err" {
				w.closeErr = errClose
			}
			ww = opWC{w}
		}
		t := streams.NewTeeReadCloser(parts[0], ww)
		rd, cl, stop = t, t, t.Stop
	default:
		mr := streams.NewMultiReaderCloser(parts...)
		rd, cl = mr, mr
	}

	var yielded []byte
	var decoys []*src
	closeCalls, stops, wAtStop := 0, 0, -1
	usedW, stopBeforeClose, surfacedBody := false, false, false
	seen := map[string]bool{}
	add := func(key, what string) {
		if !seen[key] {
			seen[key] = true
			vs = append(vs, viol{key, what})
		}
	}
	path := func() string {
		if usedW {
			return "WriteTo"
		}
		return "Read"
	}
	// clause -> key, per stream type (the names of the consume-then-Close families)
	key := func(clause string) string {
		switch c.Stream + "/" + clause {
		case "limit/bytes":
			if oversize {
				return T + "oversize-bytes-changed"
			}
			return T + "fitting-source-bytes-changed"
		case "limit/lost":
			return T + "fitting-source-bytes-changed"
		case "limit/terminal":
			return T + "fitting-source-wrong-terminal"
		case "multi/bytes", "multi/lost":
			return T + path() + "-bytes-not-concatenation"
		case "multi/terminal":
			return T + path() + "-wrong-terminal"
		case "multi/srcerr":
			return T + path() + "-source-error-lost"
		case "tee/bytes":
			return T + "bytes-changed"
		case "tee/lost":
			return T + "bytes-lost"
		case "tee/terminal":
			return T + "wrong-terminal"
		}
		return T + map[string]string{"srcerr": "source-error-lost", "panic": "panic"}[clause]
	}
	logf := func(format string, a ...any) {
		if tr != nil {
			*tr = append(*tr, fmt.Sprintf(format, a...))
		}
	}

	// judge: the result of a read-type operation on a stream that has been
	// neither stopped nor closed. eof = the stream signalled a normal end.
	judge := func(eof bool, err error, drained bool) {
		if errors.Is(err, http.ErrBodyReadAfterClose) {
			// the property does not say whether this is the end of that source
			// (Read) or a failure (WriteTo): both accepted, bytes are checked
			return
		}
		if oversize {
			st := c.Srcs[0].Style
			switch {
			case eof && st.With && st.Term == "eof" && srcLen == c.N+1:
				add(T+"eof-with-overflow-byte", fmt.Sprintf("the source has %d > N=%d bytes (byte N+1 arrives together with io.EOF) yet the stream ended as if complete", srcLen, c.N))
			case eof:
				add(T+"oversize-ended-in-EOF", fmt.Sprintf("the source has %d > N=%d bytes yet the stream ended as if complete; want ErrStreamTooLarge", srcLen, c.N))
			case err == nil:
			case errors.Is(err, streams.ErrStreamTooLarge):
				if orig[0].closes == 0 {
					add(T+"oversize-source-not-closed", "ErrStreamTooLarge was returned but the source had not been closed")
				}
			case st.With && st.Term != "eof" && errors.Is(err, termErr(st.Term)):
			default:
				add(T+"oversize-wrong-error", "want ErrStreamTooLarge")
			}
			return
		}
		switch {
		case eof:
			if wantTerm != io.EOF {
				add(key("srcerr"), "a source failed; the stream must fail with that error, not end normally")
			} else if string(yielded) != string(want) {
				add(key("lost"), fmt.Sprintf("the stream ended normally after %q; want all of %q", yielded, want))
			}
		case err != nil:
			switch {
			case c.Stream == "limit" && errors.Is(err, streams.ErrStreamTooLarge):
				add(T+"fitting-source-rejected", "a source of at most N bytes was reported too large")
			case wantTerm == io.EOF:
				add(key("terminal"), fmt.Sprintf("every source ends normally; the stream failed with %q", err))
			case !errors.Is(err, wantTerm):
				add(key("srcerr"), "a source failed; the stream must fail with that error")
			case string(yielded) != string(want):
				add(key("lost"), fmt.Sprintf("the stream failed after %q; the bytes before the failure are %q", yielded, want))
			}
		case drained:
			add(T+"no-termination", "the stream never ended")
		}
	}

	buf := make([]byte, 0, 32)
	readOnce := func(b int) (int, error) {
		p := buf[:b]
		for i := range p {
			p[i] = 0xFF
		}
		n, err := rd.Read(p)
		if n < 0 || n > b {
			panic(fmt.Sprintf("Read returned n=%d for a %d-byte buffer", n, b))
		}
		yielded = append(yielded, p[:n]...)
		return n, err
	}

	exec := func(op string) (aborted bool) {
		defer func() {
			if x := recover(); x != nil {
				aborted = true
				if _, ok := x.(hangPanic); ok {
					logf("%s: read budget exhausted", op)
					add(T+"no-termination", "the stream never ended")
					return
				}
				logf("%s: panic: %v", op, x)
				add(key("panic"), fmt.Sprintf("%s panicked: %v", op, x))
			}
		}()
		live := closeCalls == 0 && stops == 0
		switch op {
		case "R1", "R2":
			before := len(yielded)
			_, err := readOnce(int(op[1] - '0'))
			logf("%s=(%q,%v)", op, yielded[before:], err)
			surfacedBody = surfacedBody || errors.Is(err, http.ErrBodyReadAfterClose)
			if live {
				judge(err == io.EOF, err, false)
			}
		case "F":
			rem := len(want) - len(yielded)
			if rem < 0 {
				rem = 0
			}
			p := make([]byte, rem)
			n, err := io.ReadFull(rd, p)
			yielded = append(yielded, p[:n]...)
			logf("ReadFull(%d)=(%q,%v)", rem, p[:n], err)
			surfacedBody = surfacedBody || errors.Is(err, http.ErrBodyReadAfterClose)
			if live {
				judge(err == io.EOF || err == io.ErrUnexpectedEOF, err, false)
			}
		case "D":
			before := len(yielded)
			var err error
			for i := 0; i < 64 && err == nil; i++ {
				_, err = readOnce(2)
			}
			logf("drain=(%q,%v)", yielded[before:], err)
			surfacedBody = surfacedBody || errors.Is(err, http.ErrBodyReadAfterClose)
			if live {
				judge(err == io.EOF, err, true)
			}
		case "W":
			usedW = true
			var s sink
			_, err := io.Copy(&s, rd)
			yielded = append(yielded, s.b...)
			logf("io.Copy=(%q,%v)", s.b, err)
			surfacedBody = surfacedBody || errors.Is(err, http.ErrBodyReadAfterClose)
			if live {
				judge(err == nil, err, true)
			}
		case "S":
			err := stop()
			stops++
			if wAtStop < 0 {
				wAtStop = len(w.got)
			}
			logf("Stop=%v", err)
		case "C":
			if closeCalls == 0 && stops > 0 {
				stopBeforeClose = true
			}
			err := cl.Close()
			closeCalls++
			logf("Close=%v", err)
		case "Mnil":
			for i := range parts {
				parts[i] = nil
			}
			copy(callerView, parts)
			logf("caller sets parts[i]=nil")
		case "Mdecoy":
			for i := range parts {
				d := newSrc([]byte(decoyBytes), BuildScript([]int{len(decoyBytes)}, Style{Term: "eof", Zero: -1}))
				decoys = append(decoys, d)
				parts[i] = srcC{d}
			}
			copy(callerView, parts)
			logf("caller overwrites parts[i] with other sources")
		case "Mswap":
			for i, j := 0, len(parts)-1; i < j; i, j = i+1, j-1 {
				parts[i], parts[j] = parts[j], parts[i]
			}
			copy(callerView, parts)
			logf("caller reverses parts")
		default:
			panic("c16: unknown operation " + op)
		}
		return false
	}

	for _, op := range c.Ops {
		failedCloseBefore := false
		aborted := exec(op)
		// clauses that hold at every moment
		if !isPrefix(yielded, want) {
			if oversize && len(yielded) > c.N && isPrefix(yielded, full) {
				add(T+"more-than-N-bytes-delivered", fmt.Sprintf("at most N=%d bytes may be delivered, saw %q", c.N, yielded))
			} else {
				add(key("bytes"), fmt.Sprintf("the stream yielded %q, which is not a prefix of %q", yielded, want))
			}
		}
		for j, s := range orig {
			if !c.Srcs[j].Closable {
				continue
			}
			if s.closes > 0 && c.Srcs[j].CloseErr {
				failedCloseBefore = true
			}
			if s.closes > 1 {
				add(T+"source-closed-more-than-once", fmt.Sprintf("source [%d] has been closed %d times after %s", j, s.closes, op))
			}
		}
		if closeCalls > 0 && !aborted {
			for j, s := range orig {
				if !c.Srcs[j].Closable || s.closes > 0 || c.Srcs[j].Style.Term == "body" {
					continue
				}
				k := T + "source-not-closed-after-Close"
				switch {
				case c.Stream == "tee" && stopBeforeClose:
					k = T + "source-not-closed-after-Stop-and-Close"
				case c.Stream == "multi" && failedCloseBefore:
					k = T + "source-not-closed-after-failing-Close"
				case c.Stream == "multi" && usedW:
					k = T + "WriteTo-never-closes"
				case c.Stream == "multi":
					k = T + "Read-source-not-closed-after-Close"
				}
				add(k, fmt.Sprintf("Close has been called, yet closable source [%d] was never closed", j))
			}
		}
		for j, s := range orig {
			// a body its owner already closed: once it has told the stream so and the
			// stream took that as the end of the source (it did not surface the
			// error), any Close by the stream is a close on top of the owner's
			if c.Srcs[j].Style.Term == "body" && s.closesTold > 0 && !surfacedBody {
				add(T+"already-closed-body-closed-again", fmt.Sprintf("source [%d] had been read and closed by its owner (its Read answers http.ErrBodyReadAfterClose, which the stream took as the end of that source) and the stream then closed it again (%s): %d closes in total, want exactly the owner's 1", j, op, 1+s.closes))
			}
		}
		if c.Stream == "multi" {
			for i := range parts {
				if parts[i] != callerView[i] {
					add(T+"caller-slice-modified", fmt.Sprintf("after %s element %d of the slice the caller passed as parts... is no longer what the caller stored there", op, i))
					callerView[i] = parts[i]
				}
			}
			for _, d := range decoys {
				if d.reads > 0 || d.closes > 0 {
					add(T+"caller-slice-aliased", fmt.Sprintf("a source the caller stored in its own slice after constructing the stream was read %d and closed %d times by the stream", d.reads, d.closes))
				}
			}
		}
		if c.Stream == "tee" {
			if string(w.got) != string(yielded) {
				add(T+"writer-bytes-differ-from-delivered", fmt.Sprintf("the writer received %q, the reader yielded %q", w.got, yielded))
			}
			if wAtStop >= 0 && len(w.got) != wAtStop {
				add(T+"write-after-Stop", fmt.Sprintf("the writer had %d bytes when Stop returned and has %d now", wAtStop, len(w.got)))
			}
		}
		if aborted {
			break
		}
	}
	if dim != nil {
		for j, s := range orig {
			if c.Srcs[j].Style.Term != "body" {
				continue
			}
			if s.closes > s.closesTold {
				dim[dimBodyUntold]++
			}
			if s.closesTold > 0 && surfacedBody {
				dim[dimBodySurfaced]++
			}
		}
	}
	return vs
}

// The two ways in which the unchanged MultiReaderCloser closes a body that its
// owner had already closed; neither is a violation (see NOTES.md), both are counted.
const (
	dimBodyUntold   = "accepted: owner-closed body closed by Close before it was read to its end (the stream cannot know yet)"
	dimBodySurfaced = "accepted: owner-closed body closed by Close after WriteTo reported its ErrBodyReadAfterClose as an error (held like a failed source)"
)

// runOpsKeyed runs a script and, when it contains caller mutations, decides
// which violations depend on them: the same script is run again without the
// mutations (they cannot influence a stream that owns its list of sources), and
// every clause that only breaks with them is reported under
// caller-slice-aliased instead of under the clause's own key.
func runOpsKeyed(c OpsCase, tr *[]string, dim map[string]int64) []viol {
	vs := runOps(c, tr, dim)
	if vs == nil || c.Stream != "multi" {
		return vs
	}
	var plain []string
	for _, op := range c.Ops {
		if op[0] != 'M' {
			plain = append(plain, op)
		}
	}
	if len(plain) == len(c.Ops) {
		return vs
	}
	c0 := c
	c0.Ops = plain
	without := map[string]bool{}
	for _, v := range runOps(c0, nil, nil) {
		without[v.key] = true
	}
	const aliased = "MultiReaderCloser/caller-slice-aliased"
	var out []viol
	have := false
	for _, v := range vs {
		if !without[v.key] && v.key != "MultiReaderCloser/caller-slice-modified" {
			if v.key != aliased {
				v.what = "only because the caller changed its own slice after constructing the stream: " + v.what
			}
			v.key = aliased
			if have {
				continue
			}
			have = true
		}
		out = append(out, v)
	}
	return out
}

// dimensions of a case, counted for the evidence
func opsDims(c OpsCase, dim map[string]int64) {
	nC, nS, nM := 0, 0, 0
	afterTerminal := false
	for i, op := range c.Ops {
		switch {
		case op == "C":
			nC++
		case op == "S":
			nS++
		case op[0] == 'M':
			nM++
		}
		if i > 0 && (c.Ops[i-1] == "C" || c.Ops[i-1] == "S") {
			afterTerminal = true
		}
	}
	failing := 0
	for _, s := range c.Srcs {
		if s.Closable && s.CloseErr {
			failing++
		}
	}
	for _, s := range c.Srcs {
		if s.Style.Term == "body" {
			dim["cases_with_a_source_already_closed_by_its_owner"]++
			break
		}
	}
	dim["cases"]++
	if failing > 0 {
		dim["cases_with_a_source_whose_Close_fails"]++
	}
	if nC == 2 {
		dim["cases_with_Close_called_twice"]++
	}
	if nS > 0 {
		dim["cases_with_Stop"]++
	}
	if nM > 0 {
		dim["cases_with_the_caller_mutating_its_slice"]++
	}
	if afterTerminal {
		dim["cases_with_an_operation_after_Stop_or_Close"]++
	}
	if c.Ops[0] == "C" && len(c.Srcs) >= 2 {
		dim["cases_with_Close_before_any_read_of_2+_sources"]++
	}
}

// opScripts: every sequence of 1..maxLen operations with 1..2 Close, at most
// one ReadFull, at most maxS Stop and at most maxM caller mutations.
func opScripts(alpha []string, maxLen, maxS, maxM int) [][]string {
	var out [][]string
	var rec func(cur []string, nC, nF, nS, nM int)
	rec = func(cur []string, nC, nF, nS, nM int) {
		if len(cur) > 0 && nC >= 1 {
			out = append(out, append([]string(nil), cur...))
		}
		if len(cur) == maxLen {
			return
		}
		for _, a := range alpha {
			c, f, s, m := nC, nF, nS, nM
			switch {
			case a == "C":
				c++
			case a == "F":
				f++
			case a == "S":
				s++
			case a[0] == 'M':
				m++
			}
			if c > 2 || f > 1 || s > maxS || m > maxM {
				continue
			}
			rec(append(cur, a), c, f, s, m)
		}
	}
	rec(nil, 0, 0, 0, 0)
	sort.SliceStable(out, func(i, j int) bool { return len(out[i]) < len(out[j]) }) // shortest scripts first: the reported cases are minimal
	return out
}

// opSrcVariants: every source of length 0..maxLen (composition x ending
// {io.EOF, error} x {alone, with the last chunk}; zero-length reads when zero
// is set) x {not closable, closable, closable with a failing Close}.
func opSrcVariants(maxLen int, zero, alwaysClosable, body bool) []OpSrc {
	var out []OpSrc
	for l := 0; l <= maxLen; l++ {
		nm := uint32(1)
		if l > 1 {
			nm = 1 << uint(l-1)
		}
		for mask := uint32(0); mask < nm; mask++ {
			chunks := Composition(l, mask)
			for _, st := range Styles(len(chunks), body) {
				if !zero && st.Zero >= 0 {
					continue
				}
				if st.Term == "body" {
					// a response body its owner has already closed: closable by nature
					out = append(out, OpSrc{chunks, st, true, false})
					continue
				}
				if !alwaysClosable {
					out = append(out, OpSrc{chunks, st, false, false})
				}
				out = append(out, OpSrc{chunks, st, true, false}, OpSrc{chunks, st, true, true})
			}
		}
	}
	return out
}

func opsFamily(name string, cases []OpsCase, scripts [][]string) family {
	return family{fmt.Sprintf("%s: %d stream configurations x %d operation scripts", name, len(cases), len(scripts)), len(cases), func(i int, u *unitRes) {
		c := cases[i]
		total := 0
		for _, s := range c.Srcs {
			total += sum(s.Chunks)
		}
		if u.dim == nil {
			u.dim = map[string]int64{}
		}
		for _, sc := range scripts {
			c.Ops = sc
			vs := runOpsKeyed(c, nil, u.dim)
			u.evals++
			if total > 0 {
				u.nontrivial++
			}
			opsDims(c, u.dim)
			if vs != nil {
				var tr []string
				runOps(c, &tr, nil)
				rep := opsReport{c, strings.Join(tr, "; ")}
				rep.Ops = append([]string(nil), sc...)
				u.addOps(vs, rep)
			}
		}
	}}
}

// opsReport renders a violating script with its trace; it marshals as the case.
type opsReport struct {
	OpsCase
	trace string
}

func (o opsReport) String() string { return o.OpsCase.String() + " -> " + o.trace }

func opsLimitFamily(maxN, maxLen int) family {
	var cases []OpsCase
	for n := 0; n <= maxN; n++ {
		for _, s := range opSrcVariants(n+2, true, true, false) {
			cases = append(cases, OpsCase{Family: "ops", Stream: "limit", N: n, Srcs: []OpSrc{s}})
		}
	}
	return opsFamily(fmt.Sprintf("ops limit N 0..%d, source length 0..N+2", maxN), cases, opScripts([]string{"R1", "R2", "F", "D", "C"}, maxLen, 0, 0))
}

func opsTeeFamily(maxL, maxLen int) family {
	var cases []OpsCase
	for _, s := range opSrcVariants(maxL, true, false, false) {
		for _, w := range []string{"plain", "closer", "closer-err"} {
			cases = append(cases, OpsCase{Family: "ops", Stream: "tee", Srcs: []OpSrc{s}, Writer: w})
		}
	}
	return opsFamily(fmt.Sprintf("ops tee source length 0..%d", maxL), cases, opScripts([]string{"R1", "R2", "F", "D", "S", "C"}, maxLen, 2, 0))
}

func opsMultiFamily(m, maxL, maxLen, maxM int) family {
	vs := opSrcVariants(maxL, false, false, true)
	var cases []OpsCase
	idx := make([]int, m)
	for {
		srcs := make([]OpSrc, m)
		for j := range idx {
			srcs[j] = vs[idx[j]]
		}
		cases = append(cases, OpsCase{Family: "ops", Stream: "multi", Srcs: srcs})
		j := m - 1
		for ; j >= 0; j-- {
			idx[j]++
			if idx[j] < len(vs) {
				break
			}
			idx[j] = 0
		}
		if j < 0 {
			break
		}
	}
	alpha := []string{"R1", "R2", "F", "D", "W", "C", "Mnil", "Mdecoy"}
	if m > 1 {
		alpha = append(alpha, "Mswap")
	}
	return opsFamily(fmt.Sprintf("ops multi %d source(s) of length 0..%d (NewMultiReaderCloser(parts...))", m, maxL), cases, opScripts(alpha, maxLen, 0, maxM))
}
