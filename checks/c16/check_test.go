package c16

import (
	"encoding/json"
	"errors"
	"fmt"
	"io"
	"math/bits"
	"net/http"
	"runtime"
	"sort"
	"strings"
	"testing"
	"time"

	"github.com/dapr/kit/streams"

	"verif/enumx"
)

func TestCheck(t *testing.T) { enumx.Main(t, "C16", "streams", run) }

// ---- cases (also the replay format) ----------------------------------------

type SrcSpec struct {
	Chunks   []int `json:"chunks"`
	Style    Style `json:"style"`
	Closable bool  `json:"closable"`
}

type LimitCase struct {
	Family   string `json:"family"` // "limit"
	N        int    `json:"n"`
	Chunks   []int  `json:"chunks"`
	Style    Style  `json:"style"`
	Consumer string `json:"consumer"`
	Buf      int    `json:"buf"`
}

type MultiCase struct {
	Family   string    `json:"family"` // "multi"
	Srcs     []SrcSpec `json:"srcs"`
	Consumer string    `json:"consumer"`
	Buf      int       `json:"buf"`
}

type TeeCase struct {
	Family   string  `json:"family"` // "tee"
	Src      SrcSpec `json:"src"`
	Writer   Writer  `json:"writer"`
	Consumer string  `json:"consumer"`
	Buf      int     `json:"buf"`
}

func consumerText(mode string, b int) string {
	switch mode {
	case "read":
		return fmt.Sprintf("a Read loop with a %d-byte buffer", b)
	case "readall":
		return "io.ReadAll"
	case "copy":
		return fmt.Sprintf("io.CopyBuffer into a plain writer with a %d-byte buffer (uses WriteTo when the stream has it)", b)
	case "read1+copy":
		return "one 1-byte Read followed by io.Copy (WriteTo)"
	}
	return mode
}

func srcText(j int, s SrcSpec) string {
	l := sum(s.Chunks)
	c := "not closable"
	if s.Closable {
		c = "closable"
	}
	return fmt.Sprintf("source %q (%s) handed out as chunks %v ending with %s", srcData(j, l), c, s.Chunks, s.Style)
}

func (c LimitCase) String() string {
	return fmt.Sprintf("LimitReadCloser(N=%d) over %s, consumed by %s", c.N, srcText(0, SrcSpec{c.Chunks, c.Style, true}), consumerText(c.Consumer, c.Buf))
}

func (c MultiCase) String() string {
	s := "MultiReaderCloser over"
	for j, x := range c.Srcs {
		s += fmt.Sprintf(" [%d] %s;", j, srcText(j, x))
	}
	return s + " consumed by " + consumerText(c.Consumer, c.Buf)
}

func (c TeeCase) String() string {
	return fmt.Sprintf("TeeReadCloser over %s into %s, consumed by %s", srcText(0, c.Src), c.Writer, consumerText(c.Consumer, c.Buf))
}

// viol is one clause of the property a case broke.
type viol struct{ key, what string }

func closeGuard(c io.Closer) (p string) {
	defer func() {
		if x := recover(); x != nil {
			p = fmt.Sprint(x)
		}
	}()
	_ = c.Close()
	return ""
}

// ---- LimitReadCloser -------------------------------------------------------

func evalLimit(n int, data []byte, evs []ev, st Style, mode string, b int) (out outcome, vs []viol) {
	const T = "LimitReadCloser/"
	s := newSrc(data, evs)
	lr := streams.LimitReadCloser(srcC{s}, int64(n))
	out = consume(lr, mode, b, s.maxReads)
	if out.hung {
		return out, []viol{{T + "no-termination", "the stream never ended"}}
	}
	if out.panic != "" {
		return out, []viol{{T + "panic", out.panic}}
	}
	pre := s.closes // "without a final Close": the state once the stream has ended
	if p := closeGuard(lr); p != "" {
		return out, []viol{{T + "panic", "Close: " + p}}
	}
	post := s.closes
	d, term := delivered(evs)
	if d <= n {
		if string(out.data) != string(data[:d]) {
			vs = append(vs, viol{T + "fitting-source-bytes-changed", fmt.Sprintf("the source fits the limit and must come through unchanged (%q)", data[:d])})
		}
		switch {
		case term == io.EOF && !out.clean && errors.Is(out.err, streams.ErrStreamTooLarge):
			vs = append(vs, viol{T + "fitting-source-rejected", "a source of at most N bytes was reported too large"})
		case term == io.EOF && !out.clean:
			vs = append(vs, viol{T + "fitting-source-wrong-terminal", "the source ends with EOF, so must the stream"})
		case term != io.EOF && !errors.Is(out.err, term):
			vs = append(vs, viol{T + "source-error-lost", "the source failed; the stream must fail with that error"})
		}
	} else {
		if len(out.data) > n {
			vs = append(vs, viol{T + "more-than-N-bytes-delivered", fmt.Sprintf("at most N=%d bytes may be delivered", n)})
		}
		if !isPrefix(out.data, data[:d]) {
			vs = append(vs, viol{T + "oversize-bytes-changed", "the delivered bytes are not a prefix of the source"})
		}
		switch {
		case out.clean && st.With && term == io.EOF && d == n+1:
			vs = append(vs, viol{T + "eof-with-overflow-byte", fmt.Sprintf("the source has %d > N=%d bytes (its byte N+1 arrives together with io.EOF) yet the stream ended as if complete: silent truncation; want ErrStreamTooLarge", d, n)})
		case out.clean:
			vs = append(vs, viol{T + "oversize-ended-in-EOF", fmt.Sprintf("the source has %d > N=%d bytes yet the stream ended as if complete; want ErrStreamTooLarge", d, n)})
		case errors.Is(out.err, streams.ErrStreamTooLarge):
			if pre == 0 {
				vs = append(vs, viol{T + "oversize-source-not-closed", "ErrStreamTooLarge was returned but the source had not been closed"})
			}
		case st.With && term != io.EOF && errors.Is(out.err, term):
			// the source's own failure arrived in the same Read as the overflow byte:
			// either error ends the stream as failed, which is all the property asks
		default:
			vs = append(vs, viol{T + "oversize-wrong-error", "want ErrStreamTooLarge"})
		}
	}
	if pre > 1 || post > 1 {
		vs = append(vs, viol{T + "source-closed-more-than-once", fmt.Sprintf("the source was closed %d times before and %d times after Close", pre, post)})
	}
	if post == 0 {
		vs = append(vs, viol{T + "source-not-closed-after-Close", "the stream ended and Close was called, the source was never closed"})
	}
	return out, vs
}

func runLimitCase(c LimitCase) (outcome, []viol) {
	l := sum(c.Chunks)
	return evalLimit(c.N, srcData(0, l), BuildScript(c.Chunks, c.Style), c.Style, c.Consumer, c.Buf)
}

// ---- MultiReaderCloser -----------------------------------------------------

type msrc struct {
	spec SrcSpec
	data []byte
	evs  []ev
}

func evalMulti(srcs []msrc, mode string, b int) (out outcome, vs []viol) {
	const T = "MultiReaderCloser/"
	path := "Read"
	if usesWriteTo(mode) {
		path = "WriteTo"
	}
	ss := make([]*src, len(srcs))
	rs := make([]io.Reader, len(srcs))
	budget := 0
	for i, m := range srcs {
		ss[i] = newSrc(m.data, m.evs)
		budget += ss[i].maxReads
		if m.spec.Closable {
			rs[i] = srcC{ss[i]}
		} else {
			rs[i] = ss[i]
		}
	}
	mr := streams.NewMultiReaderCloser(rs...)
	out = consume(mr, mode, b, budget)
	if out.hung {
		return out, []viol{{T + "no-termination", "the stream never ended"}}
	}
	if out.panic != "" {
		return out, []viol{{T + "panic", out.panic}}
	}
	pre := make([]int, len(ss))
	for i, s := range ss {
		pre[i] = s.closes
	}
	if p := closeGuard(mr); p != "" {
		return out, []viol{{T + "panic", "Close: " + p}}
	}
	// reference: the concatenation; a source ending with ErrBodyReadAfterClose is
	// a body that was already read and closed by its owner, i.e. at its end
	var want []byte
	wantTerm := io.EOF
	for _, m := range srcs {
		d, term := delivered(m.evs)
		want = append(want, m.data[:d]...)
		if term == errSrc {
			wantTerm = errSrc
			break
		}
	}
	if errors.Is(out.err, http.ErrBodyReadAfterClose) {
		// The property does not say how a source ending in
		// http.ErrBodyReadAfterClose is to be treated (Read maps it to
		// end-of-source per a code comment, WriteTo surfaces it): either is
		// accepted; only the delivered bytes are checked.
		if !isPrefix(out.data, want) {
			vs = append(vs, viol{T + path + "-bytes-not-concatenation", fmt.Sprintf("want a prefix of %q", want)})
		}
	} else {
		if string(out.data) != string(want) {
			vs = append(vs, viol{T + path + "-bytes-not-concatenation", fmt.Sprintf("want %q", want)})
		}
		if wantTerm == io.EOF && !out.clean {
			vs = append(vs, viol{T + path + "-wrong-terminal", "every source ended normally, so must the stream"})
		} else if wantTerm != io.EOF && !errors.Is(out.err, wantTerm) {
			vs = append(vs, viol{T + path + "-source-error-lost", "a source failed; the stream must fail with that error"})
		}
	}
	for i, s := range ss {
		if !srcs[i].spec.Closable {
			continue
		}
		if pre[i] > 1 || s.closes > 1 {
			vs = append(vs, viol{T + "source-closed-more-than-once", fmt.Sprintf("source [%d] was closed %d times before and %d times after Close", i, pre[i], s.closes)})
		}
		if srcs[i].spec.Style.Term == "body" {
			// Closed once already, by its owner (that is what its error says).
			// Once it has told the stream so and the stream took that as the end
			// of the source, a Close by the stream is a second close. (If the
			// stream instead surfaced the error to its consumer - accepted on
			// the WriteTo path - the source is held like any failed source and
			// Close closes it; a Close before the source was ever read to its
			// end cannot know either.)
			if s.closes > s.closesTold {
				out.bodyUntold++
			}
			if s.closesTold > 0 && errors.Is(out.err, http.ErrBodyReadAfterClose) {
				out.bodySurfaced++
			}
			if s.closesTold > 0 && !errors.Is(out.err, http.ErrBodyReadAfterClose) {
				vs = append(vs, viol{T + "already-closed-body-closed-again", fmt.Sprintf("source [%d] had been read and closed by its owner (its Read answers http.ErrBodyReadAfterClose, which the stream took as the end of that source) and the stream then closed it again: %d closes in total, want exactly the owner's 1", i, 1+s.closes)})
			}
			continue
		}
		if s.closes == 0 {
			k := T + "Read-source-not-closed-after-Close"
			if path == "WriteTo" {
				k = T + "WriteTo-never-closes"
			}
			vs = append(vs, viol{k, fmt.Sprintf("the stream ended and Close was called, yet closable source [%d] was never closed", i)})
		}
	}
	return out, vs
}

func runMultiCase(c MultiCase) (outcome, []viol) {
	ms := make([]msrc, len(c.Srcs))
	for j, s := range c.Srcs {
		ms[j] = msrc{s, srcData(j, sum(s.Chunks)), BuildScript(s.Chunks, s.Style)}
	}
	return evalMulti(ms, c.Consumer, c.Buf)
}

// ---- TeeReadCloser ---------------------------------------------------------

func evalTee(m msrc, w Writer, mode string, b int) (out outcome, vs []viol) {
	const T = "TeeReadCloser/"
	s := newSrc(m.data, m.evs)
	var r io.Reader = s
	if m.spec.Closable {
		r = srcC{s}
	}
	ww := &wr{spec: w}
	tr := streams.NewTeeReadCloser(r, ww)
	out = consume(tr, mode, b, s.maxReads)
	if out.hung {
		return out, []viol{{T + "no-termination", "the stream never ended"}}
	}
	if out.panic != "" {
		return out, []viol{{T + "panic", out.panic}}
	}
	pre := s.closes
	if p := closeGuard(tr); p != "" {
		return out, []viol{{T + "panic", "Close: " + p}}
	}
	d, term := delivered(m.evs)
	if string(ww.got) != string(out.data) {
		vs = append(vs, viol{T + "writer-bytes-differ-from-delivered", fmt.Sprintf("the writer received %q", ww.got)})
	}
	if !isPrefix(out.data, m.data[:d]) {
		vs = append(vs, viol{T + "bytes-changed", fmt.Sprintf("the delivered bytes are not a prefix of the source %q", m.data[:d])})
	}
	if !ww.failed {
		if len(out.data) < d && isPrefix(out.data, m.data[:d]) {
			vs = append(vs, viol{T + "bytes-lost", fmt.Sprintf("the writer took everything; want all of %q", m.data[:d])})
		}
		if term == io.EOF && !out.clean {
			vs = append(vs, viol{T + "wrong-terminal", "source and writer were fine, the stream must end with EOF"})
		} else if term != io.EOF && !errors.Is(out.err, term) {
			vs = append(vs, viol{T + "source-error-lost", "the source failed; the stream must fail with that error"})
		}
	} else if out.clean {
		vs = append(vs, viol{T + "writer-failure-swallowed", "the writer refused bytes, the stream cannot end as if complete"})
	}
	if m.spec.Closable {
		if pre > 1 || s.closes > 1 {
			vs = append(vs, viol{T + "source-closed-more-than-once", fmt.Sprintf("the source was closed %d times before and %d times after Close", pre, s.closes)})
		}
		if s.closes == 0 {
			vs = append(vs, viol{T + "source-not-closed-after-Close", "the stream ended and Close was called, the source was never closed"})
		}
	}
	return out, vs
}

func runTeeCase(c TeeCase) (outcome, []viol) {
	l := sum(c.Src.Chunks)
	return evalTee(msrc{c.Src, srcData(0, l), BuildScript(c.Src.Chunks, c.Src.Style)}, c.Writer, c.Consumer, c.Buf)
}

// ---- enumeration -----------------------------------------------------------

const (
	perUnitPerKey     = 3 // violating cases kept per work unit and key
	maxReportedPerKey = 3 // findings reported per key (the first, i.e. smallest, cases); all are counted in violating_cases_per_key
)

type found struct {
	key, msg string
	c        any
}

// unitRes is what one work unit contributes; units are merged in index order
// so the output does not depend on scheduling.
type unitRes struct {
	evals, nontrivial int64
	perKey            map[string]int64
	list              []found
	dim               map[string]int64 // operation-sequence families: cases per dimension
}

func (u *unitRes) addOps(vs []viol, c opsReport) {
	for _, v := range vs {
		if u.perKey == nil {
			u.perKey = map[string]int64{}
		}
		u.perKey[v.key]++
		if u.perKey[v.key] <= perUnitPerKey {
			u.list = append(u.list, found{v.key, fmt.Sprintf("%s. %s", c, v.what), c})
		}
	}
}

// famDims: per operation-sequence family, how many cases exercise each dimension.
var famDims = map[string]map[string]int64{}

func (u *unitRes) add(vs []viol, out outcome, c fmt.Stringer) {
	for _, v := range vs {
		if u.perKey == nil {
			u.perKey = map[string]int64{}
		}
		u.perKey[v.key]++
		if u.perKey[v.key] <= perUnitPerKey {
			u.list = append(u.list, found{v.key, fmt.Sprintf("%s: saw %s. %s", c, out, v.what), c})
		}
	}
}

type family struct {
	name  string
	units int
	fn    func(i int, u *unitRes)
}

func runFamily(r *enumx.Run, f family, byKey, perFam map[string]int64, reported map[string]int) (complete bool) {
	res := make([]unitRes, f.units)
	done := r.Parallel(f.units, func(i int) { f.fn(i, &res[i]) })
	var evals, nt int64
	for i := range res {
		evals += res[i].evals
		nt += res[i].nontrivial
		for k, n := range res[i].perKey {
			byKey[k] += n
		}
		for k, n := range res[i].dim {
			if famDims[f.name] == nil {
				famDims[f.name] = map[string]int64{}
			}
			famDims[f.name][k] += n
		}
	}
	r.Count(evals, nt)
	perFam[f.name] = evals
	if done < f.units {
		r.Incomplete(fmt.Sprintf("%s: %d of %d work units evaluated before the budget ran out", f.name, done, f.units))
	}
	for i := range res {
		for _, x := range res[i].list {
			if reported[x.key] < maxReportedPerKey {
				reported[x.key]++
				r.Violation(x.key, x.msg, x.c)
			}
		}
	}
	return done == f.units
}

// reducedMask: the composition subset used for the large limits (N=13..16): at
// most 5 chunks, or one-byte chunks throughout except that at most three
// chunk boundaries are missing.
func reducedMask(l int, mask uint32) bool {
	if l <= 1 {
		return true
	}
	pc := bits.OnesCount32(mask)
	return pc <= 4 || pc >= l-1-3
}

func limitFamily(ns []int, reduced bool) family {
	type unit struct {
		n, l   int
		lo, hi uint32
	}
	var us []unit
	const block = 32
	for _, n := range ns {
		for l := 0; l <= n+3; l++ {
			nm := uint32(1)
			if l > 1 {
				nm = 1 << uint(l-1)
			}
			for lo := uint32(0); lo < nm; lo += block {
				hi := lo + block
				if hi > nm {
					hi = nm
				}
				us = append(us, unit{n, l, lo, hi})
			}
		}
	}
	name := fmt.Sprintf("limit N=%v", ns)
	if reduced {
		name += " (reduced chunk set)"
	}
	return family{name, len(us), func(i int, u *unitRes) {
		x := us[i]
		data := srcData(0, x.l)
		for mask := x.lo; mask < x.hi; mask++ {
			if reduced && !reducedMask(x.l, mask) {
				continue
			}
			chunks := Composition(x.l, mask)
			for _, st := range Styles(len(chunks), false) {
				evs := BuildScript(chunks, st)
				one := func(mode string, b int) {
					out, vs := evalLimit(x.n, data, evs, st, mode, b)
					u.evals++
					if x.l > 0 {
						u.nontrivial++
					}
					if vs != nil {
						u.add(vs, out, LimitCase{"limit", x.n, chunks, st, mode, b})
					}
				}
				for b := 1; b <= x.n+2; b++ {
					one("read", b)
					one("copy", b)
				}
				one("readall", 0)
			}
		}
	}}
}

// variants of one Multi/Tee source: every length 0..maxLen, composition, style
// and closability.
func variants(maxLen int, body bool) []SrcSpec {
	var out []SrcSpec
	for l := 0; l <= maxLen; l++ {
		nm := uint32(1)
		if l > 1 {
			nm = 1 << uint(l-1)
		}
		for mask := uint32(0); mask < nm; mask++ {
			chunks := Composition(l, mask)
			for _, st := range Styles(len(chunks), body) {
				for _, cl := range []bool{true, false} {
					out = append(out, SrcSpec{chunks, st, cl})
				}
			}
		}
	}
	return out
}

var multiConsumers = []struct {
	mode string
	b    int
}{{"read", 1}, {"read", 2}, {"read", 3}, {"read", 4}, {"readall", 0}, {"copy", 8}, {"read1+copy", 0}}

func multiFamily(m, maxLen int) family {
	vs := variants(maxLen, true)
	v := len(vs)
	// per position j the rendered sources (data differs by position)
	rend := make([][]msrc, m)
	for j := 0; j < m; j++ {
		rend[j] = make([]msrc, v)
		for i, s := range vs {
			rend[j][i] = msrc{s, srcData(j, sum(s.Chunks)), BuildScript(s.Chunks, s.Style)}
		}
	}
	units := 1
	for j := 0; j < m-1; j++ {
		units *= v
	}
	return family{fmt.Sprintf("multi %d source(s) of length 0..%d", m, maxLen), units, func(i int, u *unitRes) {
		srcs := make([]msrc, m)
		idx := i
		for j := m - 2; j >= 0; j-- {
			srcs[j] = rend[j][idx%v]
			idx /= v
		}
		for k := 0; k < v; k++ {
			srcs[m-1] = rend[m-1][k]
			total := 0
			for _, s := range srcs {
				total += len(s.data)
			}
			for _, c := range multiConsumers {
				if m > 2 && c.mode == "read1+copy" {
					// the mixed path is enumerated for 1 and 2 sources only: each WriteTo
					// call allocates 32 KiB, which dominates the cost of this family
					continue
				}
				out, fs := evalMulti(srcs, c.mode, c.b)
				u.evals++
				if out.bodyUntold+out.bodySurfaced > 0 {
					if u.dim == nil {
						u.dim = map[string]int64{}
					}
					u.dim[dimBodyUntold] += int64(out.bodyUntold)
					u.dim[dimBodySurfaced] += int64(out.bodySurfaced)
				}
				if total > 0 {
					u.nontrivial++
				}
				if fs != nil {
					specs := make([]SrcSpec, m)
					for j := range srcs {
						specs[j] = srcs[j].spec
					}
					u.add(fs, out, MultiCase{"multi", specs, c.mode, c.b})
				}
			}
		}
	}}
}

func teeFamily(maxLen int) family {
	vs := variants(maxLen, false)
	return family{fmt.Sprintf("tee source length 0..%d", maxLen), len(vs), func(i int, u *unitRes) {
		s := vs[i]
		l := sum(s.Chunks)
		m := msrc{s, srcData(0, l), BuildScript(s.Chunks, s.Style)}
		ws := []Writer{{"accept", 0}}
		for t := 0; t < l; t++ {
			ws = append(ws, Writer{"short", t}, Writer{"fail", t})
		}
		for _, w := range ws {
			one := func(mode string, b int) {
				out, fs := evalTee(m, w, mode, b)
				u.evals++
				if l > 0 {
					u.nontrivial++
				}
				if fs != nil {
					u.add(fs, out, TeeCase{"tee", s, w, mode, b})
				}
			}
			for b := 1; b <= l+2; b++ {
				one("read", b)
				one("copy", b)
			}
			one("readall", 0)
		}
	}}
}

func seq(lo, hi int) []int {
	var o []int
	for i := lo; i <= hi; i++ {
		o = append(o, i)
	}
	return o
}

func run(r *enumx.Run, replay *enumx.ReplayCase) {
	if replay != nil {
		doReplay(r, replay)
		return
	}
	r.Rule("complete product, no sampling: LimitReadCloser: limit N x source length 0..N+3 x every composition of the source into read chunks x every ending {io.EOF | sticky source error} x {returned alone | together with the last chunk} x {no zero-length read | one (0,nil) read before chunk p, every p} x consumer {Read loop | io.CopyBuffer, buffer 1..N+2 each | io.ReadAll}. " +
		"MultiReaderCloser: 1..3 sources x every (length, composition, ending incl. http.ErrBodyReadAfterClose, zero-read position, closable or not) per source x consumer {Read loop buffer 1..4 | io.ReadAll | io.Copy (WriteTo) | one Read then io.Copy (1 and 2 sources only)}; each case is observed once the stream has ended (= without a final Close) and again after Close. " +
		"TeeReadCloser: every source as above (no ErrBodyReadAfterClose) x writer {accepts | room for T bytes then short write | room for T bytes then rejects}, T in 0..len-1 x consumer {Read loop | io.CopyBuffer, buffer 1..len+2 | io.ReadAll}. " +
		"Operation sequences: every script of 1..4 (thorough 5) operations over {Read(1), Read(2), io.ReadFull(exactly the bytes still due), drain, io.Copy (Multi), Stop (Tee), Close, caller sets/overwrites/reverses the slice it passed as parts... (Multi)} with Close called 1..2 times at every position, Stop 0..2 times, at most one ReadFull and 1 (thorough 2) caller mutations x LimitReadCloser N 0..2 (3) over every source of length 0..N+2 | TeeReadCloser over every source of length 0..2 (3) x writer {plain, io.Closer, io.Closer failing} | NewMultiReaderCloser(parts...) over 1..2 sources of length 0..2 and 3 sources of length 0..1 (scripts of <=3, thorough <=4 operations), each source {not closable | closable | closable with a failing Close}; the clauses are evaluated after every operation. " +
		"Huge limits: LimitReadCloser with N in {MaxInt64, MaxInt64-1, MaxInt64-2, 2^62, MaxInt32-1..MaxInt32+1, MaxUint32, MaxUint32+1, 65535, 65536} over sources of 0..4 bytes, consumer buffers {1,2,3,512,65536}, last chunk alone or with io.EOF: bytes unchanged, io.EOF, one Close. " +
		"Every case is a distinct index tuple; non-trivial = the sources hand out at least one byte. A mid-stream error after chunk j of a longer source is the same script as the composition of its prefix ending in an error, so it is enumerated once, under the prefix length.")
	r.Assume("sources follow the io.Reader contract (never n>len(p), sticky terminal condition); writers follow the io.Writer contract (n<len(p) only with a non-nil error)")
	r.Assume("single goroutine; concurrent use is outside C16; after Stop or Close only the clauses that hold at every moment are judged (no foreign bytes, writer = yielded, nothing written after Stop, close counts), not what a Read on a stopped/closed stream returns")
	r.Assume("a source ending with http.ErrBodyReadAfterClose is at its end (multireadercloser.go says so for Read) and has been closed once already, by its owner: once it has answered the stream with that error and the stream took it as the end of the source, any Close by the stream is a second close (MultiReaderCloser/already-closed-body-closed-again). Not flagged, but counted in operation_sequence_dimensions: Close on such a source before it was read to its end (the stream cannot know yet) and Close after WriteTo reported the error to its consumer (the accepted WriteTo reading: the source is held like any failed source)")

	// MultiReaderCloser.WriteTo allocates a 32 KiB buffer per call; with the
	// default pacing the collector would run every ~128 cases and serialise the
	// workers.
	ballast := make([]byte, 1<<30) // never touched, so virtual only; the collector then runs once per ~1 GiB of garbage
	defer runtime.KeepAlive(ballast)

	byKey := map[string]int64{}
	perFam := map[string]int64{}
	wall := map[string]float64{}
	reported := map[string]int{}
	var fams []family
	if r.Thorough() {
		fams = []family{
			opsTeeFamily(3, 5), opsLimitFamily(3, 5), opsMultiFamily(1, 2, 5, 2), opsMultiFamily(2, 2, 4, 2), opsMultiFamily(3, 1, 4, 1),
			teeFamily(9), multiFamily(1, 3), multiFamily(2, 3), multiFamily(3, 3), limitFamily(seq(0, 12), false), limitFamily(seq(13, 16), true)}
	} else {
		fams = []family{
			opsTeeFamily(2, 4), opsLimitFamily(2, 4), opsMultiFamily(1, 2, 4, 1), opsMultiFamily(2, 2, 4, 1), opsMultiFamily(3, 1, 3, 1),
			teeFamily(6), multiFamily(1, 3), multiFamily(2, 3), multiFamily(3, 2), limitFamily(seq(0, 8), false)}
	}
	for k := range famDims {
		delete(famDims, k)
	}
	samples(r)
	runHugeFamily(r)
	for _, f := range fams {
		if r.Expired() {
			r.Incomplete(f.name + ": not started, budget used up")
			continue
		}
		t0 := time.Now()
		if runFamily(r, f, byKey, perFam, reported) {
			r.Space(fmt.Sprintf("%s: %d cases", f.name, perFam[f.name]))
		}
		wall[f.name] = time.Since(t0).Seconds()
	}
	r.Set("evaluations_per_family", perFam)
	r.Set("operation_sequence_dimensions", famDims) // also: per family, how often the accepted closes of an owner-closed body occurred
	r.Set("wall_s_per_family", wall)
	keys := make([]string, 0, len(byKey))
	for k := range byKey {
		keys = append(keys, k)
	}
	sort.Strings(keys)
	vk := map[string]int64{}
	for _, k := range keys {
		vk[k] = byKey[k]
	}
	r.Set("violating_cases_per_key", vk)
}

// samples records a few members of the enumerated space with what was observed.
func samples(r *enumx.Run) {
	eof := Style{Term: "eof", Zero: -1}
	eofWith := Style{Term: "eof", With: true, Zero: -1}
	show := func(c fmt.Stringer, out outcome, vs []viol) {
		verdict := "ok"
		if len(vs) > 0 {
			verdict = "VIOLATION " + vs[0].key
		}
		r.Sample(map[string]any{"case": c.String(), "observed": out.String(), "verdict": verdict})
	}
	l1 := LimitCase{"limit", 3, []int{2, 1}, Style{Term: "eof", Zero: 1}, "read", 2}
	o, v := runLimitCase(l1)
	show(l1, o, v)
	l2 := LimitCase{"limit", 3, []int{1, 3}, eofWith, "read", 5}
	o, v = runLimitCase(l2)
	show(l2, o, v)
	l3 := LimitCase{"limit", 3, []int{2, 3}, eof, "readall", 0}
	o, v = runLimitCase(l3)
	show(l3, o, v)
	m1 := MultiCase{"multi", []SrcSpec{{[]int{1, 1}, eofWith, true}, {nil, Style{Term: "body", Zero: -1}, true}, {[]int{2}, eof, false}}, "read", 3}
	o, v = runMultiCase(m1)
	show(m1, o, v)
	m2 := MultiCase{"multi", []SrcSpec{{[]int{2}, eof, true}, {[]int{1}, eofWith, true}}, "copy", 8}
	o, v = runMultiCase(m2)
	show(m2, o, v)
	t1 := TeeCase{"tee", SrcSpec{[]int{2, 2}, eofWith, true}, Writer{"short", 3}, "read", 4}
	o, v = runTeeCase(t1)
	show(t1, o, v)
}

func doReplay(r *enumx.Run, rc *enumx.ReplayCase) {
	var fam struct {
		Family string `json:"family"`
	}
	if err := json.Unmarshal(rc.Case, &fam); err != nil {
		panic(err)
	}
	var c fmt.Stringer
	var out outcome
	var vs []viol
	switch fam.Family {
	case "huge":
		var x HugeCase
		must(json.Unmarshal(rc.Case, &x))
		if key, msg := runHuge(x); key != "" {
			r.Violation(key, msg, x)
		}
		return
	case "limit":
		var x LimitCase
		must(json.Unmarshal(rc.Case, &x))
		out, vs = runLimitCase(x)
		c = x
	case "multi":
		var x MultiCase
		must(json.Unmarshal(rc.Case, &x))
		out, vs = runMultiCase(x)
		c = x
	case "tee":
		var x TeeCase
		must(json.Unmarshal(rc.Case, &x))
		out, vs = runTeeCase(x)
		c = x
	case "ops":
		var x OpsCase
		must(json.Unmarshal(rc.Case, &x))
		var tr []string
		vs = runOpsKeyed(x, &tr, nil)
		rep := opsReport{x, strings.Join(tr, "; ")}
		fmt.Printf("replay: %s\n", rep)
		for _, v := range vs {
			r.Violation(v.key, fmt.Sprintf("%s. %s", rep, v.what), rep)
		}
		return
	default:
		panic("c16: replay file names no family")
	}
	fmt.Printf("replay: %s\n  observed: %s\n", c, out)
	for _, v := range vs {
		r.Violation(v.key, fmt.Sprintf("%s: saw %s. %s", c, out, v.what), c)
	}
}

func must(err error) {
	if err != nil {
		panic(err)
	}
}
