package c16

import (
	"bytes"
	"errors"
	"fmt"
	"io"
	"math"

	"github.com/dapr/kit/streams"

	"verif/enumx"
)

// Huge limits: LimitReadCloser with N at and around the boundaries of the
// integer types ("no limit" is commonly spelt math.MaxInt64) over short
// sources: the source has at most N bytes, so the stream must yield it
// unchanged, end in io.EOF and close it once — whatever the consumer's buffer.

// HugeCase is one case (also the replay record).
type HugeCase struct {
	Family  string `json:"family"` // "huge"
	N       int64  `json:"n"`
	Len     int    `json:"len"`
	Buf     int    `json:"buf"`
	WithEOF bool   `json:"data_with_eof"`
}

func (c HugeCase) String() string {
	return fmt.Sprintf("LimitReadCloser(N=%d) over a %d-byte source (last chunk together with io.EOF: %v), Read loop with a %d-byte buffer, then Close", c.N, c.Len, c.WithEOF, c.Buf)
}

type hugeSrc struct {
	data    []byte
	withEOF bool
	closes  int
}

func (s *hugeSrc) Read(p []byte) (int, error) {
	if len(s.data) == 0 {
		return 0, io.EOF
	}
	n := copy(p, s.data)
	s.data = s.data[n:]
	if len(s.data) == 0 && s.withEOF {
		return n, io.EOF
	}
	return n, nil
}
func (s *hugeSrc) Close() error { s.closes++; return nil }

func runHuge(c HugeCase) (key, msg string) {
	defer func() {
		if e := recover(); e != nil {
			key, msg = "LimitReadCloser/panic-with-a-huge-limit", fmt.Sprintf("%s: panicked: %v", c, e)
		}
	}()
	want := make([]byte, c.Len)
	for i := range want {
		want[i] = byte('a' + i%26)
	}
	src := &hugeSrc{data: append([]byte{}, want...), withEOF: c.WithEOF}
	l := streams.LimitReadCloser(src, c.N)
	var got []byte
	buf := make([]byte, c.Buf)
	var err error
	for i := 0; i < 4*c.Len+8; i++ {
		var n int
		n, err = l.Read(buf)
		got = append(got, buf[:n]...)
		if err != nil {
			break
		}
	}
	cerr := l.Close()
	switch {
	case !bytes.Equal(got, want):
		return "LimitReadCloser/huge-limit-bytes-differ", fmt.Sprintf("%s: yielded %q, the source holds %q", c, got, want)
	case !errors.Is(err, io.EOF):
		return "LimitReadCloser/huge-limit-not-EOF", fmt.Sprintf("%s: ended with %v, the source has at most N bytes: io.EOF", c, err)
	case src.closes != 1 || cerr != nil:
		return "LimitReadCloser/huge-limit-close-count", fmt.Sprintf("%s: source closed %d times (Close returned %v)", c, src.closes, cerr)
	}
	return "", ""
}

var hugeNs = []int64{math.MaxInt64, math.MaxInt64 - 1, math.MaxInt64 - 2, 1 << 62, math.MaxInt32 + 1, math.MaxInt32, math.MaxInt32 - 1, math.MaxUint32, math.MaxUint32 + 1, 1 << 16, 65535}

func hugeCases() []HugeCase {
	var out []HugeCase
	for _, n := range hugeNs {
		for l := 0; l <= 4; l++ {
			for _, b := range []int{1, 2, 3, 512, 65536} {
				for _, we := range []bool{false, true} {
					out = append(out, HugeCase{"huge", n, l, b, we})
				}
			}
		}
	}
	return out
}

func runHugeFamily(r *enumx.Run) {
	cases := hugeCases()
	for i := range cases {
		if key, msg := runHuge(cases[i]); key != "" {
			r.Violation(key, msg, cases[i])
		}
		nt := int64(0)
		if cases[i].Len > 0 {
			nt = 1
		}
		r.Count(1, nt)
	}
	r.Space(fmt.Sprintf("huge limits: %d cases = %d limits (MaxInt64, MaxInt64-1, MaxInt64-2, 2^62, around MaxInt32 and MaxUint32, 65535, 65536) x source length 0..4 x consumer buffer {1,2,3,512,65536} x last chunk alone / with io.EOF", len(cases), len(hugeNs)))
}
