package c01

import (
	"bytes"
	"fmt"
	"io"

	v1 "github.com/dapr/kit/schemes/enc/v1"

	"verif/checks/encenv"
	"verif/ref/encv1ref"
)

// S7: the unwrap function is a vault client that caches what it unwrapped and
// hands out the SAME slice whenever it is asked for the same wrapped key under
// the same key name. Whatever kit does to that slice shows at the next Decrypt.
//
// Direction 0: kit encrypts one document, it is decrypted Repeat times.
// Direction 1: the reference writes two documents that share the file key
// (other nonce prefix, other plaintext; AES-KW and CBC wrap deterministically,
// so both carry the same wrapped key) and they are decrypted alternately,
// Repeat times in all.
// Oracle: every Decrypt yields the document's plaintext, and the cached slice
// still holds the key after Decrypt returned, after the stream was read to its
// end and after it was closed.
func runRepeat(c *Case) (fails []failure) {
	fail := func(key, f string, a ...any) { fails = append(fails, failure{key, fmt.Sprintf(f, a...)}) }
	kw := encenv.KWByLabel(c.KW)
	type docT struct{ doc, p []byte }
	var docs []docT
	if c.Dir == 0 {
		p := encenv.Pattern(c.Len, byte(0x70+c.Cipher))
		cp := ciphers[c.Cipher]
		stream, err := encenv.KitEncrypt(encenv.NewSource(p), v1.EncryptOptions{WrapKeyFn: kw.WrapFn(encKeyName), Algorithm: v1.KeyAlgorithm(kw.Name), KeyName: encKeyName, Cipher: &cp})
		if err != nil {
			fail("encrypt-returns-error", "Encrypt: %v", err)
			return
		}
		doc, err := (&encenv.Consumer{}).ReadAll(stream, c.Len+2048)
		if err != nil {
			fail("encrypt-stream-error", "reading Encrypt's stream: %v", err)
			return
		}
		docs = []docT{{doc, p}}
	} else {
		fk := encenv.Pattern(32, byte(0xC0+c.Len%61))
		wfk, err := kw.RefWrap(fk)
		if err != nil {
			fail("machinery", "reference wrap: %v", err)
			return
		}
		for i := 0; i < 2; i++ {
			p := encenv.Pattern(c.Len, byte(0x80+i))
			doc, err := encv1ref.Encrypt(p, encv1ref.EncryptParams{FileKey: fk, NoncePrefix: encenv.Pattern(7, byte(0x20+i)), Cipher: c.Cipher, KW: kw.ID, WFK: wfk, KeyName: encKeyName})
			if err != nil {
				fail("machinery", "reference encrypt: %v", err)
				return
			}
			docs = append(docs, docT{doc, p})
		}
	}

	// the caching vault client
	cache := map[string][]byte{}
	pristine := map[string][]byte{}
	unwrap := func(w []byte, alg, name string, nonce, tag []byte) ([]byte, error) {
		id := name + "\x00" + string(w)
		if k, ok := cache[id]; ok {
			return k, nil
		}
		k, err := kw.UnwrapFn(encKeyName, nil, nil)(w, alg, name, nonce, tag)
		if err != nil {
			return nil, err
		}
		cache[id] = k
		pristine[id] = append([]byte(nil), k...)
		return k, nil
	}
	intact := func(when string, round int) {
		for id, k := range cache {
			if !bytes.Equal(k, pristine[id]) {
				fail("unwrap-result-modified-by-Decrypt", "Decrypt no. %d: %s the slice the unwrap function returned (and caches) holds %x, it returned %x", round+1, when, k, pristine[id])
				pristine[id] = append([]byte(nil), k...) // reported once; the next Decrypt shows the consequence
			}
		}
	}
	type open struct {
		stream io.Reader
		d      docT
		round  int
	}
	finish := func(o open) {
		out, err := (&encenv.Consumer{}).ReadAll(o.stream, len(o.d.p))
		switch {
		case err != nil:
			fail("repeated-decrypt:decrypt-stream-error", "Decrypt no. %d of %d with a caching unwrap function: %v (after %d of %d bytes)", o.round+1, c.Repeat, err, len(out), len(o.d.p))
		case !bytes.Equal(out, o.d.p):
			fail("repeated-decrypt:plaintext-differs", "Decrypt no. %d of %d with a caching unwrap function: %s", o.round+1, c.Repeat, diff(out, o.d.p))
		}
		intact("after the stream was read to its end", o.round)
		if cl, ok := o.stream.(io.Closer); ok {
			cl.Close()
			intact("after the stream was closed", o.round)
		}
	}
	var pending []open
	for round := 0; round < c.Repeat; round++ {
		d := docs[round%len(docs)]
		round := round
		stream, err := encenv.KitDecryptThen(encenv.NewSource(d.doc), v1.DecryptOptions{UnwrapKeyFn: unwrap}, func() { intact("when Decrypt returned", round) })
		if err != nil {
			fail("repeated-decrypt:decrypt-returns-error", "Decrypt no. %d of %d of a valid document with a caching unwrap function: %v", round+1, c.Repeat, err)
			continue
		}
		if c.Overlap {
			pending = append(pending, open{stream, d, round})
		} else {
			finish(open{stream, d, round})
		}
	}
	for _, o := range pending {
		finish(o)
	}
	return
}
