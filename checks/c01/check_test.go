// Package c01 decides property C01 (enc/v1: Decrypt inverts Encrypt and the
// ciphertext follows the published format) by exhaustive enumeration:
//
//	S1  the complete product cipher x key-wrap name x key-name option x
//	    plaintext length under the default chunking, in both directions
//	    (kit writes, reference + kit read; reference writes, kit reads);
//	S2  uniform chunking policies of the four reader/consumer environments;
//	S3  every placement of <= 2 deviations from the default answer of every
//	    environment call (quick: boundary lengths, thorough: all 14 lengths).
//
// See NOTES.md.
package c01

import (
	"bytes"
	"encoding/json"
	"errors"
	"fmt"
	"io"
	"runtime"
	"strings"
	"sync"
	"testing"
	"time"

	v1 "github.com/dapr/kit/schemes/enc/v1"

	"verif/checks/encenv"
	"verif/enumx"
	"verif/ref/encv1ref"
)

func TestCheck(t *testing.T) { enumx.Main(t, "C01", "roundtrip", run) }

// Environments of one pipeline.
const (
	envP = iota // Reads of the plaintext source issued by Encrypt
	envE        // Reads of Encrypt's returned stream issued by its consumer
	envC        // Reads of the ciphertext source issued by Decrypt
	envR        // Reads of Decrypt's returned stream issued by its consumer
)

var envNames = [...]string{"plaintext-source", "encrypt-stream-consumer", "ciphertext-source", "decrypt-stream-consumer"}

// Case is one pipeline run.
type Case struct {
	Len    int    `json:"len"`
	Cipher int    `json:"cipher"` // 0 = option unset, 1 = AES-GCM, 2 = CHACHA20-POLY1305
	KW     string `json:"kw"`     // label of the key-wrap configuration
	KeyOpt int    `json:"keyopt"`
	Dir    int    `json:"dir"`    // 0 = kit encrypts, reference and kit decrypt; 1 = reference encrypts, kit decrypts
	Policy [4]int `json:"policy"` // uniform chunk / buffer size per environment, 0 = default
	// Frame, when Mul > 0, makes the ciphertext source deliver uniform frames
	// of Mul*headerLength+Add bytes (overrides Policy[2]).
	Frame struct {
		Mul int `json:"mul"`
		Add int `json:"add"`
	} `json:"frame_rel_header"`
	Devs []encenv.Placement `json:"devs"`
	Big  bool               `json:"big_stream,omitempty"` // the streamed 65 538-segment document (Len is ignored)
	// behaviour of the collaborators (S5) and size of the header (S6); KeyOpt must be 0
	WrapMode   int  `json:"wrap_mode,omitempty"`   // 0 pure; 1 zeroes its argument after wrapping; 2 overwrites its argument with the wrapped key (in place, returning the same slice, where the sizes agree); 3 identity wrap returning its argument; 4 pure, but first appends 4 bytes to its argument (a scratch use of whatever spare capacity the slice it was handed has)
	UnwrapMode int  `json:"unwrap_mode,omitempty"` // 0 pure; 1 the caller zeroes the slice its unwrap function returned once Decrypt has returned; 2 the caller overwrites it with another key
	WipeLate   bool `json:"wipe_late,omitempty"`   // the caller yields (runtime.Gosched) before wiping
	WFKLen     int  `json:"wfk_len,omitempty"`     // the vault returns an envelope of this many bytes (the wrapped key followed by padding)
	NameLen    int  `json:"name_len,omitempty"`    // length of the key name
	HdrTarget  int  `json:"header_len,omitempty"`  // the header length WFKLen/NameLen were chosen for
	// S7 (repeat_test.go): Repeat > 0 decrypts that many times in a row with an
	// unwrap function that hands out the SAME slice for the same wrapped key
	// (a vault client that caches what it unwrapped); Overlap opens all the
	// streams before reading any.
	Repeat  int  `json:"repeat,omitempty"`
	Overlap bool `json:"overlap,omitempty"`
	// S8 (kinds_test.go): kinds of the plaintext and ciphertext readers;
	// KindFrame is the size of the writes feeding an os.Pipe.
	KindP     string `json:"plaintext_reader,omitempty"`
	KindC     string `json:"ciphertext_reader,omitempty"`
	KindFrame int    `json:"pipe_frame,omitempty"`
	// S9: the plaintext / ciphertext source answers (0, nil) once before
	// every k-th data read
	// S10: NameIdx > 0 uses keyNameAlphabet[NameIdx-1] as KeyName (KeyOpt 0) or
	// DecryptionKeyName (KeyOpt 1); an index, because not every name is valid UTF-8
	NameIdx int `json:"key_name_index,omitempty"`
	EmptyP  int `json:"empty_read_every_plaintext,omitempty"`
	EmptyC  int `json:"empty_read_every_ciphertext,omitempty"`
}

// MaxHeader is the limit stated in schemes/enc/v1 (fileKey.SignHeader: "The
// header must not be bigger than 64KB", len > SegmentSize is refused).
const MaxHeader = 64 << 10

var wrapModeNames = []string{"pure", "scrubs-argument", "overwrites-argument", "identity-returning-argument", "appends-to-argument"}
var unwrapModeNames = []string{"pure", "caller-zeroes-returned-slice", "caller-overwrites-returned-slice"}

// keyNameAlphabet: key names made of, and containing, the characters on which
// JSON string escaping and other quoting conventions differ.
var keyNameAlphabet = func() []string {
	specials := []string{
		"\x01", "\x1f", "\v", "\b", "\f", "\n", "\r", "\t", "\x7f", "\u0085", "\u00a0", "\u00e9", "\u2028", "\u2029", "\ufeff", "\ufffd",
		"\U0001F600", "\U000E0001", "\U0010FFFF", "\xff", "\xc3", "\xed\xa0\x80", "\xf4\x90\x80\x80",
		`"`, `\`, "<", ">", "&", "'", "/", " ", "%", "{", "}", ":", ",", "\\u0041", "\\n",
	}
	var out []string
	all := "k"
	for _, sp := range specials {
		out = append(out, sp, "key"+sp+"name/1")
		all += sp
	}
	return append(out, all, "x")
}()

// asJSONCarries is what a JSON string member carries of a Go string: encoding/json
// replaces bytes that are not valid UTF-8 by U+FFFD; everything else survives.
func asJSONCarries(s string) string {
	b, err := json.Marshal(s)
	if err != nil {
		panic(err)
	}
	var out string
	if err := json.Unmarshal(b, &out); err != nil {
		panic(err)
	}
	return out
}

func longName(n int) string {
	b := make([]byte, n)
	for i := range b {
		b[i] = "abcdefghijklmnopqrstuvwxyz"[i%26]
	}
	return string(b)
}

// headerLen is the length of the three header lines for a wrapped key of w
// bytes and a key name of n bytes (one-digit algorithm ids).
func headerLen(w, n int) int {
	mj, err := encv1ref.EncodeManifest(&encv1ref.Manifest{HasKeyName: n > 0, KeyName: longName(n), KW: 1, WFK: make([]byte, w), Cipher: 1, NoncePrefix: make([]byte, 7)}, nil)
	if err != nil {
		panic(err)
	}
	return len(encv1ref.BuildHeader(make([]byte, 32), mj))
}

// sizesFor picks the envelope and key-name lengths that make the header
// exactly target bytes long: by growing the wrapped key (byWFK) or the name.
func sizesFor(target, natural int, byWFK bool) (wfkLen, nameLen int) {
	if !byWFK {
		return 0, target - headerLen(natural, 0) - len(`"k":"",`)
	}
	// base64: three more bytes of wrapped key are four more characters
	w := natural
	if k := (target - headerLen(natural, 7)) / 4; k > 0 {
		w += 3 * k
	}
	return w, 7 + target - headerLen(w, 7)
}

func (c *Case) String() string {
	b, _ := json.Marshal(c)
	return string(b)
}

type keyOpt struct {
	name     string
	decName  string // EncryptOptions.DecryptionKeyName
	omit     bool   // EncryptOptions.OmitKeyName
	override string // DecryptOptions.KeyName
	manifest string // key name the manifest must carry ("" = absent)
	vault    string // the only name under which the vault has the decryption key
}

const encKeyName = "enc-key"

var keyOpts = []keyOpt{
	{name: "KeyName", manifest: encKeyName, vault: encKeyName},
	{name: "KeyName+DecryptionKeyName", decName: "dec-key/2", manifest: "dec-key/2", vault: "dec-key/2"},
	{name: "OmitKeyName+override", omit: true, override: "ovr-key", manifest: "", vault: "ovr-key"},
	{name: "DecryptionKeyName+override", decName: "dec-key/2", override: "ovr-key", manifest: "dec-key/2", vault: "ovr-key"},
	{name: "OmitKeyName,no-name-at-decryption", omit: true, manifest: "", vault: encKeyName},
}

var ciphers = []v1.Cipher{"", v1.CipherAESGCM, v1.CipherChaCha20Poly1305}

type failure struct{ key, msg string }

func diff(got, want []byte) string {
	n := len(got)
	if len(want) < n {
		n = len(want)
	}
	for i := 0; i < n; i++ {
		if got[i] != want[i] {
			return fmt.Sprintf("got %d bytes, want %d; first difference at offset %d", len(got), len(want), i)
		}
	}
	return fmt.Sprintf("got %d bytes, want %d; the shorter is a prefix of the longer", len(got), len(want))
}

func refErrClass(err error) string {
	for _, e := range []struct {
		err  error
		name string
	}{{encv1ref.ErrHeader, "header"}, {encv1ref.ErrManifest, "manifest"}, {encv1ref.ErrNoKeyName, "key-name"}, {encv1ref.ErrUnwrap, "unwrap"}, {encv1ref.ErrMAC, "mac"}, {encv1ref.ErrSegment, "segment"}, {encv1ref.ErrPayload, "payload"}} {
		if errors.Is(err, e.err) {
			return e.name
		}
	}
	return "other"
}

// runCase runs one pipeline and evaluates the three oracles. With record set
// it returns, per environment, which deviations were applicable at each call.
func runCase(c *Case, record bool) (masks [][]encenv.Mask, fails []failure) {
	fail := func(key, f string, a ...any) { fails = append(fails, failure{key, fmt.Sprintf(f, a...)}) }
	kw := encenv.KWByLabel(c.KW)
	ko := keyOpts[c.KeyOpt]
	encName := encKeyName
	if c.NameLen > 0 {
		encName = longName(c.NameLen)
		ko.manifest, ko.vault = encName, encName
	}
	if c.NameIdx > 0 {
		raw := keyNameAlphabet[c.NameIdx-1]
		carried := asJSONCarries(raw)
		if c.KeyOpt == 0 {
			encName = raw
		} else {
			ko.decName = raw
		}
		ko.manifest, ko.vault = carried, carried
	}
	natLen := kw.WFKLen
	if c.WrapMode == 3 {
		natLen = 32
	}
	wfkLen := natLen
	if c.WFKLen > natLen {
		wfkLen = c.WFKLen
	}
	strip := func(w []byte) []byte {
		if c.WFKLen > natLen && len(w) == c.WFKLen {
			return w[:natLen]
		}
		return w
	}
	envelope := func(w []byte) []byte {
		if c.WFKLen > len(w) {
			return append(w[:len(w):len(w)], encenv.Pattern(c.WFKLen-len(w), 0x6B)...)
		}
		return w
	}
	refUnwrap := func(wfk []byte, id int, name string) ([]byte, error) {
		if c.WrapMode == 3 {
			if name != ko.vault {
				return nil, fmt.Errorf("unwrap: no key named %q", name)
			}
			return append([]byte{}, strip(wfk)...), nil
		}
		return kw.RefUnwrapFn(ko.vault)(strip(wfk), id, name)
	}
	p := encenv.Pattern(c.Len, byte(c.Cipher*16+c.KeyOpt))
	refCipher := c.Cipher
	if refCipher == 0 {
		refCipher = encv1ref.CipherAESGCM // "Dapr will choose AES-GCM as cipher by default"
	}
	masks = make([][]encenv.Mask, 4)

	var doc []byte
	if c.Dir == 0 {
		opts := v1.EncryptOptions{
			Algorithm: v1.KeyAlgorithm(kw.Name),
			KeyName:   encName, DecryptionKeyName: ko.decName, OmitKeyName: ko.omit,
		}
		pureWrap := kw.WrapFn(encName)
		opts.WrapKeyFn = func(plain []byte, alg, name string, nonce []byte) ([]byte, []byte, error) {
			if c.WrapMode == 3 {
				if name != encName {
					return nil, nil, fmt.Errorf("wrap: no key named %q", name)
				}
				return plain, nil, nil // the very slice that came in
			}
			if c.WrapMode == 4 {
				// builds "key || context" the lazy way: append writes into the
				// spare capacity of the slice it was handed, if it has any
				_ = append(plain, "4byt"...)
			}
			w, _, err := pureWrap(plain, alg, name, nonce)
			if err != nil {
				return nil, nil, err
			}
			switch c.WrapMode {
			case 1:
				clear(plain)
			case 2:
				copy(plain, w)
				if len(w) == len(plain) {
					w = plain
				}
			}
			return envelope(w), nil, nil
		}
		if c.Cipher != 0 {
			cp := ciphers[c.Cipher]
			opts.Cipher = &cp
		}
		srcP := encenv.NewSource(p)
		srcP.SegSize, srcP.Chunk, srcP.Script, srcP.Record = encv1ref.SegmentSize, c.Policy[envP], encenv.ScriptFor(c.Devs, envP), record
		srcP.EmptyEvery = c.EmptyP
		stream, err := encenv.KitEncrypt(srcP, opts)
		if err != nil {
			if c.HdrTarget > MaxHeader {
				return // refused, as the stated limit demands
			}
			fail("encrypt-returns-error", "Encrypt: %v", err)
			return
		}
		consE := &encenv.Consumer{Buf: c.Policy[envE], Script: encenv.ScriptFor(c.Devs, envE), Record: record}
		doc, err = consE.ReadAll(stream, c.Len+2048)
		masks[envP], masks[envE] = srcP.Masks, consE.Masks
		if err != nil {
			fail("encrypt-stream-error", "reading Encrypt's stream: %v (after %d bytes)", err, len(doc))
			return
		}

		// oracle 2: layout
		for _, d := range encv1ref.Conformance(doc, encv1ref.Expect{PlainLen: c.Len, Cipher: refCipher, KW: kw.ID, KeyName: ko.manifest, WFKLen: wfkLen}) {
			fail("format:"+d.Item, "ciphertext departs from the README: %s", d)
		}

		// oracle 3a: the reference opens kit's document
		refName := ko.override
		if c.KeyOpt == 4 {
			if _, err := encv1ref.Decrypt(doc, "", refUnwrap); !errors.Is(err, encv1ref.ErrNoKeyName) {
				fail("format:member-k", "reference found a key name in a document written with OmitKeyName (%v)", err)
			}
			refName = ko.vault
		}
		got, err := encv1ref.Decrypt(doc, refName, refUnwrap)
		if err != nil {
			fail("reference-rejects-kit-output:"+refErrClass(err), "reference implementation cannot decrypt kit's ciphertext: %v", err)
		} else if !bytes.Equal(got, p) {
			fail("reference-decrypts-kit-output-differently", "reference decryption of kit's ciphertext: %s", diff(got, p))
		}
	} else {
		// the reference writes the document, with the members in the opposite order
		fk := encenv.Pattern(32, byte(0xA0+c.Len%251))
		np := encenv.Pattern(7, byte(0x50+c.Cipher))
		wfk, err := kw.RefWrap(fk)
		if c.WrapMode == 3 {
			wfk, err = append([]byte{}, fk...), nil
		}
		if err != nil {
			fail("machinery", "reference wrap: %v", err)
			return
		}
		wfk = envelope(wfk)
		doc, err = encv1ref.Encrypt(p, encv1ref.EncryptParams{
			FileKey: fk, NoncePrefix: np, Cipher: refCipher, KW: kw.ID, WFK: wfk,
			KeyName: ko.manifest, OmitKeyName: ko.manifest == "", FieldOrder: []string{"np", "cph", "wfk", "kw", "k"},
		})
		if err != nil {
			fail("machinery", "reference encrypt: %v", err)
			return
		}
	}

	// oracle 1 (dir 0) / oracle 3b (dir 1): kit opens the document
	who := [2]string{"its own ciphertext", "the reference implementation's document"}[c.Dir]
	tag := [2]string{"roundtrip", "kit-vs-reference-document"}[c.Dir]
	srcC := encenv.NewSource(doc)
	srcC.Chunk, srcC.Script, srcC.Record = c.Policy[envC], encenv.ScriptFor(c.Devs, envC), record
	srcC.EmptyEvery = c.EmptyC
	h, _ := encv1ref.SplitHeader(doc)
	if h != nil && c.HdrTarget > 0 && h.PayloadOffset != c.HdrTarget {
		fail("machinery", "the header is %d bytes long, the case was built for %d", h.PayloadOffset, c.HdrTarget)
	}
	if h != nil {
		srcC.HdrEnd = h.PayloadOffset
		if c.Frame.Mul > 0 {
			srcC.Chunk = c.Frame.Mul*h.PayloadOffset + c.Frame.Add
		}
		srcC.SegBase, srcC.SegSize = h.PayloadOffset, encv1ref.SegmentSize+encv1ref.TagSize
	}
	var asked []string
	var wfk []byte
	if c.KeyOpt != 4 && h != nil {
		if m, err := encv1ref.ParseManifest(h.ManifestRaw); err == nil {
			wfk = m.WFK
		}
	}
	pureUnwrap := kw.UnwrapFn(ko.vault, &asked, strip(wfk))
	var handed, handedCopy []byte // the slice the unwrap function gave to Decrypt, and what it held
	unwrapFn := func(w []byte, alg, name string, nonce, tag []byte) ([]byte, error) {
		var k []byte
		var err error
		if c.WrapMode == 3 {
			asked = append(asked, name)
			if name != ko.vault {
				return nil, fmt.Errorf("unwrap: no key named %q", name)
			}
			k = append([]byte{}, strip(w)...)
		} else {
			k, err = pureUnwrap(strip(w), alg, name, nonce, tag)
		}
		handed = k
		handedCopy = append([]byte(nil), k...)
		return k, err
	}
	// kit must leave the slice the unwrap function returned alone: it belongs
	// to the caller (a vault client may hand out the same slice again)
	untouched := func(when string) {
		if c.UnwrapMode == 0 && !bytes.Equal(handed, handedCopy) {
			fail("unwrap-result-modified-by-Decrypt", "%s the slice the unwrap function returned holds %x, it returned %x", when, handed, handedCopy)
			handedCopy = append([]byte(nil), handed...)
		}
	}
	after := func() { untouched("when Decrypt returned") }
	if c.UnwrapMode != 0 {
		after = func() {
			if c.WipeLate {
				runtime.Gosched()
			}
			if c.UnwrapMode == 1 {
				clear(handed)
			} else {
				copy(handed, encenv.Pattern(32, 0x3D))
			}
		}
	}
	stream, err := encenv.KitDecryptThen(srcC, v1.DecryptOptions{UnwrapKeyFn: unwrapFn, KeyName: ko.override}, after)
	if c.KeyOpt == 4 {
		masks[envC] = srcC.Masks
		if !errors.Is(err, v1.ErrDecryptionKeyMissing) || stream != nil {
			fail(tag+":missing-key-name-not-reported", "Decrypt of a document without key name and without DecryptOptions.KeyName: err=%v, want ErrDecryptionKeyMissing", err)
			if stream != nil {
				(&encenv.Consumer{}).ReadAll(stream, c.Len)
			}
		}
		if len(asked) != 0 {
			fail(tag+":missing-key-name-not-reported", "unwrap function was called with key names %q although no key name was available", asked)
		}
		return
	}
	if err != nil {
		fail(tag+":decrypt-returns-error", "kit's Decrypt rejects %s: %v", who, err)
		masks[envC] = srcC.Masks
		return
	}
	consR := &encenv.Consumer{Buf: c.Policy[envR], Script: encenv.ScriptFor(c.Devs, envR), Record: record}
	out, err := consR.ReadAll(stream, c.Len)
	masks[envC], masks[envR] = srcC.Masks, consR.Masks
	untouched("after the stream was read to its end")
	if cl, ok := stream.(io.Closer); ok {
		cl.Close()
		untouched("after the stream was closed")
	}
	switch {
	case errors.Is(err, encenv.ErrHang):
		fail(tag+":stream-does-not-terminate", "Decrypt's stream over %s: %v", who, err)
	case err != nil:
		fail(tag+":decrypt-stream-error", "kit fails to decrypt %s: %v (after %d of %d bytes)", who, err, len(out), len(p))
	case !bytes.Equal(out, p):
		fail(tag+":plaintext-differs", "kit decrypts %s to a different plaintext: %s", who, diff(out, p))
	}
	if len(asked) != 1 || asked[0] != ko.vault {
		fail(tag+":wrong-key-name-requested", "unwrap function was asked for %q, want exactly [%q]", asked, ko.vault)
	}
	return
}

var (
	allLengths      = []int{0, 1, 2, 15, 16, 17, 65535, 65536, 65537, 131071, 131072, 131073, 196608, 200001}
	boundaryLengths = []int{0, 1, 2, 65535, 65536, 65537, 131071, 131072, 131073}
	srcPolicies     = []int{0, 1, 7, 4096, 65535, 65536}
	bufPolicies     = []int{0, 1, 7, 4096}
	chunkKW         = "A256KW"
)

func run(r *enumx.Run, replay *enumx.ReplayCase) {
	report := func(c *Case, fails []failure) {
		for _, f := range fails {
			r.Violation(f.key, f.msg+"\ncase: "+c.String(), c)
		}
	}
	if replay != nil {
		var c Case
		if err := json.Unmarshal(replay.Case, &c); err != nil {
			panic(err)
		}
		for i := range c.Devs {
			c.Devs[i].Fix()
		}
		var fails []failure
		if c.Big {
			fails, _ = bigStream(c.Dir)
		} else if c.Repeat > 0 {
			fails = runRepeat(&c)
		} else if c.KindC != "" {
			fails = runKinds(&c)
		} else {
			_, fails = runCase(&c, false)
		}
		for _, f := range fails {
			if f.key == replay.Key {
				r.Violation(f.key, f.msg+"\ncase: "+c.String(), &c)
			}
		}
		return
	}

	r.Rule("each evaluation is one complete Encrypt->Decrypt pipeline on the real code with all three oracles (round trip; README layout; reference implementation reads kit's document / kit reads the reference's document written with the manifest members in the opposite order). S1: full product cipher{unset,AES-GCM,CHACHA20-POLY1305} x 8 key-wrap configurations (5 algorithms, 2 aliases, RSA-4096) x 5 key-name options x 14 plaintext lengths x 2 directions. S2: uniform chunking policies (source chunk {fill,1,7,4096,65535,65536} x consumer buffer {big,1,7,4096}) for each pipeline half. S2h: the ciphertext source delivers uniform frames of headerLength+k bytes, k in -2..3, and 2*headerLength+1. S3: every set of <= bound deviations {0 bytes,1 byte,n-1 bytes,stop at segment boundary,data+EOF, Read ends at header end+k for k in -1..3 (ciphertext source) | 1-byte buffer,7-byte buffer} placed on the calls of the four environments, generated once each in (environment, call index) order from the applicability recorded in the parent run. S5: wrap functions that scrub / overwrite / return / append to the key buffer they were given and callers that zero or overwrite the slice their unwrap function returned right after Decrypt returns (immediately or after one yield; sequential under GOMAXPROCS(1)). Every pipeline also checks that Decrypt left the slice its unwrap function returned untouched (when it returned, after the stream was read, after Close). S7: an unwrap function that hands out the same slice for the same wrapped key (caching vault client): the document is decrypted 2 and 3 times in a row, and two reference documents sharing a file key alternately, streams read one after the other or all opened first. S8: reader kinds for the plaintext source of Encrypt and the ciphertext source of Decrypt: Read only; bytes.Reader; a regular *os.File; a reader whose Seek always fails; the read end of an os.Pipe fed by a goroutine; a reader with consistent Seek/ReadAt/WriteTo/ReadByte; one whose optional methods all fail. S9: sources that answer (0,nil) once before every k-th data read (k in {1,2,7}, small chunks, up to 1024 empty reads per stream, never two in a row). S10: key names made of / containing control characters (0x01, 0x1F, \\v, \\b \\f \\n \\r \\t, DEL), C1 and no-break space, U+2028/2029, BOM, U+FFFD, code points above U+FFFF (printable and not), invalid UTF-8 (lone 0xFF, truncated sequence, surrogate half, beyond U+10FFFF), and the characters with a meaning in JSON or HTML (quote, backslash, <, >, &, braces, colon, comma, literal backslash-u), as KeyName and as DecryptionKeyName; the manifest must be valid compact JSON whose k member decodes to the name as encoding/json carries it (invalid bytes become U+FFFD), and that is the name the vault is asked for. S6: header lengths B-1,B,B+1 for B in {512..32768}, 65535, 65536 and 65537 (Encrypt must refuse or still round-trip) reached by a long wrapped-key envelope or a long key name. S4 (thorough): one streamed 65538-segment document in both directions, so that segment counters beyond 65535 occur. Every evaluation is a distinct case by construction; none is trivial (each runs the full pipeline).")

	// S3 is cheap (a few thousand pipelines), so both tiers take all placements
	// of <= 2 deviations; quick restricts S2/S3 to the boundary lengths.
	lengths := boundaryLengths
	bound := 2
	if r.Thorough() {
		lengths = allLengths
	}
	r.Set("deviation_bound", bound)
	r.Set("lengths_chunking", lengths)

	t0 := time.Now()
	lap := func(name string) {
		r.Set("wall_s_"+name, time.Since(t0).Seconds())
		t0 = time.Now()
	}

	// ---- S5: behaviour of the collaborators. Wrap functions that write to the
	// key buffer they are given or return it; callers that wipe or overwrite the
	// slice their unwrap function returned as soon as Decrypt has returned
	// (immediately, or after yielding once). Run one at a time with
	// GOMAXPROCS(1): the goroutine Decrypt starts cannot run before the caller
	// yields, so "immediately" deterministically precedes everything that
	// goroutine does and "after yielding" follows its start (up to an
	// asynchronous preemption inside a window of a few instructions).
	var s5 []*Case
	type uw struct {
		mode int
		late bool
	}
	uws := []uw{{0, false}, {1, false}, {1, true}, {2, false}, {2, true}}
	for _, n := range []int{0, 1, 65536, 65537} {
		for ci := 1; ci <= 2; ci++ {
			for _, wc := range []struct {
				kw   string
				mode int
			}{{chunkKW, 0}, {chunkKW, 1}, {chunkKW, 2}, {"A256CBC-NOPAD", 0}, {"A256CBC-NOPAD", 1}, {"A256CBC-NOPAD", 2}, {"RSA-OAEP-256/2048", 1}, {chunkKW, 3}, {chunkKW, 4}, {"RSA-OAEP-256/2048", 4}} {
				for _, u := range uws {
					s5 = append(s5, &Case{Len: n, Cipher: ci, KW: wc.kw, WrapMode: wc.mode, UnwrapMode: u.mode, WipeLate: u.late})
					if wc.mode == 0 || wc.mode == 3 {
						s5 = append(s5, &Case{Len: n, Cipher: ci, KW: wc.kw, Dir: 1, WrapMode: wc.mode, UnwrapMode: u.mode, WipeLate: u.late})
					}
				}
			}
		}
	}
	prev := runtime.GOMAXPROCS(1)
	for _, c := range s5 {
		_, fails := runCase(c, false)
		report(c, fails)
		r.Count(1, 1)
	}
	runtime.GOMAXPROCS(prev)
	r.Space(fmt.Sprintf("S5 collaborator behaviour: %d pipelines = 4 lengths x 2 ciphers x 8 wrap configurations {%s} x 5 caller behaviours {pure; %s / %s, immediately or after one yield}, reference->kit for the non-writing wraps; sequential under GOMAXPROCS(1)", len(s5), strings.Join(wrapModeNames, ", "), unwrapModeNames[1], unwrapModeNames[2]))
	r.Sample(s5[len(s5)/2+1])
	lap("S5")

	// ---- S7: a vault client that caches unwrapped keys (repeat_test.go)
	var s7 []*Case
	for _, n := range []int{0, 1, 65537} {
		for ci := 1; ci <= 2; ci++ {
			for _, kwl := range []string{chunkKW, "A256CBC-NOPAD"} {
				for dir := 0; dir < 2; dir++ {
					for _, rp := range []int{2, 3} {
						for _, ov := range []bool{false, true} {
							s7 = append(s7, &Case{Len: n, Cipher: ci, KW: kwl, Dir: dir, Repeat: rp, Overlap: ov})
						}
					}
				}
			}
		}
	}
	doneS7 := r.Parallel(len(s7), func(i int) {
		report(s7[i], runRepeat(s7[i]))
		r.Count(1, 1)
	})
	if doneS7 == len(s7) {
		r.Space(fmt.Sprintf("S7 caching vault client: %d sequences = 3 lengths x 2 ciphers x 2 key wraps x {kit's document decrypted 2/3 times; two reference documents sharing a file key decrypted alternately} x {one after the other, all streams opened first}", len(s7)))
	} else {
		r.Incomplete(fmt.Sprintf("S7 caching vault client: %d of %d", doneS7, len(s7)))
	}
	r.Sample(s7[len(s7)/2])
	lap("S7")

	// ---- S10: the key-name alphabet, as KeyName and as DecryptionKeyName
	var s10 []*Case
	for i := range keyNameAlphabet {
		for ko := 0; ko <= 1; ko++ {
			for ci := 1; ci <= 2; ci++ {
				for _, n := range []int{0, 65537} {
					for dir := 0; dir < 2; dir++ {
						s10 = append(s10, &Case{Len: n, Cipher: ci, KW: chunkKW, KeyOpt: ko, Dir: dir, NameIdx: i + 1})
					}
				}
			}
		}
	}
	doneS10 := r.Parallel(len(s10), func(i int) {
		_, fails := runCase(s10[i], false)
		report(s10[i], fails)
		r.Count(1, 1)
	})
	if doneS10 == len(s10) {
		r.Space(fmt.Sprintf("S10 key-name alphabet: %d pipelines = %d names (each special character alone and embedded, all of them in one name) x {KeyName, DecryptionKeyName} x 2 ciphers x lengths {0, 65537} x 2 directions", len(s10), len(keyNameAlphabet)))
	} else {
		r.Incomplete(fmt.Sprintf("S10 key-name alphabet: %d of %d", doneS10, len(s10)))
	}
	r.Sample(s10[len(s10)/2])
	lap("S10")

	// ---- S8: reader kinds (kinds_test.go)
	var s8 []*Case
	for _, n := range []int{0, 1, 65536, 65537, 131073} {
		for ci := 1; ci <= 2; ci++ {
			for _, kind := range readerKinds {
				frames := []int{0}
				if kind == "os.Pipe" {
					frames = []int{0, 4096, 177} // one write; page-sized writes; header length + 1 for A256KW
				}
				for _, fr := range frames {
					s8 = append(s8,
						&Case{Len: n, Cipher: ci, KW: chunkKW, Dir: 0, KindP: "plain", KindC: kind, KindFrame: fr},
						&Case{Len: n, Cipher: ci, KW: chunkKW, Dir: 0, KindP: kind, KindC: "plain", KindFrame: fr},
						&Case{Len: n, Cipher: ci, KW: chunkKW, Dir: 1, KindC: kind, KindFrame: fr})
				}
			}
		}
	}
	doneS8 := r.Parallel(len(s8), func(i int) {
		report(s8[i], runKinds(s8[i]))
		r.Count(1, 1)
	})
	if doneS8 == len(s8) {
		r.Space(fmt.Sprintf("S8 reader kinds: %d pipelines = 5 lengths x 2 ciphers x kinds %v (os.Pipe fed by one write, 4096-byte and 177-byte writes) as ciphertext source of Decrypt (kit's and the reference's document) and as plaintext source of Encrypt", len(s8), readerKinds))
	} else {
		r.Incomplete(fmt.Sprintf("S8 reader kinds: %d of %d", doneS8, len(s8)))
	}
	r.Sample(s8[len(s8)/2])
	lap("S8")

	// ---- S9: periodic empty reads: the source answers (0, nil) once before
	// every k-th data read, never twice in a row; small chunks, so that one
	// stream sees hundreds to thousands of them
	var s9 []*Case
	for _, sh := range []struct{ n, chunk int }{{65537, 256}, {1 << 20, 4096}, {1 << 20, 1024}} {
		for ci := 1; ci <= 2; ci++ {
			for _, k := range []int{1, 2, 7} {
				s9 = append(s9,
					&Case{Len: sh.n, Cipher: ci, KW: chunkKW, Policy: [4]int{sh.chunk, 0, 0, 0}, EmptyP: k},
					&Case{Len: sh.n, Cipher: ci, KW: chunkKW, Policy: [4]int{0, 0, sh.chunk, 0}, EmptyC: k},
					&Case{Len: sh.n, Cipher: ci, KW: chunkKW, Dir: 1, Policy: [4]int{0, 0, sh.chunk, 0}, EmptyC: k})
			}
		}
	}
	doneS9 := r.Parallel(len(s9), func(i int) {
		_, fails := runCase(s9[i], false)
		report(s9[i], fails)
		r.Count(1, 1)
	})
	if doneS9 == len(s9) {
		r.Space(fmt.Sprintf("S9 periodic empty reads: %d pipelines = {65537 bytes in 256-byte chunks, 1 MiB in 4096- and 1024-byte chunks} x 2 ciphers x (0,nil) before every k-th data read, k in {1,2,7} (up to 1024 empty reads per stream, never two in a row) x {plaintext source, ciphertext source of kit's document, of the reference's document}", len(s9)))
	} else {
		r.Incomplete(fmt.Sprintf("S9 periodic empty reads: %d of %d", doneS9, len(s9)))
	}
	r.Sample(s9[0])
	lap("S9")

	// ---- S4 (thorough only): the streamed 65 538-segment document, both
	// directions, started now and joined at the end
	var bigWG sync.WaitGroup
	var bigSecs [2]float64
	if r.Thorough() {
		for dir := 0; dir < 2; dir++ {
			bigWG.Add(1)
			go func(dir int) {
				defer bigWG.Done()
				c := &Case{Cipher: 1, KW: chunkKW, Dir: dir, Big: true, Len: -1}
				fails, secs := bigStream(dir)
				report(c, fails)
				r.Count(1, 1)
				bigSecs[dir] = secs
			}(dir)
		}
	}

	// ---- S1
	var s1 []*Case
	for ci := range ciphers {
		for _, kw := range encenv.KWs {
			for ko := range keyOpts {
				for _, n := range allLengths {
					for dir := 0; dir < 2; dir++ {
						s1 = append(s1, &Case{Len: n, Cipher: ci, KW: kw.Label, KeyOpt: ko, Dir: dir})
					}
				}
			}
		}
	}
	done := r.Parallel(len(s1), func(i int) {
		_, fails := runCase(s1[i], false)
		report(s1[i], fails)
		r.Count(1, 1)
	})
	if done == len(s1) {
		r.Space(fmt.Sprintf("S1 configurations: %d = 3 ciphers x %d key-wrap configurations x %d key-name options x %d lengths x 2 directions, default chunking", len(s1), len(encenv.KWs), len(keyOpts), len(allLengths)))
	} else {
		r.Incomplete(fmt.Sprintf("S1 configurations: %d of %d", done, len(s1)))
	}
	r.Sample(&Case{Len: 65537, Cipher: 2, KW: "RSA-OAEP-256/4096", KeyOpt: 3, Dir: 0})
	r.Sample(&Case{Len: 131072, Cipher: 0, KW: "AES(alias)", KeyOpt: 2, Dir: 1})
	lap("S1")

	// ---- S2 (quick: up to the first segment boundary only - a 1-byte consumer
	// buffer costs one goroutine hand-over per plaintext byte)
	s2lengths := lengths
	if !r.Thorough() {
		s2lengths = []int{0, 1, 65535, 65536, 65537}
	}
	var s2 []*Case
	for _, n := range s2lengths {
		for ci := 1; ci <= 2; ci++ {
			for _, a := range srcPolicies {
				for _, b := range bufPolicies {
					s2 = append(s2, &Case{Len: n, Cipher: ci, KW: chunkKW, Policy: [4]int{a, b, 0, 0}})
					if a != 0 || b != 0 {
						s2 = append(s2, &Case{Len: n, Cipher: ci, KW: chunkKW, Policy: [4]int{0, 0, a, b}})
					}
					s2 = append(s2, &Case{Len: n, Cipher: ci, KW: chunkKW, Dir: 1, Policy: [4]int{0, 0, a, b}})
				}
			}
		}
	}
	// the expensive ones (1-byte consumer buffers on long messages) first
	done = r.Parallel(len(s2), func(i int) {
		c := s2[len(s2)-1-i]
		_, fails := runCase(c, false)
		report(c, fails)
		r.Count(1, 1)
	})
	if done == len(s2) {
		r.Space(fmt.Sprintf("S2 uniform chunking policies: %d pipelines over lengths %v, both ciphers", len(s2), s2lengths))
	} else {
		r.Incomplete(fmt.Sprintf("S2 uniform chunking policies: %d of %d", done, len(s2)))
	}
	r.Sample(&Case{Len: 65537, Cipher: 1, KW: chunkKW, Policy: [4]int{65535, 7, 0, 0}})
	r.Sample(&Case{Len: 65536, Cipher: 2, KW: chunkKW, Dir: 1, Policy: [4]int{0, 0, 1, 4096}})
	lap("S2")

	// ---- S2h: ciphertext delivered in uniform frames of headerLength+k bytes
	// (k = -2..3) and 2*headerLength+1 bytes, so that Reads end just before,
	// at and just after the end of the header; both tiers, boundary lengths,
	// short and long (RSA-4096) header, both directions
	var s2h []*Case
	for _, n := range boundaryLengths {
		for ci := 1; ci <= 2; ci++ {
			for _, kwl := range []string{chunkKW, "RSA-OAEP-256/4096"} {
				for dir := 0; dir < 2; dir++ {
					for _, f := range [][2]int{{1, -2}, {1, -1}, {1, 0}, {1, 1}, {1, 2}, {1, 3}, {2, 1}} {
						c := &Case{Len: n, Cipher: ci, KW: kwl, Dir: dir}
						c.Frame.Mul, c.Frame.Add = f[0], f[1]
						s2h = append(s2h, c)
					}
				}
			}
		}
	}
	done = r.Parallel(len(s2h), func(i int) {
		_, fails := runCase(s2h[i], false)
		report(s2h[i], fails)
		r.Count(1, 1)
	})
	if done == len(s2h) {
		r.Space(fmt.Sprintf("S2h header-relative frame sizes: %d pipelines = %d lengths x 2 ciphers x 2 header sizes x 2 directions x frames {h-2..h+3, 2h+1}", len(s2h), len(boundaryLengths)))
	} else {
		r.Incomplete(fmt.Sprintf("S2h header-relative frame sizes: %d of %d", done, len(s2h)))
	}
	r.Sample(s2h[len(s2h)/2+3])
	lap("S2h")

	// ---- S6: header sizes. The vault returns an envelope (wrapped key plus
	// padding) or the key name is long, such that the three header lines are
	// exactly B-1, B, B+1 bytes for B in {512, 1024, 4096, 8192, 16384, 32768},
	// and 65535, 65536 (the stated maximum) and 65537 (Encrypt must refuse, or
	// else what it produced must still decrypt). The reference writes documents
	// up to the stated maximum only (the README itself states no limit).
	var s6 []*Case
	var targets []int
	for _, b := range []int{512, 1024, 4096, 8192, 16384, 32768} {
		targets = append(targets, b-1, b, b+1)
	}
	targets = append(targets, MaxHeader-1, MaxHeader, MaxHeader+1)
	natural := encenv.KWByLabel(chunkKW).WFKLen
	for _, t := range targets {
		for _, byWFK := range []bool{true, false} {
			w, nl := sizesFor(t, natural, byWFK)
			for _, n := range []int{0, 1, 65536} {
				for ci := 1; ci <= 2; ci++ {
					for dir := 0; dir < 2; dir++ {
						if dir == 1 && t > MaxHeader {
							continue
						}
						for _, chunk := range []int{0, 1, 512} {
							if chunk == 1 && n > 1 {
								continue
							}
							s6 = append(s6, &Case{Len: n, Cipher: ci, KW: chunkKW, Dir: dir, WFKLen: w, NameLen: nl, HdrTarget: t, Policy: [4]int{0, 0, chunk, 0}})
						}
					}
				}
			}
		}
	}
	done = r.Parallel(len(s6), func(i int) {
		_, fails := runCase(s6[i], false)
		report(s6[i], fails)
		r.Count(1, 1)
	})
	if done == len(s6) {
		r.Space(fmt.Sprintf("S6 header sizes: %d pipelines = header lengths %v x {long wrapped key, long key name} x lengths {0,1,65536} x 2 ciphers x 2 directions (reference->kit up to %d) x ciphertext chunking {fill, 1 byte (short messages), 512}", len(s6), targets, MaxHeader))
	} else {
		r.Incomplete(fmt.Sprintf("S6 header sizes: %d of %d", done, len(s6)))
	}
	r.Sample(s6[len(s6)/2])
	lap("S6")

	// ---- S3
	type root struct {
		c     *Case
		succ  []encenv.Placement
		calls [4]int
	}
	var roots []*root
	for i := len(lengths) - 1; i >= 0; i-- {
		for ci := 1; ci <= 2; ci++ {
			for dir := 0; dir < 2; dir++ {
				roots = append(roots, &root{c: &Case{Len: lengths[i], Cipher: ci, KW: chunkKW, Dir: dir}})
			}
		}
	}
	done = r.Parallel(len(roots), func(i int) {
		masks, fails := runCase(roots[i].c, true)
		report(roots[i].c, fails)
		r.Count(1, 1)
		roots[i].succ = encenv.Successors(nil, masks)
		for e := range masks {
			roots[i].calls[e] = len(masks[e])
		}
	})
	rootsDone := done == len(roots)
	type task struct {
		base *Case
		p    encenv.Placement
	}
	var tasks []task
	for _, rt := range roots {
		for _, p := range rt.succ {
			tasks = append(tasks, task{rt.c, p})
		}
	}
	var mu sync.Mutex
	perLevel := make([]int64, bound+1)
	perLevel[0] = int64(done)
	cut := false
	var explore func(base *Case, devs []encenv.Placement)
	explore = func(base *Case, devs []encenv.Placement) {
		c := *base
		c.Devs = devs
		last := len(devs) == bound
		masks, fails := runCase(&c, !last)
		report(&c, fails)
		r.Count(1, 1)
		mu.Lock()
		perLevel[len(devs)]++
		mu.Unlock()
		if last {
			return
		}
		for _, s := range encenv.Successors(devs, masks) {
			if r.Expired() {
				mu.Lock()
				cut = true
				mu.Unlock()
				return
			}
			explore(base, append(devs[:len(devs):len(devs)], s))
		}
	}
	done = r.Parallel(len(tasks), func(i int) {
		explore(tasks[i].base, []encenv.Placement{tasks[i].p})
	})
	r.Set("deviation_runs_per_level", perLevel)
	lap("S3")
	if rootsDone && done == len(tasks) && !cut {
		r.Space(fmt.Sprintf("S3 deviation-bounded chunking: all placements of <= %d deviations, lengths %v x 2 ciphers x 2 directions under %s (runs per number of deviations: %v)", bound, lengths, chunkKW, perLevel))
	} else {
		r.Incomplete(fmt.Sprintf("S3 deviation-bounded chunking: %d of %d first-level subtrees finished (runs per number of deviations so far: %v)", done, len(tasks), perLevel))
	}
	if r.Thorough() {
		bigWG.Wait()
		r.Space(fmt.Sprintf("S4 one streamed document of 65538 segments (%d bytes of zeros, AES-GCM, %s), kit -> streaming reference and streaming reference -> kit (%.0f s and %.0f s, concurrent with S1-S3)", bigLen, chunkKW, bigSecs[0], bigSecs[1]))
		r.Set("big_stream_seconds", bigSecs)
		lap("S4_wait")
	}
	if len(roots) > 0 && len(roots[0].succ) > 0 {
		rt := roots[0]
		r.Sample(map[string]any{"case": rt.c, "environment_calls_under_default_chunking": map[string]int{
			envNames[0]: rt.calls[0], envNames[1]: rt.calls[1], envNames[2]: rt.calls[2], envNames[3]: rt.calls[3]},
			"single_deviation_placements": len(rt.succ), "example_placement": rt.succ[len(rt.succ)/2]})
	}
}
