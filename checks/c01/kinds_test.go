package c01

import (
	"bytes"
	"errors"
	"fmt"
	"io"
	"os"
	"syscall"

	v1 "github.com/dapr/kit/schemes/enc/v1"

	"verif/checks/encenv"
	"verif/ref/encv1ref"
)

// S8: the KIND of reader handed to Encrypt (plaintext) and Decrypt
// (ciphertext). io.Reader is all the API asks for; an implementation that
// type-asserts for more (io.Seeker to rewind after the header, io.WriterTo /
// io.ReaderAt / io.ByteReader for a fast path) must still work when those
// methods exist and work, when they exist and fail (an *os.File on a pipe has
// a Seek method that returns ESPIPE), and when they do not exist.

var readerKinds = []string{"plain", "bytes.Reader", "os.File", "seek-fails", "os.Pipe", "extras-consistent", "extras-fail"}

// onlyReader hides every method but Read.
type onlyReader struct{ r io.Reader }

func (o onlyReader) Read(p []byte) (int, error) { return o.r.Read(p) }

var errNotSeekable = &os.PathError{Op: "seek", Path: "|0", Err: syscall.ESPIPE}

// seekFails reads fine and has a Seek method that always fails.
type seekFails struct{ r *bytes.Reader }

func (s seekFails) Read(p []byte) (int, error)     { return s.r.Read(p) }
func (s seekFails) Seek(int64, int) (int64, error) { return 0, errNotSeekable }

// extras implements Read plus the optional interfaces, all on one position;
// with fail set every method but Read returns an error.
type extras struct {
	data []byte
	pos  int
	fail bool
}

var errExtra = errors.New("optional method not supported by this reader")

func (e *extras) Read(p []byte) (int, error) {
	if e.pos >= len(e.data) {
		return 0, io.EOF
	}
	n := copy(p, e.data[e.pos:])
	e.pos += n
	return n, nil
}

func (e *extras) Seek(off int64, whence int) (int64, error) {
	if e.fail {
		return 0, errExtra
	}
	var abs int64
	switch whence {
	case io.SeekStart:
		abs = off
	case io.SeekCurrent:
		abs = int64(e.pos) + off
	case io.SeekEnd:
		abs = int64(len(e.data)) + off
	}
	if abs < 0 {
		return 0, errors.New("negative position")
	}
	if abs > int64(len(e.data)) {
		abs = int64(len(e.data))
	}
	e.pos = int(abs)
	return abs, nil
}

func (e *extras) ReadAt(p []byte, off int64) (int, error) {
	if e.fail {
		return 0, errExtra
	}
	if off >= int64(len(e.data)) {
		return 0, io.EOF
	}
	n := copy(p, e.data[off:])
	if n < len(p) {
		return n, io.EOF
	}
	return n, nil
}

func (e *extras) WriteTo(w io.Writer) (int64, error) {
	if e.fail {
		return 0, errExtra
	}
	n, err := w.Write(e.data[e.pos:])
	e.pos += n
	return int64(n), err
}

func (e *extras) ReadByte() (byte, error) {
	if e.fail {
		return 0, errExtra
	}
	if e.pos >= len(e.data) {
		return 0, io.EOF
	}
	e.pos++
	return e.data[e.pos-1], nil
}

func scratchDir() string {
	if d := os.Getenv("VERIF_SCRATCH"); d != "" {
		return d
	}
	return os.TempDir()
}

// makeReader builds a reader of the given kind over data; frame is the size of
// the writes that feed an os.Pipe (0 = one write).
func makeReader(kind string, data []byte, frame int) (io.Reader, func(), error) {
	nop := func() {}
	switch kind {
	case "plain":
		return onlyReader{bytes.NewReader(data)}, nop, nil
	case "bytes.Reader":
		return bytes.NewReader(data), nop, nil
	case "seek-fails":
		return seekFails{bytes.NewReader(data)}, nop, nil
	case "extras-consistent":
		return &extras{data: data}, nop, nil
	case "extras-fail":
		return &extras{data: data, fail: true}, nop, nil
	case "os.File":
		f, err := os.CreateTemp(scratchDir(), "c01-kind-*")
		if err != nil {
			return nil, nop, err
		}
		cleanup := func() { f.Close(); os.Remove(f.Name()) }
		if _, err := f.Write(data); err != nil {
			cleanup()
			return nil, nop, err
		}
		if _, err := f.Seek(0, io.SeekStart); err != nil {
			cleanup()
			return nil, nop, err
		}
		return f, cleanup, nil
	case "os.Pipe":
		r, w, err := os.Pipe()
		if err != nil {
			return nil, nop, err
		}
		go func() {
			defer w.Close()
			d := data
			for len(d) > 0 {
				n := len(d)
				if frame > 0 && n > frame {
					n = frame
				}
				if _, err := w.Write(d[:n]); err != nil {
					return
				}
				d = d[n:]
			}
		}()
		return r, func() { r.Close() }, nil
	}
	return nil, nop, fmt.Errorf("unknown reader kind %q", kind)
}

// runKinds is one pipeline with readers of the given kinds.
func runKinds(c *Case) (fails []failure) {
	fail := func(key, f string, a ...any) { fails = append(fails, failure{key, fmt.Sprintf(f, a...)}) }
	kw := encenv.KWByLabel(c.KW)
	p := encenv.Pattern(c.Len, byte(0x90+c.Cipher))
	var doc []byte
	if c.Dir == 0 {
		in, cleanup, err := makeReader(c.KindP, p, c.KindFrame)
		if err != nil {
			fail("machinery", "%v", err)
			return
		}
		defer cleanup()
		cp := ciphers[c.Cipher]
		stream, err := v1.Encrypt(in, v1.EncryptOptions{WrapKeyFn: kw.WrapFn(encKeyName), Algorithm: v1.KeyAlgorithm(kw.Name), KeyName: encKeyName, Cipher: &cp})
		if err != nil {
			fail("reader-kind:encrypt-returns-error", "Encrypt of a %s plaintext source: %v", c.KindP, err)
			return
		}
		doc, err = (&encenv.Consumer{}).ReadAll(stream, c.Len+2048)
		if err != nil {
			fail("reader-kind:encrypt-stream-error", "Encrypt of a %s plaintext source: %v (after %d bytes)", c.KindP, err, len(doc))
			return
		}
		got, err := encv1ref.Decrypt(doc, "", kw.RefUnwrapFn(encKeyName))
		if err != nil || !bytes.Equal(got, p) {
			fail("reader-kind:reference-rejects-kit-output", "reference implementation on kit's ciphertext of a %s plaintext source: %v, %s", c.KindP, err, diff(got, p))
			return
		}
	} else {
		fk := encenv.Pattern(32, byte(0xD0+c.Len%31))
		wfk, err := kw.RefWrap(fk)
		if err == nil {
			doc, err = encv1ref.Encrypt(p, encv1ref.EncryptParams{FileKey: fk, NoncePrefix: encenv.Pattern(7, 0x66), Cipher: c.Cipher, KW: kw.ID, WFK: wfk, KeyName: encKeyName, FieldOrder: []string{"np", "cph", "wfk", "kw", "k"}})
		}
		if err != nil {
			fail("machinery", "%v", err)
			return
		}
	}
	in, cleanup, err := makeReader(c.KindC, doc, c.KindFrame)
	if err != nil {
		fail("machinery", "%v", err)
		return
	}
	defer cleanup()
	stream, err := encenv.KitDecryptRaw(in, v1.DecryptOptions{UnwrapKeyFn: kw.UnwrapFn(encKeyName, nil, nil)})
	if err != nil {
		fail("reader-kind:decrypt-returns-error", "Decrypt rejects a valid document read from a %s source: %v", c.KindC, err)
		return
	}
	out, err := (&encenv.Consumer{}).ReadAll(stream, c.Len)
	switch {
	case err != nil:
		fail("reader-kind:decrypt-stream-error", "Decrypt of a valid document read from a %s source: %v (after %d of %d bytes)", c.KindC, err, len(out), len(p))
	case !bytes.Equal(out, p):
		fail("reader-kind:plaintext-differs", "Decrypt of a valid document read from a %s source: %s", c.KindC, diff(out, p))
	}
	return
}
