package c01

import (
	"bufio"
	"bytes"
	"crypto/hmac"
	"encoding/base64"
	"errors"
	"fmt"
	"io"
	"time"

	v1 "github.com/dapr/kit/schemes/enc/v1"

	"verif/checks/encenv"
	"verif/ref/encv1ref"
)

// One streamed document of 65 538 segments (65 537 full segments of zeros and
// one byte: 4 295 032 833 bytes), never held in memory, so that the segment
// counters 65536 and 65537 - the first that need the second byte of the
// BE32 counter - occur in a real document. Direction 0: kit encrypts, a
// streaming rendering of the reference decrypts; direction 1: the streaming
// reference encrypts, kit decrypts.

const bigLen = int64(65537)*encv1ref.SegmentSize + 1

type zeroReader struct{ left int64 }

func (z *zeroReader) Read(p []byte) (int, error) {
	if z.left == 0 {
		return 0, io.EOF
	}
	n := int64(len(p))
	if n > z.left {
		n = z.left
	}
	clear(p[:n])
	z.left -= n
	return int(n), nil
}

var zeroSeg = make([]byte, encv1ref.SegmentSize)

// refDecryptStream reads a document from r the way encv1ref.Decrypt does, one
// segment at a time, and returns the number of plaintext bytes, all of which
// must be zero.
func refDecryptStream(r io.Reader, kw *encenv.KW, keyName string) (int64, error) {
	br := bufio.NewReaderSize(r, 1<<17)
	var lines [3][]byte
	for i := range lines {
		l, err := br.ReadBytes('\n')
		if err != nil {
			return 0, fmt.Errorf("%w: header item %d: %v", encv1ref.ErrHeader, i+1, err)
		}
		lines[i] = l
	}
	if string(lines[0]) != encv1ref.SchemeLine+"\n" {
		return 0, encv1ref.ErrHeader
	}
	m, err := encv1ref.ParseManifest(bytes.TrimSuffix(lines[1], []byte("\n")))
	if err != nil {
		return 0, err
	}
	fk, err := kw.RefUnwrapFn(keyName)(m.WFK, m.KW, m.KeyName)
	if err != nil {
		return 0, fmt.Errorf("%w: %v", encv1ref.ErrUnwrap, err)
	}
	mac, err := base64.StdEncoding.DecodeString(string(bytes.TrimSuffix(lines[2], []byte("\n"))))
	if err != nil || !hmac.Equal(mac, encv1ref.HeaderMAC(fk, append(append([]byte{}, lines[0]...), lines[1]...))) {
		return 0, encv1ref.ErrMAC
	}
	a, err := encv1ref.NewAEAD(fk, m.NoncePrefix, m.Cipher)
	if err != nil {
		return 0, err
	}
	seg := make([]byte, encv1ref.SegmentSize+encv1ref.TagSize)
	var total int64
	for i := uint32(0); ; i++ {
		n, err := io.ReadFull(br, seg)
		if err != nil && err != io.ErrUnexpectedEOF && err != io.EOF {
			return total, err
		}
		if n == 0 {
			return total, nil // only reached for an empty payload
		}
		_, perr := br.Peek(1)
		last := perr != nil
		if n <= encv1ref.TagSize {
			return total, fmt.Errorf("%w: segment %d", encv1ref.ErrPayload, i)
		}
		pt, err := a.Open(seg[:0], encv1ref.Nonce(m.NoncePrefix, i, last), seg[:n], nil)
		if err != nil {
			return total, fmt.Errorf("%w: segment %d (last=%v)", encv1ref.ErrSegment, i, last)
		}
		if !bytes.Equal(pt, zeroSeg[:len(pt)]) {
			return total, fmt.Errorf("segment %d does not decrypt to zeros", i)
		}
		total += int64(len(pt))
		if last {
			return total, nil
		}
	}
}

// refEncryptStream writes the document for bigLen zeros to w, segment by segment.
func refEncryptStream(w io.Writer, kw *encenv.KW, keyName string, cph int) error {
	fk := encenv.Pattern(32, 0xB1)
	np := encenv.Pattern(7, 0xB2)
	wfk, err := kw.RefWrap(fk)
	if err != nil {
		return err
	}
	mj, err := encv1ref.EncodeManifest(&encv1ref.Manifest{HasKeyName: true, KeyName: keyName, KW: kw.ID, WFK: wfk, Cipher: cph, NoncePrefix: np}, []string{"np", "cph", "wfk", "kw", "k"})
	if err != nil {
		return err
	}
	if _, err := w.Write(encv1ref.BuildHeader(fk, mj)); err != nil {
		return err
	}
	a, err := encv1ref.NewAEAD(fk, np, cph)
	if err != nil {
		return err
	}
	nseg := uint32((bigLen + encv1ref.SegmentSize - 1) / encv1ref.SegmentSize)
	buf := make([]byte, 0, encv1ref.SegmentSize+encv1ref.TagSize)
	left := bigLen
	for i := uint32(0); i < nseg; i++ {
		n := int64(encv1ref.SegmentSize)
		if n > left {
			n = left
		}
		left -= n
		ct := a.Seal(buf[:0], encv1ref.Nonce(np, i, i == nseg-1), zeroSeg[:n], nil)
		if _, err := w.Write(ct); err != nil {
			return err
		}
	}
	return nil
}

// bigStream runs one direction and returns the failures and the seconds taken.
func bigStream(dir int) (fails []failure, secs float64) {
	t0 := time.Now()
	defer func() { secs = time.Since(t0).Seconds() }()
	fail := func(key, f string, a ...any) { fails = append(fails, failure{key, fmt.Sprintf(f, a...)}) }
	kw := encenv.KWByLabel(chunkKW)
	if dir == 0 {
		src := &encenv.Source{FailAt: -1, Stream: &zeroReader{left: bigLen}}
		cp := v1.CipherAESGCM
		stream, err := encenv.KitEncrypt(src, v1.EncryptOptions{WrapKeyFn: kw.WrapFn(encKeyName), Algorithm: v1.KeyAlgorithm(kw.Name), KeyName: encKeyName, Cipher: &cp})
		if err != nil {
			fail("encrypt-returns-error", "Encrypt: %v", err)
			return
		}
		n, err := refDecryptStream(stream, kw, encKeyName)
		if err != nil {
			fail("reference-rejects-kit-output:"+refErrClass(err), "reference implementation cannot decrypt kit's %d-byte (65538-segment) ciphertext: %v (after %d plaintext bytes)", bigLen, err, n)
			io.Copy(io.Discard, stream) // let kit's goroutine finish
		} else if n != bigLen {
			fail("reference-decrypts-kit-output-differently", "reference decryption of kit's 65538-segment ciphertext: %d bytes, want %d", n, bigLen)
		}
		return
	}
	pr, pw := io.Pipe()
	go func() { pw.CloseWithError(refEncryptStream(pw, kw, encKeyName, encv1ref.CipherAESGCM)) }()
	src := &encenv.Source{FailAt: -1, Stream: pr}
	stream, err := encenv.KitDecrypt(src, v1.DecryptOptions{UnwrapKeyFn: kw.UnwrapFn(encKeyName, nil, nil)})
	if err != nil {
		pr.CloseWithError(errors.New("abandoned"))
		fail("kit-vs-reference-document:decrypt-returns-error", "kit's Decrypt rejects the reference implementation's 65538-segment document: %v", err)
		return
	}
	buf := make([]byte, 1<<17)
	var total int64
	for {
		n, err := stream.Read(buf)
		if !bytes.Equal(buf[:n], zeroSeg[:0:0]) && !allZero(buf[:n]) {
			fail("kit-vs-reference-document:plaintext-differs", "kit decrypts the reference implementation's 65538-segment document to non-zero bytes near offset %d", total)
			pr.CloseWithError(errors.New("abandoned"))
			io.Copy(io.Discard, stream)
			return
		}
		total += int64(n)
		if err == io.EOF {
			break
		}
		if err != nil {
			pr.CloseWithError(errors.New("abandoned"))
			fail("kit-vs-reference-document:decrypt-stream-error", "kit fails to decrypt the reference implementation's 65538-segment document: %v (after %d of %d bytes)", err, total, bigLen)
			return
		}
	}
	if total != bigLen {
		fail("kit-vs-reference-document:plaintext-differs", "kit decrypts the reference implementation's 65538-segment document to %d bytes, want %d", total, bigLen)
	}
	return
}

func allZero(b []byte) bool {
	for len(b) > 0 {
		n := len(b)
		if n > len(zeroSeg) {
			n = len(zeroSeg)
		}
		if !bytes.Equal(b[:n], zeroSeg[:n]) {
			return false
		}
		b = b[n:]
	}
	return true
}
