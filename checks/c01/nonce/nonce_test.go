// Package nonce is the C01 part that checks the format clause
//
//	nonce = nonce_prefix (7 bytes) || i (BE32) || last_segment (1 byte)
//
// for segment counters no affordable document reaches: an in-package accessor
// (access.go.txt, added through the build overlay) exposes kit's per-segment
// nonce and its EncryptSegment/DecryptSegment on an explicit counter; both are
// compared with the reference implementation's reading of the README.
package nonce

import (
	"bytes"
	"encoding/json"
	"fmt"
	"testing"

	v1 "github.com/dapr/kit/schemes/enc/v1"

	"verif/checks/encenv"
	"verif/enumx"
	"verif/ref/encv1ref"
)

func TestCheck(t *testing.T) { enumx.Main(t, "C01", "nonce", run) }

// Case is one (prefix, counter, finality, cipher) point.
type Case struct {
	Prefix  int    `json:"prefix"`
	Counter uint32 `json:"counter"`
	Last    bool   `json:"last"`
	Cipher  int    `json:"cipher"` // 0 = nonce only, 1 = AES-GCM segment, 2 = CHACHA20-POLY1305 segment
}

var counters = func() []uint32 {
	base := []uint32{0, 1, 2, 255, 256, 257, 65535, 65536, 65537, 1<<24 - 1, 1 << 24, 1<<24 + 1, 1 << 31, 1<<32 - 2, 1<<32 - 1}
	// plus every single-bit counter and every counter with one byte set to 0xA5
	for b := 0; b < 32; b++ {
		base = append(base, 1<<b)
	}
	for by := 0; by < 4; by++ {
		base = append(base, 0xA5<<(8*by))
	}
	seen := map[uint32]bool{}
	var out []uint32
	for _, c := range base {
		if !seen[c] {
			seen[c] = true
			out = append(out, c)
		}
	}
	return out
}()

var prefixes = [][]byte{
	{0, 0, 0, 0, 0, 0, 0},
	{0xFF, 0xFF, 0xFF, 0xFF, 0xFF, 0xFF, 0xFF},
	{1, 2, 3, 4, 5, 6, 7},
	[]byte("crypto!"),
}

var ciphers = []v1.Cipher{"", v1.CipherAESGCM, v1.CipherChaCha20Poly1305}

func evalCase(c *Case) (key, msg string) {
	np := prefixes[c.Prefix]
	want := encv1ref.Nonce(np, c.Counter, c.Last)
	if c.Cipher == 0 {
		got := v1.VerifNonce(append([]byte{}, np...), c.Counter, c.Last)
		if !bytes.Equal(got, want) {
			return "format:segment-nonce", fmt.Sprintf("nonce of segment %d (last=%v) under prefix %x is %x, the README prescribes prefix || BE32(counter) || last flag = %x", c.Counter, c.Last, np, got, want)
		}
		return "", ""
	}
	fk := encenv.Pattern(32, 0x42)
	data := encenv.Pattern(33, byte(c.Counter))
	// the reference seals one segment with the README's nonce; kit must produce the same bytes and open them
	refSeg, err := encv1ref.SealOne(data, fk, np, c.Cipher, c.Counter, c.Last)
	if err != nil {
		return "machinery", err.Error()
	}
	kitSeg, err := v1.VerifSegment(true, fk, np, ciphers[c.Cipher], data, c.Counter, c.Last)
	if err != nil || !bytes.Equal(kitSeg, refSeg) {
		return "format:segment-nonce", fmt.Sprintf("EncryptSegment for segment %d (last=%v, cipher %s) differs from the segment sealed as the README prescribes (err=%v)", c.Counter, c.Last, ciphers[c.Cipher], err)
	}
	pt, err := v1.VerifSegment(false, fk, np, ciphers[c.Cipher], refSeg, c.Counter, c.Last)
	if err != nil || !bytes.Equal(pt, data) {
		return "format:segment-nonce", fmt.Sprintf("DecryptSegment for segment %d (last=%v, cipher %s) does not open the segment sealed as the README prescribes (err=%v)", c.Counter, c.Last, ciphers[c.Cipher], err)
	}
	return "", ""
}

func run(r *enumx.Run, replay *enumx.ReplayCase) {
	if replay != nil {
		var c Case
		if err := json.Unmarshal(replay.Case, &c); err != nil {
			panic(err)
		}
		if key, msg := evalCase(&c); key != "" {
			r.Violation(key, msg, &c)
		}
		return
	}
	r.Rule("format clause 'nonce = 7-byte prefix || BE32(counter) || last flag' beyond the counters a document of affordable size reaches: kit's nonceForSegment and its EncryptSegment/DecryptSegment (reached through an in-package accessor added by the build overlay) against the reference implementation, for every counter in {0,1,2,255,256,257,65535,65536,65537,2^24-1,2^24,2^24+1,2^31,2^32-2,2^32-1} + every power of two + 0xA5 in each byte position, x last in {false,true} x 4 nonce prefixes x {nonce bytes, AES-GCM segment, CHACHA20-POLY1305 segment}. Then the nonce bytes alone for EVERY counter of a contiguous range (quick: 0..2^26-1; thorough: the whole 32-bit space) x both finalities under one prefix. Every evaluation is a distinct point.")
	var cases []*Case
	for p := range prefixes {
		for _, ctr := range counters {
			for _, last := range []bool{false, true} {
				for cph := 0; cph <= 2; cph++ {
					cases = append(cases, &Case{Prefix: p, Counter: ctr, Last: last, Cipher: cph})
				}
			}
		}
	}
	done := r.Parallel(len(cases), func(i int) {
		if key, msg := evalCase(cases[i]); key != "" {
			b, _ := json.Marshal(cases[i])
			r.Violation(key, msg+"\ncase: "+string(b), cases[i])
		}
		r.Count(1, 1)
	})
	if done == len(cases) {
		r.Space(fmt.Sprintf("segment nonces: %d points = %d prefixes x %d counters x 2 finalities x 3 views", len(cases), len(prefixes), len(counters)))
	} else {
		r.Incomplete(fmt.Sprintf("segment nonces: %d of %d", done, len(cases)))
	}
	r.Sample(cases[len(cases)/2])
	r.Sample(&Case{Prefix: 3, Counter: 65536, Last: false, Cipher: 1})
	sweep(r)
}

// sweep compares kit's nonce with the README's for EVERY counter of a range:
// the whole 32-bit counter space in the thorough tier, its first 2^26 values
// in the quick tier, both finalities, under one prefix. Chunks of 2^16.
func sweep(r *enumx.Run) {
	const chunk = 1 << 16
	total := uint64(1) << 26
	if r.Thorough() {
		total = 1 << 32
	}
	np := prefixes[2]
	n := int(total / chunk)
	done := r.Parallel(n, func(i int) {
		var want [12]byte
		copy(want[:7], np)
		lo := uint64(i) * chunk
		for c := lo; c < lo+chunk; c++ {
			ctr := uint32(c)
			want[7], want[8], want[9], want[10] = byte(ctr>>24), byte(ctr>>16), byte(ctr>>8), byte(ctr)
			for l := 0; l < 2; l++ {
				want[11] = byte(l)
				got := v1.VerifNonce(np, ctr, l == 1)
				if !bytes.Equal(got, want[:]) {
					cs := &Case{Prefix: 2, Counter: ctr, Last: l == 1}
					r.Violation("format:segment-nonce", fmt.Sprintf("nonce of segment %d (last=%v) under prefix %x is %x, the README prescribes prefix || BE32(counter) || last flag = %x", ctr, l == 1, np, got, want[:]), cs)
					r.Count(int64(c-lo)*2, int64(c-lo)*2)
					return // one report per chunk
				}
			}
		}
		r.Count(2*chunk, 2*chunk)
	})
	if done == n {
		r.Space(fmt.Sprintf("segment nonce sweep: every counter 0..%d x 2 finalities (%d points), nonce bytes only", total-1, 2*total))
	} else {
		r.Incomplete(fmt.Sprintf("segment nonce sweep: %d of %d chunks of 65536 counters", done, n))
	}
}
