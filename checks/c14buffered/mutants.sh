#!/bin/sh
# Demonstrates that the C14 "buffered" part detects deliberate
# property-breaking changes. /repo is never touched (see c14ring/mutants.sh).
set -e
export GOFLAGS=-mod=mod GOPROXY=off GOSUMDB=off GOTOOLCHAIN=local
cd /verif
D=$(mktemp -d /tmp/c14buf-mut.XXXXXX)
trap 'rm -rf "$D"' EXIT
F="$D/g/src/ring/buffered.go"
gen() { rm -rf "$D/g"; ./bin/mcgen -noconc -add ring=/verif/checks/c14buffered/access.go.txt -out "$D/g" github.com/dapr/kit/ring; }
runit() { echo "== $1"; VERIF_ROOT="$D/root" go test -tags unit -overlay "$D/g/overlay.json" -vet=off ./checks/c14buffered -run TestCheck -v -args -tier quick 2>&1 | grep -v "^ok\|^FAIL\|^---\|^PASS\|^=== RUN\|^exit status" | cut -c1-400 | awk '/^FINDING/{k=$0; getline m; n[k]++; if(n[k]==1) first[k]=m; next} {print} END{for(k in n) print k " x" n[k] "\n" first[k]}'; }
changed() { cmp -s "$F" "$D/orig.go" && { echo "mutation did not apply"; exit 2; } || true; }

gen; cp "$F" "$D/orig.go"
runit "baseline (unchanged code)"

gen; perl -0pi -e 's/> b.bsize\*2 \{\n\t\tb.ring.Move\(b.end\).Unlink/> b.bsize {\n\t\tb.ring.Move(b.end - 1).Unlink/' "$F"; changed
runit "b (equivalent as a queue, must stay clean): shrink when more than bsize (not 2*bsize) slots are free, unlink starting one node early"

gen; perl -0pi -e 's/> b.bsize\*2 \{/> b.bsize {/' "$F"; changed
runit "b-threshold-only (equivalent as a queue, must stay clean): shrink when more than bsize slots are free"

gen; perl -0pi -e 's/b.ring.Move\(b.end\).Unlink/b.ring.Move(b.end - 1).Unlink/' "$F"; changed
runit "b-early-only (equivalent as a queue, must stay clean): unlink starting one node early at the correct threshold"

gen; perl -0pi -e 's/> b.bsize\*2 \{\n\t\tb.ring.Move\(b.end\).Unlink/> b.bsize {\n\t\tb.ring.Move(b.end - 2).Unlink/' "$F"; changed
runit "b2: shrink when more than bsize slots are free, unlink starting TWO nodes early (drops the newest element)"

gen; perl -0pi -e 's/> b.bsize\*2 \{/> 0 {/' "$F"; changed
runit "b3: shrink by bsize as soon as any slot is free"

gen; perl -0pi -e 's/\tb.ring.Value = nil\n\tb.ring = b.ring.Next\(\)\n\n\tb.end--/\tb.ring.Value = nil\n\tb.end--\n\tif b.end > 0 {\n\t\tb.ring = b.ring.Next()\n\t}/' "$F"; changed
runit "c (equivalent as a queue, must stay clean): RemoveFront does not advance the head when the size hits zero (slot cleared)"

gen; perl -0pi -e 's/\tb.ring.Value = nil\n\tb.ring = b.ring.Next\(\)\n\n\tb.end--/\tb.end--\n\tif b.end > 0 {\n\t\tb.ring.Value = nil\n\t\tb.ring = b.ring.Next()\n\t}/' "$F"; changed
runit "c2: RemoveFront neither clears nor advances the head when the size hits zero"

gen; perl -0pi -e 's/if b.end >= b.ring.Len\(\) \{/if b.end > b.ring.Len() {/' "$F"; changed
runit "g: AppendBack grows one element too late (overwrites the front when full)"

gen; perl -0pi -e 's/if b.end >= b.ring.Len\(\) \{/if b.ring.Move(b.end).Value != nil {/' "$F"; changed
runit "n: AppendBack detects a full ring by a non-nil slot after the last element (nil element at the front of a full ring is overwritten)"
