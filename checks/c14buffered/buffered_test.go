// Package c14buffered is the sequential "buffered" part of C14: kit's
// ring.Buffered[T] must be a FIFO queue — Front, RemoveFront, Range and Len
// agree with a plain slice queue for every operation sequence and every
// initial and buffer size.
//
// For every configuration (initial size, buffer size) in 0..5 x 0..5 an
// explicit-state breadth-first search runs on the real code to the FIXPOINT
// of canonical states with queue length <= lenBound. A state is the shortest
// operation history reaching it; a successor is produced by replaying that
// history on a FRESH Buffered plus one operation. The canonical key is the
// queue length of the reference together with the COMPLETE state of the real
// object read through an in-package accessor (capacity, end, bsize, every
// slot as nil / rank in the queue / stale, link consistency), so two histories
// merge only when the real objects are identical up to a renaming of the
// opaque values. Afterwards every grow/shrink cycle (fill to P, drain to Q,
// repeat; 60 mutating operations) is walked on ONE long-lived object.
package c14buffered

import (
	"encoding/json"
	"fmt"
	"strings"
	"sync"
	"testing"

	kring "github.com/dapr/kit/ring"

	"verif/enumx"
)

// hop is one operation: 'A' AppendBack(fresh), 'R' RemoveFront, 'F' Front,
// 'L' Len, 'G' Range stopping after N elements (N = len+1: never stops).
type hop struct {
	K byte `json:"k"`
	N int  `json:"n,omitempty"`
}

func (o hop) String() string {
	switch o.K {
	case 'A':
		return "AppendBack"
	case 'R':
		return "RemoveFront"
	case 'F':
		return "Front"
	case 'L':
		return "Len"
	}
	return fmt.Sprintf("Range(stop after %d)", o.N)
}

// histString renders a history compactly: runs of equal operations.
func histString(h []hop) string {
	var sb strings.Builder
	for i := 0; i < len(h); {
		j := i
		for j < len(h) && h[j] == h[i] {
			j++
		}
		if sb.Len() > 0 {
			sb.WriteString(" ")
		}
		if j-i > 1 {
			fmt.Fprintf(&sb, "%dx", j-i)
		}
		sb.WriteString(h[i].String())
		i = j
	}
	return sb.String()
}

type bw struct {
	isz, bsz int
	b        *kring.Buffered[int]
	q        []*int // the reference: a plain slice queue
	ids      int
}

func newBW(isz, bsz int) *bw {
	return &bw{isz: isz, bsz: bsz, b: kring.NewBuffered[int](isz, bsz)}
}

func pv(p *int) string {
	if p == nil {
		return "nil"
	}
	return fmt.Sprintf("v%d", *p)
}

func pvs(ps []*int) string {
	s := make([]string, len(ps))
	for i, p := range ps {
		s[i] = pv(p)
	}
	return "[" + strings.Join(s, " ") + "]"
}

func (w *bw) front() *int {
	if len(w.q) == 0 {
		return nil // "no element": RemoveFront is documented to return the next value
	}
	return w.q[0]
}

// apply performs one operation on the real object and on the slice queue and
// compares what the operation returns. what == "" when they agree.
func (w *bw) apply(o hop) (what, msg string) {
	defer func() {
		if e := recover(); e != nil {
			what, msg = o.String()+":panic", fmt.Sprintf("%s panicked: %v", o, e)
		}
	}()
	switch o.K {
	case 'A':
		v := new(int)
		w.ids++
		*v = w.ids
		w.b.AppendBack(v)
		w.q = append(w.q, v)
	case 'R':
		if len(w.q) == 0 {
			panic("harness: RemoveFront on an empty queue is outside the alphabet")
		}
		got := w.b.RemoveFront()
		w.q = w.q[1:]
		if want := w.front(); got != want {
			return "RemoveFront", fmt.Sprintf("RemoveFront returned %s, the queue's new front is %s", pv(got), pv(want))
		}
	case 'F':
		if got, want := w.b.Front(), w.front(); got != want {
			return "Front", fmt.Sprintf("Front returned %s, the queue's front is %s", pv(got), pv(want))
		}
	case 'L':
		if got := w.b.Len(); got != len(w.q) {
			return "Len", fmt.Sprintf("Len returned %d, the queue holds %d", got, len(w.q))
		}
	case 'G':
		var got []*int
		w.b.Range(func(p *int) bool {
			got = append(got, p)
			return len(got) < o.N && len(got) < len(w.q)+3
		})
		want := w.q
		if o.N < len(want) {
			want = want[:o.N]
		}
		same := len(got) == len(want)
		for i := 0; same && i < len(got); i++ {
			same = got[i] == want[i]
		}
		if !same {
			return "Range", fmt.Sprintf("Range stopping after %d elements yielded %s, the queue gives %s", o.N, pvs(got), pvs(want))
		}
	default:
		panic("unknown op")
	}
	return "", ""
}

// key is the canonical state: reference queue length + complete real state.
func (w *bw) key(limit int) string {
	end, bs, slots, closed, prevOK := w.b.VerifSnapshot(limit)
	var sb strings.Builder
	fmt.Fprintf(&sb, "n%d c%d e%d b%d", len(w.q), len(slots), end, bs)
	if !closed {
		sb.WriteString(" OPEN")
	}
	if !prevOK {
		sb.WriteString(" PREVBAD")
	}
	rank := map[*int]int{}
	for i, p := range w.q {
		rank[p] = i
	}
	stale := map[*int]int{}
	sb.WriteString(" ")
	for i := 0; i < len(slots); {
		p := slots[i]
		if p == nil {
			j := i
			for j < len(slots) && slots[j] == nil {
				j++
			}
			fmt.Fprintf(&sb, ".%d", j-i)
			i = j
			continue
		}
		if r, ok := rank[p]; ok {
			// run of consecutive ranks
			j := i
			for j < len(slots) && slots[j] != nil {
				r2, ok2 := rank[slots[j]]
				if !ok2 || r2 != r+(j-i) {
					break
				}
				j++
			}
			fmt.Fprintf(&sb, "q%d-%d", r, r+(j-i)-1)
			i = j
			continue
		}
		s, ok := stale[p]
		if !ok {
			s = len(stale)
			stale[p] = s
		}
		fmt.Fprintf(&sb, "s%d", s)
		i++
	}
	return sb.String()
}

func replayHist(isz, bsz int, h []hop) *bw {
	w := newBW(isz, bsz)
	for _, o := range h {
		w.apply(o)
	}
	return w
}

type caseT struct {
	Isz  int    `json:"initial_size"`
	Bsz  int    `json:"buffer_size"`
	Mode string `json:"mode"` // "bfs": replay silently, check the last op; "walk": one object, observed after every op
	Hist []hop  `json:"history"`
}

type violation struct {
	key, msg string
	c        caseT
}

func mkViol(isz, bsz int, mode string, h []hop, what, msg string) *violation {
	return &violation{
		key: "buffered:" + what,
		msg: fmt.Sprintf("NewBuffered(%d,%d) after [%s]: %s", isz, bsz, histString(h[:len(h)-1]), msg),
		c:   caseT{isz, bsz, mode, append([]hop{}, h...)},
	}
}

type bstate struct {
	hist  []hop
	qlen  int
	depth int
}

type cfgResult struct {
	isz, bsz        int
	states          int64
	trans, nt       int64
	maxDepth        int
	statesWithin60  int64
	viols           []*violation
	incomplete      string
	seen            map[string]bool
	maxCap          int
	walkTrans       int64
	walks           int64
	walkOutside     int64
	walkOutsideDemo string
}

const stateCap = 400000

// readOps lists the non-mutating operations for a queue of length n.
func readOps(n int) []hop {
	out := []hop{{K: 'L'}, {K: 'F'}}
	for k := 1; k <= n+1; k++ {
		out = append(out, hop{K: 'G', N: k})
	}
	return out
}

func bfsConfig(r *enumx.Run, isz, bsz, lenBound int) *cfgResult {
	res := &cfgResult{isz: isz, bsz: bsz, seen: map[string]bool{}}
	limit := 4 * (lenBound + 16)
	root := newBW(isz, bsz)
	res.seen[root.key(limit)] = true
	res.states = 1
	res.statesWithin60 = 1
	queue := []bstate{{nil, 0, 0}}
	enqueue := func(h []hop, o hop, w *bw, depth int) {
		k := w.key(limit)
		if res.seen[k] {
			return
		}
		res.seen[k] = true
		res.states++
		if depth <= 60 {
			res.statesWithin60++
		}
		if depth > res.maxDepth {
			res.maxDepth = depth
		}
		nh := append(append(make([]hop, 0, len(h)+1), h...), o)
		queue = append(queue, bstate{nh, len(w.q), depth})
	}
	for len(queue) > 0 {
		if r.Expired() {
			res.incomplete = fmt.Sprintf("NewBuffered(%d,%d): budget expired with %d canonical states still to expand", isz, bsz, len(queue))
			break
		}
		if res.states > stateCap {
			res.incomplete = fmt.Sprintf("NewBuffered(%d,%d): more than %d canonical states", isz, bsz, stateCap)
			break
		}
		st := queue[0]
		queue = queue[1:]
		// non-mutating operations: applied one after the other on one fresh
		// replay as long as the complete state stays what it was; if one of
		// them changes the state, that is a successor state like any other and
		// the sweep continues on a new fresh replay.
		w := replayHist(isz, bsz, st.hist)
		base := w.key(limit)
		if _, _, slots, _, _ := w.b.VerifSnapshot(limit); len(slots) > res.maxCap {
			res.maxCap = len(slots)
		}
		bad := false
		for _, o := range readOps(st.qlen) {
			what, msg := w.apply(o)
			res.trans++
			res.nt++
			if what != "" {
				res.viols = append(res.viols, mkViol(isz, bsz, "bfs", append(append([]hop{}, st.hist...), o), what, msg))
				bad = true
				w = replayHist(isz, bsz, st.hist)
				continue
			}
			if w.key(limit) != base {
				enqueue(st.hist, o, w, st.depth+1)
				w = replayHist(isz, bsz, st.hist)
			}
		}
		if bad {
			continue // the real object disagrees with the queue in this state: do not build on it
		}
		var muts []hop
		if st.qlen < lenBound {
			muts = append(muts, hop{K: 'A'})
		}
		if st.qlen > 0 {
			muts = append(muts, hop{K: 'R'})
		}
		for _, o := range muts {
			w := replayHist(isz, bsz, st.hist)
			what, msg := w.apply(o)
			res.trans++
			res.nt++
			if what != "" {
				res.viols = append(res.viols, mkViol(isz, bsz, "bfs", append(append([]hop{}, st.hist...), o), what, msg))
				continue
			}
			enqueue(st.hist, o, w, st.depth+1)
		}
	}
	return res
}

// observe applies every non-mutating operation and reports the first
// disagreement.
func observe(w *bw, h []hop) *violation {
	for _, o := range readOps(len(w.q)) {
		if what, msg := w.apply(o); what != "" {
			return mkViol(w.isz, w.bsz, "walk", append(append([]hop{}, h...), o), what, msg)
		}
	}
	return nil
}

// walk runs one long-lived object through fill-to-peak / drain-to-trough
// cycles for steps mutating operations, observing after every one.
func walk(res *cfgResult, peak, trough, steps, limit int, checkSeen bool) {
	w := newBW(res.isz, res.bsz)
	var h []hop
	up := true
	res.walks++
	for i := 0; i < steps; i++ {
		o := hop{K: 'A'}
		if !up {
			o = hop{K: 'R'}
		}
		h = append(h, o)
		what, msg := w.apply(o)
		res.walkTrans++
		if what != "" {
			res.viols = append(res.viols, mkViol(res.isz, res.bsz, "walk", h, what, msg))
			return
		}
		n := int64(len(readOps(len(w.q))))
		if v := observe(w, h); v != nil {
			res.viols = append(res.viols, v)
			return
		}
		res.walkTrans += n
		if checkSeen && !res.seen[w.key(limit)] {
			res.walkOutside++
			if res.walkOutsideDemo == "" {
				res.walkOutsideDemo = fmt.Sprintf("NewBuffered(%d,%d) [%s] -> %s", res.isz, res.bsz, histString(h), w.key(limit))
			}
		}
		if len(w.q) >= peak {
			up = false
		} else if len(w.q) <= trough {
			up = true
		}
	}
}

func runCase(c caseT) *violation {
	if len(c.Hist) == 0 {
		return nil
	}
	if c.Mode == "walk" {
		w := newBW(c.Isz, c.Bsz)
		for i, o := range c.Hist {
			if what, msg := w.apply(o); what != "" {
				return mkViol(c.Isz, c.Bsz, "walk", c.Hist[:i+1], what, msg)
			}
			if o.K == 'A' || o.K == 'R' {
				if v := observe(w, c.Hist[:i+1]); v != nil {
					return v
				}
			}
		}
		return nil
	}
	w := replayHist(c.Isz, c.Bsz, c.Hist[:len(c.Hist)-1])
	if what, msg := w.apply(c.Hist[len(c.Hist)-1]); what != "" {
		return mkViol(c.Isz, c.Bsz, "bfs", c.Hist, what, msg)
	}
	return nil
}

func run(r *enumx.Run, replay *enumx.ReplayCase) {
	if replay != nil {
		var c caseT
		if err := json.Unmarshal(replay.Case, &c); err != nil {
			panic(err)
		}
		if v := runCase(c); v != nil {
			r.Violation(v.key, v.msg, v.c)
		}
		return
	}
	lenBound := 60
	walkSteps := 60
	if r.Thorough() {
		lenBound = 150
	}
	r.Rule(fmt.Sprintf("explicit-state BFS on the real ring.Buffered[int] against a plain slice queue for NewBuffered(initial 0..5, buffer 0..5): alphabet AppendBack(fresh value), RemoveFront (non-empty only), Front, Len, Range stopping after k = 1..len+1 elements; search to the FIXPOINT of canonical states with queue length <= %d (>= the property's sequence length 60, so no sequence of <= 60 operations leaves the bounded region; the designed bound 3*bsize+4 is subsumed); canonical key = reference queue length + the complete real state (capacity, end, bsize, every slot as nil / queue rank / stale, next/prev consistency) read by an in-package accessor; successors by replaying the shortest history on a fresh object plus one operation. Then every grow/shrink cycle (fill to P in 1..3*bsize+4, drain to Q in 0..P-1, repeat; %d mutating operations, plus the 0->60->0 sweep) on one long-lived object, every non-mutating operation after every step, and every walk state is looked up in the fixpoint set. evaluations = operations executed on the real object and compared; distinct non-trivial = the BFS transitions (distinct (canonical state, operation) pairs); the walk transitions revisit those pairs on long-lived objects and are not counted as distinct.", lenBound, walkSteps))
	type cfg struct{ isz, bsz int }
	var cfgs []cfg
	for b := 5; b >= 0; b-- { // largest first for load balance
		for i := 5; i >= 0; i-- {
			cfgs = append(cfgs, cfg{i, b})
		}
	}
	results := make([]*cfgResult, len(cfgs))
	var mu sync.Mutex
	done := r.Parallel(len(cfgs), func(i int) {
		c := cfgs[i]
		res := bfsConfig(r, c.isz, c.bsz, lenBound)
		if res.incomplete == "" && len(res.viols) == 0 {
			limit := 4 * (lenBound + 16)
			for p := 1; p <= 3*c.bsz+4; p++ {
				for q := 0; q < p; q++ {
					walk(res, p, q, walkSteps, limit, true)
				}
			}
			walk(res, 60, 0, 120, limit, lenBound >= 60)
		}
		mu.Lock()
		results[i] = res
		mu.Unlock()
	})
	if done < len(cfgs) {
		r.Incomplete(fmt.Sprintf("buffered: budget expired after %d of %d configurations", done, len(cfgs)))
	}
	var states, trans, walkTrans, walks, within60, outside int64
	maxDepth, maxCap := 0, 0
	perCfg := map[string]int64{}
	for _, res := range results {
		if res == nil {
			continue
		}
		states += res.states
		trans += res.trans
		walkTrans += res.walkTrans
		walks += res.walks
		within60 += res.statesWithin60
		outside += res.walkOutside
		if res.maxDepth > maxDepth {
			maxDepth = res.maxDepth
		}
		if res.maxCap > maxCap {
			maxCap = res.maxCap
		}
		perCfg[fmt.Sprintf("%d,%d", res.isz, res.bsz)] = res.states
		r.Count(res.trans+res.walkTrans, res.nt)
		for _, v := range res.viols {
			r.Violation(v.key, v.msg, v.c)
		}
		if res.incomplete != "" {
			r.Incomplete(res.incomplete)
		} else if len(res.viols) == 0 {
			r.Space(fmt.Sprintf("NewBuffered(%d,%d): fixpoint with %d canonical states (deepest shortest history %d), every operation in every state; %d cycle walks", res.isz, res.bsz, res.states, res.maxDepth, res.walks))
		}
		if res.walkOutside > 0 {
			r.Incomplete("machinery: a cycle walk reached a state that is not in the BFS fixpoint set: " + res.walkOutsideDemo)
		}
		if res.isz == 2 && (res.bsz == 1 || res.bsz == 3) {
			r.Sample(map[string]any{"config": fmt.Sprintf("NewBuffered(%d,%d)", res.isz, res.bsz), "canonical_states": res.states, "bfs_transitions": res.trans, "deepest_shortest_history": res.maxDepth, "largest_capacity_seen": res.maxCap})
		}
	}
	r.Set("states", states)
	r.Set("transitions", trans+walkTrans)
	r.Set("bfs_transitions", trans)
	r.Set("walk_transitions", walkTrans)
	r.Set("cycle_walks", walks)
	r.Set("queue_length_bound", lenBound)
	r.Set("states_with_shortest_history_le_60", within60)
	r.Set("deepest_shortest_history", maxDepth)
	r.Set("largest_capacity_seen", maxCap)
	r.Set("walk_states_not_in_fixpoint", outside)
	r.Set("canonical_states_per_config_isz_bsz", perCfg)
}

func TestCheck(t *testing.T) { enumx.Main(t, "C14", "buffered", run) }
