// Package c14buffered is the sequential "buffered" part of C14: kit's
// ring.Buffered[T] must be a FIFO queue — Front, RemoveFront, Range and Len
// agree with a plain slice queue for every operation sequence and every
// initial and buffer size.
//
// For every configuration (initial size, buffer size) in 0..5 x 0..5 an
// explicit-state breadth-first search runs on the real code to the FIXPOINT
// of canonical states with queue length <= lenBound. A state is the shortest
// operation history reaching it; a successor is produced by replaying that
// history on a FRESH Buffered plus one operation. The canonical key is the
// queue length of the reference together with the COMPLETE state of the real
// object read through an in-package accessor (capacity, end, bsize, every
// slot as nil / rank in the queue / stale, link consistency), so two histories
// merge only when the real objects are identical up to a renaming of the
// opaque values. Afterwards every grow/shrink cycle (fill to P, drain to Q,
// repeat; 60 mutating operations) is walked on ONE long-lived object.
package c14buffered

import (
	"encoding/json"
	"fmt"
	"strings"
	"sync"
	"testing"

	kring "github.com/dapr/kit/ring"

	"verif/enumx"
)

// hop is one operation: 'A' AppendBack(fresh non-nil pointer), 'N'
// AppendBack(nil) — a nil *T is an ordinary element for a queue of *T —,
// 'R' RemoveFront, 'F' Front, 'L' Len, 'G' Range stopping after N elements
// (N = len+1: never stops).
type hop struct {
	K byte `json:"k"`
	N int  `json:"n,omitempty"`
}

func (o hop) String() string {
	switch o.K {
	case 'A':
		return "AppendBack"
	case 'N':
		return "AppendBack(nil)"
	case 'R':
		return "RemoveFront"
	case 'F':
		return "Front"
	case 'L':
		return "Len"
	}
	return fmt.Sprintf("Range(stop after %d)", o.N)
}

// histString renders a history compactly: runs of equal operations.
func histString(h []hop) string {
	var sb strings.Builder
	for i := 0; i < len(h); {
		j := i
		for j < len(h) && h[j] == h[i] {
			j++
		}
		if sb.Len() > 0 {
			sb.WriteString(" ")
		}
		if j-i > 1 {
			fmt.Fprintf(&sb, "%dx", j-i)
		}
		sb.WriteString(h[i].String())
		i = j
	}
	return sb.String()
}

type bw struct {
	isz, bsz int
	b        *kring.Buffered[int]
	q        []*int // the reference: a plain slice queue
	ids      int
}

func newBW(isz, bsz int) *bw {
	return &bw{isz: isz, bsz: bsz, b: kring.NewBuffered[int](isz, bsz)}
}

func pv(p *int) string {
	if p == nil {
		return "nil"
	}
	return fmt.Sprintf("v%d", *p)
}

func pvs(ps []*int) string {
	s := make([]string, len(ps))
	for i, p := range ps {
		s[i] = pv(p)
	}
	return "[" + strings.Join(s, " ") + "]"
}

func (w *bw) front() *int {
	if len(w.q) == 0 {
		return nil // "no element": RemoveFront is documented to return the next value
	}
	return w.q[0]
}

// apply performs one operation on the real object and on the slice queue and
// compares what the operation returns. what == "" when they agree.
func (w *bw) apply(o hop) (what, msg string) {
	defer func() {
		if e := recover(); e != nil {
			what, msg = o.String()+":panic", fmt.Sprintf("%s panicked: %v", o, e)
		}
	}()
	switch o.K {
	case 'A':
		v := new(int)
		w.ids++
		*v = w.ids
		w.b.AppendBack(v)
		w.q = append(w.q, v)
	case 'N':
		w.b.AppendBack(nil)
		w.q = append(w.q, nil) // the reference stores nil like any other element
	case 'R':
		if len(w.q) == 0 {
			panic("harness: RemoveFront on an empty queue is outside the alphabet")
		}
		got := w.b.RemoveFront()
		w.q = w.q[1:]
		if want := w.front(); got != want {
			return "RemoveFront", fmt.Sprintf("RemoveFront returned %s, the queue's new front is %s", pv(got), pv(want))
		}
	case 'F':
		if got, want := w.b.Front(), w.front(); got != want {
			return "Front", fmt.Sprintf("Front returned %s, the queue's front is %s", pv(got), pv(want))
		}
	case 'L':
		if got := w.b.Len(); got != len(w.q) {
			return "Len", fmt.Sprintf("Len returned %d, the queue holds %d", got, len(w.q))
		}
	case 'G':
		var got []*int
		w.b.Range(func(p *int) bool {
			got = append(got, p)
			return len(got) < o.N && len(got) < len(w.q)+3
		})
		want := w.q
		if o.N < len(want) {
			want = want[:o.N]
		}
		same := len(got) == len(want)
		for i := 0; same && i < len(got); i++ {
			same = got[i] == want[i]
		}
		if !same {
			return "Range", fmt.Sprintf("Range stopping after %d elements yielded %s, the queue gives %s", o.N, pvs(got), pvs(want))
		}
	default:
		panic("unknown op")
	}
	return "", ""
}

// key is the canonical state: the reference queue as (length, positions of its
// nil elements) — all other elements are fresh and distinct, so that is its
// content up to renaming — plus the complete real state. A slot is "occupied"
// by position (index < end, the accessor's knowledge), not by its pointer
// value: an occupied slot holding a nil element is 'N', a free slot is '.'.
func (w *bw) key(limit int) string {
	end, bs, slots, closed, prevOK := w.b.VerifSnapshot(limit)
	var sb strings.Builder
	fmt.Fprintf(&sb, "n%d", len(w.q))
	rank := map[*int]int{}
	for i, p := range w.q {
		if p == nil {
			fmt.Fprintf(&sb, ",%d", i)
		} else {
			rank[p] = i
		}
	}
	fmt.Fprintf(&sb, " c%d e%d b%d", len(slots), end, bs)
	if !closed {
		sb.WriteString(" OPEN")
	}
	if !prevOK {
		sb.WriteString(" PREVBAD")
	}
	stale := map[*int]int{}
	sb.WriteString(" ")
	for i := 0; i < len(slots); {
		p := slots[i]
		occupied := i < end
		switch {
		case p == nil && !occupied:
			j := i
			for j < len(slots) && slots[j] == nil && j >= end {
				j++
			}
			fmt.Fprintf(&sb, ".%d", j-i)
			i = j
			continue
		case p == nil:
			sb.WriteString("N")
		default:
			if r, ok := rank[p]; ok && occupied {
				// run of consecutive ranks in occupied slots
				j := i
				for j < len(slots) && j < end && slots[j] != nil {
					r2, ok2 := rank[slots[j]]
					if !ok2 || r2 != r+(j-i) {
						break
					}
					j++
				}
				fmt.Fprintf(&sb, "q%d-%d", r, r+(j-i)-1)
				i = j
				continue
			} else if ok {
				fmt.Fprintf(&sb, "f%d", r) // a queue element sitting in a free slot
			} else {
				k, seen := stale[p]
				if !seen {
					k = len(stale)
					stale[p] = k
				}
				fmt.Fprintf(&sb, "s%d", k)
			}
		}
		i++
	}
	return sb.String()
}

func replayHist(isz, bsz int, h []hop) *bw {
	w := newBW(isz, bsz)
	for _, o := range h {
		w.apply(o)
	}
	return w
}

type caseT struct {
	Isz  int    `json:"initial_size"`
	Bsz  int    `json:"buffer_size"`
	Mode string `json:"mode"` // "bfs": replay silently, check the last op; "walk": one object, observed after every op
	Hist []hop  `json:"history"`
}

type violation struct {
	key, msg string
	c        caseT
}

func mkViol(isz, bsz int, mode string, h []hop, what, msg string) *violation {
	return &violation{
		key: "buffered:" + what,
		msg: fmt.Sprintf("NewBuffered(%d,%d) after [%s]: %s", isz, bsz, histString(h[:len(h)-1]), msg),
		c:   caseT{isz, bsz, mode, append([]hop{}, h...)},
	}
}

type bstate struct {
	hist  []hop
	qlen  int
	nils  int // nil elements currently in the queue
	depth int
}

func countNil(q []*int) int {
	n := 0
	for _, p := range q {
		if p == nil {
			n++
		}
	}
	return n
}

type cfgResult struct {
	isz, bsz        int
	states          int64
	trans, nt       int64
	maxDepth        int
	statesWithin60  int64
	nilStates       int64 // states whose queue holds a nil element
	viols           []*violation
	incomplete      string
	seen            map[string]bool
	maxCap          int
	walkTrans       int64
	walks           int64
	walkOutside     int64
	walkOutsideDemo string
	nilSearch       bool
}

const stateCap = 400000

// readOps lists the non-mutating operations for a queue of length n.
func readOps(n int) []hop {
	out := []hop{{K: 'L'}, {K: 'F'}}
	for k := 1; k <= n+1; k++ {
		out = append(out, hop{K: 'G', N: k})
	}
	return out
}

// bfsConfig searches to the fixpoint of canonical states with queue length <=
// lenBound and at most maxNil nil elements in the queue at any time (the
// bounded region is defined on states, so it is closed under the enabled
// operations).
func bfsConfig(r *enumx.Run, isz, bsz, lenBound, maxNil int) *cfgResult {
	res := &cfgResult{isz: isz, bsz: bsz, seen: map[string]bool{}}
	limit := 4 * (lenBound + 16)
	root := newBW(isz, bsz)
	res.seen[root.key(limit)] = true
	res.states = 1
	res.statesWithin60 = 1
	queue := []bstate{{nil, 0, 0, 0}}
	enqueue := func(h []hop, o hop, w *bw, depth int) {
		k := w.key(limit)
		if res.seen[k] {
			return
		}
		res.seen[k] = true
		res.states++
		if countNil(w.q) > 0 {
			res.nilStates++
		}
		if depth <= 60 {
			res.statesWithin60++
		}
		if depth > res.maxDepth {
			res.maxDepth = depth
		}
		nh := append(append(make([]hop, 0, len(h)+1), h...), o)
		queue = append(queue, bstate{nh, len(w.q), countNil(w.q), depth})
	}
	for len(queue) > 0 {
		if r.Expired() {
			res.incomplete = fmt.Sprintf("NewBuffered(%d,%d): budget expired with %d canonical states still to expand", isz, bsz, len(queue))
			break
		}
		if res.states > stateCap {
			res.incomplete = fmt.Sprintf("NewBuffered(%d,%d): more than %d canonical states", isz, bsz, stateCap)
			break
		}
		st := queue[0]
		queue = queue[1:]
		// non-mutating operations: applied one after the other on one fresh
		// replay as long as the complete state stays what it was; if one of
		// them changes the state, that is a successor state like any other and
		// the sweep continues on a new fresh replay.
		w := replayHist(isz, bsz, st.hist)
		base := w.key(limit)
		if _, _, slots, _, _ := w.b.VerifSnapshot(limit); len(slots) > res.maxCap {
			res.maxCap = len(slots)
		}
		bad := false
		for _, o := range readOps(st.qlen) {
			what, msg := w.apply(o)
			res.trans++
			if maxNil == 0 || st.nils > 0 {
				res.nt++
			}
			if what != "" {
				res.viols = append(res.viols, mkViol(isz, bsz, "bfs", append(append([]hop{}, st.hist...), o), what, msg))
				bad = true
				w = replayHist(isz, bsz, st.hist)
				continue
			}
			if w.key(limit) != base {
				enqueue(st.hist, o, w, st.depth+1)
				w = replayHist(isz, bsz, st.hist)
			}
		}
		if bad {
			continue // the real object disagrees with the queue in this state: do not build on it
		}
		var muts []hop
		if st.qlen < lenBound {
			muts = append(muts, hop{K: 'A'})
			if st.nils < maxNil {
				muts = append(muts, hop{K: 'N'})
			}
		}
		if st.qlen > 0 {
			muts = append(muts, hop{K: 'R'})
		}
		for _, o := range muts {
			w := replayHist(isz, bsz, st.hist)
			what, msg := w.apply(o)
			res.trans++
			if maxNil == 0 || st.nils > 0 || o.K == 'N' {
				res.nt++ // without a nil involved the pair is already part of the nil-free search
			}
			if what != "" {
				res.viols = append(res.viols, mkViol(isz, bsz, "bfs", append(append([]hop{}, st.hist...), o), what, msg))
				continue
			}
			enqueue(st.hist, o, w, st.depth+1)
		}
	}
	return res
}

// observe applies every non-mutating operation and reports the first
// disagreement.
func observe(w *bw, h []hop) *violation {
	for _, o := range readOps(len(w.q)) {
		if what, msg := w.apply(o); what != "" {
			return mkViol(w.isz, w.bsz, "walk", append(append([]hop{}, h...), o), what, msg)
		}
	}
	return nil
}

// walk runs one long-lived object through fill-to-peak / drain-to-trough
// cycles for steps mutating operations, observing after every one.
// With nilEvery > 0 every nilEvery-th append stores nil as long as fewer than
// maxNil nil elements are queued.
func walk(res *cfgResult, peak, trough, steps, limit int, checkSeen bool, nilEvery, maxNil int) {
	w := newBW(res.isz, res.bsz)
	var h []hop
	up := true
	appends := 0
	res.walks++
	for i := 0; i < steps; i++ {
		o := hop{K: 'A'}
		if !up {
			o = hop{K: 'R'}
		} else {
			appends++
			if nilEvery > 0 && appends%nilEvery == 0 && countNil(w.q) < maxNil {
				o = hop{K: 'N'}
			}
		}
		h = append(h, o)
		what, msg := w.apply(o)
		res.walkTrans++
		if what != "" {
			res.viols = append(res.viols, mkViol(res.isz, res.bsz, "walk", h, what, msg))
			return
		}
		n := int64(len(readOps(len(w.q))))
		if v := observe(w, h); v != nil {
			res.viols = append(res.viols, v)
			return
		}
		res.walkTrans += n
		if checkSeen && !res.seen[w.key(limit)] {
			res.walkOutside++
			if res.walkOutsideDemo == "" {
				res.walkOutsideDemo = fmt.Sprintf("NewBuffered(%d,%d) [%s] -> %s", res.isz, res.bsz, histString(h), w.key(limit))
			}
		}
		if len(w.q) >= peak {
			up = false
		} else if len(w.q) <= trough {
			up = true
		}
	}
}

func runCase(c caseT) *violation {
	if len(c.Hist) == 0 {
		return nil
	}
	if c.Mode == "walk" {
		w := newBW(c.Isz, c.Bsz)
		for i, o := range c.Hist {
			if what, msg := w.apply(o); what != "" {
				return mkViol(c.Isz, c.Bsz, "walk", c.Hist[:i+1], what, msg)
			}
			if o.K == 'A' || o.K == 'N' || o.K == 'R' {
				if v := observe(w, c.Hist[:i+1]); v != nil {
					return v
				}
			}
		}
		return nil
	}
	w := replayHist(c.Isz, c.Bsz, c.Hist[:len(c.Hist)-1])
	if what, msg := w.apply(c.Hist[len(c.Hist)-1]); what != "" {
		return mkViol(c.Isz, c.Bsz, "bfs", c.Hist, what, msg)
	}
	return nil
}

func run(r *enumx.Run, replay *enumx.ReplayCase) {
	if replay != nil {
		var c caseT
		if err := json.Unmarshal(replay.Case, &c); err != nil {
			panic(err)
		}
		if v := runCase(c); v != nil {
			r.Violation(v.key, v.msg, v.c)
		}
		return
	}
	lenBound := 60
	walkSteps := 60
	nilLenExtra, maxNil := 8, 3
	if r.Thorough() {
		lenBound = 150
		nilLenExtra, maxNil = 12, 4
	}
	r.Rule(fmt.Sprintf("explicit-state BFS on the real ring.Buffered[int] against a plain slice queue for NewBuffered(initial 0..5, buffer 0..5); operations AppendBack(fresh non-nil pointer), AppendBack(nil) (a nil *T is an ordinary element of a queue of *T), RemoveFront (non-empty only), Front, Len, Range stopping after k = 1..len+1 elements. Search 1 (no nil elements): FIXPOINT of canonical states with queue length <= %d (>= the property's sequence length 60, so no sequence of <= 60 operations leaves the bounded region; the designed bound 3*bsize+4 is subsumed). Search 2 (both value kinds): FIXPOINT of canonical states with queue length <= 3*bsize+%d and AT MOST %d nil elements in the queue at any time (bounded to keep the 2^len nil patterns finite and small; AppendBack(nil) is simply not enabled in a state that already queues %d). Canonical key = reference queue (length, positions of nil elements) + the complete real state (capacity, end, bsize, every slot as free / occupied-by-nil-element / queue rank / stale — occupied is decided by position < end, not by the pointer —, next/prev consistency) read by an in-package accessor; successors by replaying the shortest history on a fresh object plus one operation. Front/RemoveFront returning nil for an empty queue versus for a nil element is told apart by Len, compared in the same state. Then every grow/shrink cycle (fill to P in 1..3*bsize+4, drain to Q in 0..P-1, repeat; %d mutating operations; all-fresh, and with every / every second append nil while fewer than %d are queued; plus the 0->60->0 sweep) on one long-lived object, every non-mutating operation after every step, and every walk state is looked up in the fixpoint set of its search. evaluations = operations executed on the real object and compared; distinct non-trivial = BFS transitions that are distinct (canonical state, operation) pairs (search 2 counts only pairs involving a nil element; the rest repeat search 1); walk transitions revisit those pairs on long-lived objects and are not counted as distinct.", lenBound, nilLenExtra, maxNil, maxNil, walkSteps, maxNil))
	type cfg struct {
		isz, bsz int
		nilKind  bool
	}
	var cfgs []cfg
	for b := 5; b >= 0; b-- { // largest first for load balance
		for i := 5; i >= 0; i-- {
			cfgs = append(cfgs, cfg{i, b, false}, cfg{i, b, true})
		}
	}
	results := make([]*cfgResult, len(cfgs))
	var mu sync.Mutex
	done := r.Parallel(len(cfgs), func(i int) {
		c := cfgs[i]
		var res *cfgResult
		if !c.nilKind {
			res = bfsConfig(r, c.isz, c.bsz, lenBound, 0)
			if res.incomplete == "" && len(res.viols) == 0 {
				limit := 4 * (lenBound + 16)
				for p := 1; p <= 3*c.bsz+4; p++ {
					for q := 0; q < p; q++ {
						walk(res, p, q, walkSteps, limit, true, 0, 0)
					}
				}
				walk(res, 60, 0, 120, limit, lenBound >= 60, 0, 0)
			}
		} else {
			nb := 3*c.bsz + nilLenExtra
			res = bfsConfig(r, c.isz, c.bsz, nb, maxNil)
			res.nilSearch = true
			if res.incomplete == "" && len(res.viols) == 0 {
				limit := 4 * (nb + 16)
				for p := 1; p <= 3*c.bsz+4; p++ {
					for q := 0; q < p; q++ {
						walk(res, p, q, walkSteps, limit, true, 1, maxNil)
						walk(res, p, q, walkSteps, limit, true, 2, maxNil)
					}
				}
			}
		}
		mu.Lock()
		results[i] = res
		mu.Unlock()
	})
	if done < len(cfgs) {
		r.Incomplete(fmt.Sprintf("buffered: budget expired after %d of %d searches", done, len(cfgs)))
	}
	var states, trans, walkTrans, walks, within60, outside int64
	var nilStates, nilSearchStates, nilTrans int64
	maxDepth, maxCap := 0, 0
	perCfg := map[string]int64{}
	perCfgNil := map[string]int64{}
	for _, res := range results {
		if res == nil {
			continue
		}
		name := "no nil elements"
		if res.nilSearch {
			name = fmt.Sprintf("<= %d nil elements queued", maxNil)
			states += res.nilStates // the nil-free states of search 2 are states of search 1
			nilStates += res.nilStates
			nilSearchStates += res.states
			nilTrans += res.trans
			perCfgNil[fmt.Sprintf("%d,%d", res.isz, res.bsz)] = res.states
		} else {
			states += res.states
			within60 += res.statesWithin60
			if res.maxDepth > maxDepth {
				maxDepth = res.maxDepth
			}
			perCfg[fmt.Sprintf("%d,%d", res.isz, res.bsz)] = res.states
		}
		trans += res.trans
		walkTrans += res.walkTrans
		walks += res.walks
		outside += res.walkOutside
		if res.maxCap > maxCap {
			maxCap = res.maxCap
		}
		r.Count(res.trans+res.walkTrans, res.nt)
		for _, v := range res.viols {
			r.Violation(v.key, v.msg, v.c)
		}
		if res.incomplete != "" {
			r.Incomplete(res.incomplete)
		} else if len(res.viols) == 0 {
			r.Space(fmt.Sprintf("NewBuffered(%d,%d), %s: fixpoint with %d canonical states (deepest shortest history %d), every operation in every state; %d cycle walks", res.isz, res.bsz, name, res.states, res.maxDepth, res.walks))
		}
		if res.walkOutside > 0 {
			r.Incomplete("machinery: a cycle walk reached a state that is not in the BFS fixpoint set: " + res.walkOutsideDemo)
		}
		if res.isz == 2 && (res.bsz == 1 || res.bsz == 3) {
			r.Sample(map[string]any{"config": fmt.Sprintf("NewBuffered(%d,%d)", res.isz, res.bsz), "search": name, "canonical_states": res.states, "bfs_transitions": res.trans, "deepest_shortest_history": res.maxDepth, "largest_capacity_seen": res.maxCap})
		}
	}
	r.Set("states", states)
	r.Set("transitions", trans+walkTrans)
	r.Set("bfs_transitions", trans)
	r.Set("walk_transitions", walkTrans)
	r.Set("cycle_walks", walks)
	r.Set("queue_length_bound", lenBound)
	r.Set("states_with_shortest_history_le_60", within60)
	r.Set("deepest_shortest_history", maxDepth)
	r.Set("largest_capacity_seen", maxCap)
	r.Set("walk_states_not_in_fixpoint", outside)
	r.Set("canonical_states_per_config_isz_bsz", perCfg)
	r.Set("nil_search_queue_length_bound", fmt.Sprintf("3*bsize+%d", nilLenExtra))
	r.Set("nil_search_max_nil_elements_queued", maxNil)
	r.Set("nil_search_states", nilSearchStates)
	r.Set("nil_search_states_with_a_nil_element", nilStates)
	r.Set("nil_search_bfs_transitions", nilTrans)
	r.Set("nil_search_states_per_config_isz_bsz", perCfgNil)
}

func TestCheck(t *testing.T) { enumx.Main(t, "C14", "buffered", run) }
