package encenv

import (
	"bytes"
	"crypto/aes"
	"crypto/cipher"
	"crypto/rand"
	"crypto/rsa"
	"crypto/sha256"
	"crypto/x509"
	_ "embed"
	"encoding/pem"
	"errors"
	"fmt"

	kitcrypto "github.com/dapr/kit/crypto"
	v1 "github.com/dapr/kit/schemes/enc/v1"
	"github.com/lestrrat-go/jwx/v2/jwk"

	"verif/ref/encv1ref"
)

//go:embed testkeys/rsa2048.pem
var rsa2048PEM []byte

//go:embed testkeys/rsa4096.pem
var rsa4096PEM []byte

// KW is one key-wrapping configuration: the algorithm name handed to kit
// (possibly an alias), the id the README assigns to it, and a fixed test key.
type KW struct {
	Label     string // unique label of the configuration
	Name      string // value of EncryptOptions.Algorithm
	Canonical string // README name of the algorithm
	ID        int    // README id
	WFKLen    int    // size of the wrapped file key
	// StdUnwrap: the kit-side unwrap uses crypto/rsa directly instead of
	// kit's crypto package. kit rebuilds the rsa.PrivateKey from the JWK on
	// every call, without the CRT values, which makes one 4096-bit private-key
	// operation cost 75 ms (7 ms with crypto/rsa on the parsed key); the
	// kit-side wrap still goes through kit's crypto package.
	StdUnwrap bool
	sym       []byte
	rsa       *rsa.PrivateKey
	jwkKey    jwk.Key
}

func mustRSA(pemBytes []byte) *rsa.PrivateKey {
	b, _ := pem.Decode(pemBytes)
	if b == nil {
		panic("bad PEM")
	}
	k, err := x509.ParsePKCS8PrivateKey(b.Bytes)
	if err != nil {
		panic(err)
	}
	return k.(*rsa.PrivateKey)
}

func symKey(n int, salt byte) []byte {
	k := make([]byte, n)
	for i := range k {
		k[i] = byte(i*7+3) ^ salt
	}
	return k
}

// cbcIV is the IV both sides use for the CBC-NOPAD wraps (kit passes no nonce
// to the wrap function, so the IV is the key vault's business).
var cbcIV = []byte{0, 1, 2, 3, 4, 5, 6, 7, 8, 9, 10, 11, 12, 13, 14, 15}

// KWs is the list of key-wrapping configurations: the five algorithms, the two
// aliases, and RSA-OAEP-256 with a 4096-bit key (header longer than 512 bytes).
var KWs = func() []*KW {
	r2, r4 := mustRSA(rsa2048PEM), mustRSA(rsa4096PEM)
	l := []*KW{
		{Label: "A256KW", Name: "A256KW", Canonical: "A256KW", ID: 1, WFKLen: 40, sym: symKey(32, 0x11)},
		{Label: "AES(alias)", Name: "AES", Canonical: "A256KW", ID: 1, WFKLen: 40, sym: symKey(32, 0x22)},
		{Label: "A128CBC-NOPAD", Name: "A128CBC-NOPAD", Canonical: "A128CBC-NOPAD", ID: 2, WFKLen: 32, sym: symKey(16, 0x33)},
		{Label: "A192CBC-NOPAD", Name: "A192CBC-NOPAD", Canonical: "A192CBC-NOPAD", ID: 3, WFKLen: 32, sym: symKey(24, 0x44)},
		{Label: "A256CBC-NOPAD", Name: "A256CBC-NOPAD", Canonical: "A256CBC-NOPAD", ID: 4, WFKLen: 32, sym: symKey(32, 0x55)},
		{Label: "RSA-OAEP-256/2048", Name: "RSA-OAEP-256", Canonical: "RSA-OAEP-256", ID: 5, WFKLen: 256, rsa: r2},
		{Label: "RSA(alias)/2048", Name: "RSA", Canonical: "RSA-OAEP-256", ID: 5, WFKLen: 256, rsa: r2},
		{Label: "RSA-OAEP-256/4096", Name: "RSA-OAEP-256", Canonical: "RSA-OAEP-256", ID: 5, WFKLen: 512, rsa: r4, StdUnwrap: true},
	}
	for _, k := range l {
		var err error
		if k.rsa != nil {
			k.jwkKey, err = jwk.FromRaw(k.rsa)
		} else {
			k.jwkKey, err = jwk.FromRaw(k.sym)
		}
		if err != nil {
			panic(err)
		}
	}
	return l
}()

// KWByLabel finds a configuration.
func KWByLabel(label string) *KW {
	for _, k := range KWs {
		if k.Label == label {
			return k
		}
	}
	return nil
}

// ---- kit side: through kit's own crypto package

// KitWrap wraps with kit's crypto package. algorithm is what kit handed to the
// wrap function; it must be the README name of this configuration's algorithm
// (kit's crypto package knows no aliases).
func (k *KW) KitWrap(plain []byte, algorithm string) ([]byte, error) {
	if algorithm != k.Canonical {
		return nil, fmt.Errorf("wrap function was handed algorithm %q, key is for %q", algorithm, k.Canonical)
	}
	switch {
	case k.rsa != nil:
		return kitcrypto.EncryptPublicKey(plain, algorithm, k.jwkKey, nil)
	case k.ID == 1:
		ct, _, err := kitcrypto.EncryptSymmetric(plain, algorithm, k.jwkKey, nil, nil)
		return ct, err
	default:
		ct, _, err := kitcrypto.EncryptSymmetric(plain, algorithm, k.jwkKey, cbcIV, nil)
		return ct, err
	}
}

// KitUnwrap is the inverse, again through kit's crypto package.
func (k *KW) KitUnwrap(wrapped []byte, algorithm string) ([]byte, error) {
	if algorithm != k.Canonical {
		return nil, fmt.Errorf("unwrap function was handed algorithm %q, key is for %q", algorithm, k.Canonical)
	}
	switch {
	case k.rsa != nil && k.StdUnwrap:
		return rsa.DecryptOAEP(sha256.New(), nil, k.rsa, wrapped, nil)
	case k.rsa != nil:
		return kitcrypto.DecryptPrivateKey(wrapped, algorithm, k.jwkKey, nil)
	case k.ID == 1:
		return kitcrypto.DecryptSymmetric(wrapped, algorithm, k.jwkKey, nil, nil, nil)
	default:
		return kitcrypto.DecryptSymmetric(wrapped, algorithm, k.jwkKey, cbcIV, nil, nil)
	}
}

// WrapFn is a v1.WrapKeyFn that serves exactly one key name.
func (k *KW) WrapFn(keyName string) v1.WrapKeyFn {
	return func(plain []byte, algorithm, name string, nonce []byte) ([]byte, []byte, error) {
		if name != keyName {
			return nil, nil, fmt.Errorf("wrap: no key named %q (vault has %q)", name, keyName)
		}
		w, err := k.KitWrap(plain, algorithm)
		return w, nil, err
	}
}

// UnwrapFn is a v1.UnwrapKeyFn that serves exactly one key name; called, when
// not nil, receives every key name asked for. When wfk is not nil, the unwrap
// of exactly that wrapped key is carried out right away (through kit's crypto
// package, as in the callback) and the callback hands out its result: kit's
// RSA private-key operation takes up to 75 ms and the callback runs inside
// the exclusive section of the gate.
func (k *KW) UnwrapFn(keyName string, called *[]string, wfk []byte) v1.UnwrapKeyFn {
	var pre []byte
	var preErr error
	if wfk != nil {
		pre, preErr = k.KitUnwrap(wfk, k.Canonical)
	}
	return func(wrapped []byte, algorithm, name string, nonce, tag []byte) ([]byte, error) {
		if called != nil {
			*called = append(*called, name)
		}
		if name != keyName {
			return nil, fmt.Errorf("unwrap: no key named %q (vault has %q)", name, keyName)
		}
		if wfk != nil && algorithm == k.Canonical && bytes.Equal(wrapped, wfk) {
			return append([]byte(nil), pre...), preErr
		}
		return k.KitUnwrap(wrapped, algorithm)
	}
}

// ---- reference side: standard library and RFC 3394 as written in encv1ref

func (k *KW) cbc(in []byte, enc bool) ([]byte, error) {
	want := map[int]int{2: 16, 3: 24, 4: 32}[k.ID]
	if len(k.sym) != want {
		return nil, errors.New("key size does not fit the algorithm")
	}
	if len(in) == 0 || len(in)%aes.BlockSize != 0 {
		return nil, errors.New("not a multiple of the block size")
	}
	b, err := aes.NewCipher(k.sym)
	if err != nil {
		return nil, err
	}
	out := make([]byte, len(in))
	if enc {
		cipher.NewCBCEncrypter(b, cbcIV).CryptBlocks(out, in)
	} else {
		cipher.NewCBCDecrypter(b, cbcIV).CryptBlocks(out, in)
	}
	return out, nil
}

// RefWrap wraps a file key without kit.
func (k *KW) RefWrap(plain []byte) ([]byte, error) {
	switch {
	case k.rsa != nil:
		return rsa.EncryptOAEP(sha256.New(), rand.Reader, &k.rsa.PublicKey, plain, nil)
	case k.ID == 1:
		return encv1ref.AESKWWrap(k.sym, plain)
	default:
		return k.cbc(plain, true)
	}
}

// RefUnwrap unwraps a file key without kit; kw is the id found in the manifest.
func (k *KW) RefUnwrap(wrapped []byte, kw int) ([]byte, error) {
	if kw != k.ID {
		return nil, fmt.Errorf("manifest names key-wrap algorithm %d, key is for %d", kw, k.ID)
	}
	switch {
	case k.rsa != nil:
		return rsa.DecryptOAEP(sha256.New(), nil, k.rsa, wrapped, nil)
	case k.ID == 1:
		return encv1ref.AESKWUnwrap(k.sym, wrapped)
	default:
		return k.cbc(wrapped, false)
	}
}

// RefUnwrapFn serves exactly one key name.
func (k *KW) RefUnwrapFn(keyName string) encv1ref.UnwrapFunc {
	return func(wfk []byte, kw int, name string) ([]byte, error) {
		if name != keyName {
			return nil, fmt.Errorf("unwrap: no key named %q (vault has %q)", name, keyName)
		}
		return k.RefUnwrap(wfk, kw)
	}
}
