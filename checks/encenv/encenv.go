// Package encenv holds what the C01 and C02 parts share: the scripted reader /
// consumer environments (default answer + deviations, uniform chunking
// policies, injected faults), the deviation-bounded search over them, the fixed
// test keys with a kit-side wrap/unwrap (through kit's crypto package) and an
// independent stdlib/RFC-side wrap/unwrap for the reference, and the gate that
// keeps concurrently running cases from meeting in kit's shared buffer pool.
//
// It is not a part itself (no spec.json).
package encenv

import (
	"crypto/rand"
	"errors"
	"io"
	"sync"
	"sync/atomic"

	v1 "github.com/dapr/kit/schemes/enc/v1"
)

// ---------------------------------------------------------------- gate
//
// kit's Decrypt hands slices of a pooled buffer (manifest, MAC line) back to
// its caller after the buffer has been returned to the process-wide
// v1.BufPool; until the MAC has been verified, another goroutine that obtains
// the same buffer and fills it corrupts that header (observed while building
// this check: json.Unmarshal inside Decrypt panics with "JSON decoder out of
// sync - data changing underfoot?" when 16 cases run side by side). That
// interference between independent operations is the subject of property C08,
// not of C01/C02, and it would make an outcome here depend on the scheduler.
// The gate removes it without touching kit:
//
//   - the synchronous part of every Decrypt call runs in an exclusive section
//     which is held until the segment-processing goroutine that Decrypt
//     started has issued its first Read on our source - by then it owns its
//     pooled buffer (it may fill it from the bytes the header reader read
//     ahead before it ever comes to our source, which is why waiting for that
//     first Read, and not merely delaying it, is needed);
//   - the first Read that Encrypt's segment-processing goroutine issues on
//     our plaintext source (all its writes into its pooled buffer happen in or
//     after that Read) waits until no exclusive section is open.
//
// So a buffer released by a Decrypt call D can only be picked up, inside D's
// section, by D's own goroutine (after D is done with the header) or by an
// Encrypt goroutine that then stalls in its first Read until D has finished.
// All cases still run in parallel otherwise. The number of header Reads is
// learnt in the unwrap callback, which kit calls after the header has been
// read and before the goroutine is started.

var gate sync.RWMutex

const (
	phFree   int32 = iota
	phHeader       // synchronous part of Decrypt running
	phWait         // waiting for the first Read of Decrypt's goroutine
	phFirst        // plaintext source: next Read is the first of Encrypt's goroutine
)

func (s *Source) release() {
	if s.phase.CompareAndSwap(phWait, phFree) {
		close(s.sig)
	}
}

// KitDecrypt is v1.Decrypt on a Source, inside the exclusive section.
func KitDecrypt(src *Source, opts v1.DecryptOptions) (io.Reader, error) {
	return KitDecryptThen(src, opts, nil)
}

// KitDecryptThen is KitDecrypt with a caller action: after, when not nil, is
// the first thing that runs on the calling goroutine once v1.Decrypt has
// returned (e.g. a caller that wipes the key slice its unwrap function handed
// out). Nothing that can block or yield lies between the return and after().
func KitDecryptThen(src *Source, opts v1.DecryptOptions, after func()) (io.Reader, error) {
	inner := opts.UnwrapKeyFn
	var hdrReads int64 = -1
	if inner != nil {
		opts.UnwrapKeyFn = func(w []byte, alg, name string, nonce, tag []byte) ([]byte, error) {
			hdrReads = src.entered.Load()
			return inner(w, alg, name, nonce, tag)
		}
	}
	src.sig = make(chan struct{})
	gate.Lock()
	src.phase.Store(phHeader)
	r, err := v1.Decrypt(src, opts)
	if after != nil {
		after()
	}
	// (Until /repo commit 1b7747a readHeader handed out slices of a pooled
	// buffer, and this function kept the section open until the goroutine
	// Decrypt started had issued its first Read on src. Since readHeader
	// copies, the section only needs to cover the synchronous part; waiting
	// for a Read that a changed implementation may never issue - it may serve
	// the rest from what it read ahead - would stall every other case.)
	_ = hdrReads
	src.phase.Store(phFree)
	gate.Unlock()
	return r, err
}

var randMu sync.Mutex

// WithRandReader runs fn while crypto/rand.Reader (a package variable) is
// replaced by r, and restores it. Calls are serialised; the caller must make
// sure that nothing else that draws randomness runs in the process meanwhile
// (the parts run these families in a sequential phase of their own).
func WithRandReader(r io.Reader, fn func()) {
	randMu.Lock()
	old := rand.Reader
	rand.Reader = r
	defer func() {
		rand.Reader = old
		randMu.Unlock()
	}()
	fn()
}

// KitDecryptRaw is v1.Decrypt on a reader of any kind (kit sees its dynamic
// type); only the synchronous part runs in the exclusive section.
func KitDecryptRaw(in io.Reader, opts v1.DecryptOptions) (io.Reader, error) {
	gate.Lock()
	defer gate.Unlock()
	return v1.Decrypt(in, opts)
}

// KitEncrypt is v1.Encrypt on a Source (no exclusive section is needed: the
// synchronous part of Encrypt does not touch the pool).
func KitEncrypt(src *Source, opts v1.EncryptOptions) (io.Reader, error) {
	src.phase.Store(phFirst)
	return v1.Encrypt(src, opts)
}

// ---------------------------------------------------------------- deviations

// Dev is a non-default answer of an environment call.
type Dev uint8

const (
	DevNone  Dev = iota
	DevZero      // source: 0 bytes with a nil error
	DevOne       // source: 1 byte
	DevNm1       // source: one byte less than could be delivered
	DevSeg       // source: stop exactly at the next segment (or header) boundary
	DevEOF       // source: the final bytes together with io.EOF
	DevBuf1      // consumer: a 1-byte buffer
	DevBuf7      // consumer: a 7-byte buffer
	DevHdrM1     // source: this Read ends exactly one byte before the end of the header
	DevHdr0      // source: ... exactly at the end of the header
	DevHdrP1     // source: ... one byte after the end of the header
	DevHdrP2     // source: ... two bytes after
	DevHdrP3     // source: ... three bytes after
	numDevs
)

var devNames = [...]string{"default", "zero", "one", "n-1", "segment-boundary", "data+EOF", "buf1", "buf7",
	"header-end-1", "header-end", "header-end+1", "header-end+2", "header-end+3"}

// Mask is a set of deviations (bit d = deviation d).
type Mask = uint16

func (d Dev) String() string { return devNames[d] }

// DevByName is the inverse of String.
func DevByName(s string) Dev {
	for i, n := range devNames {
		if n == s {
			return Dev(i)
		}
	}
	return DevNone
}

// ErrInjected is the sticky source fault.
var ErrInjected = errors.New("injected source failure")

// Source is a scripted io.Reader over a byte string. The default answer to a
// Read is "fill the buffer" (or Chunk bytes under a uniform policy) and
// (0, io.EOF) once the data is exhausted.
type Source struct {
	Data    []byte
	Chunk   int         // uniform policy: at most this many bytes per Read (0 = fill)
	SegBase int         // boundaries are SegBase + k*SegSize, k >= 0
	SegSize int         // 0 = no boundaries
	HdrEnd  int         // offset of the first payload byte (0 = the data has no header)
	Script  map[int]Dev // call index -> deviation
	Record  bool        // record Masks
	Masks   []Mask      // per call: bit d set when deviation d would differ from the default
	FailAt  int         // call index at which the sticky fault starts (-1 = never)
	FailDat bool        // the failing call also delivers its data
	FailErr error       // the error of the fault (nil = ErrInjected)
	// EmptyEvery = k > 0: the source answers (0, nil) once before every k-th
	// data read (k = 1: before each), never twice in a row - what a
	// non-blocking transport does now and then; no deviation script is needed.
	EmptyEvery int
	EmptyReads int // how many such answers were given
	// Stall: when the read position reaches StallAt (a Read never crosses it)
	// the source answers (0, nil) StallN times in a row, then goes on - or,
	// with StallFail, fails with the sticky fault error.
	StallAt   int
	StallN    int
	StallFail bool
	stalled   int
	Stream    io.Reader // when set, Reads are served by this reader (no script, no fault): for data too large to hold
	Calls     int

	pos       int
	dataReads int
	justEmpty bool
	failed    bool
	phase     atomic.Int32
	entered   atomic.Int64
	sig       chan struct{}
}

// NewSource returns a source with no script and no fault.
func NewSource(data []byte) *Source { return &Source{Data: data, FailAt: -1} }

func (s *Source) nextBoundary() int {
	if s.SegSize <= 0 {
		return -1
	}
	if s.pos < s.SegBase {
		return s.SegBase
	}
	k := (s.pos-s.SegBase)/s.SegSize + 1
	return s.SegBase + k*s.SegSize
}

func (s *Source) Read(p []byte) (int, error) {
	s.entered.Add(1)
	switch s.phase.Load() {
	case phWait:
		s.release()
	case phFirst:
		gate.RLock()
		//lint:ignore SA2001 barrier: wait until no Decrypt header section is open
		gate.RUnlock()
		s.phase.Store(phFree)
	}
	idx := s.Calls
	s.Calls++
	if s.Stream != nil {
		return s.Stream.Read(p)
	}
	ferr := s.FailErr
	if ferr == nil {
		ferr = ErrInjected
	}
	if s.failed {
		return 0, ferr
	}
	if s.StallN > 0 && s.pos == s.StallAt {
		if s.stalled < s.StallN {
			s.stalled++
			return 0, nil
		}
		if s.StallFail {
			s.failed = true
			return 0, ferr
		}
	}
	rem := len(s.Data) - s.pos
	if s.StallN > 0 && s.pos < s.StallAt && s.StallAt-s.pos < rem {
		rem = s.StallAt - s.pos // stop this Read at the stall point
	}
	if s.EmptyEvery > 0 && rem > 0 && len(p) > 0 {
		if !s.justEmpty && s.dataReads%s.EmptyEvery == 0 {
			s.justEmpty = true
			s.EmptyReads++
			return 0, nil
		}
		s.justEmpty = false
		s.dataReads++
	}
	n := len(p)
	if n > rem {
		n = rem
	}
	if s.Chunk > 0 && n > s.Chunk {
		n = s.Chunk
	}
	if idx == s.FailAt {
		s.failed = true
		if s.FailDat {
			copy(p, s.Data[s.pos:s.pos+n])
			s.pos += n
			return n, ferr
		}
		return 0, ferr
	}
	if len(p) == 0 {
		if s.Record {
			s.Masks = append(s.Masks, 0)
		}
		return 0, nil
	}
	seg := -1
	if b := s.nextBoundary(); b > s.pos && b-s.pos < n {
		seg = b - s.pos
	}
	// cuts[k+1] > 0: ending this Read at header end + k delivers that many
	// bytes, fewer than the default and different from the other deviations
	var cuts [5]int
	if s.HdrEnd > 0 {
		for k := -1; k <= 3; k++ {
			cut := s.HdrEnd + k - s.pos
			if cut > 0 && cut < n && cut != 1 && cut != n-1 && (cut != seg || k == 0) {
				cuts[k+1] = cut
			}
		}
		if cuts[1] > 0 && cuts[1] == seg {
			seg = -1 // the header end is reported as header-end, not as segment-boundary
		}
	}
	if s.Record {
		var m Mask = 1 << DevZero
		for k, cut := range cuts {
			if cut > 0 {
				m |= 1 << (DevHdrM1 + Dev(k))
			}
		}
		if rem > 0 {
			if n > 1 {
				m |= 1 << DevOne
			}
			if n > 2 {
				m |= 1 << DevNm1
			}
			if seg > 0 && seg != 1 && seg != n-1 {
				m |= 1 << DevSeg
			}
			if n == rem {
				m |= 1 << DevEOF
			}
		}
		s.Masks = append(s.Masks, m)
	}
	var err error
	switch s.Script[idx] {
	case DevZero:
		return 0, nil
	case DevOne:
		if n > 1 {
			n = 1
		}
	case DevNm1:
		if n > 2 {
			n--
		}
	case DevSeg:
		if seg > 0 {
			n = seg
		}
	case DevEOF:
		if rem > 0 && n == rem {
			err = io.EOF
		}
	case DevHdrM1, DevHdr0, DevHdrP1, DevHdrP2, DevHdrP3:
		if cut := cuts[s.Script[idx]-DevHdrM1]; cut > 0 {
			n = cut
		}
	}
	if rem == 0 {
		return 0, io.EOF
	}
	copy(p, s.Data[s.pos:s.pos+n])
	s.pos += n
	return n, err
}

// ErrHang is reported by Consumer when a stream neither ends nor fails.
var ErrHang = errors.New("stream did not terminate within the call budget")

// Consumer reads a stream to its end with a scripted buffer size per call.
type Consumer struct {
	Buf    int         // uniform policy: buffer size (0 = big buffer)
	Script map[int]Dev // call index -> DevBuf1 / DevBuf7
	Record bool
	Masks  []Mask
	Calls  int
}

const bigBuf = 128 << 10

var bufPool = sync.Pool{New: func() any { b := make([]byte, bigBuf); return &b }}

// ReadAll returns the bytes read before the first error and that error (nil
// for a clean io.EOF). sizeHint is the expected number of bytes.
func (c *Consumer) ReadAll(r io.Reader, sizeHint int) ([]byte, error) {
	bp := bufPool.Get().(*[]byte)
	defer bufPool.Put(bp)
	buf := *bp
	out := make([]byte, 0, sizeHint+64)
	maxCalls := 4*sizeHint + 4096
	for {
		if c.Calls >= maxCalls {
			return out, ErrHang
		}
		size := len(buf)
		if c.Buf > 0 {
			size = c.Buf
		}
		dev := c.Script[c.Calls]
		switch dev {
		case DevBuf1:
			size = 1
		case DevBuf7:
			size = 7
		}
		c.Calls++
		n, err := r.Read(buf[:size])
		out = append(out, buf[:n]...)
		if c.Record {
			var m Mask
			if dev == DevNone {
				if n > 1 {
					m |= 1 << DevBuf1
				}
				if n > 7 {
					m |= 1 << DevBuf7
				}
			}
			c.Masks = append(c.Masks, m)
		}
		if err == io.EOF {
			return out, nil
		}
		if err != nil {
			return out, err
		}
	}
}

// ---------------------------------------------------------------- search

// Placement is one deviation at one call of one environment.
type Placement struct {
	Env int `json:"env"`
	Idx int `json:"idx"`
	Dev Dev `json:"-"`
	// DevName is Dev spelled out (replay files).
	DevName string `json:"dev"`
}

// P makes a placement.
func P(env, idx int, d Dev) Placement {
	return Placement{Env: env, Idx: idx, Dev: d, DevName: d.String()}
}

// Fix restores Dev after JSON decoding.
func (p *Placement) Fix() { p.Dev = DevByName(p.DevName) }

// ScriptFor extracts the script of one environment from a placement list.
func ScriptFor(ps []Placement, env int) map[int]Dev {
	var m map[int]Dev
	for _, p := range ps {
		if p.Env == env {
			if m == nil {
				m = map[int]Dev{}
			}
			m[p.Idx] = p.Dev
		}
	}
	return m
}

// Successors lists every placement that may be added to ps: one deviation at a
// call that comes, in (environment, call index) order, strictly after the last
// placement of ps, where masks are the applicability masks recorded while
// running ps. Because every environment's call sequence is a deterministic
// function of the answers given (one producer, one consumer per pipe), adding
// a placement never changes anything before it, so every set of placements is
// generated exactly once.
func Successors(ps []Placement, masks [][]Mask) []Placement {
	le, li := 0, -1
	if len(ps) > 0 {
		le, li = ps[len(ps)-1].Env, ps[len(ps)-1].Idx
	}
	var out []Placement
	for e := le; e < len(masks); e++ {
		from := 0
		if e == le {
			from = li + 1
		}
		for i := from; i < len(masks[e]); i++ {
			for d := Dev(1); d < numDevs; d++ {
				if masks[e][i]&(1<<d) != 0 {
					out = append(out, P(e, i, d))
				}
			}
		}
	}
	return out
}

// Pattern is the deterministic plaintext of a given length: not periodic in
// the segment size, so that exchanged or repeated segments are visible.
func Pattern(n int, salt byte) []byte {
	p := make([]byte, n)
	for i := range p {
		p[i] = byte(i*131) ^ byte(i>>8) ^ byte(i>>16)*29 ^ salt
	}
	return p
}
