package encenv

import (
	"testing"
	"time"
)

func TestProbeKW(t *testing.T) {
	fk := Pattern(32, 1)
	for _, k := range KWs {
		t0 := time.Now()
		w, err := k.KitWrap(fk, k.Canonical)
		t1 := time.Now()
		if err != nil {
			t.Fatal(k.Label, err)
		}
		u, err := k.KitUnwrap(w, k.Canonical)
		t2 := time.Now()
		if err != nil || string(u) != string(fk) {
			t.Fatal(k.Label, err)
		}
		u2, err := k.RefUnwrap(w, k.ID)
		t3 := time.Now()
		if err != nil || string(u2) != string(fk) {
			t.Fatal(k.Label, "ref", err)
		}
		w2, err := k.RefWrap(fk)
		if err != nil || len(w2) != k.WFKLen || len(w) != k.WFKLen {
			t.Fatal(k.Label, "refwrap", err, len(w2), len(w))
		}
		u3, err := k.KitUnwrap(w2, k.Canonical)
		if err != nil || string(u3) != string(fk) {
			t.Fatal(k.Label, "kit unwrap of ref wrap", err)
		}
		t.Logf("%-20s kit wrap %v, kit unwrap %v, ref unwrap %v", k.Label, t1.Sub(t0), t2.Sub(t1), t3.Sub(t2))
	}
}

func TestProbeRSARepeat(t *testing.T) {
	fk := Pattern(32, 1)
	for _, k := range KWs[5:] {
		w, _ := k.KitWrap(fk, k.Canonical)
		t0 := time.Now()
		for i := 0; i < 5; i++ {
			k.KitUnwrap(w, k.Canonical)
		}
		t1 := time.Now()
		for i := 0; i < 5; i++ {
			k.RefUnwrap(w, k.ID)
		}
		t.Logf("%s kit %v ref %v per op", k.Label, t1.Sub(t0)/5, time.Since(t1)/5)
	}
}
