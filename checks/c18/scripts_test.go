package c18

// Round 3: three further families of scenarios, all run by one generic
// executor (execScript):
//
//	fault    a filesystem step of a Write FAILS (EIO, not performed) instead of
//	         the process dying; the Dir lives on
//	targets  two Dirs whose targets share the parent directory, with related
//	         names (x / a-x, x / x-a) and unrelated ones (x / y)
//	memory   the caller re-uses its map and byte slices between Writes
//
// The oracle is the one of the crash family, evaluated for every target of
// the script after every single step.

import (
	"bytes"
	"encoding/json"
	"fmt"
	"os"
	"path/filepath"
	"regexp"
	"strings"
	"syscall"
	"unsafe"

	"github.com/dapr/kit/concurrency/dir"

	"verif/enumx"
	"verif/mc"
	"verif/ref/crashfs/ctl"
	"verif/ref/crashfs/rawfs"
)

// Op is one Write call of a script.
type Op struct {
	D     int    `json:"d"`               // which Dir instance calls (index into Script.Dirs)
	Set   int    `json:"set"`             // index into fileSets
	Fault *int   `json:"fault,omitempty"` // this step of the call fails with EIO and is not performed
	Crash *Crash `json:"crash,omitempty"` // the process dies here: every Dir instance used so far is gone
	// Mem says where the caller takes the argument from:
	//   ""        a fresh map and fresh slices (what the crash family does)
	//   "inplace" the map object and the backing arrays of this Dir's previous
	//             call, overwritten in place (same lengths; keys follow Set)
	//   "relen"   the same, but every value gets a different length (re-sliced
	//             from the same backing array)
	//   "same"    fresh memory holding exactly the previous call's contents
	Mem string `json:"mem,omitempty"`
}

// Script is one case of the round-3 families.
type Script struct {
	Family  string   `json:"family"`
	Targets []string `json:"targets"` // base names of the targets, all in one parent directory
	Dirs    []int    `json:"dirs"`    // Dirs[i] is the target (index) of Dir instance i; created at first use
	Ops     []Op     `json:"ops"`
	Desc    bool     `json:"desc,omitempty"`
}

func (sc Script) String() string { b, _ := json.Marshal(sc); return string(b) }

func (sc Script) hasTwo() bool {
	for _, o := range sc.Ops {
		if len(fileSets[o.Set]) > 1 {
			return true
		}
	}
	return false
}

// caller is the memory of the code that calls one Dir.
type caller struct {
	m    map[string][]byte
	seq  int // seq of the contents the map holds
	pad  int
	bufs map[string][]byte // backing arrays by key (cap 256)
}

func payload2(seq, pad int, name string) string {
	return payload(seq, name) + strings.Repeat("+", pad)
}

// arg builds the argument of the next call according to mem.
func (c *caller) arg(mem string, seq, set int) (files map[string][]byte, want map[string]string) {
	want = map[string]string{}
	switch mem {
	case "":
		c.m = map[string][]byte{}
		c.bufs = map[string][]byte{}
		c.seq, c.pad = seq, 0
	case "same":
		// fresh memory, previous contents
		c.m = map[string][]byte{}
		c.bufs = map[string][]byte{}
	case "inplace":
		c.seq = seq
	case "relen":
		c.seq = seq
		c.pad++
	default:
		panic("c18: unknown mem mode " + mem)
	}
	if c.m == nil {
		c.m = map[string][]byte{}
		c.bufs = map[string][]byte{}
	}
	keep := map[string]bool{}
	for _, n := range fileSets[set] {
		keep[n] = true
		p := payload2(c.seq, c.pad, n)
		buf, ok := c.bufs[n]
		if !ok {
			buf = make([]byte, 0, 256)
			c.bufs[n] = buf
		}
		buf = buf[:len(p)]
		copy(buf, p) // in place when the array was used before
		c.m[n] = buf
		want[n] = p
	}
	for k := range c.m {
		if !keep[k] {
			delete(c.m, k)
		}
	}
	return c.m, want
}

// memSnapshot records the caller's argument so that a Write that modifies it
// is noticed: keys, slice headers, and the whole backing arrays.
type memSnapshot struct {
	keys map[string]struct {
		ptr      unsafe.Pointer
		len, cap int
		full     []byte
	}
}

func snapshot(files map[string][]byte) memSnapshot {
	s := memSnapshot{keys: map[string]struct {
		ptr      unsafe.Pointer
		len, cap int
		full     []byte
	}{}}
	for k, v := range files {
		e := s.keys[k]
		e.ptr, e.len, e.cap = unsafe.Pointer(unsafe.SliceData(v)), len(v), cap(v)
		e.full = append([]byte(nil), v[:cap(v)]...)
		s.keys[k] = e
	}
	return s
}

func (s memSnapshot) diff(files map[string][]byte) string {
	if len(files) != len(s.keys) {
		return fmt.Sprintf("the map has %d keys, had %d", len(files), len(s.keys))
	}
	for k, e := range s.keys {
		v, ok := files[k]
		switch {
		case !ok:
			return fmt.Sprintf("key %q was deleted", k)
		case unsafe.Pointer(unsafe.SliceData(v)) != e.ptr || len(v) != e.len || cap(v) != e.cap:
			return fmt.Sprintf("the slice stored under %q was replaced", k)
		case !bytes.Equal(v[:cap(v)], e.full):
			return fmt.Sprintf("the bytes of %q were changed", k)
		}
	}
	return ""
}

var verAny = regexp.MustCompile(`^\d{15,}-`)

// canon2 is canon for scripts: version directories of any target become
// v1-<target>, v2-<target>, ... in creation order.
func canon2(root string, vers []string, s string) string {
	s = strings.ReplaceAll(s, root+"/", "")
	for i, v := range vers {
		j := strings.IndexByte(v, '-')
		s = strings.ReplaceAll(s, v, fmt.Sprintf("v%d%s", i+1, v[j:]))
	}
	return s
}

var eio = &os.PathError{Op: "injected-fault", Path: "(the step's path)", Err: syscall.EIO}

// execScript runs one script from an empty scratch directory.
func (w *worker) execScript(sc Script) (res result) {
	if stopping.Load() {
		select {}
	}
	if mc.ReverseMapOrder != sc.Desc {
		panic("c18: mc.ReverseMapOrder does not match the script's order")
	}
	base := filepath.Join(w.root, "base")
	defer rawfs.RemoveTree(base)
	tms := make([]*model, len(sc.Targets)) // the oracle state, one per target
	for i, n := range sc.Targets {
		tms[i] = &model{root: w.root, base: base, target: filepath.Join(base, n)}
	}
	mm := &model{root: w.root, base: base} // trace + fingerprint of the run
	var key, msg, disk string
	fail := func(k, m string) {
		if key == "" {
			key, msg, disk = k, m, diskState(base)
		}
	}
	collect := func() {
		for i, tm := range tms {
			if tm.key != "" && key == "" {
				fail(tm.key, fmt.Sprintf("target %q: %s", sc.Targets[i], tm.msg))
			}
		}
	}
	observeAll := func(when func() string) {
		if key != "" {
			mm.nobs += int64(len(tms))
			return
		}
		for _, tm := range tms {
			tm.observe(when)
		}
		collect()
	}
	start := w.c.TotalSteps()
	opNo := 0
	var vers []string
	w.c.Observe = func(ev ctl.Event) {
		if ev.Label == "MkdirAll" {
			if b := filepath.Base(ev.Path); verAny.MatchString(b) && (len(vers) == 0 || vers[len(vers)-1] != b) {
				vers = append(vers, b)
			}
		}
		if ev.Err != nil {
			mm.note(ev.Label + "!")
		} else {
			mm.note(ev.Label)
		}
		observeAll(func() string { return fmt.Sprintf("after step %d (%s) of call #%d", ev.Index, ev.Label, opNo) })
	}
	defer func() {
		w.c.Observe = nil
		for _, tm := range tms {
			mm.mix(fmt.Sprint(tm.fp))
			mm.nobs += tm.nobs
		}
		mm.mix(canon2(w.root, vers, diskShape(base, nil)))
		res.fp = mm.fp
		res.key = key
		res.fsSteps = w.c.TotalSteps() - start
		res.nobs = mm.nobs
		res.trace = mm.trace
		if key != "" {
			res.msg = canon2(w.root, vers, fmt.Sprintf("%s | disk at that instant: %s | script %s | steps of the whole run: %s", msg, disk, sc, strings.Join(mm.trace, " ")))
		}
	}()

	dirs := make([]*dir.Dir, len(sc.Dirs))
	callers := make([]*caller, len(sc.Dirs))
	writers := make([]map[int]bool, len(sc.Targets)) // Dir instances that wrote each target
	for i := range writers {
		writers[i] = map[int]bool{}
	}
	crashed, faulted := false, false
	for i, op := range sc.Ops {
		opNo = i + 1
		seq := i + 1
		ti := sc.Dirs[op.D]
		tm := tms[ti]
		if dirs[op.D] == nil {
			dirs[op.D] = dir.New(dir.Options{Log: quiet, Target: tm.target})
			callers[op.D] = &caller{}
		}
		writers[ti][op.D] = true
		files, want := callers[op.D].arg(op.Mem, seq, op.Set)
		tm.writes = append(tm.writes, want)
		names := fileSets[op.Set]
		if sc.Desc && len(names) > 1 {
			names = []string{names[1], names[0]}
		}
		mem := ""
		if op.Mem != "" {
			mem = " " + op.Mem
		}
		mm.note(fmt.Sprintf("D%d[%s].Write(%s%s):", op.D, sc.Targets[ti], strings.Join(names, ","), mem))
		snap := snapshot(files)
		w.c.Begin()
		if op.Fault != nil {
			w.c.Fail(*op.Fault, eio)
			res.planned++
		}
		if op.Crash != nil {
			w.c.Arm(op.Crash.Step, op.Crash.After)
			res.planned++
		}
		err, cr := callWrite(dirs[op.D], files)
		res.opSteps = append(res.opSteps, w.c.Steps())
		what := fmt.Sprintf("call #%d (Dir %d, target %q)", opNo, op.D, sc.Targets[ti])
		if op.Fault != nil && w.c.Failed() != "" {
			res.fired++
			faulted = true
			if res.fired == 1 {
				res.stepsAtFirstCrash = w.c.TotalSteps() - start
			}
		}
		if d := snap.diff(files); d != "" {
			fail("write-modified-caller-memory", fmt.Sprintf("%s changed its argument: %s", what, d))
			return
		}
		if cr != nil {
			res.fired++
			if res.fired == 1 {
				res.stepsAtFirstCrash = w.c.TotalSteps() - start
			}
			crashed = true
			mm.trace = append(mm.trace, "CRASH("+cr.String()+")")
			mm.mix("CRASH")
			observeAll(func() string { return "after the " + cr.String() + " in " + what })
			for j := range dirs { // the process is dead: all its Dir objects and its memory are gone
				dirs[j], callers[j] = nil, nil
			}
			if key != "" {
				return
			}
			continue
		}
		if err != nil {
			mm.note("-> error")
			if op.Fault != nil && w.c.Failed() != "" {
				// the environment failed: an error is the right answer. The
				// target must still satisfy the invariant (old or new set).
				observeAll(func() string { return "after " + what + " returned the injected error" })
				if key != "" {
					return
				}
				continue
			}
			tm.writeFailed(err, crashed || faulted, what)
			collect()
			return
		}
		mm.note("-> nil")
		// the leftover clause applies to a target written by one Dir only, in a
		// script without crash and without fault
		tm.afterNil(want, !crashed && !faulted && len(writers[ti]) == 1, what)
		collect()
		if key != "" {
			return
		}
		// the Write of one Dir must leave every other target as it was
		observeAll(func() string { return "after " + what + " returned nil" })
		if key != "" {
			return
		}
	}
	return
}

// ---------------------------------------------------------------- enumeration

type scriptEnv struct {
	r      *enumx.Run
	get    func() *worker
	put    func(*worker)
	note   func(res result, sc any, s *slot)
	report func([]slot)
	desc   bool
	order  string
}

// runScripts executes a list of scripts in parallel, in list order for the
// report; scripts without a two-file set are skipped in the descending pass.
// after(i,res) may derive further scripts (run by the same worker).
func (e *scriptEnv) runItems(n int, item func(i int, run func(Script) result)) (done int) {
	slots := make([]slot, n)
	done = e.r.Parallel(n, func(i int) {
		w := e.get()
		defer e.put(w)
		item(i, func(sc Script) result {
			sc.Desc = e.desc
			res := w.execScript(sc)
			e.note(res, sc, &slots[i])
			return res
		})
	})
	e.report(slots)
	return done
}

func ip(i int) *int { return &i }

// faultFamily: one Dir, history h (the fault is in its last Write, at every
// step index), then the same Dir and/or a fresh Dir go on.
func (e *scriptEnv) faultFamily(hists [][]int, nlast []int, maxLen int) bool {
	type item struct {
		h []int
		k int
	}
	var items []item
	for i, h := range hists {
		if len(h) > maxLen {
			continue
		}
		for k := 0; k < nlast[i]; k++ {
			items = append(items, item{h, k})
		}
	}
	thirdSets := []int{0, 2}
	done := e.runItems(len(items), func(i int, run func(Script) result) {
		it := items[i]
		mk := func(extra ...Op) Script {
			sc := Script{Family: "fault", Targets: []string{"tgt"}, Dirs: []int{0, 0, 0}}
			for j, s := range it.h {
				op := Op{D: 0, Set: s}
				if j == len(it.h)-1 {
					op.Fault = ip(it.k)
				}
				sc.Ops = append(sc.Ops, op)
			}
			sc.Ops = append(sc.Ops, extra...)
			return sc
		}
		skip := func(sc Script) bool { return e.desc && !sc.hasTwo() }
		run(mk()) // the failing Write alone
		for r1 := range fileSets {
			// the same Dir goes on, then a fresh one
			var nr int
			for t := range fileSets {
				sc := mk(Op{D: 0, Set: r1}, Op{D: 1, Set: t})
				if skip(sc) && t != 0 {
					continue
				}
				res := run(sc)
				if len(res.opSteps) > len(it.h) {
					nr = res.opSteps[len(it.h)]
				}
			}
			// a fresh Dir takes over directly
			if sc := mk(Op{D: 1, Set: r1}); !skip(sc) {
				run(sc)
			}
			// the same Dir goes on and the process dies in that Write
			for _, c := range points(nr, false) {
				c := c
				for _, t := range thirdSets {
					if sc := mk(Op{D: 0, Set: r1, Crash: &c}, Op{D: 1, Set: t}); !skip(sc) {
						run(sc)
					}
				}
			}
		}
	})
	if done < len(items) {
		e.r.Incomplete(fmt.Sprintf("%s order: fault family: %d of %d (history, failing step) items completed within the budget", e.order, done, len(items)))
		return false
	}
	e.r.Space(fmt.Sprintf("%s order: fault family: all %d (history of 1..%d Writes, failing step of its last Write) items: the failing Write alone; the same Dir writing each of 4 sets then a fresh Dir writing each of 4; "+
		"a fresh Dir writing each of 4; the same Dir dying in each distinct gap of its next Write (4 sets) then a fresh Dir writing {} or {a,b}", e.order, len(items), maxLen))
	return true
}

// namePairs: one name a '-'-joined suffix of the other, one a prefix, unrelated.
var namePairs = [][]string{{"x", "a-x"}, {"x", "x-a"}, {"x", "y"}}

// targetSets is the alphabet of the two-target family.
var targetSets = []int{1, 2}

// targetFamily: Dir 0 -> Targets[0], Dir 1 -> Targets[1], every interleaving
// of up to two Writes each (both Dirs write at least once), crash-free; then a
// crash in every distinct gap of the last Write followed by two fresh Dirs.
func (e *scriptEnv) targetFamily() bool {
	var orders [][]int
	var gen func(p []int, a, b int)
	gen = func(p []int, a, b int) {
		if a >= 1 && b >= 1 {
			orders = append(orders, append([]int(nil), p...))
		}
		if a < 2 {
			gen(append(p, 0), a+1, b)
		}
		if b < 2 {
			gen(append(p, 1), a, b+1)
		}
	}
	gen(nil, 0, 0)
	type item struct {
		names []string
		ops   []Op
	}
	var items []item
	for _, np := range namePairs {
		for _, o := range orders {
			var rec func(j int, ops []Op)
			rec = func(j int, ops []Op) {
				if j == len(o) {
					items = append(items, item{np, append([]Op(nil), ops...)})
					return
				}
				for _, s := range targetSets {
					rec(j+1, append(ops, Op{D: o[j], Set: s}))
				}
			}
			rec(0, nil)
		}
	}
	done := e.runItems(len(items), func(i int, run func(Script) result) {
		it := items[i]
		mk := func(c *Crash, extra ...Op) Script {
			sc := Script{Family: "targets", Targets: it.names, Dirs: []int{0, 1, 0, 1}}
			sc.Ops = append(sc.Ops, it.ops...)
			if c != nil {
				sc.Ops[len(sc.Ops)-1].Crash = c
			}
			sc.Ops = append(sc.Ops, extra...)
			return sc
		}
		sc := mk(nil)
		if e.desc && !sc.hasTwo() {
			return
		}
		res := run(sc)
		n := 0
		if len(res.opSteps) == len(it.ops) {
			n = res.opSteps[len(it.ops)-1]
		}
		for _, c := range points(n, false) {
			c := c
			for _, s := range targetSets {
				run(mk(&c, Op{D: 2, Set: s}, Op{D: 3, Set: s}))
				run(mk(&c, Op{D: 3, Set: s}, Op{D: 2, Set: s}))
			}
		}
	})
	if done < len(items) {
		e.r.Incomplete(fmt.Sprintf("%s order: two-target family: %d of %d interleavings completed within the budget", e.order, done, len(items)))
		return false
	}
	e.r.Space(fmt.Sprintf("%s order: two-target family: name pairs %v in one parent directory x all %d interleavings of 1..2 Writes per Dir x file sets {a},{a,b}: %d crash-free scripts, "+
		"each also with a crash in every distinct gap of its last Write followed by two fresh Dirs (both orders, 2 sets); both targets checked after every step, leftover clause per target", e.order, namePairs, len(orders), len(items)))
	return true
}

// memoryFamily: one Dir, crash-free, the caller re-uses its memory.
func (e *scriptEnv) memoryFamily(maxLen int) bool {
	var items []Script
	var rec func(ops []Op)
	rec = func(ops []Op) {
		if len(ops) >= 2 {
			interesting := false
			for _, o := range ops[1:] {
				interesting = interesting || o.Mem != ""
			}
			if interesting {
				items = append(items, Script{Family: "memory", Targets: []string{"tgt"}, Dirs: []int{0}, Ops: append([]Op(nil), ops...)})
			}
		}
		if len(ops) == maxLen {
			return
		}
		for s := range fileSets {
			if len(ops) == 0 {
				rec(append(ops, Op{D: 0, Set: s}))
				continue
			}
			for _, m := range []string{"", "inplace", "relen", "same"} {
				if m == "same" && s != ops[len(ops)-1].Set {
					continue // "same contents" means the same set
				}
				rec(append(ops, Op{D: 0, Set: s, Mem: m}))
			}
		}
	}
	rec(nil)
	done := e.runItems(len(items), func(i int, run func(Script) result) {
		if e.desc && !items[i].hasTwo() {
			return
		}
		run(items[i])
	})
	if done < len(items) {
		e.r.Incomplete(fmt.Sprintf("%s order: caller-memory family: %d of %d scripts completed within the budget", e.order, done, len(items)))
		return false
	}
	e.r.Space(fmt.Sprintf("%s order: caller-memory family: all %d crash-free histories of 2..%d Writes by one Dir over 4 file sets where each Write after the first takes its argument from "+
		"fresh memory | the previous call's map and backing arrays overwritten in place with equal lengths | the same with different lengths | fresh memory with the previous contents (at least one not fresh); "+
		"the argument (keys, slice headers, backing arrays) is compared before/after every call", e.order, len(items), maxLen))
	return true
}
