// Package c18 decides property C18 (dir.Write crash consistency) by crash-point
// enumeration on the real code: github.com/dapr/kit/concurrency/dir is built
// with its `os` import replaced by verif/ref/crashfs and its `time` import by
// verif/ref/crashfs/ctime (mcgen -noconc -import, applied as a build overlay
// by ./check; /repo is not touched). Every filesystem call dir.go makes is
// performed on a real scratch directory and is a crash point before and after;
// an observer inspects the target after every single step.
package c18

import (
	"encoding/json"
	"errors"
	"fmt"
	"io"
	"io/fs"
	"os"
	"os/signal"
	"path/filepath"
	"regexp"
	"runtime"
	"runtime/debug"
	"sort"
	"strings"
	"sync"
	"sync/atomic"
	"syscall"
	"testing"
	"time"

	"github.com/dapr/kit/concurrency/dir"
	"github.com/dapr/kit/logger"

	"verif/enumx"
	"verif/mc"
	"verif/ref/crashfs/ctl"
	"verif/ref/crashfs/rawfs"
)

func TestCheck(t *testing.T) { enumx.Main(t, "C18", "crash", run) }

// ---------------------------------------------------------------- the space

// fileSets is the alphabet of DESIGN §4 C18: empty, single, two files, and a
// set overlapping the previous one in one name.
var fileSets = [][]string{{}, {"a"}, {"a", "b"}, {"b", "c"}}

// Crash places one crash in a Write: before (After=false) or after step Step,
// steps numbered from 0 within that Write call.
type Crash struct {
	Step  int  `json:"step"`
	After bool `json:"after"`
}

// Scenario is one case. Process 1 (one Dir) performs the Writes of Hist and
// dies at C1 inside the last of them; process 2 (a fresh Dir on the same
// target) performs Rec and, if C2 is set, dies inside Rec[0]; process 3 (a
// third fresh Dir) performs Third. Numbers are indices into fileSets.
type Scenario struct {
	Hist  []int  `json:"hist"`
	C1    *Crash `json:"crash1,omitempty"`
	Rec   []int  `json:"rec,omitempty"`
	C2    *Crash `json:"crash2,omitempty"`
	Third []int  `json:"third,omitempty"`
	// Desc: every Write of the scenario creates its files in descending name
	// order (mc.ReverseMapOrder) instead of ascending.
	Desc bool `json:"desc,omitempty"`
}

// hasTwo reports whether some Write of the scenario has a two-file set, i.e.
// whether the creation order can make a difference at all.
func (sc Scenario) hasTwo() bool {
	for _, l := range [][]int{sc.Hist, sc.Rec, sc.Third} {
		for _, s := range l {
			if len(fileSets[s]) > 1 {
				return true
			}
		}
	}
	return false
}

func (sc Scenario) String() string { b, _ := json.Marshal(sc); return string(b) }

// points lists the crash points of a Write of n steps. literal: before and
// after each step (2n). Otherwise once per distinct gap between two steps
// (n+1): before step 0 and after every step — "before step k>0" is the same
// instant as "after step k-1", only in-memory code runs in between.
func points(n int, literal bool) []Crash {
	var out []Crash
	for k := 0; k < n; k++ {
		if literal || k == 0 {
			out = append(out, Crash{k, false})
		}
		out = append(out, Crash{k, true})
	}
	return out
}

// contents of file `name` in the seq-th Write call of a scenario: every Write
// call is distinguishable from every other, and both halves of a file differ.
func payload(seq int, name string) string {
	return fmt.Sprintf("<w%d/%s:first-half|w%d/%s:second-half>", seq, name, seq, name)
}

func mkfiles(seq, set int) (map[string][]byte, map[string]string) {
	files := map[string][]byte{}
	want := map[string]string{}
	for _, n := range fileSets[set] {
		p := payload(seq, n)
		files[n] = []byte(p)
		want[n] = p
	}
	return files, want
}

// ---------------------------------------------------------------- the oracle

// model is what the property lets a reader see. It is fed only with the Write
// calls that were started and whether one returned nil — not with dir.go's
// steps.
type model struct {
	root, base, target string

	writes      []map[string]string // file sets of every Write call started so far
	anyNil      bool                // some Write call has returned nil
	seenPresent bool                // the target has been observed present

	key, msg string // first violation
	disk     string // listing of the base directory at that instant
	vers     []string
	trace    []string
	nobs     int64
	fp       uint64 // fingerprint of everything executed and observed so far
}

// mix folds a string into the fingerprint (FNV-1a, 64 bit).
func (m *model) mix(s string) {
	h := m.fp
	if h == 0 {
		h = 14695981039346656037
	}
	for i := 0; i < len(s); i++ {
		h = (h ^ uint64(s[i])) * 1099511628211
	}
	m.fp = (h ^ 0xff) * 1099511628211
}

// mixTarget folds one observation of the target into the fingerprint.
func (m *model) mixTarget(kind int, files map[string]string) {
	m.mix(string(rune('0' + kind)))
	if len(files) == 0 {
		return
	}
	ks := make([]string, 0, len(files))
	for k := range files {
		ks = append(ks, k)
	}
	sort.Strings(ks)
	for _, k := range ks {
		m.mix(k)
		m.mix(files[k])
	}
}

// note appends to the readable trace and to the fingerprint.
func (m *model) note(s string) {
	m.trace = append(m.trace, s)
	m.mix(s)
}

func (m *model) fail(key, format string, a ...any) {
	if m.key == "" {
		m.key, m.msg = key, fmt.Sprintf(format, a...)
		m.disk = diskState(m.base)
	}
}

const (
	tAbsent = iota
	tUnresolvable
	tDir
)

// readTarget is the concurrent reader: resolve the target path and read the
// complete directory it leads to.
func readTarget(target string) (kind int, files map[string]string, detail string) {
	names, err := rawfs.List(target) // follows the symlink
	if err != nil {
		k, lerr := rawfs.Lkind(target)
		if lerr == nil && k == rawfs.Absent {
			return tAbsent, nil, "absent"
		}
		if l, e := rawfs.Readlink(target); e == nil {
			return tUnresolvable, nil, fmt.Sprintf("a symlink to %s: opening it as a directory: %v", l, err)
		}
		return tUnresolvable, nil, fmt.Sprintf("opening it as a directory: %v", err)
	}
	files = make(map[string]string, len(names))
	for _, n := range names {
		data, ok, err := rawfs.ReadRegular(target + "/" + n)
		switch {
		case err != nil:
			files[n] = "<unreadable: " + err.Error() + ">"
		case !ok:
			files[n] = "<not a regular file>"
		default:
			files[n] = data
		}
	}
	return tDir, files, ""
}

func sameSet(a, b map[string]string) bool {
	if len(a) != len(b) {
		return false
	}
	for k, v := range a {
		if w, ok := b[k]; !ok || w != v {
			return false
		}
	}
	return true
}

func showSet(s map[string]string) string {
	ks := make([]string, 0, len(s))
	for k := range s {
		ks = append(ks, k)
	}
	sort.Strings(ks)
	var sb strings.Builder
	sb.WriteString("{")
	for i, k := range ks {
		if i > 0 {
			sb.WriteString(", ")
		}
		fmt.Fprintf(&sb, "%s=%q", k, s[k])
	}
	sb.WriteString("}")
	return sb.String()
}

// observe is the invariant of the property, evaluated at one instant.
func (m *model) observe(when func() string) {
	m.nobs++
	if m.key != "" {
		return
	}
	kind, files, detail := readTarget(m.target)
	m.mixTarget(kind, files)
	switch kind {
	case tAbsent:
		if m.anyNil {
			m.fail("target-absent-after-successful-write", "%s: the target is absent although a Write has returned nil", when())
		} else if m.seenPresent {
			m.fail("target-absent-after-present", "%s: the target is absent although it has been present before", when())
		}
	case tUnresolvable:
		m.seenPresent = true
		m.fail("target-unresolvable", "%s: the target exists but does not resolve to a directory (%s)", when(), detail)
	case tDir:
		m.seenPresent = true
		for _, w := range m.writes {
			if sameSet(files, w) {
				return
			}
		}
		m.fail("target-partial-or-mixed", "%s: the target shows %s, which is not the complete file set of any single Write call of the history", when(), showSet(files))
	}
}

// afterNil is evaluated when a Write call has returned nil.
func (m *model) afterNil(want map[string]string, crashFree bool, what string) {
	m.anyNil = true
	m.nobs++
	if m.key != "" {
		return
	}
	kind, files, detail := readTarget(m.target)
	m.mixTarget(kind, files)
	if kind != tDir {
		m.fail("write-returned-nil-target-not-a-directory", "%s returned nil but the target is %s", what, detail)
		return
	}
	m.seenPresent = true
	if !sameSet(files, want) {
		m.fail("write-returned-nil-target-shows-other-set", "%s returned nil but the target shows %s instead of %s", what, showSet(files), showSet(want))
		return
	}
	if !crashFree {
		return
	}
	// "without crashes, only the current version directory remains after each Write"
	cur := ""
	if l, err := rawfs.Readlink(m.target); err == nil {
		cur = filepath.Base(l)
	}
	tn := filepath.Base(m.target)
	names, _ := rawfs.List(m.base)
	var extra []string
	for _, n := range names {
		if n == tn || n == cur {
			continue
		}
		if n == tn+".new" || isVersionOf(n, tn) {
			extra = append(extra, n)
		}
	}
	if len(extra) > 0 {
		m.fail("leftover-after-crashfree-write", "%s returned nil in a crash-free history of one Dir, but besides the current version %s there remain: %s", what, cur, strings.Join(extra, ", "))
	}
}

// isVersionOf reports whether the directory entry n is a version directory of
// the target named tn: "<decimal number>-<tn>" (dir.go names them by UnixNano).
// A sibling target "a-<tn>" and its versions "<number>-a-<tn>" are not.
func isVersionOf(n, tn string) bool {
	if !strings.HasSuffix(n, "-"+tn) {
		return false
	}
	num := strings.TrimSuffix(n, "-"+tn)
	if num == "" {
		return false
	}
	for i := 0; i < len(num); i++ {
		if num[i] < '0' || num[i] > '9' {
			return false
		}
	}
	return true
}

// classify names a Write call that returned an error.
func (m *model) writeFailed(err error, afterCrash bool, what string) {
	var le *os.LinkError
	if errors.As(err, &le) && le.Op == "symlink" && le.New == m.target+".new" && errors.Is(err, fs.ErrExist) {
		m.fail("stale-dot-new-blocks-writes", "%s failed: %v (a stale <target>.new left by an earlier crash makes Symlink fail with EEXIST)", what, err)
		return
	}
	op := "?"
	var pe *os.PathError
	if le != nil {
		op = le.Op
	} else if errors.As(err, &pe) {
		op = pe.Op
	}
	if afterCrash {
		m.fail("write-fails-after-crash:"+op, "%s failed: %v", what, err)
	} else {
		m.fail("write-fails-without-crash:"+op, "%s failed: %v", what, err)
	}
}

// ---------------------------------------------------------------- execution

var quiet = func() logger.Logger {
	l := logger.NewLogger("verif-c18")
	l.SetOutput(io.Discard)
	l.SetOutputLevel(logger.FatalLevel)
	return l
}()

type worker struct {
	c    *ctl.Controller
	root string
}

type result struct {
	key, msg string
	steps    [3][]int // steps performed per process per Write call
	planned  int      // crashes placed
	fired    int      // crashes that fired
	opSteps  []int    // scripts: steps performed per call
	fsSteps  int64
	nobs     int64
	trace    []string
	fp       uint64 // fingerprint: steps executed, every observation of the target, final shape of the base directory
	// filesystem steps performed in the whole scenario when the first crash fired
	stepsAtFirstCrash int64
}

func callWrite(d *dir.Dir, files map[string][]byte) (err error, cr *ctl.Crash) {
	defer func() {
		if x := recover(); x != nil {
			c, ok := x.(*ctl.Crash)
			if !ok {
				panic(x)
			}
			cr = c
		}
	}()
	return d.Write(files), nil
}

var verRe = regexp.MustCompile(`\b\d{15,}-tgt\b`)

// canon makes a message independent of the scratch location and of the
// absolute ctime values: version directories become v1, v2, ... in the order
// the scenario created them.
func canon(root string, vers []string, s string) string {
	s = strings.ReplaceAll(s, root+"/", "")
	for i, v := range vers {
		s = strings.ReplaceAll(s, v, fmt.Sprintf("v%d-tgt", i+1))
	}
	return s
}

// diskState lists the base directory.
func diskState(base string) string {
	names, err := rawfs.List(base)
	if err != nil {
		return "(base absent)"
	}
	var out []string
	for _, n := range names {
		p := filepath.Join(base, n)
		switch k, _ := rawfs.Lkind(p); k {
		case rawfs.Symlink:
			l, _ := rawfs.Readlink(p)
			out = append(out, n+" -> "+l)
		case rawfs.Dir:
			_, files, _ := readTarget(p)
			out = append(out, n+showSet(files))
		default:
			out = append(out, n)
		}
	}
	return strings.Join(out, "; ")
}

// diskShape is the final state of the base directory reduced to what does not
// depend on the order in which one Write created its files: the symlinks with
// their (canonical) destinations, and per version directory the number of
// entries and their total size.
func diskShape(base string, vers []string) string {
	names, err := rawfs.List(base)
	if err != nil {
		return "(base absent)"
	}
	var sb strings.Builder
	for _, n := range names {
		p := filepath.Join(base, n)
		sb.WriteString(n)
		switch k, _ := rawfs.Lkind(p); k {
		case rawfs.Symlink:
			l, _ := rawfs.Readlink(p)
			sb.WriteString("->" + filepath.Base(l))
		case rawfs.Dir:
			ents, _ := rawfs.List(p)
			size := 0
			for _, e := range ents {
				d, _, _ := rawfs.ReadRegular(p + "/" + e)
				size += len(d)
			}
			fmt.Fprintf(&sb, "{%d entries, %d bytes}", len(ents), size)
		}
		sb.WriteString(";")
	}
	return canon(filepath.Dir(base), vers, sb.String())
}

var stopping atomic.Bool

// exec runs one scenario from an empty scratch directory.
func (w *worker) exec(sc Scenario) (res result) {
	if stopping.Load() {
		select {} // the process is being interrupted
	}
	if mc.ReverseMapOrder != sc.Desc {
		panic("c18: mc.ReverseMapOrder does not match the scenario's order")
	}
	base := filepath.Join(w.root, "base")
	target := filepath.Join(base, "tgt")
	defer rawfs.RemoveTree(base)
	m := &model{root: w.root, base: base, target: target}
	start := w.c.TotalSteps()
	proc, call := 0, 0
	w.c.Observe = func(ev ctl.Event) {
		if ev.Label == "MkdirAll" {
			if b := filepath.Base(ev.Path); verRe.MatchString(b) && (len(m.vers) == 0 || m.vers[len(m.vers)-1] != b) {
				m.vers = append(m.vers, b)
			}
		}
		if ev.Err != nil {
			m.note(ev.Label + "!")
		} else {
			m.note(ev.Label)
		}
		m.observe(func() string {
			return fmt.Sprintf("after step %d (%s) of Write #%d of process %d", ev.Index, ev.Label, call, proc)
		})
	}
	defer func() {
		w.c.Observe = nil
		res.key, res.msg = m.key, m.msg
		m.mix(diskShape(base, m.vers))
		res.fp = m.fp
		res.fsSteps = w.c.TotalSteps() - start
		res.nobs = m.nobs
		res.trace = m.trace
		if m.key != "" {
			res.msg = canon(w.root, m.vers, fmt.Sprintf("%s | disk at that instant: %s | scenario %s | steps of the whole run: %s", m.msg, m.disk, sc, strings.Join(m.trace, " ")))
		}
	}()
	type process struct {
		writes []int
		crash  *Crash
		at     int
	}
	procs := []process{{sc.Hist, sc.C1, len(sc.Hist) - 1}, {sc.Rec, sc.C2, 0}, {sc.Third, nil, -1}}
	crashed := false
	seq := 0
	for pi, p := range procs {
		if len(p.writes) == 0 {
			continue
		}
		proc = pi + 1
		m.note(fmt.Sprintf("[P%d]", proc))
		d := dir.New(dir.Options{Log: quiet, Target: target}) // a fresh process knows nothing
		for wi, si := range p.writes {
			seq++
			call = wi + 1
			files, want := mkfiles(seq, si)
			m.writes = append(m.writes, want)
			names := fileSets[si]
			if sc.Desc && len(names) > 1 {
				// shown (and fingerprinted) in creation order: the order is part
				// of the case exactly when a Write with two files is executed
				names = []string{names[1], names[0]}
			}
			m.note(fmt.Sprintf("Write(%s):", strings.Join(names, ",")))
			w.c.Begin()
			if p.crash != nil && wi == p.at {
				w.c.Arm(p.crash.Step, p.crash.After)
				res.planned++
			}
			err, cr := callWrite(d, files)
			res.steps[pi] = append(res.steps[pi], w.c.Steps())
			what := fmt.Sprintf("Write #%d of process %d", call, proc)
			if cr != nil {
				res.fired++
				crashed = true
				m.trace = append(m.trace, "CRASH("+cr.String()+")")
				m.mix("CRASH") // where it fired is in the steps before it; before/after is not part of the case's identity
				if res.fired == 1 {
					res.stepsAtFirstCrash = w.c.TotalSteps() - start
				}
				m.observe(func() string { return "after the " + cr.String() + " in " + what })
				break // the process is dead; its Dir is abandoned
			}
			if err != nil {
				m.note("-> error")
				m.writeFailed(err, crashed, what)
				return
			}
			m.note("-> nil")
			// "only the current version directory remains after each Write": no
			// filesystem work may be left running when Write returns
			runtime.Gosched()
			if n, l := w.c.ForeignSteps(); n > 0 && m.key == "" {
				m.fail("filesystem-step-outside-the-Write-call", "%s returned nil but performs filesystem work (%s) in a background goroutine: the state it returns with is not final", what, l)
				return
			}
			m.afterNil(want, !crashed && pi == 0, what)
			if m.key != "" {
				return
			}
		}
		if m.key != "" {
			return
		}
	}
	return
}

// ---------------------------------------------------------------- enumeration

type tally struct {
	seen [64]struct {
		sync.Mutex
		m map[uint64]struct{}
	}
	trivial  atomic.Int64
	dup      atomic.Int64
	byKey    map[string]int64
	fsSteps  atomic.Int64
	nobs     atomic.Int64
	crashes  atomic.Int64
	maxSteps atomic.Int64
}

type found struct {
	key, msg string
	sc       any // Scenario or Script
}

// slot collects what one work item found, so that findings are reported in
// item order whatever the scheduling of the workers was.
type slot struct {
	found []found
	count map[string]int
}

func (s *slot) add(res result, sc any) {
	if res.key == "" {
		return
	}
	if s.count == nil {
		s.count = map[string]int{}
	}
	s.count[res.key]++
	if s.count[res.key] <= 2 {
		s.found = append(s.found, found{res.key, res.msg, sc})
	}
}

// sweepStale removes scratch directories of C18 runs that were killed before
// they could clean up (verif-c18-<pid>-* whose process is gone).
func sweepStale(parent string) {
	if parent == "" {
		parent = os.TempDir()
	}
	ms, _ := filepath.Glob(filepath.Join(parent, "verif-c18-*"))
	for _, m := range ms {
		var pid int
		if _, err := fmt.Sscanf(filepath.Base(m), "verif-c18-%d-", &pid); err != nil || pid <= 0 {
			continue
		}
		if err := syscall.Kill(pid, 0); err == syscall.ESRCH {
			os.RemoveAll(m)
		}
	}
}

func run(r *enumx.Run, replay *enumx.ReplayCase) {
	// The live heap is tiny and every case allocates a little, so the default
	// pacer runs hundreds of collections per second, each synchronising all
	// workers while they sit in system calls. Collect by memory limit instead.
	defer debug.SetGCPercent(debug.SetGCPercent(-1))
	defer debug.SetMemoryLimit(debug.SetMemoryLimit(512 << 20))
	// Scratch: a memory filesystem when there is one (the syscall-level
	// semantics the property depends on — atomic rename(2), symlink(2) failing
	// with EEXIST — are POSIX and the same there; a journalling disk filesystem
	// serialises the 16 workers on its journal), else $VERIF_SCRATCH, else the
	// default temporary directory. VERIF_C18_DIR overrides.
	parent := os.Getenv("VERIF_C18_DIR")
	if parent == "" {
		if fi, e := os.Stat("/dev/shm"); e == nil && fi.IsDir() {
			parent = "/dev/shm"
		} else {
			parent = os.Getenv("VERIF_SCRATCH")
		}
	}
	sweepStale(parent)
	prefix := fmt.Sprintf("verif-c18-%d-", os.Getpid())
	scratch, err := os.MkdirTemp(parent, prefix)
	if err != nil && parent != "" {
		scratch, err = os.MkdirTemp(os.Getenv("VERIF_SCRATCH"), prefix)
	}
	if err != nil {
		panic(err)
	}
	if scratch, err = filepath.EvalSymlinks(scratch); err != nil {
		panic(err)
	}
	defer os.RemoveAll(scratch)
	// the scratch may live outside the driver's own scratch directory: remove
	// it also when the run is interrupted
	sig := make(chan os.Signal, 1)
	signal.Notify(sig, syscall.SIGINT, syscall.SIGTERM, syscall.SIGHUP)
	defer signal.Stop(sig)
	go func() {
		if _, ok := <-sig; ok {
			stopping.Store(true) // workers park before their next case
			for i := 0; i < 100; i++ {
				time.Sleep(20 * time.Millisecond)
				if os.RemoveAll(scratch) == nil {
					break
				}
			}
			os.Exit(2)
		}
	}()
	defer close(sig)

	var wid atomic.Int64
	pool := make(chan *worker, 256)
	get := func() *worker {
		select {
		case w := <-pool:
			return w
		default:
		}
		root := filepath.Join(scratch, fmt.Sprintf("w%d", wid.Add(1)))
		if err := os.MkdirAll(root, 0o755); err != nil {
			panic(err)
		}
		w := &worker{c: &ctl.Controller{Root: root}, root: root}
		ctl.Register(w.c)
		return w
	}
	put := func(w *worker) { pool <- w }

	if replay != nil {
		var probe struct {
			Family string `json:"family"`
		}
		json.Unmarshal(replay.Case, &probe)
		if probe.Family != "" {
			var sc Script
			if err := json.Unmarshal(replay.Case, &sc); err != nil {
				panic(err)
			}
			w := get()
			mc.ReverseMapOrder = sc.Desc
			defer func() { mc.ReverseMapOrder = false }()
			res := w.execScript(sc)
			fmt.Printf("replay %s\n  steps: %s\n", sc, strings.Join(res.trace, " "))
			if res.key != "" {
				r.Violation(res.key, res.msg, sc)
			}
			return
		}
		var sc Scenario
		if err := json.Unmarshal(replay.Case, &sc); err != nil {
			panic(err)
		}
		w := get()
		mc.ReverseMapOrder = sc.Desc
		defer func() { mc.ReverseMapOrder = false }()
		res := w.exec(sc)
		fmt.Printf("replay %s\n  steps: %s\n", sc, strings.Join(res.trace, " "))
		if res.key != "" {
			r.Violation(res.key, res.msg, sc)
		}
		return
	}

	maxLen := 3
	if r.Thorough() {
		maxLen = 4
	}
	r.Rule(fmt.Sprintf("every scenario (history of 1..%d Writes by one Dir over the file sets {}, {a}, {a,b}, {b,c} with per-call contents; "+
		"a crash at every point of the last Write, whose filesystem steps are MkdirAll, WriteFile split into create/first half/rest, Symlink, Rename, RemoveAll split per entry "+
		"(thorough: before and after every step, 2n points; quick: once per distinct gap between two steps, n+1 points: before step 0 and after every step — "+
		"'before step k>0' is the same instant as 'after step k-1'); "+
		"then a fresh Dir writing every set, followed by nothing or every second set, or crashing in every distinct gap of that Write (n+1 points, both tiers) followed by a third fresh Dir writing every set), "+
		"the whole space once with every Write creating its files in ascending name order and once in descending order (scenarios without a two-file set only once), "+
		"executed on the real filesystem through the real dir.go with os/time substituted; the property is evaluated after every single step, after every crash and after every Write that returns. "+
		"Round-3 families, same oracle, both orders: FAULT — one Dir, history of 1..%d Writes, one filesystem step of the last Write fails with EIO without being performed (every step index; multi-step calls stop there), "+
		"then the failing Write alone | the same Dir writing every set then a fresh Dir writing every set | a fresh Dir writing every set | the same Dir dying in every distinct gap of its next Write (every set) then a fresh Dir writing {} or {a,b}; "+
		"a Write hit by the fault may return the error and leave the old or the new set, every other Write must return nil and show its set. "+
		"TARGETS — two Dirs whose targets share the parent directory, names (x,a-x), (x,x-a), (x,y), every interleaving of 1..2 Writes each over {a},{a,b}, crash-free and with a crash in every distinct gap of the last Write "+
		"followed by two fresh Dirs (both orders); both targets are checked after every step and the leftover clause holds per target. "+
		"MEMORY — one Dir, crash-free histories of 2..%d Writes where the caller passes fresh memory, or the previous call's map and backing arrays overwritten in place (equal or different lengths), or fresh memory with the previous contents; "+
		"the argument must be unchanged by Write. "+
		"Step counts are measured from a completed run, so every placed crash or fault fires. "+
		"distinct_nontrivial is measured: a case is trivial if its first crash fires before any filesystem step was performed; two cases are the same if they have the same fingerprint "+
		"(64-bit FNV-1a over every step executed, every observation of the target with full contents, where each crash fired, the creation order of every executed two-file Write, and the final shape of the base directory; "+
		"whether a crash was placed 'before step k' or 'after step k-1' is not part of it, so the thorough tier's literal before/after pairs collapse).", maxLen, map[bool]int{false: 2, true: 3}[r.Thorough()], map[bool]int{false: 3, true: 4}[r.Thorough()]))
	r.Assume("crash = process death between two filesystem calls (kernel state survives, memory does not); power loss / missing fsync is not modelled and not claimed by the property")
	r.Assume("ctime.Now is strictly increasing: two Writes never derive the same version directory name (the real clock may repeat or step back; outside the property)")
	r.Assume("the range over the files map in Write is canonicalised by mcgen -mapsort (mc.SortedKeys) and run in both name orders; the order is uniform within a scenario " +
		"(all Writes ascending or all descending): scenarios mixing the two orders across different Writes are not enumerated")
	r.Assume("faults: one fault per scenario, errno EIO, the failing step is not performed (no partially performed failing step, e.g. a short write); the leftover clause is not applied to histories containing a fault")
	r.Assume("two-target family: file sets {a},{a,b} only, at most 2 Writes per Dir before the crash; two Dirs on the SAME target alive at once are not enumerated")
	r.Assume("a fresh Dir has no memory of the dead one (dir.New reads nothing); os.RemoveAll of a directory is modelled as one unlink per entry in name order, then rmdir")

	tl := &tally{byKey: map[string]int64{}}
	note := func(res result, sc any, s *slot) {
		nt := int64(1)
		if res.fired != res.planned || (res.fired > 0 && res.stepsAtFirstCrash == 0) {
			// trivial: the first crash hit before anything had been done
			nt = 0
			tl.trivial.Add(1)
		} else {
			sh := &tl.seen[res.fp%64]
			sh.Lock()
			if sh.m == nil {
				sh.m = map[uint64]struct{}{}
			}
			if _, dup := sh.m[res.fp]; dup {
				nt = 0
				tl.dup.Add(1)
			} else {
				sh.m[res.fp] = struct{}{}
			}
			sh.Unlock()
		}
		r.Count(1, nt)
		tl.fsSteps.Add(res.fsSteps)
		tl.nobs.Add(res.nobs)
		tl.crashes.Add(int64(res.fired))
		for _, p := range [][]int{res.steps[0], res.steps[1], res.steps[2], res.opSteps} {
			for _, n := range p {
				for {
					old := tl.maxSteps.Load()
					if int64(n) <= old || tl.maxSteps.CompareAndSwap(old, int64(n)) {
						break
					}
				}
			}
		}
		if res.key == "" && res.fired != res.planned {
			panic(fmt.Sprintf("c18: placed crash/fault did not fire in %v (steps %v %v)", sc, res.steps, res.opSteps))
		}
		s.add(res, sc)
	}
	report := func(slots []slot) {
		for i := range slots {
			for k, n := range slots[i].count {
				tl.byKey[k] += int64(n)
			}
			for _, f := range slots[i].found {
				r.Violation(f.key, f.msg, f.sc)
			}
		}
	}

	var hists [][]int
	var gen func(prefix []int, n int)
	gen = func(prefix []int, n int) {
		if len(prefix) == n {
			hists = append(hists, append([]int(nil), prefix...))
			return
		}
		for s := range fileSets {
			gen(append(prefix, s), n)
		}
	}
	for n := 1; n <= maxLen; n++ {
		gen(nil, n)
	}
	nlast := make([]int, len(hists)) // steps of each history's last Write (the same under both orders; measured under each)
	totalItems := 0
	defer func() { mc.ReverseMapOrder = false }()

	// The whole space is enumerated twice, sequentially: every Write creating
	// its files in ascending name order, then in descending order
	// (mc.ReverseMapOrder is process-wide, so it is switched between the passes,
	// never while workers run). The descending pass only runs scenarios that
	// contain a two-file set — the others are literally the same execution —
	// except the uninterrupted recovery run that measures the step count.
	for _, desc := range []bool{false, true} {
		mc.ReverseMapOrder = desc
		order := "ascending"
		if desc {
			order = "descending"
		}

		// pass 1: crash-free histories (also measures the step count of each
		// history's last Write).
		var sel []int
		for i, h := range hists {
			if !desc || (Scenario{Hist: h}).hasTwo() {
				sel = append(sel, i)
			}
		}
		slots1 := make([]slot, len(sel))
		bad := make([]bool, len(hists))
		done := r.Parallel(len(sel), func(k int) {
			w := get()
			defer put(w)
			i := sel[k]
			sc := Scenario{Hist: hists[i], Desc: desc}
			res := w.exec(sc)
			note(res, sc, &slots1[k])
			nlast[i] = 0
			if n := len(res.steps[0]); n == len(hists[i]) {
				nlast[i] = res.steps[0][n-1]
			}
			bad[i] = res.key != ""
		})
		report(slots1)
		if done < len(sel) {
			r.Incomplete(fmt.Sprintf("%s order: crash-free histories: %d of %d run; no crash case run", order, done, len(sel)))
			break
		}
		aborted := 0
		for i := range hists {
			if bad[i] {
				aborted++
			}
		}
		if aborted > 0 {
			r.Incomplete(fmt.Sprintf("%s order: %d of %d crash-free histories already violate the property; the crash points inside them are not enumerated", order, aborted, len(hists)))
		}
		r.Space(fmt.Sprintf("%s order: %d crash-free histories of 1..%d Writes over 4 file sets (all %d; in descending order those containing a two-file set), observed after every step; leftover clause checked after every Write", order, len(sel), maxLen, len(hists)))

		// pass 2: one item per (history, crash point in its last Write).
		type item struct {
			h  int
			c1 Crash
		}
		var items []item
		for h := range hists {
			for _, c1 := range points(nlast[h], r.Thorough()) {
				items = append(items, item{h, c1})
			}
		}
		slots2 := make([]slot, len(items))
		done = r.Parallel(len(items), func(i int) {
			w := get()
			defer put(w)
			it := items[i]
			s := &slots2[i]
			for r1 := range fileSets {
				// A: the recovering Dir is not interrupted; one or two Writes.
				// Always run: it measures the steps of Write(r1) in this state.
				sc := Scenario{Hist: hists[it.h], C1: &it.c1, Rec: []int{r1}, Desc: desc}
				resA := w.exec(sc)
				note(resA, sc, s)
				for r2 := range fileSets {
					sc := Scenario{Hist: hists[it.h], C1: &it.c1, Rec: []int{r1, r2}, Desc: desc}
					if desc && !sc.hasTwo() {
						continue
					}
					note(w.exec(sc), sc, s)
				}
				// B: the recovering Dir dies in its first Write; a third Dir writes
				n := 0
				if len(resA.steps[1]) > 0 {
					n = resA.steps[1][0]
				}
				for _, c2 := range points(n, false) {
					c2 := c2
					for t := range fileSets {
						sc := Scenario{Hist: hists[it.h], C1: &it.c1, Rec: []int{r1}, C2: &c2, Third: []int{t}, Desc: desc}
						if desc && !sc.hasTwo() {
							continue
						}
						note(w.exec(sc), sc, s)
					}
				}
			}
		})
		report(slots2)
		totalItems += done
		if done < len(items) {
			r.Incomplete(fmt.Sprintf("%s order: crash cases: %d of %d (history, first crash point) items completed within the budget (items are ordered by history length)%s", order, done, len(items),
				map[bool]string{false: "; descending order not run", true: ""}[desc]))
			break
		}
		r.Space(fmt.Sprintf("%s order: all %d (history, first crash point) items, each with 4 recovering first Writes x (no second crash: 1 + 4 continuations; second crash in each of the n+1 distinct gaps of its n steps x 4 third-process Writes)%s",
			order, len(items), map[bool]string{false: "", true: "; scenarios without a two-file set skipped (identical to the ascending pass) except the step-measuring recovery run"}[desc]))
		if !desc {
			r.Set("first_crash_points", len(items))
		}

		// round 3: faults, two targets in one parent directory, caller memory
		env := &scriptEnv{r: r, get: get, put: put, note: note, report: report, desc: desc, order: order}
		faultLen, memLen := 2, 3
		if r.Thorough() {
			faultLen, memLen = 3, 4
		}
		if !env.faultFamily(hists, nlast, faultLen) || !env.targetFamily() || !env.memoryFamily(memLen) {
			break
		}
	}
	r.Set("first_crash_point_items_run_both_orders", totalItems)
	mc.ReverseMapOrder = false

	// deterministic samples: three fixed scenarios, re-run sequentially (not counted)
	w := get()
	for _, sc := range []Scenario{
		{Hist: []int{2}},
		{Hist: []int{1, 3}, C1: &Crash{8, true}, Rec: []int{2, 0}},
		{Hist: []int{2, 1}, C1: &Crash{3, false}, Rec: []int{3}, C2: &Crash{6, true}, Third: []int{1}},
		{Hist: []int{3, 2}, C1: &Crash{4, true}, Rec: []int{2}, Desc: true},
	} {
		mc.ReverseMapOrder = sc.Desc
		res := w.exec(sc)
		verdict := "holds"
		if res.key != "" {
			verdict = "VIOLATION " + res.key
		}
		r.Sample(map[string]any{"scenario": sc, "steps": strings.Join(res.trace, " "), "observations": res.nobs, "verdict": verdict})
	}
	mc.ReverseMapOrder = false
	for _, sc := range []Script{
		{Family: "fault", Targets: []string{"tgt"}, Dirs: []int{0, 0}, Ops: []Op{{D: 0, Set: 1}, {D: 0, Set: 2, Fault: ip(11)}, {D: 0, Set: 3}, {D: 1, Set: 0}}},
		{Family: "targets", Targets: []string{"x", "a-x"}, Dirs: []int{0, 1, 0, 1}, Ops: []Op{{D: 1, Set: 2}, {D: 0, Set: 1}, {D: 0, Set: 2, Crash: &Crash{9, true}}, {D: 3, Set: 1}, {D: 2, Set: 1}}},
		{Family: "memory", Targets: []string{"tgt"}, Dirs: []int{0}, Ops: []Op{{D: 0, Set: 2}, {D: 0, Set: 2, Mem: "inplace"}, {D: 0, Set: 3, Mem: "relen"}}},
	} {
		res := w.execScript(sc)
		verdict := "holds"
		if res.key != "" {
			verdict = "VIOLATION " + res.key
		}
		r.Sample(map[string]any{"script": sc, "steps": strings.Join(res.trace, " "), "observations": res.nobs, "verdict": verdict})
	}
	put(w)
	finish(r, tl)
}

func finish(r *enumx.Run, tl *tally) {
	r.Set("fs_steps_executed", tl.fsSteps.Load())
	r.Set("oracle_observations", tl.nobs.Load())
	r.Set("crashes_fired", tl.crashes.Load())
	r.Set("max_steps_in_one_write", tl.maxSteps.Load())
	r.Set("trivial_cases", tl.trivial.Load())
	r.Set("duplicate_cases", tl.dup.Load())
	keys := map[string]int64{}
	for k, v := range tl.byKey {
		keys[k] = v
	}
	r.Set("violating_cases_by_key", keys)
}
