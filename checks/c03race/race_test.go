// Supplementary part of C03. cipher.AEAD values are meant to be usable from
// several goroutines at once (the standard library's are), and so is a
// jwk.Key: "decryption inverts encryption" and "only altered ciphertexts are
// rejected" must hold when ONE value is shared. The objects have no
// synchronisation inside, so this cannot be explored as interleavings; it is
// sampled: 8 goroutines share one AEAD value per aescbcaead constructor (and one
// jwk.Key for the crypto.* symmetric entry points) on the real runtime in a
// -race build, and every result is compared with verif/ref/cryptoref.
//
// Findings: "data-race" (the race detector's report, picked up by the driver)
// and "shared-object-result-differs". Evidence next to the deciding part,
// never the deciding step.
package c03race

import (
	"bytes"
	"crypto/cipher"
	"crypto/sha256"
	"crypto/sha512"
	"fmt"
	"sync"
	"sync/atomic"
	"testing"

	kit "github.com/dapr/kit/crypto"
	"github.com/dapr/kit/crypto/aescbcaead"
	"github.com/lestrrat-go/jwx/v2/jwk"

	"verif/enumx"
	"verif/ref/cryptokeys"
	"verif/ref/cryptoref"
)

const workers = 8

type ctor struct {
	name   string
	new    func([]byte) (cipher.AEAD, error)
	params cryptoref.CBCHMACParams
}

var ctors = []ctor{
	{"NewAESCBC128SHA256", aescbcaead.NewAESCBC128SHA256, cryptoref.CBCHMACParams{EncKeyLen: 16, MacKeyLen: 16, TLen: 16, Hash: sha256.New}},
	{"NewAESCBC192SHA384", aescbcaead.NewAESCBC192SHA384, cryptoref.CBCHMACParams{EncKeyLen: 24, MacKeyLen: 24, TLen: 24, Hash: sha512.New384}},
	{"NewAESCBC256SHA384", aescbcaead.NewAESCBC256SHA384, cryptoref.CBCHMACParams{EncKeyLen: 32, MacKeyLen: 24, TLen: 24, Hash: sha512.New384}},
	{"NewAESCBC256SHA512", aescbcaead.NewAESCBC256SHA512, cryptoref.CBCHMACParams{EncKeyLen: 32, MacKeyLen: 32, TLen: 32, Hash: sha512.New}},
}

// message of goroutine g in round r: its own plaintext, nonce and associated data
type msg struct{ pt, nonce, aad, e, t []byte }

func clone(b []byte) []byte { return append([]byte{}, b...) }

type reporter struct {
	r  *enumx.Run
	mu sync.Mutex
	n  map[string]int
}

func (rp *reporter) bad(site, what string, c any) {
	rp.mu.Lock()
	defer rp.mu.Unlock()
	rp.n[site]++
	if rp.n[site] <= 20 {
		rp.r.Violation("shared-object-result-differs", site+": "+what, c)
	}
}

// guarded turns a panic of the code under test into an error.
func guarded(f func() error) (err error) {
	defer func() {
		if p := recover(); p != nil {
			err = fmt.Errorf("panic: %v", p)
		}
	}()
	return f()
}

func aeadRound(rp *reporter, c ctor, round int, ops *atomic.Int64) {
	key := cryptokeys.Bytes("c03race-key", c.params.EncKeyLen+c.params.MacKeyLen)
	ae, err := c.new(clone(key))
	if err != nil {
		rp.bad("aescbcaead."+c.name, err.Error(), nil)
		return
	}
	msgs := make([]msg, workers)
	for g := range msgs {
		m := &msgs[g]
		m.pt = cryptokeys.Bytes(fmt.Sprintf("c03race-pt-%d-%d", round, g), (round*7+g*13)%70)
		m.nonce = cryptokeys.Bytes(fmt.Sprintf("c03race-nonce-%d-%d", round, g), 16)
		if g%3 != 0 {
			m.aad = cryptokeys.Bytes(fmt.Sprintf("c03race-aad-%d", g), g)
		}
		m.e, m.t, err = cryptoref.CBCHMACSeal(c.params, key, m.nonce, m.pt, m.aad)
		if err != nil {
			panic(err)
		}
	}
	start := make(chan struct{})
	var wg sync.WaitGroup
	for g := 0; g < workers; g++ {
		g := g
		wg.Add(1)
		go func() {
			defer wg.Done()
			m := msgs[g]
			ct := append(clone(m.e), m.t...)
			bad := clone(ct)
			bad[len(bad)-1-(g%len(m.t))] ^= 0x20
			<-start
			for i := 0; i < 40; i++ {
				what := map[string]any{"constructor": c.name, "round": round, "goroutine": g, "iteration": i}
				var out []byte
				if err := guarded(func() error { out = ae.Seal(nil, m.nonce, m.pt, m.aad); return nil }); err != nil {
					rp.bad("aescbcaead."+c.name+".Seal", fmt.Sprintf("%d goroutines share one AEAD; Seal: %v", workers, err), what)
				} else if !bytes.Equal(out, ct) {
					rp.bad("aescbcaead."+c.name+".Seal", fmt.Sprintf("%d goroutines share one AEAD; Seal returned %x, the RFC 7518 reference (and a Seal on an AEAD of its own) gives %x", workers, out, ct), what)
				}
				var pt []byte
				if err := guarded(func() (e error) { pt, e = ae.Open(nil, m.nonce, clone(ct), m.aad); return e }); err != nil {
					rp.bad("aescbcaead."+c.name+".Open", fmt.Sprintf("%d goroutines share one AEAD; a valid ciphertext was rejected: %v", workers, err), what)
				} else if !bytes.Equal(pt, m.pt) {
					rp.bad("aescbcaead."+c.name+".Open", fmt.Sprintf("%d goroutines share one AEAD; Open returned %x, want %x", workers, pt, m.pt), what)
				}
				if err := guarded(func() (e error) { pt, e = ae.Open(nil, m.nonce, clone(bad), m.aad); return e }); err == nil {
					rp.bad("aescbcaead."+c.name+".Open", fmt.Sprintf("%d goroutines share one AEAD; a ciphertext with a modified tag was accepted", workers), what)
				}
				ops.Add(3)
			}
		}()
	}
	close(start)
	wg.Wait()
}

// keyRound: one jwk.Key shared by the goroutines, through the crypto.* symmetric entry points.
func keyRound(rp *reporter, round int, ops *atomic.Int64) {
	raw := cryptokeys.Bytes("c03race-oct", 32)
	var key jwk.Key
	key, err := jwk.FromRaw(clone(raw))
	if err != nil {
		panic(err)
	}
	algs := []string{"A256GCM", "A128CBC-HS256", "C20P", "XC20P", "A256KW", "A256CBC", "A256CBC-NOPAD"}
	start := make(chan struct{})
	var wg sync.WaitGroup
	for g := 0; g < workers; g++ {
		g := g
		wg.Add(1)
		go func() {
			defer wg.Done()
			name := algs[(g+round)%len(algs)]
			a, _ := cryptoref.Lookup(name)
			pt := cryptokeys.Bytes(fmt.Sprintf("c03race-kpt-%d-%d", round, g), 32)
			n := cryptokeys.Bytes(fmt.Sprintf("c03race-kn-%d-%d", round, g), a.NonceLen)
			var aad []byte
			if g%2 == 1 {
				aad = []byte("aad")
			}
			rct, rtag, err := cryptoref.Encrypt(a, raw, n, pt, aad)
			if err != nil {
				panic(err)
			}
			<-start
			for i := 0; i < 30; i++ {
				what := map[string]any{"algorithm": name, "round": round, "goroutine": g, "iteration": i}
				var ct, tag, back []byte
				if err := guarded(func() (e error) { ct, tag, e = kit.EncryptSymmetric(pt, name, key, n, aad); return e }); err != nil {
					rp.bad("EncryptSymmetric", fmt.Sprintf("%d goroutines share one jwk.Key; %s: %v", workers, name, err), what)
				} else if !bytes.Equal(ct, rct) || !bytes.Equal(tag, rtag) {
					rp.bad("EncryptSymmetric", fmt.Sprintf("%d goroutines share one jwk.Key; %s returned (%x, %x), the reference gives (%x, %x)", workers, name, ct, tag, rct, rtag), what)
				}
				if err := guarded(func() (e error) {
					back, e = kit.DecryptSymmetric(clone(rct), name, key, n, clone(rtag), aad)
					return e
				}); err != nil {
					rp.bad("DecryptSymmetric", fmt.Sprintf("%d goroutines share one jwk.Key; %s: the reference's ciphertext was rejected: %v", workers, name, err), what)
				} else if !bytes.Equal(back, pt) {
					rp.bad("DecryptSymmetric", fmt.Sprintf("%d goroutines share one jwk.Key; %s returned %x, want %x", workers, name, back, pt), what)
				}
				ops.Add(2)
			}
		}()
	}
	close(start)
	wg.Wait()
}

func TestCheck(t *testing.T) {
	enumx.Main(t, "C03", "race-sampling", func(r *enumx.Run, replay *enumx.ReplayCase) {
		r.Rule("SUPPLEMENTARY, sampling: per round and per aescbcaead constructor ONE cipher.AEAD value shared by 8 goroutines, each sealing its own message (lengths 0..69, own nonce and associated data), opening the RFC 7518 reference's ciphertext of it and presenting one with a modified tag, 40 times, all compared with verif/ref/cryptoref; plus ONE jwk.Key shared by 8 goroutines through EncryptSymmetric / DecryptSymmetric with A256GCM, A128CBC-HS256, C20P, XC20P, A256KW, A256CBC, A256CBC-NOPAD. Real runtime, -race build: the race detector must stay quiet (finding data-race) and every result must be the reference's (finding shared-object-result-differs). Not exhaustive and not the deciding step for C03.")
		r.Assume("the Go race detector reports only races that actually occur in the sampled schedules")
		if replay != nil {
			fmt.Println("replay: a sampled schedule cannot be replayed; re-run the part")
			return
		}
		rounds := 30
		if r.Thorough() {
			rounds = 300
		}
		rp := &reporter{r: r, n: map[string]int{}}
		var ops atomic.Int64
		done := 0
		for round := 0; round < rounds && !r.Expired(); round++ {
			for _, c := range ctors {
				aeadRound(rp, c, round, &ops)
			}
			keyRound(rp, round, &ops)
			done++
		}
		r.Count(ops.Load(), ops.Load())
		r.Set("rounds", done)
		r.Set("goroutines_sharing_one_object", workers)
		r.Sample(map[string]any{"round": 0, "objects": "one AEAD per constructor (4), one jwk.Key", "goroutines": workers, "calls_per_goroutine_and_object": "120 AEAD calls / 60 crypto.* calls"})
		if done < rounds {
			r.Incomplete(fmt.Sprintf("%d of %d rounds run when the budget expired", done, rounds))
		}
	})
}
