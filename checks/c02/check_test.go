// Package c02 decides property C02 (enc/v1: tampered or truncated documents
// never decrypt silently) by fault enumeration: valid documents built with the
// reference implementation are mutated in every listed way (single mutations,
// all ordered pairs on the two-segment document, unwrap misbehaviour, source
// reader faults at every Read index) and given to kit's Decrypt.
//
// Oracle, exactly the statement: let out be the bytes read from the stream
// before the first error. out must be a prefix of the original plaintext, and
// the stream must end in a non-EOF error unless out is the whole original
// plaintext. A source fault must always end in an error.
//
// See NOTES.md.
package c02

import (
	"bytes"
	"context"
	"crypto/sha256"
	"encoding/base64"
	"encoding/json"
	"errors"
	"fmt"
	"io"
	"runtime"
	"sort"
	"strings"
	"sync"
	"testing"
	"time"

	v1 "github.com/dapr/kit/schemes/enc/v1"

	"verif/checks/encenv"
	"verif/enumx"
	"verif/ref/encv1ref"
)

func TestCheck(t *testing.T) { enumx.Main(t, "C02", "tamper", run) }

const (
	segCT   = encv1ref.SegmentSize + encv1ref.TagSize
	keyName = "vault-key"
)

var (
	docLens = []int{0, 1, 40, 65536, 65537, 131072 + 5}
	kw      = encenv.KWs[0] // A256KW through kit's crypto package
	fkA     = encenv.Pattern(32, 0xC1)
	npA     = encenv.Pattern(7, 0x11)
	npB     = encenv.Pattern(7, 0x77)
	fkC     = encenv.Pattern(32, 0x3D)
	zeroKey = make([]byte, 32)
)

// built is a reference-made document.
type built struct {
	cipher, n int
	p, doc    []byte
	wfk       []byte
}

func build(cipher, n int, fk, np []byte, salt byte) *built {
	wfk, err := kw.RefWrap(fk)
	if err != nil {
		panic(err)
	}
	p := encenv.Pattern(n, salt)
	doc, err := encv1ref.Encrypt(p, encv1ref.EncryptParams{FileKey: fk, NoncePrefix: np, Cipher: cipher, KW: kw.ID, WFK: wfk, KeyName: keyName})
	if err != nil {
		panic(err)
	}
	return &built{cipher: cipher, n: n, p: p, doc: doc, wfk: wfk}
}

type docKey struct{ family, cipher, n int }

// families: 0 = the documents under test; 1 = same file key and nonce prefix,
// other plaintext; 2 = same file key, other nonce prefix; 3 = other file key;
// 4 = the all-zero file key (what a wiped key slice holds), same nonce prefix.
var (
	docsOnce sync.Once
	docs     map[docKey]*built
)

func getDoc(family, cipher, n int) *built {
	docsOnce.Do(func() {
		docs = map[docKey]*built{}
		for c := 1; c <= 2; c++ {
			for _, n := range docLens {
				docs[docKey{0, c, n}] = build(c, n, fkA, npA, 0x01)
				docs[docKey{1, c, n}] = build(c, n, fkA, npA, 0x5A)
				docs[docKey{2, c, n}] = build(c, n, fkA, npB, 0x5A)
				docs[docKey{3, c, n}] = build(c, n, fkC, npA, 0x5A)
				docs[docKey{4, c, n}] = build(c, n, zeroKey, npA, 0x5A)
			}
		}
	})
	return docs[docKey{family, cipher, n}]
}

// ---------------------------------------------------------------- structure

// layout is what can be read off raw bytes without a key.
type layout struct {
	lineEnds []int // offsets just after each of the first (at most 3) line feeds
	hdr      int   // offset of the payload, -1 when there are fewer than three header lines
	segs     [][2]int
}

func layoutOf(d []byte) layout {
	l := layout{hdr: -1}
	pos := 0
	for len(l.lineEnds) < 3 {
		j := bytes.IndexByte(d[pos:], '\n')
		if j < 0 {
			break
		}
		pos += j + 1
		l.lineEnds = append(l.lineEnds, pos)
	}
	if len(l.lineEnds) == 3 {
		l.hdr = pos
		for o := pos; o < len(d); o += segCT {
			e := o + segCT
			if e > len(d) {
				e = len(d)
			}
			l.segs = append(l.segs, [2]int{o, e})
		}
	}
	return l
}

func (l layout) region(off int) string {
	names := []string{"scheme-line", "manifest", "mac-line"}
	for i, e := range l.lineEnds {
		if off < e {
			return names[i]
		}
	}
	if l.hdr < 0 {
		return "unterminated-header"
	}
	for _, s := range l.segs {
		if off < s[1] {
			if off >= s[1]-encv1ref.TagSize {
				return "segment-tag"
			}
			return "segment-body"
		}
	}
	return "end"
}

// ---------------------------------------------------------------- mutations

// Mut is one mutation; offsets and indexes refer to the bytes it is applied to.
type Mut struct {
	Op    string `json:"op"`
	A     int    `json:"a"`
	B     int    `json:"b,omitempty"`
	C     int    `json:"c,omitempty"`
	L     int    `json:"l,omitempty"`
	Where string `json:"where,omitempty"`
}

func (m Mut) sig() string {
	if m.Where != "" {
		return m.Op + "[" + m.Where + "]"
	}
	return m.Op
}

func segBytes(d []byte, l layout) [][]byte {
	var out [][]byte
	for _, s := range l.segs {
		out = append(out, d[s[0]:s[1]])
	}
	return out
}

func join(hdr []byte, segs [][]byte) []byte {
	out := append([]byte{}, hdr...)
	for _, s := range segs {
		out = append(out, s...)
	}
	return out
}

// forge builds a document nobody holding a key has written: the payload is
// sealed under the all-zero file key, the wrapped file key is garbage that no
// key unwraps. variant 0 keeps the original (now stale) MAC line, variant 1
// carries the MAC computed with the all-zero file key.
func forge(orig *built, variant int) []byte {
	n := orig.n
	if n == 0 {
		n = 40
	}
	q := encenv.Pattern(n, 0xF0)
	mj, err := encv1ref.EncodeManifest(&encv1ref.Manifest{HasKeyName: true, KeyName: keyName, KW: kw.ID, WFK: encenv.Pattern(40, 0xEE), Cipher: orig.cipher, NoncePrefix: npA}, nil)
	if err != nil {
		panic(err)
	}
	payload, err := encv1ref.SealSegments(q, zeroKey, npA, orig.cipher)
	if err != nil {
		panic(err)
	}
	hdr := encv1ref.BuildHeader(zeroKey, mj)
	if variant == 0 {
		oh, _ := encv1ref.SplitHeader(orig.doc)
		hdr = append(append(append([]byte(encv1ref.SchemeLine+"\n"), mj...), '\n'), append(append([]byte{}, oh.MACLine...), '\n')...)
	}
	return append(hdr, payload...)
}

// derivedKeys names the file keys anybody can compute from the clear-text
// header of a document: candidates for a "placeholder" an implementation
// might fall back to when the vault cannot unwrap the wrapped key.
var derivedKeys = []string{"sha256(wfk)", "sha256(manifest)", "sha256(first-two-header-lines)", "wfk-cut-or-padded-to-32", "MAC-bytes-of-the-original", "sha256(nonce-prefix)", "nonce-prefix-padded-to-32", "sha256(key-name)", "sha256(scheme-name)", "all-0xFF"}

// forgeDerived is forge with the MAC and the segments made under one of the
// derivedKeys; the wrapped key is garbage no key unwraps.
func forgeDerived(orig *built, which int) []byte {
	n := orig.n
	if n == 0 {
		n = 40
	}
	q := encenv.Pattern(n, 0xF1)
	wfk := encenv.Pattern(40, 0xEE)
	mj, err := encv1ref.EncodeManifest(&encv1ref.Manifest{HasKeyName: true, KeyName: keyName, KW: kw.ID, WFK: wfk, Cipher: orig.cipher, NoncePrefix: npA}, nil)
	if err != nil {
		panic(err)
	}
	sum := func(b []byte) []byte { h := sha256.Sum256(b); return h[:] }
	pad := func(b []byte) []byte {
		k := make([]byte, 32)
		copy(k, b)
		return k
	}
	var k []byte
	switch derivedKeys[which] {
	case "sha256(wfk)":
		k = sum(wfk)
	case "sha256(manifest)":
		k = sum(mj)
	case "sha256(first-two-header-lines)":
		k = sum([]byte(encv1ref.SchemeLine + "\n" + string(mj) + "\n"))
	case "wfk-cut-or-padded-to-32":
		k = pad(wfk[:32])
	case "MAC-bytes-of-the-original":
		oh, _ := encv1ref.SplitHeader(orig.doc)
		mac, _ := base64.StdEncoding.DecodeString(string(oh.MACLine))
		k = pad(mac)
	case "sha256(nonce-prefix)":
		k = sum(npA)
	case "nonce-prefix-padded-to-32":
		k = pad(npA)
	case "sha256(key-name)":
		k = sum([]byte(keyName))
	case "sha256(scheme-name)":
		k = sum([]byte(encv1ref.SchemeLine))
	case "all-0xFF":
		k = bytes.Repeat([]byte{0xFF}, 32)
	}
	payload, err := encv1ref.SealSegments(q, k, npA, orig.cipher)
	if err != nil {
		panic(err)
	}
	return append(encv1ref.BuildHeader(k, mj), payload...)
}

// apply returns the mutated bytes (always a fresh slice) or false when the
// mutation does not fit the bytes.
func apply(d []byte, m Mut, orig *built, lookup func(family, cipher, n int) *built) ([]byte, bool) {
	if lookup == nil {
		lookup = getDoc
	}
	l := layoutOf(d)
	segs := segBytes(d, l)
	var hdr []byte
	if l.hdr >= 0 {
		hdr = d[:l.hdr]
	}
	needSeg := func(idx ...int) bool {
		if l.hdr < 0 {
			return false
		}
		for _, i := range idx {
			if i < 0 || i >= len(segs) {
				return false
			}
		}
		return true
	}
	switch m.Op {
	case "flip":
		if m.A < 0 || m.A >= len(d) {
			return nil, false
		}
		out := append([]byte{}, d...)
		out[m.A] ^= 1 << m.B
		return out, true
	case "trunc":
		if m.A < 0 || m.A > len(d) {
			return nil, false
		}
		return append([]byte{}, d[:m.A]...), true
	case "extend":
		out := append([]byte{}, d...)
		for i := 0; i < m.A; i++ {
			var b byte
			if m.B == 1 && len(d) > 0 {
				w := m.A
				if w > len(d) {
					w = len(d)
				}
				b = d[len(d)-w+i%w]
			}
			out = append(out, b)
		}
		return out, true
	case "segdel":
		if !needSeg(m.A) {
			return nil, false
		}
		return join(hdr, append(append([][]byte{}, segs[:m.A]...), segs[m.A+1:]...)), true
	case "segdup":
		if !needSeg(m.A) {
			return nil, false
		}
		ns := append([][]byte{}, segs[:m.A+1]...)
		ns = append(ns, segs[m.A])
		return join(hdr, append(ns, segs[m.A+1:]...)), true
	case "segswap":
		if !needSeg(m.A, m.B) || m.A == m.B {
			return nil, false
		}
		ns := append([][]byte{}, segs...)
		ns[m.A], ns[m.B] = ns[m.B], ns[m.A]
		return join(hdr, ns), true
	case "segmove-last":
		if !needSeg(m.A) || m.A >= len(segs)-1 {
			return nil, false
		}
		last := segs[len(segs)-1]
		ns := append([][]byte{}, segs[:m.A]...)
		ns = append(ns, last)
		return join(hdr, append(ns, segs[m.A:len(segs)-1]...)), true
	case "segappend":
		if !needSeg(m.A) {
			return nil, false
		}
		return join(hdr, append(append([][]byte{}, segs...), segs[m.A])), true
	case "splice":
		donor := lookup(m.C, orig.cipher, m.L)
		if donor == nil || !needSeg(m.A) {
			return nil, false
		}
		dl := layoutOf(donor.doc)
		ds := segBytes(donor.doc, dl)
		if m.B < 0 || m.B >= len(ds) {
			return nil, false
		}
		ns := append([][]byte{}, segs...)
		ns[m.A] = ds[m.B]
		return join(hdr, ns), true
	case "forge":
		return forge(orig, m.A), true
	case "forge-derived":
		if m.A < 0 || m.A >= len(derivedKeys) {
			return nil, false
		}
		return forgeDerived(orig, m.A), true
	case "payload-from":
		// the header stays, the whole payload is that of a donor document
		donor := lookup(m.C, orig.cipher, m.L)
		if donor == nil || l.hdr < 0 {
			return nil, false
		}
		dl := layoutOf(donor.doc)
		return append(append([]byte{}, d[:l.hdr]...), donor.doc[dl.hdr:]...), true
	case "hdredit":
		return headerEdit(d, m.A)
	}
	return nil, false
}

var headerEdits = []string{
	"space-after-opening-brace", "members-reordered", "key-name-replaced", "cipher-id-exchanged",
	"nonce-prefix-replaced", "mac-line-noncanonical-padding-bits", "mac-recomputed-under-zero-key", "crlf-line-ends",
	"wfk-replaced-by-other-documents-wfk", "undocumented-member-added",
}

// headerEdit rewrites header fields the way an editor of the text header
// would (the payload is left alone).
func headerEdit(d []byte, variant int) ([]byte, bool) {
	h, err := encv1ref.SplitHeader(d)
	if err != nil {
		return nil, false
	}
	m, err := encv1ref.ParseManifest(h.ManifestRaw)
	if err != nil {
		return nil, false
	}
	manifest := append([]byte{}, h.ManifestRaw...)
	mac := append([]byte{}, h.MACLine...)
	nl := "\n"
	reenc := func(order []string) {
		manifest, err = encv1ref.EncodeManifest(m, order)
		if err != nil {
			panic(err)
		}
	}
	switch variant {
	case 0:
		manifest = append([]byte("{ "), manifest[1:]...)
	case 1:
		reenc([]string{"np", "cph", "wfk", "kw", "k"})
	case 2:
		m.KeyName, m.HasKeyName = "other-key", true
		reenc(m.Fields)
	case 3:
		m.Cipher = 3 - m.Cipher
		reenc(m.Fields)
	case 4:
		m.NoncePrefix = npB
		reenc(m.Fields)
	case 5:
		// "...=" ends in a 4-bit-padded sextet: set its unused low bits
		if len(mac) < 2 || mac[len(mac)-1] != '=' {
			return nil, false
		}
		const alphabet = "ABCDEFGHIJKLMNOPQRSTUVWXYZabcdefghijklmnopqrstuvwxyz0123456789+/"
		i := strings.IndexByte(alphabet, mac[len(mac)-2])
		if i < 0 {
			return nil, false
		}
		mac[len(mac)-2] = alphabet[i|1]
		if bytes.Equal(mac, h.MACLine) {
			mac[len(mac)-2] = alphabet[i|2]
		}
	case 6:
		hdr := encv1ref.BuildHeader(zeroKey, manifest)
		return append(hdr, d[h.PayloadOffset:]...), true
	case 7:
		nl = "\r\n"
	case 8:
		w, _ := kw.RefWrap(fkC)
		m.WFK = w
		reenc(m.Fields)
	case 9:
		manifest = append(append([]byte{}, manifest[:len(manifest)-1]...), []byte(`,"x":1}`)...)
	default:
		return nil, false
	}
	out := []byte(encv1ref.SchemeLine + nl)
	out = append(append(out, manifest...), nl...)
	out = append(append(out, mac...), nl...)
	return append(out, d[h.PayloadOffset:]...), true
}

// classFlips: every bit of the first and last byte of each header line (the
// last byte of a line is its line feed; the last content byte is taken too),
// of each segment body and of each tag.
func classFlips(d []byte, l layout) []Mut {
	var offs []int
	start := 0
	for _, e := range l.lineEnds {
		offs = append(offs, start, e-2, e-1)
		start = e
	}
	for _, s := range l.segs {
		tag := s[1] - encv1ref.TagSize
		if tag > s[0] {
			offs = append(offs, s[0], tag-1)
		}
		if tag >= s[0] {
			offs = append(offs, tag, s[1]-1)
		} else {
			offs = append(offs, s[0], s[1]-1)
		}
	}
	return flipsAt(d, l, offs)
}

func flipsAt(d []byte, l layout, offs []int) []Mut {
	sort.Ints(offs)
	var out []Mut
	prev := -1
	for _, o := range offs {
		if o < 0 || o >= len(d) || o == prev {
			continue
		}
		prev = o
		for b := 0; b < 8; b++ {
			out = append(out, Mut{Op: "flip", A: o, B: b, Where: l.region(o)})
		}
	}
	return out
}

func allFlips(d []byte, l layout) []Mut {
	offs := make([]int, len(d))
	for i := range offs {
		offs[i] = i
	}
	return flipsAt(d, l, offs)
}

func truncWhere(l layout, n, total int) string {
	switch {
	case n == total:
		return "nothing"
	case l.hdr < 0 || n < l.hdr:
		return "inside-header"
	case n == l.hdr:
		return "at-header-end"
	}
	for _, s := range l.segs {
		if n == s[1] {
			return "at-segment-boundary"
		}
	}
	return "inside-segment"
}

// boundaryTruncs: every length within +-17 of every header-line end and every
// segment end.
func boundaryTruncs(d []byte, l layout) []Mut { return boundaryTruncsR(d, l, 17) }

func boundaryTruncsR(d []byte, l layout, radius int) []Mut {
	bs := append([]int{}, l.lineEnds...)
	for _, s := range l.segs {
		bs = append(bs, s[1])
	}
	bs = append(bs, len(d))
	seen := map[int]bool{}
	var ns []int
	for _, b := range bs {
		for n := b - radius; n <= b+radius; n++ {
			if n >= 0 && n <= len(d) && !seen[n] && (n >= b-radius && n <= b+radius) {
				seen[n] = true
				ns = append(ns, n)
			}
		}
	}
	sort.Ints(ns)
	var out []Mut
	for _, n := range ns {
		out = append(out, Mut{Op: "trunc", A: n, Where: truncWhere(l, n, len(d))})
	}
	return out
}

func allTruncs(d []byte, l layout) []Mut {
	var out []Mut
	for n := 0; n <= len(d); n++ {
		out = append(out, Mut{Op: "trunc", A: n, Where: truncWhere(l, n, len(d))})
	}
	return out
}

func segOps(l layout) []Mut {
	n := len(l.segs)
	var out []Mut
	for i := 0; i < n; i++ {
		out = append(out, Mut{Op: "segdel", A: i}, Mut{Op: "segdup", A: i}, Mut{Op: "segappend", A: i})
		for j := i + 1; j < n; j++ {
			out = append(out, Mut{Op: "segswap", A: i, B: j})
		}
		if i < n-1 {
			out = append(out, Mut{Op: "segmove-last", A: i})
		}
	}
	return out
}

func extensions() []Mut {
	var out []Mut
	for _, n := range []int{1, 16, 17, segCT} {
		out = append(out, Mut{Op: "extend", A: n, B: 0, Where: "zeros"}, Mut{Op: "extend", A: n, B: 1, Where: "copy-of-tail"})
	}
	return out
}

func splices(b *built) []Mut {
	l := layoutOf(b.doc)
	var out []Mut
	for fam := 1; fam <= 3; fam++ {
		for _, dn := range docLens {
			dl := layoutOf(getDoc(fam, b.cipher, dn).doc)
			for i := range l.segs {
				for j := range dl.segs {
					out = append(out, Mut{Op: "splice", A: i, B: j, C: fam, L: dn, Where: []string{"", "same-key-same-prefix", "same-key-other-prefix", "other-key"}[fam]})
				}
			}
		}
	}
	return out
}

// pairAlphabet is the mutation alphabet of the compound space, computed on
// the bytes at hand: truncations around every boundary, the bit-flip classes,
// the segment operations.
func pairAlphabet(d []byte, radius int) []Mut {
	l := layoutOf(d)
	out := boundaryTruncsR(d, l, radius)
	if radius < 17 { // plus the far ends of the +-17 neighbourhood (one byte past a whole tag)
		for _, m := range boundaryTruncs(d, l) {
			for _, b := range append(append([]int{}, l.lineEnds...), len(d)) {
				if m.A == b-17 || m.A == b-16 || m.A == b+16 || m.A == b+17 {
					out = append(out, m)
				}
			}
			for _, sg := range l.segs {
				if m.A == sg[1]-17 || m.A == sg[1]-16 || m.A == sg[1]+16 || m.A == sg[1]+17 {
					out = append(out, m)
				}
			}
		}
	}
	out = append(out, classFlips(d, l)...)
	return append(out, segOps(l)...)
}

// ---------------------------------------------------------------- cases

// Case is one decryption attempt.
type Case struct {
	Cipher  int    `json:"cipher"`
	Len     int    `json:"len"`
	Muts    []Mut  `json:"muts"`
	Unwrap  string `json:"unwrap,omitempty"` // "" = the vault works; wrong32, short16, nil, error
	Chunk   int    `json:"chunk,omitempty"`  // source chunking: 0 = fill the buffer
	FailAt  int    `json:"fail_at"`          // Read index at which the source starts failing; -1 = never
	FailDat bool   `json:"fail_with_data,omitempty"`
	FailErr string `json:"fail_err,omitempty"` // name of the error value of the fault ("" = private sentinel)
	// Wipe: what the caller does to the slice its unwrap function returned as
	// soon as Decrypt has returned: "" nothing, "zero" clears it, "other-key"
	// overwrites it with another document's file key. WipeLate: it yields once
	// (runtime.Gosched) before doing so.
	// Stall: the source answers (0, nil) StallN times in a row when its read
	// position reaches StallAt, then delivers the rest - or, with StallFail,
	// fails. EncSide: the fault / stall is on the plaintext source of kit's
	// Encrypt (the stream judged is Encrypt's).
	StallAt   int    `json:"stall_at,omitempty"`
	StallN    int    `json:"stall_reads,omitempty"`
	StallFail bool   `json:"stall_then_fail,omitempty"`
	EncSide   bool   `json:"encrypt_side,omitempty"`
	Wipe      string `json:"caller_wipes_key,omitempty"`
	WipeLate  bool   `json:"wipe_after_yield,omitempty"`
	// Seq: a two-document sequence (see sequence_test.go); the other fields
	// except Cipher and Len are unused then.
	Seq *Seq `json:"sequence,omitempty"`
	// Rand: Encrypt under a faulty crypto/rand.Reader; Many: the family of
	// consecutive Encrypts in one process (random_test.go).
	Rand *RandFault `json:"rand_fault,omitempty"`
	Many int        `json:"consecutive_encrypts,omitempty"`
}

// eofLike is an error that is not io.EOF but reports Is(io.EOF).
type eofLike struct{}

func (eofLike) Error() string        { return "connection closed (EOF)" }
func (eofLike) Is(target error) bool { return target == io.EOF }

var faultErrNames = []string{"", "unexpected-eof", "wrapped-unexpected-eof", "closed-pipe", "context-canceled", "short-buffer", "is-eof"}

var faultErrs = map[string]error{
	"":                       nil, // encenv.ErrInjected
	"unexpected-eof":         io.ErrUnexpectedEOF,
	"wrapped-unexpected-eof": fmt.Errorf("reading body: %w", io.ErrUnexpectedEOF),
	"closed-pipe":            io.ErrClosedPipe,
	"context-canceled":       context.Canceled,
	"short-buffer":           io.ErrShortBuffer,
	"is-eof":                 eofLike{},
}

func (c *Case) String() string { b, _ := json.Marshal(c); return string(b) }

var errVault = errors.New("vault: cannot unwrap")

func unwrapFn(mode string, wfk []byte) v1.UnwrapKeyFn {
	real := kw.UnwrapFn(keyName, nil, wfk)
	switch mode {
	case "wrong32":
		return func([]byte, string, string, []byte, []byte) ([]byte, error) { return encenv.Pattern(32, 0x99), nil }
	case "short16":
		return func([]byte, string, string, []byte, []byte) ([]byte, error) { return fkA[:16], nil }
	case "nil":
		return func([]byte, string, string, []byte, []byte) ([]byte, error) { return nil, nil }
	case "error":
		return func([]byte, string, string, []byte, []byte) ([]byte, error) { return nil, errVault }
	}
	return real
}

type verdict struct {
	class, key, msg string
	trivial         bool // the bytes given to Decrypt are the original document, the vault works, no fault
	accepted        bool // no alarm and the stream ended in a clean EOF (so the whole plaintext was read)
}

// judge is the oracle.
func judge(c *Case, orig *built, mutated []byte, expect, out []byte, err error) verdict {
	isPrefix := len(out) <= len(expect) && bytes.Equal(out, expect[:len(out)])
	// An error value for which errors.Is(err, io.EOF) holds is, by the
	// contract of package errors, io.EOF: the source ended there. It is judged
	// like a truncation at that point (prefix rule, clean EOF only after the
	// whole plaintext), not like a failure of the source.
	fault := (c.FailAt >= 0 || c.StallFail) && !errors.Is(faultErrs[c.FailErr], io.EOF)
	var class, what string
	switch {
	case errors.Is(err, encenv.ErrHang):
		class, what = "stream-does-not-terminate", "the stream neither ends nor fails"
	case !isPrefix:
		i := 0
		for i < len(out) && i < len(expect) && out[i] == expect[i] {
			i++
		}
		class, what = "bytes-released-that-are-no-prefix-of-the-plaintext", fmt.Sprintf("%d bytes were released, they depart from the original plaintext (%d bytes) at offset %d; terminal error: %v", len(out), len(expect), i, err)
	case err == nil && len(out) != len(expect):
		class, what = "shortened-message-ends-in-clean-EOF", fmt.Sprintf("the stream ended with io.EOF after %d of %d plaintext bytes", len(out), len(expect))
	case fault && err == nil:
		class, what = "source-fault-swallowed", "the source reader failed but the stream ended with io.EOF"
	case c.StallN > 0 && !c.StallFail && err != nil:
		// a source may answer (0, nil) for a while: the document is intact and must be served
		class, what = "stalled-source-document-rejected", fmt.Sprintf("the source answered (0, nil) %d times in a row at offset %d and then delivered the rest, the stream failed with %v after %d of %d bytes", c.StallN, c.StallAt, err, len(out), len(expect))
	default:
		return verdict{trivial: bytes.Equal(mutated, orig.doc) && c.Unwrap == "" && c.FailAt < 0 && c.StallN == 0, accepted: err == nil}
	}
	// identity of the finding: the outcome class and the family of the last
	// mutation; three shapes get a name of their own
	forged := -1
	family := "none"
	for _, m := range c.Muts {
		switch {
		case m.Op == "forge":
			forged = m.A
			family = "forged-document"
		case m.Op == "forge-derived":
			forged = 2
			family = "forged-document"
		case strings.HasPrefix(m.Op, "seg"):
			family = "segment-operation"
		default:
			family = m.Op
		}
	}
	if c.Unwrap != "" {
		family = "unwrap-misbehaviour"
	}
	if c.Wipe != "" {
		family = "caller-wipes-key-after-Decrypt-returned"
	}
	if c.StallN > 0 {
		family = "source-stalls"
	}
	if c.FailAt >= 0 {
		family = "source-fault"
		if !fault {
			family = "source-ends-early"
		}
	}
	key := class + ":" + family
	l := layoutOf(mutated)
	switch {
	case forged == 1 && class != "stream-does-not-terminate":
		key = "forged-zero-key-document-accepted-when-unwrap-fails"
	case forged == 2 && class != "stream-does-not-terminate":
		key = "forged-document-accepted-under-key-derived-from-public-header-material"
	case forged == 0 && class != "stream-does-not-terminate":
		key = "forged-zero-key-document-accepted-with-stale-MAC"
	case class == "shortened-message-ends-in-clean-EOF" && len(out) == 0 && (l.hdr == len(mutated) && c.FailAt < 0 || c.FailAt >= 0 && !fault):
		// (a source that ends early can yield an empty output with a clean EOF
		// only by ending exactly after the header: anything longer is a short
		// last segment and must authenticate)
		key = "header-only-document-accepted-as-empty-message"
	}
	return verdict{class: class, key: key, msg: what}
}

// decryptWithKit runs kit's Decrypt over the bytes and reads the stream out.
func decryptWithKit(c *Case, d []byte, wfk []byte) ([]byte, error, int) {
	src := encenv.NewSource(d)
	src.Chunk, src.FailAt, src.FailDat, src.FailErr = c.Chunk, c.FailAt, c.FailDat, faultErrs[c.FailErr]
	src.StallAt, src.StallN, src.StallFail = c.StallAt, c.StallN, c.StallFail
	inner := unwrapFn(c.Unwrap, wfk)
	var handed []byte
	var after func()
	if c.Wipe != "" {
		after = func() {
			if c.WipeLate {
				runtime.Gosched()
			}
			if c.Wipe == "zero" {
				clear(handed)
			} else {
				copy(handed, fkC)
			}
		}
	}
	stream, err := encenv.KitDecryptThen(src, v1.DecryptOptions{UnwrapKeyFn: func(w []byte, alg, name string, nonce, tag []byte) ([]byte, error) {
		k, err := inner(w, alg, name, nonce, tag)
		handed = k
		return k, err
	}}, after)
	if err != nil {
		return nil, err, src.Calls
	}
	if stream == nil {
		return nil, errors.New("Decrypt returned neither a stream nor an error"), src.Calls
	}
	out, err := (&encenv.Consumer{}).ReadAll(stream, len(d))
	return out, err, src.Calls
}

// encryptSide runs kit's Encrypt over a failing or stalling plaintext source:
// a failure must end Encrypt's stream in an error (a document that looks
// complete must not come out), a stall followed by the rest must be served.
func encryptSide(c *Case) verdict {
	p := encenv.Pattern(c.Len, 0x33)
	src := encenv.NewSource(p)
	src.Chunk, src.FailAt, src.FailDat, src.FailErr = c.Chunk, c.FailAt, c.FailDat, faultErrs[c.FailErr]
	src.StallAt, src.StallN, src.StallFail = c.StallAt, c.StallN, c.StallFail
	cp := []v1.Cipher{"", v1.CipherAESGCM, v1.CipherChaCha20Poly1305}[c.Cipher]
	stream, err := encenv.KitEncrypt(src, v1.EncryptOptions{WrapKeyFn: kw.WrapFn(keyName), Algorithm: v1.KeyAlgorithm(kw.Name), KeyName: keyName, Cipher: &cp})
	var doc []byte
	if err == nil {
		doc, err = (&encenv.Consumer{}).ReadAll(stream, c.Len+1024)
	}
	fault := c.FailAt >= 0 || c.StallFail
	switch {
	case fault && err == nil:
		return verdict{class: "source-fault-swallowed", key: "source-fault-swallowed:encrypt-side", msg: fmt.Sprintf("the plaintext source failed, Encrypt's stream ended with io.EOF after %d bytes", len(doc))}
	case !fault && err != nil:
		return verdict{class: "stalled-source-document-rejected", key: "stalled-source-document-rejected:encrypt-side", msg: fmt.Sprintf("the plaintext source answered (0, nil) %d times in a row and then went on; Encrypt's stream failed: %v", c.StallN, err)}
	case !fault:
		if got, derr := encv1ref.Decrypt(doc, "", kw.RefUnwrapFn(keyName)); derr != nil || !bytes.Equal(got, p) {
			return verdict{class: "stalled-source-document-rejected", key: "stalled-source-shortens-the-document:encrypt-side", msg: fmt.Sprintf("the plaintext source answered (0, nil) %d times in a row at offset %d and then went on; the document decrypts to %d of %d bytes (%v)", c.StallN, c.StallAt, len(got), len(p), derr)}
		}
	}
	return verdict{}
}

// expectation is the "original plaintext" the oracle compares with. It is the
// plaintext of the document under test - except for a splice from a document
// that shares file key and nonce prefix (which Encrypt never produces: both
// are drawn at random per message): when the transplanted segment has the same
// index and finality it is, for any implementation of the format, a genuine
// segment of a genuine document, and the plaintext of that document is what
// the reference implementation makes of it.
func expectation(c *Case, orig *built, mutated []byte) (expect []byte, nonceReuse bool) {
	for _, m := range c.Muts {
		if m.Op == "splice" && m.C == 1 {
			if pt, err := encv1ref.Decrypt(mutated, "", kw.RefUnwrapFn(keyName)); err == nil {
				return pt, true
			}
		}
	}
	return orig.p, false
}

func mutate(c *Case) ([]byte, *built, bool) {
	orig := getDoc(0, c.Cipher, c.Len)
	if orig == nil {
		return nil, nil, false
	}
	d := orig.doc
	for _, m := range c.Muts {
		var ok bool
		if d, ok = apply(d, m, orig, nil); !ok {
			return nil, orig, false
		}
	}
	return d, orig, true
}

// evaluate judges one case on already mutated bytes.
func evaluate(c *Case, orig *built, d []byte) (verdict, bool) {
	expect, reuse := expectation(c, orig, d)
	out, err, _ := decryptWithKit(c, d, orig.wfk)
	return judge(c, orig, d, expect, out, err), reuse
}

// ---------------------------------------------------------------- run

func run(r *enumx.Run, replay *enumx.ReplayCase) {
	var nonceReuse, identical, intact int64
	intactBy := map[string]int64{}
	var cmu sync.Mutex
	check := func(c *Case, orig *built, d []byte) {
		v, reuse := evaluate(c, orig, d)
		nt := int64(1)
		if v.trivial {
			nt = 0
		}
		r.Count(1, nt)
		cmu.Lock()
		if reuse {
			nonceReuse++
		}
		if v.trivial {
			identical++
		} else if v.accepted {
			intact++
			name := "(none)"
			if len(c.Muts) > 0 {
				name = c.Muts[len(c.Muts)-1].sig()
			}
			intactBy[name]++
		}
		cmu.Unlock()
		if v.class != "" {
			cc := *c
			cc.Muts = append([]Mut{}, c.Muts...)
			r.Violation(v.key, fmt.Sprintf("%s: %s\ncase: %s", v.class, v.msg, cc.String()), &cc)
		}
	}
	if replay != nil {
		var c Case
		if err := json.Unmarshal(replay.Case, &c); err != nil {
			panic(err)
		}
		if c.Rand != nil || c.Many > 0 {
			vs := runRandFault(&c)
			if c.Many > 0 {
				vs = runManyDocs(&c)
			}
			for _, v := range vs {
				r.Violation(v.key, fmt.Sprintf("%s: %s\ncase: %s", v.class, v.msg, c.String()), &c)
			}
			return
		}
		if c.EncSide {
			if v := encryptSide(&c); v.class != "" {
				r.Violation(v.key, fmt.Sprintf("%s: %s\ncase: %s", v.class, v.msg, c.String()), &c)
			}
			return
		}
		if c.Seq != nil {
			if v := runSeq(&c); v.class != "" {
				r.Violation(v.key, fmt.Sprintf("%s: %s\ncase: %s", v.class, v.msg, c.String()), &c)
			}
			return
		}
		if c.Wipe != "" {
			defer runtime.GOMAXPROCS(runtime.GOMAXPROCS(1))
		}
		d, orig, ok := mutate(&c)
		if !ok {
			fmt.Println("replay: the mutation does not apply")
			return
		}
		if v, _ := evaluate(&c, orig, d); v.class != "" {
			r.Violation(v.key, fmt.Sprintf("%s: %s\ncase: %s", v.class, v.msg, c.String()), &c)
		}
		return
	}
	r.Rule("each evaluation gives one mutated document (or one faulty source) to kit's Decrypt and reads the stream to its end; oracle: the bytes read before the first error are a prefix of the original plaintext, and the stream ends in a non-EOF error unless they are the whole plaintext; a source fault always ends in an error. Documents: reference-built, 2 ciphers x plaintext lengths {0,1,40,65536,65537,131077}. Single mutations: every bit of every byte (3 small documents) / every bit of the first, last-content and line-feed byte of each header line and of the first and last byte of each segment body and tag (large); truncation to every length (small) / within +-17 of every header-line and segment end (large); extension by 1,16,17,65552 bytes (zeros, copy of the tail); segment delete/duplicate/swap/move-last-forward/append; splice of every segment of donor documents (same key+prefix, same key other prefix, other key; all six lengths) over every segment; unwrap returning a wrong 32-byte key, a 16-byte key, nothing, an error; forged all-zero-key documents with stale or recomputed MAC; documents with an unwrappable wrapped key whose MAC and segments are made under a key anybody can derive from the clear-text header (sha256 of the wrapped key / manifest / first two lines / nonce prefix / key name / scheme name, the wrapped key or nonce prefix cut or padded to 32 bytes, the original MAC bytes, all-0xFF), under a working and under a failing vault; ten edits of the text header (whitespace, member order, key name, cipher id, nonce prefix, wrapped key, extra member, MAC padding bits, MAC under the zero key, CRLF). Compound: all ordered pairs over {boundary truncations, bit-flip classes, segment operations} on the two-segment document, the second mutation taken from the alphabet of the already mutated bytes. Faults: sticky non-EOF source error at every Read index, with and without data on the failing call, under default and 1-byte chunking (1-byte chunking on the large documents: quick takes the indexes within +-17 of every header-line, tag and segment boundary; thorough takes every index up to the one-full-segment document and the boundary neighbourhoods plus every 16th index of the two- and three-segment documents). Caller memory: the caller zeroes / overwrites the slice its unwrap function returned right after Decrypt returns (immediately or after one yield; sequential, GOMAXPROCS(1)) on pristine documents and on genuine headers followed by payloads sealed under the zero key / the other key. Two-document sequences: every ordered pair (first Decrypt: own or attacker's document (other file key, same nonce prefix and cipher) intact, broken in each segment, truncated, segment-operated, read to the end / abandoned unread / read partially then dropped; second Decrypt: the pristine document and its tampered variants incl. the genuine header followed by the attacker's payload or segments) must be judged by the oracle, and come out, exactly as the second document run alone (each on fresh nonce prefixes, so that no state is shared by construction). Randomness: Encrypt under a crypto/rand.Reader that fails at its k-th Read, returns short reads or (0,nil) once must return an error or seal under a file key without a run of 16 zero bytes and a nonce prefix that is not all-zero; 460 (thorough 2000) consecutive Encrypts per cipher must use pairwise distinct file keys and nonce prefixes, none degenerate. Stalled sources: N in {1,99,100,101,300} consecutive (0,nil) reads right after the header, in the middle and at the end of every segment and after the last byte, then the rest (must be served in full) or a failure (must surface). Encrypt side: the same fault and stall styles on the plaintext source of kit's Encrypt. A case is trivial when the mutation leaves the bytes unchanged.")

	t0 := time.Now()
	lap := func(name string) {
		r.Set("wall_s_"+name, time.Since(t0).Seconds())
		t0 = time.Now()
	}
	type item func()
	runItems := func(name string, items []item, desc func() string) {
		done := r.Parallel(len(items), func(i int) { items[i]() })
		if done == len(items) && !r.Expired() {
			r.Space(desc())
		} else {
			r.Incomplete(fmt.Sprintf("%s: %d of %d work items", name, done, len(items)))
		}
		lap(name)
	}

	// ---- sanity: the documents are valid for kit, under both chunkings
	for cph := 1; cph <= 2; cph++ {
		for _, n := range docLens {
			b := getDoc(0, cph, n)
			for _, chunk := range []int{0, 1} {
				c := &Case{Cipher: cph, Len: n, Chunk: chunk, FailAt: -1}
				out, err, _ := decryptWithKit(c, b.doc, b.wfk)
				if err != nil || !bytes.Equal(out, b.p) {
					r.Violation("machinery:valid-document-rejected", fmt.Sprintf("kit does not decrypt the unmodified reference document: %v (%d of %d bytes)\ncase: %s", err, len(out), len(b.p), c), c)
				}
				r.Count(1, 1)
			}
		}
	}
	// the forged documents must take the path they are meant for: their
	// wrapped file key must not unwrap
	if _, err := kw.KitUnwrap(encenv.Pattern(40, 0xEE), kw.Canonical); err == nil {
		r.Violation("machinery:forged-wfk-unwraps", "the garbage wrapped key of the forged documents unwraps", nil)
	}

	// ---- M: single mutations
	var singleCount int64
	var items []item
	for cph := 1; cph <= 2; cph++ {
		for _, n := range docLens {
			b := getDoc(0, cph, n)
			l := layoutOf(b.doc)
			small := n < 1000
			var muts []Mut
			if small {
				muts = append(allFlips(b.doc, l), allTruncs(b.doc, l)...)
			} else {
				muts = append(classFlips(b.doc, l), boundaryTruncs(b.doc, l)...)
			}
			muts = append(muts, extensions()...)
			muts = append(muts, segOps(l)...)
			muts = append(muts, splices(b)...)
			muts = append(muts, Mut{Op: "forge", A: 0}, Mut{Op: "forge", A: 1})
			for i, name := range derivedKeys {
				muts = append(muts, Mut{Op: "forge-derived", A: i, Where: name})
			}
			for v := range headerEdits {
				muts = append(muts, Mut{Op: "hdredit", A: v, Where: headerEdits[v]})
			}
			singleCount += int64(len(muts))
			const batch = 64
			for lo := 0; lo < len(muts); lo += batch {
				hi := lo + batch
				if hi > len(muts) {
					hi = len(muts)
				}
				cph, n, part := cph, n, muts[lo:hi]
				items = append(items, func() {
					for _, m := range part {
						c := &Case{Cipher: cph, Len: n, Muts: []Mut{m}, FailAt: -1}
						if d, orig, ok := mutate(c); ok {
							check(c, orig, d)
						}
					}
				})
			}
			// unwrap misbehaviour on the intact document and on the forged one
			for _, mode := range []string{"wrong32", "short16", "nil", "error"} {
				cph, n, mode := cph, n, mode
				items = append(items, func() {
					c := &Case{Cipher: cph, Len: n, Unwrap: mode, FailAt: -1}
					d, orig, _ := mutate(c)
					check(c, orig, d)
					for v := 0; v < 2; v++ {
						c := &Case{Cipher: cph, Len: n, Muts: []Mut{{Op: "forge", A: v}}, Unwrap: mode, FailAt: -1}
						d, orig, _ := mutate(c)
						check(c, orig, d)
					}
					for i, name := range derivedKeys {
						c := &Case{Cipher: cph, Len: n, Muts: []Mut{{Op: "forge-derived", A: i, Where: name}}, Unwrap: mode, FailAt: -1}
						d, orig, _ := mutate(c)
						check(c, orig, d)
					}
				})
			}
		}
	}
	runItems("single-mutations", items, func() string {
		return fmt.Sprintf("single mutations: %d mutations + 3x4 unwrap misbehaviours per document over 12 documents", singleCount)
	})
	r.Sample(&Case{Cipher: 1, Len: 40, Muts: []Mut{{Op: "flip", A: 100, B: 3, Where: "manifest"}}, FailAt: -1})
	r.Sample(&Case{Cipher: 2, Len: 131077, Muts: []Mut{{Op: "splice", A: 1, B: 1, C: 1, L: 65537, Where: "same-key-same-prefix"}}, FailAt: -1})

	// ---- S: stalled sources and Encrypt-side faults (cheap, run early)
	{
		var scases []*Case
		stallDocs := []int{40, 65537}
		if r.Thorough() {
			stallDocs = docLens
		}
		for cph := 1; cph <= 2; cph++ {
			for _, n := range stallDocs {
				b := getDoc(0, cph, n)
				l := layoutOf(b.doc)
				at := []int{l.hdr, len(b.doc)}
				for _, sg := range l.segs {
					at = append(at, (sg[0]+sg[1])/2, sg[1])
				}
				sort.Ints(at)
				for i, a := range at {
					if i > 0 && a == at[i-1] {
						continue
					}
					for _, sn := range []int{1, 99, 100, 101, 300} {
						for _, fl := range []bool{false, true} {
							scases = append(scases, &Case{Cipher: cph, Len: n, FailAt: -1, StallAt: a, StallN: sn, StallFail: fl})
						}
					}
				}
			}
		}
		done := r.Parallel(len(scases), func(i int) {
			check(scases[i], getDoc(0, scases[i].Cipher, scases[i].Len), getDoc(0, scases[i].Cipher, scases[i].Len).doc)
		})
		if done == len(scases) {
			r.Space(fmt.Sprintf("stalled sources: %d runs = documents %v x 2 ciphers x stall right after the header / in the middle and at the end of every segment / after the last byte x {1, 99, 100, 101, 300} consecutive (0,nil) reads x {the rest follows, the source then fails}", len(scases), stallDocs))
		} else {
			r.Incomplete(fmt.Sprintf("stalled sources: %d of %d", done, len(scases)))
		}
		r.Sample(scases[len(scases)/2])

		// Encrypt side: a failing or stalling plaintext source must end Encrypt's stream in an error / be served
		var ecases []*Case
		for cph := 1; cph <= 2; cph++ {
			for _, n := range []int{1, 40, 65537} {
				for _, chunk := range []int{0, 16} {
					// the number of Reads of the fault-free run: a fault at a later index never fires
					dry := encenv.NewSource(encenv.Pattern(n, 0x33))
					dry.Chunk = chunk
					cp := []v1.Cipher{"", v1.CipherAESGCM, v1.CipherChaCha20Poly1305}[cph]
					if st, err := encenv.KitEncrypt(dry, v1.EncryptOptions{WrapKeyFn: kw.WrapFn(keyName), Algorithm: v1.KeyAlgorithm(kw.Name), KeyName: keyName, Cipher: &cp}); err == nil {
						(&encenv.Consumer{}).ReadAll(st, n+1024)
					}
					reads := dry.Calls
					if reads > 40 {
						reads = 40
					}
					for i := 0; i < reads; i++ {
						for _, dat := range []bool{false, true} {
							for _, en := range []string{"", "unexpected-eof"} {
								ecases = append(ecases, &Case{Cipher: cph, Len: n, Chunk: chunk, FailAt: i, FailDat: dat, FailErr: en, EncSide: true})
							}
						}
					}
				}
				for _, a := range []int{0, n / 2, n} {
					for _, sn := range []int{1, 100, 300} {
						for _, fl := range []bool{false, true} {
							ecases = append(ecases, &Case{Cipher: cph, Len: n, FailAt: -1, StallAt: a, StallN: sn, StallFail: fl, EncSide: true})
						}
					}
				}
			}
		}
		done = r.Parallel(len(ecases), func(i int) {
			c := ecases[i]
			r.Count(1, 1)
			if v := encryptSide(c); v.class != "" {
				r.Violation(v.key, fmt.Sprintf("%s: %s\ncase: %s", v.class, v.msg, c.String()), c)
			}
		})
		if done == len(ecases) {
			r.Space(fmt.Sprintf("Encrypt-side source faults and stalls: %d runs over plaintexts of 1, 40, 65537 bytes", len(ecases)))
		} else {
			r.Incomplete(fmt.Sprintf("Encrypt-side source faults: %d of %d", done, len(ecases)))
		}
		lap("stalls-and-encrypt-side")
	}

	// ---- W: caller memory. The caller zeroes (or overwrites with another
	// document's file key) the slice its unwrap function returned, as the first
	// thing after Decrypt has returned or after yielding once; the document is
	// pristine, or carries - behind the genuine header - the payload (or single
	// segments) of a document sealed under the all-zero file key / that other
	// key with the same nonce prefix. One at a time under GOMAXPROCS(1): the
	// goroutine Decrypt started cannot run before the caller yields, so the
	// immediate wipe deterministically precedes everything it does (up to an
	// asynchronous preemption within a few instructions).
	{
		var wcases []*Case
		for cph := 1; cph <= 2; cph++ {
			for _, n := range docLens {
				nseg := len(layoutOf(getDoc(0, cph, n).doc).segs)
				for _, wipe := range []string{"zero", "other-key"} {
					for _, late := range []bool{false, true} {
						mk := func(ms ...Mut) {
							wcases = append(wcases, &Case{Cipher: cph, Len: n, Muts: ms, FailAt: -1, Wipe: wipe, WipeLate: late})
						}
						mk()
						for fam := 3; fam <= 4; fam++ {
							where := []string{"", "", "", "other-key", "zero-key"}[fam]
							mk(Mut{Op: "payload-from", C: fam, L: n, Where: where})
							for i := 0; i < nseg; i++ {
								mk(Mut{Op: "splice", A: i, B: i, C: fam, L: n, Where: where})
							}
						}
					}
				}
			}
		}
		prev := runtime.GOMAXPROCS(1)
		for _, c := range wcases {
			if d, orig, ok := mutate(c); ok {
				check(c, orig, d)
			}
		}
		runtime.GOMAXPROCS(prev)
		r.Space(fmt.Sprintf("caller memory: %d runs = 12 documents x {zeroed, overwritten with another key} x {immediately, after one yield} x {pristine, whole payload / each segment from the zero-key and the other-key document}; sequential under GOMAXPROCS(1)", len(wcases)))
		r.Sample(wcases[len(wcases)/2])
		lap("caller-memory")
	}

	// ---- R: the randomness Encrypt draws the file key and nonce prefix from
	// (random_test.go). Sequential: crypto/rand.Reader is process-wide.
	{
		n := 0
		for _, c := range enumRandFaults() {
			for _, v := range runRandFault(c) {
				r.Violation(v.key, fmt.Sprintf("%s: %s\ncase: %s", v.class, v.msg, c.String()), c)
			}
			r.Count(int64(c.Rand.Docs), int64(c.Rand.Docs))
			n++
		}
		r.Space(fmt.Sprintf("CSPRNG faults: %d faulty readers (error at Read k=0..3 with and without data, whole or 16-byte reads; short reads of 1 and n-1 bytes; (0,nil) once at k=0..2) x 2 ciphers x 4 consecutive Encrypts each; sequential", n))
		many := 460
		if r.Thorough() {
			many = 2000
		}
		for cph := 1; cph <= 2; cph++ {
			c := &Case{Cipher: cph, Len: 5, FailAt: -1, Many: many}
			for _, v := range runManyDocs(c) {
				r.Violation(v.key, fmt.Sprintf("%s: %s\ncase: %s", v.class, v.msg, c.String()), c)
			}
			r.Count(int64(many), int64(many))
		}
		r.Space(fmt.Sprintf("consecutive Encrypts: %d tiny documents per cipher in a row in one process: file keys (as the wrap function sees them) and nonce prefixes pairwise distinct, no run of 12 zero bytes in a key, no all-zero prefix, each document decrypts", many))
		r.Sample(&Case{Cipher: 1, Len: 5, FailAt: -1, Rand: &RandFault{Mode: "fail", K: 1, Max: 16, Docs: 4}})
		lap("randomness")
	}

	// ---- F: source faults
	//
	// chunkings: fill the buffer, 1 byte, and frames of headerLength+k bytes
	// (k = -1..2) so that Reads end just before / at / after the header end.
	// error values: a private sentinel and six values a transport may return.
	// Read indexes: all of them, except that under 1-byte chunking a fault at
	// index i costs i Reads (quadratic): for the large documents quick takes
	// the indexes within +-17 bytes of every header-line, tag and segment
	// boundary; thorough takes, for the sentinel, every index up to the
	// one-full-segment document and the neighbourhoods plus every 16th index
	// of the longer ones. The six other error values always take the
	// neighbourhoods on the large documents; frames on large documents take
	// the Reads that touch a boundary neighbourhood in quick and all in thorough.
	var faultCount int64
	items = nil
	for cph := 1; cph <= 2; cph++ {
		for _, n := range docLens {
			b := getDoc(0, cph, n)
			l := layoutOf(b.doc)
			bounds := append([]int{0}, l.lineEnds...)
			for _, s := range l.segs {
				bounds = append(bounds, s[1]-encv1ref.TagSize, s[1])
			}
			large := n > 1000
			for _, chunk := range []int{0, 1, l.hdr - 1, l.hdr, l.hdr + 1, l.hdr + 2} {
				out, err, reads := decryptWithKit(&Case{Cipher: cph, Len: n, Chunk: chunk, FailAt: -1}, b.doc, b.wfk)
				r.Count(1, 1)
				if err != nil || !bytes.Equal(out, b.p) {
					c := &Case{Cipher: cph, Len: n, Chunk: chunk, FailAt: -1}
					r.Violation("machinery:valid-document-rejected", fmt.Sprintf("kit does not decrypt the unmodified reference document: %v (%d of %d bytes)\ncase: %s", err, len(out), len(b.p), c), c)
				}
				near := func() []int {
					seen := map[int]bool{}
					var idx []int
					add := func(i int) {
						if i >= 0 && i < reads && !seen[i] {
							seen[i] = true
							idx = append(idx, i)
						}
					}
					for _, bnd := range bounds {
						if chunk == 0 {
							break
						}
						if chunk == 1 {
							for i := bnd - 17; i <= bnd+17; i++ {
								add(i)
							}
						} else {
							for i := (bnd-17)/chunk - 1; i <= (bnd+17)/chunk+1; i++ {
								add(i)
							}
						}
					}
					add(reads - 2)
					add(reads - 1)
					return idx
				}
				all := func(stride int) []int {
					idx := near()
					if stride == 0 {
						return idx
					}
					seen := map[int]bool{}
					for _, i := range idx {
						seen[i] = true
					}
					for i := 0; i < reads; i += stride {
						if !seen[i] {
							idx = append(idx, i)
						}
					}
					return idx
				}
				for _, en := range faultErrNames {
					var idx []int
					switch {
					case !large || chunk == 0:
						idx = all(1)
					case chunk == 1 && en == "" && r.Thorough() && n <= 65536:
						idx = all(1)
					case chunk == 1 && en == "" && r.Thorough():
						idx = all(16)
					case chunk == 1:
						idx = near()
					case r.Thorough():
						idx = all(1)
					default:
						idx = near()
					}
					sort.Ints(idx)
					faultCount += int64(2 * len(idx))
					const batch = 256
					for lo := 0; lo < len(idx); lo += batch {
						hi := lo + batch
						if hi > len(idx) {
							hi = len(idx)
						}
						cph, n, chunk, en, part := cph, n, chunk, en, idx[lo:hi]
						items = append(items, func() {
							for _, i := range part {
								if r.Expired() {
									r.Incomplete("source faults: a batch was cut by the budget")
									return
								}
								for _, dat := range []bool{false, true} {
									check(&Case{Cipher: cph, Len: n, Chunk: chunk, FailAt: i, FailDat: dat, FailErr: en}, b, b.doc)
								}
							}
						})
					}
				}
			}
		}
	}
	// long batches first
	for i, j := 0, len(items)-1; i < j; i, j = i+1, j-1 {
		items[i], items[j] = items[j], items[i]
	}
	runItems("source-faults", items, func() string {
		return fmt.Sprintf("source faults: %d faulty runs (Read indexes as stated in the rule x {error alone, data+error} x 7 error values) over 12 documents x {fill, 1-byte, header+k frames (k=-1..2)} chunking", faultCount)
	})
	r.Sample(&Case{Cipher: 1, Len: 65537, Chunk: 1, FailAt: 65750, FailDat: true})
	r.Sample(&Case{Cipher: 2, Len: 65536, Chunk: 179, FailAt: 1, FailErr: "wrapped-unexpected-eof"})

	// ---- Q: two-document sequences (sequence_test.go)
	{
		seqs := enumSequences()
		done := r.Parallel(len(seqs), func(i int) {
			v := runSeq(seqs[i])
			r.Count(1, 1)
			if v.class != "" {
				r.Violation(v.key, fmt.Sprintf("%s: %s\ncase: %s", v.class, v.msg, seqs[i].String()), seqs[i])
			}
		})
		if done == len(seqs) {
			r.Space(fmt.Sprintf("two-document sequences: %d ordered pairs (first Decrypt x second Decrypt) over the two- and three-segment documents, both ciphers; every pair and every reference run on nonce prefixes of its own", len(seqs)))
		} else {
			r.Incomplete(fmt.Sprintf("two-document sequences: %d of %d", done, len(seqs)))
		}
		r.Sample(seqs[len(seqs)/3])
		lap("sequences")
	}

	// ---- P: ordered pairs on the two-segment document
	// (run last: it is the largest family; quick takes truncations within +-2 of every
	// boundary plus the ends of the +-17 neighbourhood, thorough the whole +-17)
	pairRadius := 2
	if r.Thorough() {
		pairRadius = 17
	}
	var pairCount int64
	items = nil
	for cph := 1; cph <= 2; cph++ {
		b := getDoc(0, cph, 65537)
		for _, m1 := range pairAlphabet(b.doc, pairRadius) {
			cph, m1 := cph, m1
			items = append(items, func() {
				c1 := &Case{Cipher: cph, Len: 65537, Muts: []Mut{m1}, FailAt: -1}
				d1, orig, ok := mutate(c1)
				if !ok {
					return
				}
				var k int64
				for _, m2 := range pairAlphabet(d1, pairRadius) {
					if r.Expired() {
						r.Incomplete("pairs: a subtree was cut by the budget")
						return
					}
					d2, ok := apply(d1, m2, orig, nil)
					if !ok {
						continue
					}
					check(&Case{Cipher: cph, Len: 65537, Muts: []Mut{m1, m2}, FailAt: -1}, orig, d2)
					k++
				}
				cmu.Lock()
				pairCount += k
				cmu.Unlock()
			})
		}
	}
	nFirst := len(items)
	runItems("pairs", items, func() string {
		return fmt.Sprintf("compound: %d ordered pairs (%d first mutations, both ciphers; truncation radius %d) on the two-segment document", pairCount, nFirst, pairRadius)
	})
	r.Sample(&Case{Cipher: 1, Len: 65537, Muts: []Mut{{Op: "segswap", A: 0, B: 1}, {Op: "trunc", A: 65700, Where: "inside-segment"}}, FailAt: -1})

	r.Set("cases_leaving_the_bytes_unchanged", identical)
	r.Set("changed_documents_that_still_yield_the_whole_plaintext", intact)
	r.Set("changed_documents_that_still_yield_the_whole_plaintext_by_last_mutation", intactBy)
	r.Set("splices_valid_by_nonce_reuse_judged_against_the_reference", nonceReuse)
}
