package c02

import (
	"bytes"
	"crypto/rand"
	"errors"
	"fmt"
	"io"

	v1 "github.com/dapr/kit/schemes/enc/v1"

	"verif/checks/encenv"
	"verif/ref/encv1ref"
)

// The file key and the nonce prefix are what everything else rests on: a
// document sealed under a key an attacker can guess (the zeros a failed read
// leaves behind) or under a (key, prefix) pair used before opens the door to
// forged and spliced documents. Two sequential families:
//
//   - faults of the randomness source: crypto/rand.Reader is swapped for a
//     reader that fails at its k-th Read, returns short reads, or returns
//     (0, nil) once. Encrypt must return an error, or the key its wrap function
//     saw and the nonce prefix in the manifest must not be what a failed read
//     leaves behind;
//   - many consecutive Encrypts in one process: all keys and prefixes pairwise
//     distinct, none degenerate.

// RandFault describes a faulty randomness source.
type RandFault struct {
	Mode string `json:"mode"`          // "fail", "fail-with-data", "short", "zero-once"
	K    int    `json:"k"`             // Read index the fault applies to
	Max  int    `json:"max,omitempty"` // at most this many bytes per Read (0 = as many as asked for)
	Docs int    `json:"docs"`          // consecutive Encrypts under this reader
}

var errRand = errors.New("getrandom: injected failure")

type faultyRand struct {
	f     RandFault
	under io.Reader
	calls int
}

func (fr *faultyRand) Read(p []byte) (int, error) {
	idx := fr.calls
	fr.calls++
	n := len(p)
	if fr.f.Max > 0 && n > fr.f.Max {
		n = fr.f.Max
	}
	if idx == fr.f.K {
		switch fr.f.Mode {
		case "fail":
			return 0, errRand
		case "fail-with-data":
			n /= 2
			io.ReadFull(fr.under, p[:n])
			return n, errRand
		case "zero-once":
			return 0, nil
		}
	}
	return io.ReadFull(fr.under, p[:n])
}

func longestZeroRun(b []byte) int {
	best, cur := 0, 0
	for _, x := range b {
		if x == 0 {
			cur++
			if cur > best {
				best = cur
			}
		} else {
			cur = 0
		}
	}
	return best
}

// encryptOnce runs kit's Encrypt on a tiny plaintext and returns the document,
// the plaintext file key as the wrap function saw it, and the nonce prefix.
func encryptOnce(cipher int, p []byte) (doc, fileKey, np []byte, err error) {
	cp := []v1.Cipher{"", v1.CipherAESGCM, v1.CipherChaCha20Poly1305}[cipher]
	wrap := func(plain []byte, alg, name string, nonce []byte) ([]byte, []byte, error) {
		fileKey = append([]byte(nil), plain...)
		w, err := kw.KitWrap(plain, alg)
		return w, nil, err
	}
	stream, err := encenv.KitEncrypt(encenv.NewSource(p), v1.EncryptOptions{WrapKeyFn: wrap, Algorithm: v1.KeyAlgorithm(kw.Name), KeyName: keyName, Cipher: &cp})
	if err != nil {
		return nil, fileKey, nil, err
	}
	doc, err = (&encenv.Consumer{}).ReadAll(stream, len(p)+1024)
	if err != nil {
		return doc, fileKey, nil, err
	}
	h, herr := encv1ref.SplitHeader(doc)
	if herr != nil {
		return doc, fileKey, nil, herr
	}
	m, merr := encv1ref.ParseManifest(h.ManifestRaw)
	if merr != nil {
		return doc, fileKey, nil, merr
	}
	return doc, fileKey, m.NoncePrefix, nil
}

func enumRandFaults() []*Case {
	var fs []RandFault
	for k := 0; k <= 3; k++ {
		for _, max := range []int{0, 16} {
			fs = append(fs, RandFault{Mode: "fail", K: k, Max: max}, RandFault{Mode: "fail-with-data", K: k, Max: max})
		}
	}
	fs = append(fs, RandFault{Mode: "short", K: -1, Max: 1}, RandFault{Mode: "short", K: -1, Max: 38})
	for k := 0; k <= 2; k++ {
		fs = append(fs, RandFault{Mode: "zero-once", K: k}, RandFault{Mode: "zero-once", K: k, Max: 16})
	}
	var out []*Case
	for cph := 1; cph <= 2; cph++ {
		for _, f := range fs {
			f := f
			f.Docs = 4
			out = append(out, &Case{Cipher: cph, Len: 5, FailAt: -1, Rand: &f})
		}
	}
	return out
}

// runRandFault encrypts Docs documents in a row under the faulty reader.
func runRandFault(c *Case) (vs []verdict) {
	p := encenv.Pattern(c.Len, 0x31)
	fr := &faultyRand{f: *c.Rand, under: rand.Reader}
	encenv.WithRandReader(fr, func() {
		for i := 0; i < c.Rand.Docs; i++ {
			_, fk, np, err := encryptOnce(c.Cipher, p)
			if err != nil {
				continue // refused: fine
			}
			if z := longestZeroRun(fk); len(fk) != 32 || z >= 16 || longestZeroRun(np) == len(np) {
				vs = append(vs, verdict{class: "document-sealed-under-degenerate-key-after-CSPRNG-fault", key: "document-sealed-under-degenerate-key-after-CSPRNG-fault",
					msg: fmt.Sprintf("Encrypt no. %d under a randomness source that %s (Read %d) returned no error; the file key handed to the wrap function is %x (longest run of zero bytes %d), the nonce prefix %x", i+1, c.Rand.Mode, c.Rand.K, fk, z, np)})
			}
		}
	})
	return
}

// runManyDocs encrypts c.Many tiny documents one after the other.
func runManyDocs(c *Case) (vs []verdict) {
	const key = "file-key-or-nonce-prefix-degenerate-or-repeated"
	bad := func(f string, a ...any) {
		if len(vs) < 20 {
			vs = append(vs, verdict{class: key, key: key, msg: fmt.Sprintf(f, a...)})
		}
	}
	p := encenv.Pattern(c.Len, 0x32)
	keys, nps := map[string]int{}, map[string]int{}
	for i := 0; i < c.Many; i++ {
		doc, fk, np, err := encryptOnce(c.Cipher, p)
		if err != nil {
			bad("Encrypt no. %d of %d consecutive ones: %v", i+1, c.Many, err)
			continue
		}
		if j, ok := keys[string(fk)]; ok {
			bad("Encrypt no. %d and no. %d used the same file key %x", j+1, i+1, fk)
		}
		if j, ok := nps[string(np)]; ok {
			bad("Encrypt no. %d and no. %d used the same nonce prefix %x", j+1, i+1, np)
		}
		keys[string(fk)], nps[string(np)] = i, i
		if z := longestZeroRun(fk); len(fk) != 32 || z >= 12 {
			bad("Encrypt no. %d of %d consecutive ones: the file key handed to the wrap function is %x (run of %d zero bytes)", i+1, c.Many, fk, z)
		}
		if len(np) != 7 || longestZeroRun(np) == len(np) {
			bad("Encrypt no. %d of %d consecutive ones: nonce prefix %x", i+1, c.Many, np)
		}
		out, derr, _ := decryptWithKit(&Case{Cipher: c.Cipher, FailAt: -1}, doc, nil)
		if derr != nil || !bytes.Equal(out, p) {
			bad("Encrypt no. %d of %d consecutive ones does not decrypt: %v", i+1, c.Many, derr)
		}
	}
	return
}
